#!/bin/bash
# usage: tools/eval_seed.sh <dir-with-patch.diff-and-demo.py> <PROP> [tier] [notests]
# Confirms a seeded change in a scratch worktree of /repo (never in /repo itself):
#   demo passes without the patch, fails with it, repository tests pass with it,
# then runs ./check PROP against the patched tree (no evidence written) and prints a summary.
set -u
D=$(readlink -f "$1"); PROP=$2; TIER=${3:-quick}; NOTESTS=${4:-}
ID=$(basename "$D")
WT=/tmp/ev-$ID-$$
cd /verif
git -C /repo worktree add --detach "$WT" HEAD >/dev/null 2>&1 || { echo "worktree failed"; exit 2; }
trap 'git -C /repo worktree remove --force "$WT" >/dev/null 2>&1; rm -rf /verif/out/seed-$ID' EXIT
export PYTHONDONTWRITEBYTECODE=1 PYTHONHASHSEED=0
DEMO=$(ls "$D"/demo*.py 2>/dev/null | head -1)
run_demo() { (cd "$WT" && PYTHONPATH="$WT" timeout 600 /venv/bin/python -B "$DEMO" >/tmp/ev-$ID-demo.$1 2>&1; echo $?); }
base=$(run_demo base)
git -C "$WT" apply "$D/patch.diff" || { echo "PATCH DOES NOT APPLY"; exit 2; }
mut=$(run_demo mut)
echo "demo: without=$base with=$mut"
if [ -z "$NOTESTS" ]; then
  (cd "$WT" && PYTHONPATH="$WT" timeout 1800 /venv/bin/python -m pytest -q -p no:cacheprovider --timeout=900 --continue-on-collection-errors -x -q 2>&1 | tail -3)
fi
VERIF_REPO="$WT" VERIF_NO_EVIDENCE=1 VERIF_OUT=/verif/out/seed-$ID timeout 3600 ./check "$PROP" --tier "$TIER" > /tmp/ev-$ID-check.log 2>&1
rc=$?
echo "check rc=$rc"
grep -E '^(VIOLATION|  sig=|KNOWN-FINDING|MACHINERY)' /tmp/ev-$ID-check.log | sort | uniq -c | head -20
tail -1 /tmp/ev-$ID-check.log
