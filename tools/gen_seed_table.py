#!/venv/bin/python
"""Rewrite the table of DESIGN.md section 11 from tools/seeded.json (between the table header and the 'Lessons' paragraph)."""
import json, os, re
V = os.path.dirname(os.path.dirname(os.path.abspath(__file__)))
T = json.load(open(os.path.join(V, "tools", "seeded.json")))
def key(x):
    a, b = x.split("-")
    return (a, int(b))
rows = []
for k in sorted(T, key=key):
    v = T[k]
    if "breaks" not in v:
        continue
    c = lambda s, n: (s[:n] + "...") if len(s) > n else s
    rows.append(f"| {k} | {c(v['breaks'], 170)} | {c(v['needs'], 140)} | {v['detected']} | {c(v['detected_by'], 300)} |")
p = os.path.join(V, "DESIGN.md")
s = open(p).read()
head = "| id | clause broken | needs | detected | by (signature; what was added after a miss) |\n|---|---|---|---|---|\n"
i = s.index(head) + len(head)
j = s.index("\nLessons that changed the specifications")
s = s[:i] + "\n".join(rows) + "\n" + s[j:]
open(p, "w").write(s)
n = len(rows)
print(n, "rows;", sum(1 for k in T if T[k].get("detected") == "yes"), "yes;", sum(1 for k in T if T[k].get("detected", "").startswith("after")), "after strengthening;",
      sum(1 for k in T if T[k].get("detected") in ("PENDING",)), "pending")
