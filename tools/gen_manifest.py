#!/venv/bin/python
"""Regenerate MANIFEST.json from tools/checks.json (one entry per claimed property).
Every property of properties.jsonl without an entry is listed under not_applicable with the
reason given in tools/not_applicable.json (default: not built yet)."""
import json
import os

V = os.path.dirname(os.path.dirname(os.path.abspath(__file__)))
props = [json.loads(l)["id"] for l in open(os.path.join(V, "properties.jsonl"))]
checks = json.load(open(os.path.join(V, "tools", "checks.json")))
na_reasons = json.load(open(os.path.join(V, "tools", "not_applicable.json")))

out_checks = []
for pid in props:
    c = checks.get(pid)
    if not c:
        continue
    assert os.path.exists(os.path.join(V, "drivers")) and any(f.lower().startswith(pid.lower() + "_") for f in os.listdir(os.path.join(V, "drivers"))), pid
    out_checks.append({
        "property_id": pid,
        "quick_cmd": f"./check {pid} --tier quick",
        "thorough_cmd": f"./check {pid} --tier thorough",
        "evidence_file": f"/verif/evidence/{pid}.json",
        "replay_cmd_template": f"./check {pid} --replay {{path}}",
        "engine": "tlc",
        "level_claimed": {"category": c["category"], "text": c["text"], "design_ref": c.get("design_ref", f"DESIGN.md 5/{pid}")},
        "level_note": c["level_note"],
        "technique": c["technique"],
    })
na = [{"property_id": p, "reason": na_reasons.get(p, "check not built yet in this round (see DESIGN.md section 0 status)")} for p in props if p not in checks]
m = {
    "version": 1,
    "setup_cmd": "./check --setup",
    "hooks": {
        "guard": "BUMBLE_VERIF",
        "enable": "no source hooks: checks import bumble from /repo's working tree (VERIF_REPO overrides the path) and observe through public constructors, sinks, events and HCI taps",
        "baseline_off_cmd": "cd /repo && /venv/bin/python -m pytest -ra -q -p no:cacheprovider --timeout=900 --continue-on-collection-errors",
        "source_commits": [],
        "add_only": True,
    },
    "engines": [{
        "name": "tlc", "path": "/usr/local/bin/tlc", "serves_properties": [c["property_id"] for c in out_checks],
        "kind_free_text": "TLC 1.8 explicit-state model checker: model checking of specs/*, state-graph dumps and simulation for spec->code replay, batch trace validation (code->spec); drivers in /verif/drivers run the real code under a virtual-time asyncio loop",
    }],
    "checks": out_checks,
    "not_applicable": na,
    "notes": "See DESIGN.md. One TLA+ specification family under specs/, decided by TLC and bound to /repo by replay and trace validation. known_findings.json lists recorded defects and fix commits.",
}
with open(os.path.join(V, "MANIFEST.json"), "w") as f:
    json.dump(m, f, indent=1)
    f.write("\n")
print("checks:", [c["property_id"] for c in out_checks], "not_applicable:", [x["property_id"] for x in na])
