#!/bin/sh
# usage: apply_fix.sh proposed_fixes/CNN-k-slug   (without extension) ; applies to /repo and commits with the .msg
set -e
base="$1"
cd /repo
git apply --3way "$base.diff" 2>/dev/null || git apply "$base.diff"
git add -A bumble
git commit -q -F "$base.msg"
git log --oneline | head -1
