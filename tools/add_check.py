#!/venv/bin/python
"""usage: add_check.py CNN category   (reads text / level_note / technique from stdin as JSON)"""
import json, sys
pid, cat = sys.argv[1], sys.argv[2]
d = json.load(sys.stdin)
p = '/verif/tools/checks.json'
c = json.load(open(p))
c[pid] = {"category": cat, "text": d["text"], "level_note": d["level_note"], "technique": d["technique"], "design_ref": d.get("design_ref", f"DESIGN.md 5/{pid}; notes/{pid}.md")}
json.dump(c, open(p, 'w'), indent=1, sort_keys=True)
