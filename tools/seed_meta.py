#!/venv/bin/python
"""Write seeded/<id>/meta.json from the table below (kept here so it can be regenerated)."""
import json, os
V = os.path.dirname(os.path.dirname(os.path.abspath(__file__)))
ORIGIN = "independent sub-agent given only the property text and its own scratch worktree of /repo (nothing from /verif)"
CONF = "confirmed by the integrator in a scratch worktree: patch applies, the 940 repository tests pass with it, demo.py exits non-zero with it and 0 without"
T = json.load(open(os.path.join(V, "tools", "seeded.json")))
for sid, m in T.items():
    d = os.path.join(V, "seeded", sid)
    if not os.path.isdir(d):
        continue
    meta = {"property": sid.split("-")[0], "breaks": m["breaks"], "needs": m["needs"], "origin": ORIGIN,
            "confirmed": m.get("confirmed", CONF), "ran": m.get("ran", f"VERIF_REPO=<tree with patch> ./check {sid.split('-')[0]} --tier quick"),
            "detected": m["detected"], "detected_by": m["detected_by"]}
    json.dump(meta, open(os.path.join(d, "meta.json"), "w"), indent=1)
print(len(T), "entries")
