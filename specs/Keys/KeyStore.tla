--------------------------- MODULE KeyStore ---------------------------
(* C15.  bumble/keys.py JsonKeyStore: one JSON file {namespace: {peer: keys}} shared by
   several store objects, each bound to a namespace (or to the default namespace).

   File-system state: directory present, main file, ".tmp" sibling.  File contents are
   abstract databases; a file that is being written is "partial" (never a database).
   Every mutator (update / delete / delete_all) is one Begin action followed by the
   file-system steps of load() and save():
        Load, Mkdir, OpenTmp, WriteSome, WriteRest, Close, Rename
   The process may die (Crash) before or after any of them; Restart brings up a new
   process (all store objects are fresh); Reopen replaces one store object.

   `model` is the abstract map the property talks about: the result of applying, in
   order, the updates and deletions that completed (an interrupted one counts as applied
   iff its rename happened).  The code-level computation (ApplyCode: what is loaded,
   resolved, mutated and dumped as a whole database) is written separately from the
   abstract one (AbsAfter: one namespace's map changes) so that the invariants compare two
   different things.

   Freedom left to the implementation (DESIGN.md Appendix D): whether update() keeps the
   fields of an existing entry that the new PairingKeys does not set (Merge = TRUE, what
   the code does) or drops them (Merge = FALSE).  Both are model-checked; the driver
   probes which one the implementation follows and replays the matching graph.

   Deviation # "none" switches on one named departure from the design; each must make
   TLC report the property it breaks (sanity of the properties, used by the driver's
   negative runs, never by the replay).                                               *)
EXTENDS Naturals, FiniteSets, TLC

CONSTANTS NS,         \* named namespaces (strings), e.g. {"A", "B"}
          DefNs,      \* the name used for the default namespace ("__DEFAULT__"), a string not in NS
          Peers,      \* peer names (strings)
          Variants,   \* subset of 1..3: the PairingKeys values update() is called with
          Merge,      \* BOOLEAN, see above
          Deviation,  \* "none" or a named departure, see ApplyCode / OpenTmp / RenameEarly / EncKey / DecKey
          None        \* model value: "field not set" in the round-trip part

VARIABLES file,    \* [st : {"missing","ok","partial"}, c : Content]       the main file
          tmp,     \* the ".tmp" sibling: "missing", "empty" (just opened), "prefix", "all" (everything handed to
                   \* write(), not closed), "done" (closed: holds Content(cur, ldb)), "stale" (left by a dead process)
          dirOk,   \* the directory exists
          up,      \* a process is running
          cur,     \* the mutator in progress and its program counter (op = "idle": none)
          ldb,     \* the database load() returned to the mutator in progress
          model    \* abstract database: completed updates / deletions applied in order

vars == <<file, tmp, dirOk, up, cur, ldb, model>>

AllNS == NS \cup {DefNs}

-----------------------------------------------------------------------------
(* Entries.  A stored entry has two abstract field groups f and g (0 = not set, 1..2 = a
   value); h = 1 iff the peer has an entry at all (an entry with no field set exists and
   is returned by get() as an empty PairingKeys).                                       *)
NoEntry == [h |-> 0, f |-> 0, g |-> 0]
Entry   == [h : {0, 1}, f : 0..2, g : 0..2]
VariantDef(v) == CASE v = 1 -> [h |-> 1, f |-> 1, g |-> 0]
                   [] v = 2 -> [h |-> 1, f |-> 2, g |-> 1]
                   [] v = 3 -> [h |-> 1, f |-> 0, g |-> 2]
                   [] OTHER -> [h |-> 1, f |-> 0, g |-> 0]

Store(old, new) == IF Merge /\ old.h = 1
                   THEN [h |-> 1, f |-> IF new.f # 0 THEN new.f ELSE old.f,
                                  g |-> IF new.g # 0 THEN new.g ELSE old.g]
                   ELSE new

EmptyMap == [p \in Peers |-> NoEntry]
AbsentNs == [ex |-> FALSE, m |-> EmptyMap]
EmptyDb  == [n \in AllNS |-> AbsentNs]
Db       == [AllNS -> [ex : BOOLEAN, m : [Peers -> Entry]]]

Existing(db) == {n \in AllNS : db[n].ex}

(* The documented resolution rule: an exact match; else a default-namespace store adopts
   the only key set of the file; else the store's own name (created on first save).     *)
Resolve(s, db) == IF db[s].ex THEN s
                  ELSE IF s = DefNs /\ Cardinality(Existing(db)) = 1
                       THEN CHOOSE n \in Existing(db) : TRUE
                       ELSE s

View(s, db) == db[Resolve(s, db)].m            \* what get_all() of a store bound to s returns

NewMap(op, p, v, m) == CASE op = "update"     -> [m EXCEPT ![p] = Store(m[p], VariantDef(v))]
                         [] op = "delete"     -> [m EXCEPT ![p] = NoEntry]
                         [] op = "delete_all" -> EmptyMap
                         [] OTHER             -> m

Raises(c, db) == c.op = "delete" /\ View(c.s, db)[c.p].h = 0     \* delete of an absent entry

(* Abstract effect: the map of the resolved namespace changes, nothing else.            *)
AbsAfter(c, M) == IF Raises(c, M) THEN M
                  ELSE LET r == Resolve(c.s, M)
                       IN [M EXCEPT ![r] = [ex |-> TRUE, m |-> NewMap(c.op, c.p, c.v, M[r].m)]]

(* What the code computes from the database it loaded and then dumps as a whole.
   Content = [k : {"db","scalar"}, db]: "scalar" is a complete JSON document that is not
   a database (only reachable under a deviation).                                       *)
AdoptCase(s, db) == ~db[s].ex /\ s = DefNs /\ Cardinality(Existing(db)) = 1

ApplyCode(c, db) ==
    LET r   == Resolve(c.s, db)
        tgt == IF Deviation = "update_default" /\ c.op = "update" THEN DefNs ELSE r
        d1  == [db EXCEPT ![r] = [ex |-> TRUE, m |-> db[r].m]]          \* load() creates the key set
    IN  IF Deviation = "clear_db" /\ c.op = "delete_all" THEN EmptyDb
        ELSE [d1 EXCEPT ![tgt] = [ex |-> TRUE, m |-> NewMap(c.op, c.p, c.v, d1[tgt].m)]]

Content(c, db) == IF Deviation = "default_load_bug" /\ AdoptCase(c.s, db)
                  THEN [k |-> "scalar", db |-> EmptyDb]       \* save(<namespace name>)
                  ELSE [k |-> "db", db |-> ApplyCode(c, db)]

NoContent   == [k |-> "db", db |-> EmptyDb]
MissingFile == [st |-> "missing", c |-> NoContent]
FileDb      == IF file.st = "ok" /\ file.c.k = "db" THEN file.c.db ELSE EmptyDb   \* what load() reads

AnyPeer == CHOOSE p \in Peers : TRUE
IdleCur == [op |-> "idle", s |-> DefNs, p |-> AnyPeer, v |-> 0, pc |-> "idle"]
Idle    == cur.op = "idle"

-----------------------------------------------------------------------------
before == model                                                    \* abstract database before the mutator in progress
after  == IF Idle THEN model ELSE AbsAfter(cur, model)             \* ... and after it

Init == /\ file = MissingFile /\ tmp = "missing" /\ dirOk = FALSE /\ up = TRUE
        /\ cur = IdleCur /\ ldb = EmptyDb /\ model = EmptyDb

Begin(c) == /\ up /\ Idle
            /\ cur' = c
            /\ UNCHANGED <<file, tmp, dirOk, up, ldb, model>>

Update(s, p, v) == Begin([op |-> "update", s |-> s, p |-> p, v |-> v, pc |-> "begin"])
Delete(s, p)    == Begin([op |-> "delete", s |-> s, p |-> p, v |-> 0, pc |-> "begin"])
DeleteAll(s)    == Begin([op |-> "delete_all", s |-> s, p |-> AnyPeer, v |-> 0, pc |-> "begin"])

Finish == /\ cur' = IdleCur /\ ldb' = EmptyDb

Load == /\ up /\ cur.pc = "begin" /\ ~Raises(cur, FileDb)
        /\ ldb' = FileDb
        /\ cur' = [cur EXCEPT !.pc = "loaded"]
        /\ UNCHANGED <<file, tmp, dirOk, up, model>>

LoadRaise == /\ up /\ cur.pc = "begin" /\ Raises(cur, FileDb)      \* KeyError before anything is written
             /\ UNCHANGED <<file, tmp, dirOk, up, model>>
             /\ Finish

Mkdir == /\ up /\ cur.pc = "loaded" /\ ~dirOk
         /\ dirOk' = TRUE
         /\ UNCHANGED <<file, tmp, up, cur, ldb, model>>

OpenTmp == /\ up /\ cur.pc = "loaded" /\ dirOk
           /\ tmp' = "empty"                                       \* open(..., 'w') truncates whatever was left
           /\ file' = IF Deviation = "direct_write"                 \* opening the main file truncates it
                      THEN [st |-> "partial", c |-> Content(cur, ldb)] ELSE file
           /\ cur' = [cur EXCEPT !.pc = "opened"]
           /\ UNCHANGED <<dirOk, up, ldb, model>>

WriteSome == /\ up /\ cur.pc = "opened"
             /\ tmp' = "prefix"
             /\ cur' = [cur EXCEPT !.pc = "some"]
             /\ UNCHANGED <<file, dirOk, up, ldb, model>>

WriteRest == /\ up /\ cur.pc = "some"
             /\ tmp' = "all"
             /\ cur' = [cur EXCEPT !.pc = "all"]
             /\ UNCHANGED <<file, dirOk, up, ldb, model>>

Close == /\ up /\ cur.pc = "all" /\ Deviation # "rename_before_close"
         /\ tmp' = "done"
         /\ cur' = [cur EXCEPT !.pc = "closed"]
         /\ UNCHANGED <<file, dirOk, up, ldb, model>>

Rename == /\ up /\ cur.pc = "closed"
          /\ file' = [st |-> "ok", c |-> Content(cur, ldb)]
          /\ tmp' = "missing"
          /\ model' = after
          /\ UNCHANGED <<dirOk, up>>
          /\ Finish

RenameEarly == /\ up /\ cur.pc = "all" /\ Deviation = "rename_before_close"
               /\ file' = [st |-> "partial", c |-> Content(cur, ldb)]  \* buffered data not on disk yet
               /\ tmp' = "missing"
               /\ cur' = [cur EXCEPT !.pc = "early"]
               /\ UNCHANGED <<dirOk, up, ldb, model>>

CloseLate == /\ up /\ cur.pc = "early"
             /\ file' = [file EXCEPT !.st = "ok"]
             /\ model' = after
             /\ UNCHANGED <<tmp, dirOk, up>>
             /\ Finish

Crash == /\ up                                 \* the process dies; whatever is on disk stays
         /\ up' = FALSE
         /\ tmp' = IF tmp = "missing" THEN tmp ELSE "stale"        \* never read again
         /\ UNCHANGED <<file, dirOk, model>>
         /\ Finish

Restart == /\ ~up /\ up' = TRUE
           /\ UNCHANGED <<file, tmp, dirOk, cur, ldb, model>>

Reopen(s) == up /\ Idle /\ UNCHANGED vars      \* a fresh store object for s: no state of its own
Get(s, p) == up /\ Idle /\ UNCHANGED vars      \* returns View(s, FileDb)[p]; must equal View(s, model)[p]
GetAll(s) == up /\ Idle /\ UNCHANGED vars

Step == Load \/ LoadRaise \/ Mkdir \/ OpenTmp \/ WriteSome \/ WriteRest \/ Close \/ Rename
        \/ RenameEarly \/ CloseLate

Next == \/ \E s \in AllNS : \/ \E p \in Peers : (\E v \in Variants : Update(s, p, v)) \/ Delete(s, p) \/ Get(s, p)
                            \/ DeleteAll(s) \/ GetAll(s) \/ Reopen(s)
        \/ Step \/ Crash \/ Restart

Spec == Init /\ [][Next]_vars

-----------------------------------------------------------------------------
Contents == [k : {"db", "scalar"}, db : Db]
TypeOK == /\ file \in [st : {"missing", "ok", "partial"}, c : Contents]
          /\ tmp \in {"missing", "empty", "prefix", "all", "done", "stale"}
          /\ dirOk \in BOOLEAN /\ up \in BOOLEAN
          /\ cur.op \in {"idle", "update", "delete", "delete_all"}
          /\ cur.pc \in {"idle", "begin", "loaded", "opened", "some", "all", "closed", "early"}
          /\ ldb \in Db /\ model \in Db

(* CrashAtomic: in EVERY state (so also after a Crash from any program counter) the main file
   is absent (only while nothing was ever saved) or a complete database equal to the state
   before or after the mutator in progress; never partial, never some other document.     *)
CrashAtomic == /\ file.st \in {"missing", "ok"}
               /\ file.st = "missing" => model = EmptyDb
               /\ file.st = "ok" => file.c.k = "db" /\ file.c.db \in {before, after}

(* Refinement: what a store bound to any namespace reads from the file equals the abstract
   map, and the same key sets exist (the default store's resolution depends on them).     *)
Refinement == /\ \A s \in AllNS : View(s, FileDb) = View(s, model)
              /\ Existing(FileDb) = Existing(model)

(* Isolation (action property): a step of a mutator through a store bound to s changes no
   namespace other than the one s resolves to; steps outside a mutator change none.       *)
NsOf(f, n) == IF f.st = "ok" /\ f.c.k = "db" THEN f.c.db[n] ELSE AbsentNs
IsoStep == \A n \in AllNS : (Idle \/ n # Resolve(cur.s, FileDb)) => NsOf(file', n) = NsOf(file, n)
Isolation == [][IsoStep]_vars

(* Committed: the rename is the only step that changes the main file or the abstract map, and
   it publishes the complete new database.                                                *)
CommitStep == (file' # file \/ model' # model) => (cur.pc = "closed" /\ file'.st = "ok" /\ model' = after)
Committed == [][CommitStep]_vars

-----------------------------------------------------------------------------
(* RoundTrip: PairingKeys <-> JSON object.  Unset fields are omitted from the object and
   come back as None; a Key's `authenticated` defaults to FALSE when omitted.             *)
KeyRecs == [value : {"k1", "k2"}, authenticated : BOOLEAN, ediv : {None, 0, 7}, rand : {None, "r0", "r8"}]

EncKey(k) == LET dom == {"value"} \cup (IF Deviation = "drop_authenticated" THEN {} ELSE {"authenticated"})
                        \cup (IF k.ediv = None THEN {} ELSE {"ediv"})
                        \cup (IF k.rand = None THEN {} ELSE {"rand"})
             IN [x \in dom |-> k[x]]
DecKey(d) == [value |-> d["value"],
              authenticated |-> IF "authenticated" \in DOMAIN d THEN d["authenticated"] ELSE FALSE,
              ediv |-> IF Deviation = "ediv_from_rand"
                       THEN (IF "rand" \in DOMAIN d THEN d["rand"] ELSE None)
                       ELSE (IF "ediv" \in DOMAIN d THEN d["ediv"] ELSE None),
              rand |-> IF "rand" \in DOMAIN d THEN d["rand"] ELSE None]

KeySlots  == {"ltk", "ltk_central", "ltk_peripheral", "irk", "csrk", "link_key"}
PKFields  == KeySlots \cup {"address_type", "link_key_type"}
SlotVals  == {None, [value |-> "k1", authenticated |-> TRUE, ediv |-> 7, rand |-> "r8"],
                    [value |-> "k2", authenticated |-> FALSE, ediv |-> None, rand |-> None]}
PKSpace   == [address_type : {None, 0, 1, 2, 3}, ltk : SlotVals, ltk_central : SlotVals, ltk_peripheral : SlotVals,
              irk : SlotVals, csrk : SlotVals, link_key : SlotVals, link_key_type : {None, 0, 5}]

EncPK(pk) == LET dom == {x \in PKFields : pk[x] # None}
             IN [x \in dom |-> IF x \in KeySlots THEN EncKey(pk[x]) ELSE pk[x]]
DecPK(d)  == [x \in PKFields |-> IF x \in DOMAIN d THEN (IF x \in KeySlots THEN DecKey(d[x]) ELSE d[x]) ELSE None]

RoundTrip == /\ \A k \in KeyRecs : DecKey(EncKey(k)) = k
             /\ \A pk \in PKSpace : DecPK(EncPK(pk)) = pk

RtSpec == Init /\ [][FALSE]_vars               \* one state: RoundTrip is evaluated once
=============================================================================
