------------------------------- MODULE Match -------------------------------
(* C19 (a).  SDP service search pattern matching (Core spec Vol 3 Part B 2.7.2 / 4.5.1,
   bumble/sdp.py Server.match_services + ServiceAttribute.is_uuid_in_value):

       a service search pattern matches a service record iff EVERY UUID of the pattern
       is contained in some attribute value of the record, at any nesting depth.

   Data elements are modelled to a bounded nesting depth: a UUID leaf, another leaf
   (integers, strings, ... can never match), or a sequence of elements.  UUIDs are abstract
   identities (a 16-bit UUID and its 128-bit expansion are the same element of Uuids).

   The module is the definition used by SdpTrace.tla (Matches / MatchSet / Selected) and a
   small state machine that TLC checks: it picks every record table within the bounds and
   every pattern, and checks the laws that distinguish "all" from "any".                *)
EXTENDS Naturals, Sequences, FiniteSets

CONSTANTS RecUuids,   \* UUIDs that may occur in records
          PatUuids,   \* UUIDs that may occur in patterns (a superset: includes absent ones)
          Handles,    \* record handles
          Depth       \* nesting depth of data elements (0: leaves only)

Leaf == [k : {"uuid"}, u : RecUuids, items : {<<>>}] \cup {[k |-> "other", u |-> 0, items |-> <<>>]}

SeqsUpTo2(S) == {<<>>} \cup {<<a>> : a \in S} \cup {<<a, b>> : a \in S, b \in S}

RECURSIVE Elems(_)
Elems(d) == IF d = 0 THEN Leaf
            ELSE Elems(d - 1) \cup {[k |-> "seq", u |-> 0, items |-> s] : s \in SeqsUpTo2(Elems(d - 1))}

\* set formulation: the UUIDs contained in an element
RECURSIVE UuidsIn(_)
UuidsIn(e) == IF e.k = "uuid" THEN {e.u}
              ELSE IF e.k = "seq" THEN UNION {UuidsIn(e.items[i]) : i \in 1..Len(e.items)}
              ELSE {}

\* search formulation (what the code does): does u occur in e, recursing into sequences
RECURSIVE Occurs(_, _)
Occurs(u, e) == IF e.k = "uuid" THEN e.u = u
                ELSE IF e.k = "seq" THEN \E i \in 1..Len(e.items) : Occurs(u, e.items[i])
                ELSE FALSE

\* a record is a sequence of attribute values
UuidsOf(rec) == UNION {UuidsIn(rec[i]) : i \in 1..Len(rec)}

MatchesFlat(us, pat) == pat \subseteq us                 \* us = UuidsOf(record), pat = set of pattern UUIDs
Matches(rec, pat)    == MatchesFlat(UuidsOf(rec), pat)
MatchSet(recs, pat)  == {h \in DOMAIN recs : Matches(recs[h], pat)}

\* attribute selection: ids = sequence of <<lo, hi>> ranges (a single id is <<a, a>>)
Selected(attrs, ids) == {a \in attrs : \E i \in 1..Len(ids) : ids[i][1] <= a /\ a <= ids[i][2]}

-----------------------------------------------------------------------------
VARIABLES recs,  \* [Handles -> record]
          pat,   \* last pattern searched
          res    \* its result

vars == <<recs, pat, res>>

Records == {<<e>> : e \in Elems(Depth)} \cup {<<e, f>> : e \in Leaf, f \in Elems(Depth)}

Init == /\ recs \in [Handles -> Records]
        /\ pat = {} /\ res = Handles

Search(p) == /\ p # {}
             /\ pat' = p
             /\ res' = MatchSet(recs, p)
             /\ UNCHANGED recs

Next == \E p \in SUBSET PatUuids : Search(p)
Spec == Init /\ [][Next]_vars

-----------------------------------------------------------------------------
\* EVERY UUID of the pattern occurs (search formulation), not merely one of them
Inv_All == \A h \in Handles :
              h \in res <=> \A u \in pat : \E i \in 1..Len(recs[h]) : Occurs(u, recs[h][i])

\* a pattern naming a UUID that no record contains matches nothing
Inv_Absent == (pat \ UNION {UuidsOf(recs[h]) : h \in Handles}) # {} => res = {}

\* conjunction law: matching p \cup q = matching p and matching q (fails for "any")
Inv_Conj == \A p \in SUBSET pat : MatchSet(recs, pat) = MatchSet(recs, p) \cap MatchSet(recs, pat \ p) \/ p = {} \/ p = pat

\* a larger pattern never matches more
AntiMonotone == [][pat \subseteq pat' /\ pat # {} => res' \subseteq res]_vars
=============================================================================
