------------------------------ MODULE SdpTrace ------------------------------
(* Trace validation for C19 (a): a real bumble sdp.Server and 1..3 real sdp.Clients on
   different peers (real classic connections), transactions interleaved.  Events, in the
   global order in which they happened:

     records(uu, at)          the server's record table: per record the UUIDs it contains (flattened
                              by the harness's own walk over the nested data elements) and its
                              attribute ids
     connect(c, mtu)          client c's SDP channel is open; mtu = what the server may send to it
     disconnect(c)            client c (no transaction in progress) has closed its SDP channel
     query(c, kind, pat, h, ids, total)
                              client API called: kind "search" | "attr" | "sattr", pattern (UUID
                              identities), record, attribute id ranges; total = number of units
                              (handles for "search", bytes otherwise) the server delivered to c for
                              this transaction (filled in when the transaction is over): the
                              continuation discipline is judged against it, the CONTENT of the
                              answer at `result`
     rsp(c, kind, n, cont, plen, cap, own)
                              a response PDU arrived on client c's channel carrying n units,
                              continuation state present or not, PDU length, capacity of a
                              response of that kind for c's MTU (from the PDU layout), and whether
                              it answers the request c sent last (transaction id and kind)
     err(c)                   an error response arrived on c's channel
     result(c, outcome, res, ok)
                              the API call returned: res = [h, ids] per returned record /
                              attribute list (identified by content), ok = all values
                              byte-identical to the server's
     hang(c)                  the call never returned (loop quiescent)

   The expected handles and attribute ids are recomputed here from `records` with Match.tla;
   the continuation discipline is Continuation.tla with per-client server state.        *)
EXTENDS Continuation, Json, IOUtils, TLC, TLCExt

Traces == JsonDeserialize(IOEnv.TRACE_FILE)

M == INSTANCE Match WITH RecUuids <- {}, PatUuids <- {}, Handles <- {}, Depth <- 0,
                         recs <- <<>>, pat <- {}, res <- {}

VARIABLES tid, l, sub,
          recU, recA,   \* the record table
          q             \* [Clients -> the query of the transaction in progress]
tvars == <<vars, tid, l, sub, recU, recA, q>>

T  == Traces[tid]
Ev == T[l]

ToSet(s) == {s[i] : i \in 1..Len(s)}
NoQ == [kind |-> "none", pat |-> <<>>, h |-> 0, ids |-> <<>>]

RecIds == 1..Len(recU)
ExpHandles(qq) == {h \in RecIds : M!MatchesFlat(ToSet(recU[h]), ToSet(qq.pat))}
Sel(h, qq) == M!Selected(ToSet(recA[h]), qq.ids)
Expected(qq) ==
    CASE qq.kind = "search" -> {[h |-> h, ids |-> {}] : h \in ExpHandles(qq)}
      [] qq.kind = "attr"   -> IF qq.h \in RecIds THEN {[h |-> qq.h, ids |-> Sel(qq.h, qq)]} ELSE {}
      [] qq.kind = "sattr"  -> {[h |-> h, ids |-> Sel(h, qq)] : h \in {x \in ExpHandles(qq) : Sel(x, qq) # {}}}
      [] OTHER -> {}
Observed(r) == {[h |-> r[i].h, ids |-> ToSet(r[i].ids)] : i \in 1..Len(r)}
NoDups(r) == /\ Cardinality(Observed(r)) = Len(r)
             /\ \A i \in 1..Len(r) : Cardinality(ToSet(r[i].ids)) = Len(r[i].ids)

-----------------------------------------------------------------------------
Keep == UNCHANGED <<recU, recA, q>>

RecordsEv == /\ Ev.e = "records" /\ sub = 0
             /\ recU' = Ev.uu /\ recA' = Ev.at
             /\ UNCHANGED <<vars, q, sub>>

ConnectEv == /\ Ev.e = "connect" /\ sub = 0
             /\ Connect(Ev.c, Ev.mtu)
             /\ Keep /\ UNCHANGED sub

DisconnectEv == /\ Ev.e = "disconnect" /\ sub = 0
                /\ Disconnect(Ev.c)
                /\ Keep /\ UNCHANGED sub

QueryEv == /\ Ev.e = "query" /\ sub = 0
           /\ LET qq == [kind |-> Ev.kind, pat |-> Ev.pat, h |-> Ev.h, ids |-> Ev.ids] IN
              /\ q' = [q EXCEPT ![Ev.c] = qq]
           /\ NewRequest(Ev.c, Ev.total)
           /\ UNCHANGED <<recU, recA, sub>>

\* guards of a response, named for the verdict
G_solicited == req[Ev.c] # NoReq
G_kind      == q[Ev.c].kind = Ev.kind
G_fits      == Ev.plen <= cap[Ev.c] /\ Ev.n <= Ev.cap
G_own       == Ev.own
G_cont      == G_solicited =>
                  LET b0 == IF req[Ev.c].kind = "new" THEN req[Ev.c].total ELSE buf[Ev.c].total - buf[Ev.c].off
                  IN  Ev.n <= b0 /\ (Ev.cont <=> b0 - Ev.n > 0) /\ (b0 > 0 => Ev.n >= 1)

RspServe == /\ Ev.e = "rsp" /\ sub = 0
            /\ G_solicited /\ G_kind /\ G_fits /\ G_own
            /\ Serve(Ev.c, Ev.n, Ev.cap)
            /\ Head(rsp'[Ev.c]).cont = Ev.cont
            /\ sub' = 1 /\ Keep

RspRecv == /\ Ev.e = "rsp" /\ sub = 1
           /\ ClientRecv(Ev.c)
           /\ sub' = 0 /\ Keep

\* an error response: the only request of a well-behaved client that has none of the three answers
ErrEv == /\ Ev.e = "err" /\ sub = 0
         /\ req[Ev.c] # NoReq
         /\ q[Ev.c].kind = "attr" /\ q[Ev.c].h \notin RecIds
         /\ req' = [req EXCEPT ![Ev.c] = NoReq]
         /\ cl' = [cl EXCEPT ![Ev.c].st = "error"]
         /\ UNCHANGED <<cap, lastc, buf, rsp, sub>> /\ Keep

R_outcome == cl[Ev.c].st = "done" => Ev.outcome = "ok"
R_error   == cl[Ev.c].st = "error" => Ev.outcome # "ok"
R_records == (cl[Ev.c].st = "done" /\ Ev.outcome = "ok") => Observed(Ev.res) = Expected(q[Ev.c])
R_nodups  == (cl[Ev.c].st = "done" /\ Ev.outcome = "ok") => NoDups(Ev.res)
R_values  == (cl[Ev.c].st = "done" /\ Ev.outcome = "ok") => Ev.ok

ResultEv == /\ Ev.e = "result" /\ sub = 0
            /\ R_outcome /\ R_error /\ R_records /\ R_nodups /\ R_values
            /\ Collect(Ev.c)
            /\ UNCHANGED sub /\ Keep

\* RspServe must not advance l: the same event is consumed by RspRecv
TraceStep == \/ /\ l <= Len(T) /\ sub = 0
                /\ \/ RecordsEv \/ ConnectEv \/ DisconnectEv \/ QueryEv \/ ErrEv \/ ResultEv
                /\ l' = l + 1 /\ tid' = tid
             \/ /\ l <= Len(T) /\ RspServe /\ UNCHANGED <<l, tid>>
             \/ /\ l <= Len(T) /\ RspRecv /\ l' = l + 1 /\ tid' = tid

Done == /\ l = Len(T) + 1
        /\ PrintT(<<"ACCEPT", tid>>)
        /\ UNCHANGED tvars

Info ==
    IF Ev.e = "rsp" THEN
        [ev |-> "rsp", c |-> Ev.c, n |-> Ev.n, cont |-> Ev.cont, plen |-> Ev.plen, kind |-> Ev.kind,
         solicited |-> G_solicited, kind_ok |-> (G_solicited => G_kind), fits |-> G_fits,
         own |-> (G_solicited => G_own), cont_ok |-> G_cont, client |-> cl[Ev.c].st]
    ELSE IF Ev.e = "result" THEN
        [ev |-> "result", c |-> Ev.c, kind |-> q[Ev.c].kind, st |-> cl[Ev.c].st, outcome |-> Ev.outcome,
         outcome_ok |-> (R_outcome /\ R_error), records_ok |-> R_records, nodups |-> R_nodups, values_ok |-> R_values,
         missing |-> IF Ev.outcome = "ok" THEN Expected(q[Ev.c]) \ Observed(Ev.res) ELSE {},
         extra |-> IF Ev.outcome = "ok" THEN Observed(Ev.res) \ Expected(q[Ev.c]) ELSE {},
         npat |-> Len(q[Ev.c].pat)]
    ELSE IF Ev.e = "err" THEN [ev |-> "err", c |-> Ev.c, kind |-> q[Ev.c].kind, solicited |-> req[Ev.c] # NoReq]
    ELSE IF Ev.e = "query" THEN [ev |-> "query", c |-> Ev.c, client |-> cl[Ev.c].st]
    ELSE [ev |-> Ev.e, c |-> Ev.c]

Stuck == /\ l <= Len(T)
         /\ ~ENABLED TraceStep
         /\ PrintT(<<"REJECT", tid, l, Info, [x |-> 0]>>)
         /\ UNCHANGED tvars

TraceInit == /\ Init /\ tid \in 1..Len(Traces) /\ l = 1 /\ sub = 0
             /\ recU = <<>> /\ recA = <<>> /\ q = [c \in Clients |-> NoQ]
TraceNext == TraceStep \/ Done \/ Stuck
TraceSpec == TraceInit /\ [][TraceNext]_tvars
=============================================================================
