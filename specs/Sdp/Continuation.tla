---------------------------- MODULE Continuation ----------------------------
(* C19 (a).  SDP continuation: a server answers each client's request in responses of at
   most the per-response capacity of THAT client's channel, keeps the unsent remainder,
   and goes on when the client sends the continuation state back; the client accumulates
   until a response carries no continuation state, at most Watchdog responses
   (bumble/sdp.py Server.check_continuation / get_next_response_payload /
   on_sdp_service_*_request, Client.search_services / get_attributes / search_attributes).

   Data is abstract: the full answer to request r of client c is the interval [0, total)
   of "the bytes of answer <<c, r>>"; a response carries the chunk (key, from, n).  The
   client's accumulation is a prefix of its own answer iff every chunk it takes has its own
   key and starts where the previous one ended (otherwise `corrupt`).  Chunk sizes are free
   between 1 and the capacity (DESIGN Appendix D); a continuation state is present iff
   something remains.

   Shared = FALSE is the specification (one buffer per client).  Shared = TRUE describes a
   server with ONE buffer and ONE channel - the last one connected - for all clients; it
   is model-checked only by the binding self-test, to show that the invariants below tell the
   two apart.                                                                           *)
EXTENDS Naturals, Sequences, FiniteSets

CONSTANTS Clients,    \* e.g. {1, 2}
          Caps,       \* per-response capacities a client may connect with (model checking)
          MaxAns,     \* full answers have 0..MaxAns units
          Watchdog,   \* the client's continuation limit (responses per transaction)
          MaxReq,     \* transactions per client (model bound)
          Shared      \* FALSE: per-client server state (the specification)

VARIABLES cap,        \* [Clients -> Nat]   capacity of the client's channel; 0 = not connected
          lastc,      \* the client that connected last
          buf,        \* [slot -> remainder]   server: unsent remainder per client (slot 0 if Shared)
          req,        \* [Clients -> request in flight]
          rsp,        \* [Clients -> Seq of responses in flight to that client's channel]
          cl          \* [Clients -> client transaction state]

vars == <<cap, lastc, buf, req, rsp, cl>>

NoBuf == [key |-> <<0, 0>>, off |-> 0, total |-> 0, live |-> FALSE]
NoReq == [kind |-> "none", r |-> 0, total |-> 0]
IdleClient == [st |-> "idle", r |-> 0, total |-> 0, upto |-> 0, nrsp |-> 0, corrupt |-> FALSE]

Slots   == IF Shared THEN {0} ELSE Clients
Slot(c) == IF Shared THEN 0 ELSE c
Dest(c) == IF Shared THEN lastc ELSE c          \* the channel the answer to c's request is written to

Min2(a, b) == IF a <= b THEN a ELSE b

Init == /\ cap = [c \in Clients |-> 0] /\ lastc = 0
        /\ buf = [s \in Slots |-> NoBuf]
        /\ req = [c \in Clients |-> NoReq]
        /\ rsp = [c \in Clients |-> <<>>]
        /\ cl = [c \in Clients |-> IdleClient]

-----------------------------------------------------------------------------
Connect(c, k) ==
    /\ cap[c] = 0 /\ k > 0
    /\ cap' = [cap EXCEPT ![c] = k] /\ lastc' = c
    /\ UNCHANGED <<buf, req, rsp, cl>>

\* client c's SDP channel is closed while c has no transaction in progress: c's server-side state goes with it and
\* NOTHING of any other client changes (another client may be in the middle of a continued transaction)
Disconnect(c) ==
    /\ cap[c] > 0 /\ cl[c].st = "idle" /\ req[c] = NoReq
    /\ cap' = [cap EXCEPT ![c] = 0]
    /\ buf' = IF Shared THEN [s \in Slots |-> NoBuf] ELSE [buf EXCEPT ![c] = NoBuf]
    /\ rsp' = [rsp EXCEPT ![c] = <<>>]
    /\ UNCHANGED <<lastc, req, cl>>

\* the client API is called: a new transaction whose full answer has T units
NewRequest(c, T) ==
    /\ cap[c] > 0 /\ cl[c].st = "idle" /\ cl[c].r < MaxReq
    /\ cl' = [cl EXCEPT ![c] = [st |-> "wait", r |-> @.r + 1, total |-> T, upto |-> 0, nrsp |-> 0, corrupt |-> FALSE]]
    /\ req' = [req EXCEPT ![c] = [kind |-> "new", r |-> cl[c].r + 1, total |-> T]]
    /\ UNCHANGED <<cap, lastc, buf, rsp>>

\* the server handles c's request and writes a response carrying k units (lim = capacity)
Serve(c, k, lim) ==
    /\ req[c] # NoReq
    /\ LET b0  == IF req[c].kind = "new"
                  THEN [key |-> <<c, req[c].r>>, off |-> 0, total |-> req[c].total, live |-> TRUE]
                  ELSE buf[Slot(c)]
           rem == b0.total - b0.off
           more == rem - k > 0 IN
       /\ b0.live                                   \* a continuation of nothing is ServeError
       /\ k <= lim /\ k <= rem
       /\ (rem > 0 => k >= 1)
       /\ rsp' = [rsp EXCEPT ![Dest(c)] = Append(@, [key |-> b0.key, from |-> b0.off, n |-> k, cont |-> more, err |-> FALSE])]
       /\ buf' = [buf EXCEPT ![Slot(c)] = IF more THEN [b0 EXCEPT !.off = @ + k] ELSE NoBuf]
    /\ req' = [req EXCEPT ![c] = NoReq]
    /\ UNCHANGED <<cap, lastc, cl>>

\* an error response (invalid continuation state: nothing to continue)
ServeError(c) ==
    /\ req[c] # NoReq
    /\ req[c].kind = "cont" /\ ~buf[Slot(c)].live
    /\ rsp' = [rsp EXCEPT ![Dest(c)] = Append(@, [key |-> <<0, 0>>, from |-> 0, n |-> 0, cont |-> FALSE, err |-> TRUE])]
    /\ req' = [req EXCEPT ![c] = NoReq]
    /\ UNCHANGED <<cap, lastc, buf, cl>>

\* the client takes a response from its channel
ClientRecv(c) ==
    /\ rsp[c] # <<>>
    /\ rsp' = [rsp EXCEPT ![c] = Tail(@)]
    /\ LET p == Head(rsp[c]) k == cl[c] IN
       IF k.st # "wait"
       THEN UNCHANGED <<cl, req>>                   \* no pending request: dropped
       ELSE IF p.err
       THEN cl' = [cl EXCEPT ![c].st = "error"] /\ UNCHANGED req
       ELSE LET good == p.key = <<c, k.r>> /\ p.from = k.upto
                n1 == k.nrsp + 1
                k1 == [k EXCEPT !.upto = IF good THEN @ + p.n ELSE @,
                                !.corrupt = @ \/ ~good,
                                !.nrsp = n1] IN
            IF ~p.cont
            THEN cl' = [cl EXCEPT ![c] = [k1 EXCEPT !.st = "done"]] /\ UNCHANGED req
            ELSE IF n1 < Watchdog
            THEN /\ cl' = [cl EXCEPT ![c] = k1]
                 /\ req' = [req EXCEPT ![c] = [kind |-> "cont", r |-> k.r, total |-> 0]]
            ELSE cl' = [cl EXCEPT ![c] = [k1 EXCEPT !.st = "limit"]] /\ UNCHANGED req
    /\ UNCHANGED <<cap, lastc, buf>>

\* the API call returns
Collect(c) ==
    /\ cl[c].st \in {"done", "limit", "error"}
    /\ cl' = [cl EXCEPT ![c].st = "idle"]
    /\ UNCHANGED <<cap, lastc, buf, req, rsp>>

DoServe(c) == \E k \in 0..MaxAns : Serve(c, k, cap[Dest(c)])

Next == \E c \in Clients :
           \/ \E k \in Caps : Connect(c, k)
           \/ Disconnect(c)
           \/ \E T \in 0..MaxAns : NewRequest(c, T)
           \/ DoServe(c)
           \/ ServeError(c)
           \/ ClientRecv(c)
           \/ Collect(c)

Spec     == Init /\ [][Next]_vars
LiveSpec == Spec /\ \A c \in Clients : WF_vars(DoServe(c) \/ ServeError(c)) /\ WF_vars(ClientRecv(c)) /\ WF_vars(Collect(c))

-----------------------------------------------------------------------------
TypeOK == /\ \A c \in Clients : cl[c].st \in {"idle", "wait", "done", "limit", "error"}
          /\ \A c \in Clients : cl[c].upto \in 0..MaxAns /\ cl[c].nrsp \in 0..Watchdog

\* what a client has accumulated is a prefix of the full answer to ITS request
Inv_Prefix == \A c \in Clients : ~cl[c].corrupt /\ cl[c].upto <= cl[c].total

\* ... and equal to it when the transaction ends without hitting the client's limit
Inv_Complete == \A c \in Clients : cl[c].st = "done" => cl[c].upto = cl[c].total

\* the limit is only hit after Watchdog responses, with something really left
Inv_Limit == \A c \in Clients : cl[c].st = "limit" => cl[c].nrsp = Watchdog /\ cl[c].upto < cl[c].total

\* every response fits the channel it is written to
Inv_Fits == \A c \in Clients : \A i \in 1..Len(rsp[c]) : rsp[c][i].n <= cap[c]

\* a response only ever travels to a client that waits for it, one at a time
Inv_Solicited == \A c \in Clients : rsp[c] # <<>> => cl[c].st = "wait" /\ Len(rsp[c]) = 1 /\ req[c] = NoReq

\* a client that follows the protocol never sees an error response
Inv_NoError == \A c \in Clients : cl[c].st # "error"

\* every transaction ends
Live_Ends == \A c \in Clients : cl[c].st = "wait" ~> cl[c].st \in {"done", "limit"}
=============================================================================
