------------------------------- MODULE Smp -------------------------------
(* C13: LE pairing between an initiator "i" and a responder "r" over two FIFO channels.
   Crypto is symbolic: a confirm / DHKey check succeeds iff both sides fed it the same
   inputs (TK / passkey / view of the pairing request).  Keys are small naturals (0 = none).
   The association model is transcribed from Core Vol 3 Part H 2.3.5.1, Table 2.8
   (rows = responder, columns = initiator), NOT from bumble's Session.PAIRING_METHODS.
   Actions take what an observer can see (user answers, key identities, flags) as
   parameters: Next feeds them from the model's own choices, SmpTrace.tla from a trace.

   Histories of pairings: the two devices go through a sequence of LIVES (variable `life`).  A life
   is one pairing attempt on a connection whose central is "i", followed by reconnections that
   encrypt from the key stores (Rebond) and by the user deleting the bond on a device (Forget).
   NewLife starts the next attempt - same or swapped roles, any configuration - and carries ONLY the
   key stores over: a new pairing therefore runs while one or both devices still hold the keys of
   an earlier bond (or after one of them has lost them).  Every encryption start of every life
   (STK / SC LTK during pairing, LTK from the store on reconnection) must use one key: the key the
   peripheral's long-term-key provider returns is the key in the central's request.               *)
EXTENDS Naturals, Sequences, FiniteSets, TLC

CONSTANTS IoI, IoR,                 \* IO capabilities explored for initiator / responder
          ScS, MitmS, BondS, OobS,  \* sets of BOOLEAN explored per flag (each side independently)
          KdS,                      \* key-distribution masks explored (subsets of KDBITS), each side, each direction
          Rounds,                   \* passkey confirm rounds (20 in the protocol)
          RspAny,                   \* responder may answer any subset of the requested masks (TRUE) / the intersection (FALSE)
          Faults,                   \* explore user faults and tampering (TRUE) or cooperative users only (FALSE)
          Strays,                   \* a side that has failed may still emit one late PDU (TRUE); FALSE for the liveness run
          Lives,                    \* number of lives (pairing attempts) of the pair of devices explored (1 = a single pairing)
          Provider                  \* how the MODEL's long-term-key provider picks its answer: "session" (pairing in progress
                                    \* first, then the store) or "store" (store first: a deliberately wrong design, TLC must refute it)

S == {"i", "r"}
Other(s) == IF s = "i" THEN "r" ELSE "i"
KDBITS == {"ENC", "ID", "SIGN", "LINK"}
IOCAPS == {"DisplayOnly", "DisplayYesNo", "KeyboardOnly", "NoInputNoOutput", "KeyboardDisplay"}

(* ---------------- Core Vol 3 Part H Table 2.8 ---------------- *)
JWe == [m |-> "JW", i |-> "none", r |-> "none"]
NCe == [m |-> "NC", i |-> "none", r |-> "none"]
OOBe == [m |-> "OOB", i |-> "none", r |-> "none"]
PkInitDisplays == [m |-> "PK", i |-> "display", r |-> "input"]
PkRespDisplays == [m |-> "PK", i |-> "input", r |-> "display"]
PkBothInput    == [m |-> "PK", i |-> "input", r |-> "input"]

\* Table28(responder, initiator, sc)
Table28(rr, ii, sc) ==
  CASE rr = "NoInputNoOutput" \/ ii = "NoInputNoOutput" -> JWe
    [] rr = "DisplayOnly" /\ ii # "NoInputNoOutput" ->
         (CASE ii \in {"DisplayOnly", "DisplayYesNo"} -> JWe
            [] ii \in {"KeyboardOnly", "KeyboardDisplay"} -> PkRespDisplays)
    [] rr = "DisplayYesNo" /\ ii # "NoInputNoOutput" ->
         (CASE ii = "DisplayOnly" -> JWe
            [] ii = "DisplayYesNo" -> IF sc THEN NCe ELSE JWe
            [] ii = "KeyboardOnly" -> PkRespDisplays
            [] ii = "KeyboardDisplay" -> IF sc THEN NCe ELSE PkRespDisplays)
    [] rr = "KeyboardOnly" /\ ii # "NoInputNoOutput" ->
         (CASE ii \in {"DisplayOnly", "DisplayYesNo", "KeyboardDisplay"} -> PkInitDisplays
            [] ii = "KeyboardOnly" -> PkBothInput)
    [] rr = "KeyboardDisplay" /\ ii # "NoInputNoOutput" ->
         (CASE ii = "DisplayOnly" -> PkInitDisplays
            [] ii = "DisplayYesNo" -> IF sc THEN NCe ELSE PkInitDisplays
            [] ii = "KeyboardOnly" -> PkRespDisplays
            [] ii = "KeyboardDisplay" -> IF sc THEN NCe ELSE PkInitDisplays)

\* Tables 2.6 / 2.7: OOB first, then "no MITM on either side -> Just Works", else the IO table
Method(ci, cr) ==
  LET sc == ci.sc /\ cr.sc
      oob == IF sc THEN ci.oob \/ cr.oob ELSE ci.oob /\ cr.oob
  IN IF oob THEN OOBe
     ELSE IF ~(ci.mitm \/ cr.mitm) THEN JWe
     ELSE Table28(cr.io, ci.io, sc)
MitmProtected(m) == m \in {"PK", "NC", "OOB"}

CfgSet(ios) == [io : ios, sc : ScS, mitm : MitmS, bond : BondS, oob : OobS, ikd : KdS, rkd : KdS]

VARIABLES
  cfg,      \* side -> configuration
  ans,      \* side -> scripted user: [accept, pkin (0 none,1 right,2 wrong), cmp, cfm ("na","yes","no")]
  tamper,   \* the pairing request is altered in flight (views of preq differ)
  badround, \* passkey round in which differing passkeys differ
  ph,       \* side -> phase
  neg,      \* side -> [sc, bond, ikd, rkd] as negotiated in that side's view
  meth,     \* side -> [m, role] selected by that side
  pk,       \* side -> passkey known (0 none, 1, 2)
  rd,       \* side -> passkey round (0-based)
  peercfm,  \* side -> commitment received
  cmp,      \* side -> "none" / "yes"  (numeric comparison answered)
  cnf,      \* side -> "none" / "yes" (consent prompt answered)
  mustfail, \* side -> a check or the user said no: the only thing left is Pairing Failed
  res,      \* side -> "none" / "ok" / "fail"
  out,      \* side -> key-distribution messages still to send
  want,     \* side -> key-distribution messages still expected
  myltk, peerltk, \* side -> legacy LTK distributed / received (0 none)
  chan,     \* side -> FIFO of messages travelling TO that side
  lk,       \* link layer: [req, rep] keys of the pending encryption start, enc: side -> BOOLEAN
  enc,
  store,    \* side -> [has, authn, ltk, mine, peers, gen, bond, sure]: keys of the latest completed pairing of the device
            \*   now in role `side`; gen = life that wrote it, sure = FALSE when an unbonded pairing may or may not have
            \*   replaced an older bond.  The ONLY state that survives NewLife
  rb,       \* central side -> <<done, key central sends, key peripheral returns>>
  life      \* number of the current life

vars == <<cfg, ans, tamper, badround, ph, neg, meth, pk, rd, peercfm, cmp, cnf, mustfail, res, out, want,
          myltk, peerltk, chan, lk, enc, store, rb, life>>

(* ---------------- symbolic crypto ---------------- *)
Pv(s) == IF tamper /\ s = "r" THEN 1 ELSE 0              \* view of the pairing request / response
Secret(s) == IF meth[s].m = "PK" THEN pk[s] ELSE 0       \* TK (legacy) / passkey bit source (SC)
CfmValue(s) == IF neg[s].sc THEN <<Secret(s), 0>> ELSE <<Secret(s), Pv(s)>>   \* c1 covers preq/pres, f4 does not
DhkValue(s) == <<Secret(s), Pv(s)>>                                                  \* f6 covers the IO capability bytes
\* every life generates fresh keys: identities of life n are 20 * (n - 1) + 1 .. 20 * n
KOff == 20 * (life - 1)
STK(s) == KOff + 10 + Secret(s) + 3 * Pv(s)
SCLTK == KOff + 1
LegacyLtk(s) == KOff + (IF s = "i" THEN 2 ELSE 3)

KeyMsgs(kd, sc) ==
    (IF ~sc /\ "ENC" \in kd THEN <<"encinfo", "mid">> ELSE <<>>)
 \o (IF "ID" \in kd THEN <<"idinfo", "idaddr">> ELSE <<>>)
 \o (IF "SIGN" \in kd THEN <<"sign">> ELSE <<>>)

NoStore == [has |-> FALSE, authn |-> FALSE, ltk |-> 0, mine |-> 0, peers |-> 0, gen |-> 0, bond |-> FALSE, sure |-> TRUE]
Active(s) == res[s] = "none" /\ ~mustfail[s]
Send(to, m) == chan' = [chan EXCEPT ![to] = Append(@, m)]
Head1(s, t) == chan[s] # <<>> /\ Head(chan[s]).t = t
Pop(s) == chan' = [chan EXCEPT ![s] = Tail(@)]
PopSend(s, m) == chan' = [chan EXCEPT ![s] = Tail(@), ![Other(s)] = Append(@, m)]

\* only the answers the selected model can consume are varied
AnsFor(e, s) ==
  [accept : IF s = "r" /\ Faults THEN BOOLEAN ELSE {TRUE},
   pkin   : IF Faults /\ e.m = "PK" /\ e[s] = "input" THEN 0..2 ELSE {1},
   cmp    : IF Faults /\ e.m = "NC" THEN BOOLEAN ELSE {TRUE},
   cfm    : IF e.m = "JW" /\ Faults THEN {"na", "yes", "no"} ELSE {"na"}]

\* initial values of the session variables (everything but the key stores and the life counter)
Neg0(c) == [s \in S |-> [sc |-> c[s].sc, bond |-> c[s].bond, ikd |-> c[s].ikd, rkd |-> c[s].rkd]]
Meth0 == [s \in S |-> [m |-> "none", role |-> "none"]]
Lk0 == [req |-> 0, rep |-> 0, asked |-> FALSE, answered |-> FALSE]
Rb0 == [s \in S |-> <<FALSE, 0, 0>>]

InitRest ==
  /\ ph = [s \in S |-> "idle"]
  /\ neg = Neg0(cfg)
  /\ meth = Meth0
  /\ pk = [s \in S |-> 0]
  /\ rd = [s \in S |-> 0]
  /\ peercfm = [s \in S |-> <<0, 0>>]
  /\ cmp = [s \in S |-> "none"]
  /\ cnf = [s \in S |-> "none"]
  /\ mustfail = [s \in S |-> FALSE]
  /\ res = [s \in S |-> "none"]
  /\ out = [s \in S |-> <<>>]
  /\ want = [s \in S |-> <<>>]
  /\ myltk = [s \in S |-> 0]
  /\ peerltk = [s \in S |-> 0]
  /\ chan = [s \in S |-> <<>>]
  /\ lk = Lk0
  /\ enc = [s \in S |-> FALSE]
  /\ store = [s \in S |-> NoStore]
  /\ rb = Rb0
  /\ life = 1

AnsSet(c) == [i : AnsFor(Method(c["i"], c["r"]), "i"), r : AnsFor(Method(c["i"], c["r"]), "r")]
TamperSet == IF Faults THEN BOOLEAN ELSE {FALSE}
BadRoundOk(a, br) == (\A s \in S : a[s].pkin # 2) => br = 1

Init ==
  /\ cfg \in [i : CfgSet(IoI), r : CfgSet(IoR)]
  /\ ans \in AnsSet(cfg)
  /\ tamper \in TamperSet
  /\ badround \in 1..Rounds
  /\ BadRoundOk(ans, badround)
  /\ InitRest

(* ---------------- phase 1 ---------------- *)
Start ==
  /\ ph["i"] = "idle" /\ res["i"] = "none"
  /\ ph' = [ph EXCEPT !["i"] = "w_rsp"]
  /\ Send("r", [t |-> "req", c |-> cfg["i"]])
  /\ UNCHANGED <<cfg, ans, tamper, badround, neg, meth, pk, rd, peercfm, cmp, cnf, mustfail, res, out, want, myltk, peerltk, lk, enc, store, rb, life>>

\* what a side selects from its own configuration and the peer's PDU
Select(s, ci, cr) == LET e == Method(ci, cr) IN [m |-> e.m, role |-> e[s]]

RxReq ==
  /\ ph["r"] = "idle" /\ Active("r") /\ Head1("r", "req")
  /\ LET c == Head(chan["r"]).c IN
     /\ neg' = [neg EXCEPT !["r"] = [sc |-> cfg["r"].sc /\ c.sc, bond |-> cfg["r"].bond /\ c.bond,
                                      ikd |-> c.ikd, rkd |-> c.rkd]]
     /\ meth' = [meth EXCEPT !["r"] = Select("r", c, cfg["r"])]
  /\ ph' = [ph EXCEPT !["r"] = "accept"]
  /\ Pop("r")
  /\ UNCHANGED <<cfg, ans, tamper, badround, pk, rd, peercfm, cmp, cnf, mustfail, res, out, want, myltk, peerltk, lk, enc, store, rb, life>>

Accept(b) ==
  /\ ph["r"] = "accept" /\ Active("r")
  /\ IF b THEN ph' = [ph EXCEPT !["r"] = "s_rsp"] /\ UNCHANGED mustfail
          ELSE mustfail' = [mustfail EXCEPT !["r"] = TRUE] /\ UNCHANGED ph
  /\ UNCHANGED <<cfg, ans, tamper, badround, neg, meth, pk, rd, peercfm, cmp, cnf, res, out, want, myltk, peerltk, chan, lk, enc, store, rb, life>>

\* after the response the responder waits for: legacy -> confirm; SC -> public key
TxRsp(ik, rk) ==
  /\ ph["r"] = "s_rsp" /\ Active("r")
  /\ ik \subseteq neg["r"].ikd /\ rk \subseteq neg["r"].rkd
  /\ RspAny \/ (ik = neg["r"].ikd \cap cfg["r"].ikd /\ rk = neg["r"].rkd \cap cfg["r"].rkd)
  /\ neg' = [neg EXCEPT !["r"].ikd = ik, !["r"].rkd = rk]
  /\ ph' = [ph EXCEPT !["r"] = IF neg["r"].sc THEN "w_pub" ELSE "w_cfm"]
  /\ Send("i", [t |-> "rsp", c |-> cfg["r"], ikd |-> ik, rkd |-> rk])
  /\ UNCHANGED <<cfg, ans, tamper, badround, meth, pk, rd, peercfm, cmp, cnf, mustfail, res, out, want, myltk, peerltk, lk, enc, store, rb, life>>

RxRsp ==
  /\ ph["i"] = "w_rsp" /\ Active("i") /\ Head1("i", "rsp")
  /\ LET m == Head(chan["i"])
         sc == cfg["i"].sc /\ m.c.sc IN
     /\ neg' = [neg EXCEPT !["i"] = [sc |-> sc, bond |-> cfg["i"].bond /\ m.c.bond, ikd |-> m.ikd, rkd |-> m.rkd]]
     /\ meth' = [meth EXCEPT !["i"] = Select("i", cfg["i"], m.c)]
     /\ ph' = [ph EXCEPT !["i"] = IF sc THEN "s_pub" ELSE "s_cfm"]
  /\ Pop("i")
  /\ UNCHANGED <<cfg, ans, tamper, badround, pk, rd, peercfm, cmp, cnf, mustfail, res, out, want, myltk, peerltk, lk, enc, store, rb, life>>

(* ---------------- user interface ---------------- *)
Known(s) == meth[s].m # "none" /\ Active(s)
UiFrame == UNCHANGED <<cfg, ans, tamper, badround, ph, neg, meth, rd, peercfm, res, out, want, myltk, peerltk, chan, lk, enc, store, rb, life>>

AskDisplay(s) ==
  /\ Known(s) /\ meth[s].m = "PK" /\ meth[s].role = "display" /\ pk[s] = 0
  /\ pk' = [pk EXCEPT ![s] = 1]
  /\ UNCHANGED <<cmp, cnf, mustfail>> /\ UiFrame

AskInput(s, v) ==           \* v: 0 the user cancels, 1 the right passkey, 2 another passkey
  /\ Known(s) /\ meth[s].m = "PK" /\ meth[s].role = "input" /\ pk[s] = 0
  /\ IF v = 0 THEN mustfail' = [mustfail EXCEPT ![s] = TRUE] /\ UNCHANGED pk
              ELSE pk' = [pk EXCEPT ![s] = v] /\ UNCHANGED mustfail
  /\ UNCHANGED <<cmp, cnf>> /\ UiFrame

\* the six digits exist once both nonces are known
AskCompare(s, b) ==
  /\ Known(s) /\ meth[s].m = "NC" /\ cmp[s] = "none"
  /\ ph[s] \in (IF s = "i" THEN {"s_dhk"} ELSE {"s_rnd", "w_dhk", "s_dhk"})
  /\ IF b THEN cmp' = [cmp EXCEPT ![s] = "yes"] /\ UNCHANGED mustfail
          ELSE mustfail' = [mustfail EXCEPT ![s] = TRUE] /\ UNCHANGED cmp
  /\ UNCHANGED <<pk, cnf>> /\ UiFrame

\* a consent prompt is optional in every model; "no" must end the pairing.  It has to be answered before
\* that side makes its last phase 2 move (found by TLC: a "no" after the responder's last PDU lets the
\* initiator complete alone when there are no keys to distribute)
AskConfirm(s, b) ==
  /\ Known(s) /\ cnf[s] = "none" /\ ph[s] \notin {"w_enc", "keys"}
  /\ IF b THEN cnf' = [cnf EXCEPT ![s] = "yes"] /\ UNCHANGED mustfail
          ELSE mustfail' = [mustfail EXCEPT ![s] = TRUE] /\ UNCHANGED cnf
  /\ UNCHANGED <<pk, cmp>> /\ UiFrame

(* ---------------- phase 2 ---------------- *)
P2Frame == UNCHANGED <<cfg, ans, tamper, badround, neg, meth, pk, cmp, cnf, res, out, want, myltk, peerltk, lk, enc, store, rb, life>>

AfterPub(s) ==   \* next phase once both public keys are exchanged
  CASE meth[s].m \in {"JW", "NC"} -> IF s = "i" THEN "w_cfm" ELSE "s_cfm"
    [] meth[s].m = "PK"           -> IF s = "i" THEN "s_cfm" ELSE "w_cfm"
    [] OTHER                      -> IF s = "i" THEN "s_rnd" ELSE "w_rnd"

TxPub(s) ==
  /\ ph[s] = "s_pub" /\ Active(s)
  /\ ph' = [ph EXCEPT ![s] = IF s = "i" THEN "w_pub" ELSE AfterPub("r")]
  /\ Send(Other(s), [t |-> "pub"])
  /\ UNCHANGED <<rd, peercfm, mustfail>> /\ P2Frame

RxPub(s) ==
  /\ ph[s] = "w_pub" /\ Active(s) /\ Head1(s, "pub")
  /\ ph' = [ph EXCEPT ![s] = IF s = "i" THEN AfterPub("i") ELSE "s_pub"]
  /\ Pop(s)
  /\ UNCHANGED <<rd, peercfm, mustfail>> /\ P2Frame

TxCfm(s) ==
  /\ ph[s] = "s_cfm" /\ Active(s)
  /\ meth[s].m = "PK" => pk[s] # 0
  /\ ph' = [ph EXCEPT ![s] = IF s = "i" THEN "w_cfm" ELSE "w_rnd"]
  /\ Send(Other(s), [t |-> "cfm", v |-> CfmValue(s)])
  /\ UNCHANGED <<rd, peercfm, mustfail>> /\ P2Frame

RxCfm(s) ==
  /\ ph[s] = "w_cfm" /\ Active(s) /\ Head1(s, "cfm")
  /\ peercfm' = [peercfm EXCEPT ![s] = Head(chan[s]).v]
  /\ ph' = [ph EXCEPT ![s] = IF s = "i" THEN "s_rnd" ELSE "s_cfm"]
  /\ Pop(s)
  /\ UNCHANGED <<rd, mustfail>> /\ P2Frame

TxRnd(s) ==
  /\ ph[s] = "s_rnd" /\ Active(s)
  /\ LET last == ~(neg[s].sc /\ meth[s].m = "PK") \/ rd[s] + 1 >= Rounds IN
     IF s = "i" THEN ph' = [ph EXCEPT ![s] = "w_rnd"] /\ UNCHANGED rd
     ELSE IF ~neg[s].sc THEN ph' = [ph EXCEPT ![s] = "w_enc"] /\ UNCHANGED rd
     ELSE IF last THEN ph' = [ph EXCEPT ![s] = "w_dhk"] /\ UNCHANGED rd
     ELSE ph' = [ph EXCEPT ![s] = "w_cfm"] /\ rd' = [rd EXCEPT ![s] = @ + 1]
  /\ Send(Other(s), [t |-> "rnd"])
  /\ UNCHANGED <<peercfm, mustfail>> /\ P2Frame

\* the commitment opens iff it was made over what the receiver would have used itself;
\* with differing passkeys the difference shows in round `badround`
CfmOk(s) ==
  IF neg[s].sc /\ meth[s].m = "OOB" THEN TRUE       \* SC OOB has no confirm exchange; legacy OOB runs c1 with the OOB TK
  ELSE IF neg[s].sc /\ meth[s].m = "PK"
       THEN peercfm[s][1] = Secret(s) \/ rd[s] + 1 < badround
       ELSE peercfm[s] = CfmValue(s)

RxRnd(s) ==
  /\ ph[s] = "w_rnd" /\ Active(s) /\ Head1(s, "rnd")
  /\ Pop(s)
  /\ IF ~CfmOk(s)
     THEN mustfail' = [mustfail EXCEPT ![s] = TRUE] /\ UNCHANGED <<ph, rd>>
     ELSE /\ UNCHANGED mustfail
          /\ IF s = "r" THEN ph' = [ph EXCEPT ![s] = "s_rnd"] /\ UNCHANGED rd
             ELSE IF ~neg[s].sc THEN ph' = [ph EXCEPT ![s] = "s_enc"] /\ UNCHANGED rd
             ELSE IF meth[s].m = "PK" /\ rd[s] + 1 < Rounds
                  THEN ph' = [ph EXCEPT ![s] = "s_cfm"] /\ rd' = [rd EXCEPT ![s] = @ + 1]
                  ELSE ph' = [ph EXCEPT ![s] = "s_dhk"] /\ UNCHANGED rd
  /\ UNCHANGED peercfm /\ P2Frame

TxDhk(s) ==
  /\ ph[s] = "s_dhk" /\ Active(s)
  /\ meth[s].m = "NC" => cmp[s] = "yes"
  /\ ph' = [ph EXCEPT ![s] = IF s = "i" THEN "w_dhk" ELSE "w_enc"]
  /\ Send(Other(s), [t |-> "dhk", v |-> DhkValue(s)])
  /\ UNCHANGED <<rd, peercfm, mustfail>> /\ P2Frame

RxDhk(s) ==
  /\ ph[s] = "w_dhk" /\ Active(s) /\ Head1(s, "dhk")
  /\ Pop(s)
  /\ IF Head(chan[s]).v = DhkValue(s)
     THEN ph' = [ph EXCEPT ![s] = IF s = "i" THEN "s_enc" ELSE "s_dhk"] /\ UNCHANGED mustfail
     ELSE mustfail' = [mustfail EXCEPT ![s] = TRUE] /\ UNCHANGED ph
  /\ UNCHANGED <<rd, peercfm>> /\ P2Frame

(* ---------------- failure ---------------- *)
\* a side may also refuse when it asked for MITM protection and only Just Works is possible
MayRefuse(s) == /\ res[s] = "none" /\ cfg[s].mitm /\ meth[s].m = "JW"
                /\ ph[s] \in (IF s = "i" THEN {"s_cfm", "s_pub"} ELSE {"accept", "s_rsp"}) /\ rd[s] = 0

TxFail(s) ==
  /\ res[s] = "none" /\ (mustfail[s] \/ MayRefuse(s))
  /\ res' = [res EXCEPT ![s] = "fail"]
  /\ Send(Other(s), [t |-> "fail"])
  /\ UNCHANGED <<cfg, ans, tamper, badround, ph, neg, meth, pk, rd, peercfm, cmp, cnf, mustfail, out, want, myltk, peerltk, lk, enc, store, rb, life>>

RxFail(s) ==
  /\ res[s] = "none" /\ Head1(s, "fail")
  /\ res' = [res EXCEPT ![s] = "fail"]
  /\ Pop(s)
  /\ UNCHANGED <<cfg, ans, tamper, badround, ph, neg, meth, pk, rd, peercfm, cmp, cnf, mustfail, out, want, myltk, peerltk, lk, enc, store, rb, life>>

RxStale(s) ==      \* whatever reaches a side that has already failed is dropped
  /\ res[s] = "fail" /\ chan[s] # <<>>
  /\ Pop(s)
  /\ UNCHANGED <<cfg, ans, tamper, badround, ph, neg, meth, pk, rd, peercfm, cmp, cnf, mustfail, res, out, want, myltk, peerltk, lk, enc, store, rb, life>>

\* A side whose pairing has failed may still emit a PDU that was already on its way out (a prompt
\* answered late, a task that was waiting).  Its peer has failed as well by then (it either sent the
\* Pairing Failed or will find the sender's ahead of this PDU), so the PDU is dropped by RxStale.
TxStray(s, t) ==
  /\ res[s] = "fail"
  /\ \A j \in DOMAIN chan[Other(s)] : chan[Other(s)][j].t # "stray"
  /\ Send(Other(s), [t |-> "stray", was |-> t])
  /\ UNCHANGED <<cfg, ans, tamper, badround, ph, neg, meth, pk, rd, peercfm, cmp, cnf, mustfail, res, out, want, myltk, peerltk, lk, enc, store, rb, life>>

(* ---------------- encryption start (link layer asks the responder's host for the key) ---------------- *)
LkFrame == UNCHANGED <<cfg, ans, tamper, badround, neg, meth, pk, rd, peercfm, cmp, cnf, mustfail, res, myltk, peerltk, chan, store, rb, life>>
PairingKey(s) == IF neg[s].sc THEN SCLTK ELSE STK(s)

EncReq(k) ==
  /\ ph["i"] = "s_enc" /\ Active("i") /\ k # 0
  /\ ph' = [ph EXCEPT !["i"] = "w_enc"]
  /\ lk' = [lk EXCEPT !.req = k, !.asked = TRUE]
  /\ UNCHANGED <<out, want, enc>> /\ LkFrame

LtkReply(k) ==
  /\ lk.asked /\ ~lk.answered
  /\ lk' = [lk EXCEPT !.rep = k, !.answered = TRUE]
  /\ UNCHANGED <<ph, out, want, enc>> /\ LkFrame

\* the link is encrypted only if both ends hold the same key
EncOn(s) ==
  /\ lk.answered /\ lk.req = lk.rep /\ ~enc[s] /\ ph[s] = "w_enc" /\ res[s] = "none"
  /\ enc' = [enc EXCEPT ![s] = TRUE]
  /\ ph' = [ph EXCEPT ![s] = "keys"]
  /\ out' = [out EXCEPT ![s] = KeyMsgs(IF s = "i" THEN neg[s].ikd ELSE neg[s].rkd, neg[s].sc)]
  /\ want' = [want EXCEPT ![s] = KeyMsgs(IF s = "i" THEN neg[s].rkd ELSE neg[s].ikd, neg[s].sc)]
  /\ UNCHANGED lk /\ LkFrame

(* ---------------- phase 3 ---------------- *)
\* the responder distributes first; the initiator once it has everything it expects
TxKey(s, k) ==
  /\ ph[s] = "keys" /\ Active(s) /\ out[s] # <<>>
  /\ s = "i" => want[s] = <<>>
  /\ out' = [out EXCEPT ![s] = Tail(@)]
  /\ IF Head(out[s]) = "encinfo" THEN k # 0 /\ myltk' = [myltk EXCEPT ![s] = k] ELSE UNCHANGED myltk
  /\ Send(Other(s), [t |-> Head(out[s]), k |-> IF Head(out[s]) = "encinfo" THEN k ELSE 0])
  /\ UNCHANGED <<cfg, ans, tamper, badround, ph, neg, meth, pk, rd, peercfm, cmp, cnf, mustfail, res, want, peerltk, lk, enc, store, rb, life>>

RxKey(s) ==
  /\ ph[s] = "keys" /\ Active(s) /\ want[s] # <<>> /\ Head1(s, Head(want[s]))
  /\ want' = [want EXCEPT ![s] = Tail(@)]
  /\ IF Head(want[s]) = "encinfo" THEN peerltk' = [peerltk EXCEPT ![s] = Head(chan[s]).k] ELSE UNCHANGED peerltk
  /\ Pop(s)
  /\ UNCHANGED <<cfg, ans, tamper, badround, ph, neg, meth, pk, rd, peercfm, cmp, cnf, mustfail, res, out, myltk, lk, enc, store, rb, life>>

Complete(s, authn) ==
  /\ ph[s] = "keys" /\ Active(s) /\ out[s] = <<>> /\ want[s] = <<>>
  /\ res' = [res EXCEPT ![s] = "ok"]
  /\ store' = [store EXCEPT ![s] = [has |-> TRUE, authn |-> authn,
                                     ltk |-> IF neg[s].sc THEN lk.req ELSE 0, mine |-> myltk[s], peers |-> peerltk[s],
                                     gen |-> life, bond |-> neg[s].bond,
                                     \* whether an UNBONDED pairing replaces an older bond is left to the implementation
                                     sure |-> neg[s].bond \/ ~store[s].has]]
  /\ UNCHANGED <<cfg, ans, tamper, badround, ph, neg, meth, pk, rd, peercfm, cmp, cnf, mustfail, out, want, myltk, peerltk, chan, lk, enc, rb, life>>

(* ---------------- later connection, c is the central ---------------- *)
CentralKey(st) == IF st.ltk # 0 THEN st.ltk ELSE st.peers    \* the key the peer distributed
PeriphKey(st)  == IF st.ltk # 0 THEN st.ltk ELSE st.mine     \* the key this side distributed

Rebond(c, ck, pkk) ==
  /\ \A s \in S : res[s] = "ok"
  /\ ~rb[c][1]
  /\ rb' = [rb EXCEPT ![c] = <<TRUE, ck, pkk>>]
  /\ UNCHANGED <<cfg, ans, tamper, badround, ph, neg, meth, pk, rd, peercfm, cmp, cnf, mustfail, res, out, want, myltk, peerltk, chan, lk, enc, store, life>>

(* ---------------- histories: the bond is deleted on one device; the next life begins ---------------- *)
LifeOver == \A s \in S : res[s] # "none" /\ chan[s] = <<>>

\* the user removes the bond on the device that is in role s (environment action)
Forget(s) ==
  /\ LifeOver
  /\ store' = [store EXCEPT ![s] = NoStore]
  /\ UNCHANGED <<cfg, ans, tamper, badround, ph, neg, meth, pk, rd, peercfm, cmp, cnf, mustfail, res, out, want, myltk, peerltk, chan, lk, enc, rb, life>>

\* a new connection (sw: the device that was the responder is now the central / initiator) and a new pairing
\* attempt with configuration c, user scripts a: only the key stores survive
NewLife(sw, c, a, tm, br) ==
  /\ LifeOver
  /\ life' = life + 1
  /\ cfg' = c /\ ans' = a /\ tamper' = tm /\ badround' = br
  /\ store' = [s \in S |-> store[IF sw THEN Other(s) ELSE s]]
  /\ ph' = [s \in S |-> "idle"]
  /\ neg' = Neg0(c)
  /\ meth' = Meth0
  /\ pk' = [s \in S |-> 0]
  /\ rd' = [s \in S |-> 0]
  /\ peercfm' = [s \in S |-> <<0, 0>>]
  /\ cmp' = [s \in S |-> "none"]
  /\ cnf' = [s \in S |-> "none"]
  /\ mustfail' = [s \in S |-> FALSE]
  /\ res' = [s \in S |-> "none"]
  /\ out' = [s \in S |-> <<>>]
  /\ want' = [s \in S |-> <<>>]
  /\ myltk' = [s \in S |-> 0]
  /\ peerltk' = [s \in S |-> 0]
  /\ chan' = [s \in S |-> <<>>]
  /\ lk' = Lk0
  /\ enc' = [s \in S |-> FALSE]
  /\ rb' = Rb0

Terminal == /\ \A s \in S : res[s] # "none" /\ chan[s] = <<>>
            /\ (\A s \in S : res[s] = "ok") => \A s \in S : rb[s][1]
Finished == Terminal /\ UNCHANGED vars

Consent(s) == ans[s].cfm # "na" /\ AskConfirm(s, ans[s].cfm = "yes")
Stray(s) == Strays /\ TxStray(s, "cfm")

\* What the MODEL's peripheral host answers to the link layer's long-term-key request.  "session": the key of
\* the pairing in progress on this connection, otherwise the key in the store.  "store" looks in the store first
\* (right for every first pairing and every reconnection, wrong for a pairing over an earlier bond).
ProviderKey ==
  IF Provider = "store" /\ PeriphKey(store["r"]) # 0 THEN PeriphKey(store["r"])
  ELSE IF ph["r"] = "w_enc" \/ Provider = "store" THEN PairingKey("r")
  ELSE PeriphKey(store["r"])

Forgets(s) == Lives > 1 /\ store[s].has /\ Forget(s)
Relive ==
  /\ life < Lives
  /\ \E sw \in BOOLEAN, c \in [i : CfgSet(IoI), r : CfgSet(IoR)], tm \in TamperSet, br \in 1..Rounds :
       \E a \in AnsSet(c) : BadRoundOk(a, br) /\ NewLife(sw, c, a, tm, br)

Next ==
  \/ Start \/ RxReq \/ Accept(ans["r"].accept) \/ RxRsp
  \/ \E ik \in SUBSET KDBITS, rk \in SUBSET KDBITS : TxRsp(ik, rk)
  \/ \E s \in S :
       \/ AskDisplay(s) \/ AskInput(s, ans[s].pkin)
       \/ AskCompare(s, ans[s].cmp)
       \/ Consent(s)
       \/ TxPub(s) \/ RxPub(s) \/ TxCfm(s) \/ RxCfm(s) \/ TxRnd(s) \/ RxRnd(s) \/ TxDhk(s) \/ RxDhk(s)
       \/ TxFail(s) \/ RxFail(s) \/ RxStale(s) \/ Stray(s)
       \/ EncOn(s) \/ TxKey(s, LegacyLtk(s)) \/ RxKey(s)
       \/ Complete(s, MitmProtected(meth[s].m))
       \/ Rebond(s, CentralKey(store[s]), PeriphKey(store[Other(s)]))
       \/ Forgets(s)
  \/ EncReq(PairingKey("i")) \/ LtkReply(ProviderKey)
  \/ Relive
  \/ Finished

Spec == Init /\ [][Next]_vars /\ WF_vars(Next)

(* ---------------- properties ---------------- *)
E == Method(cfg["i"], cfg["r"])
Decided == \A s \in S : res[s] # "none"

TypeOK == /\ \A s \in S : res[s] \in {"none", "ok", "fail"} /\ pk[s] \in 0..2 /\ rd[s] \in 0..Rounds
          /\ \A s \in S : Len(chan[s]) <= 12

\* both complete under one shared key, or both fail
Agreement ==
  /\ Decided => res["i"] = res["r"]
  /\ \A s \in S : res[s] = "ok" => enc[s] /\ lk.req = lk.rep /\ lk.req # 0
  /\ (\A s \in S : res[s] = "ok") =>
        /\ neg["i"].sc = neg["r"].sc
        \* (session variables, not the stores: the user may delete a bond right after the pairing)
        /\ peerltk["i"] = myltk["r"] /\ peerltk["r"] = myltk["i"]
  \* EVERY encryption start of EVERY life: the key the responder's host supplies (whatever else it holds: keys of an
  \* earlier bond, a finished session) is the key the initiator started encryption with
  /\ lk.answered => lk.rep = lk.req

\* late PDUs of a failed side never reach a live session
StraysHarmless == \A s \in S : (chan[s] # <<>> /\ Head(chan[s]).t = "stray") => res[s] = "fail" \/ (\E j \in DOMAIN chan[s] : chan[s][j].t = "fail")

\* both select what the Core table prescribes, with complementary roles
Model ==
  \A s \in S : meth[s].m # "none" =>
     /\ meth[s].m = E.m /\ meth[s].role = E[s]
     /\ neg[s].sc = (cfg["i"].sc /\ cfg["r"].sc)
ModelRoles == E.m = "PK" => ~(E.i = "display" /\ E.r = "display")

\* stored keys are flagged authenticated only if a MITM-protected model was used
Fresh(s) == store[s].has /\ store[s].gen = life          \* the entry was written by the pairing of this life
Honest == \A s \in S : Fresh(s) /\ store[s].authn => MitmProtected(E.m)

\* a refusal, a wrong / missing passkey, a "no" or a tampered exchange never completes
BadInput == \/ ~ans["r"].accept \/ tamper
            \/ \E s \in S : (E.m = "PK" /\ E[s] = "input" /\ ans[s].pkin = 0)
            \/ (E.m = "PK" /\ E.i = "input" /\ E.r = "input" /\ ans["i"].pkin # ans["r"].pkin)
            \/ \E s \in S : (E.m = "PK" /\ E[s] = "input" /\ E[Other(s)] = "display" /\ ans[s].pkin = 2)
            \/ \E s \in S : E.m = "NC" /\ ~ans[s].cmp
NoKeysOnFailure ==
  /\ \A s \in S : res[s] = "fail" => ~Fresh(s)
  /\ BadInput => \A s \in S : res[s] # "ok" /\ ~Fresh(s)

\* on a later connection, in either role assignment, the central's key is the peripheral's
\* (both stores must hold the same bond: nothing is demanded after the user deleted it on one device, or while it is
\* unknown whether an unbonded pairing replaced an older bond)
Synced == /\ \A s \in S : store[s].has /\ store[s].sure
          /\ store["i"].gen = store["r"].gen
RebondOk ==
  \A c \in S : (rb[c][1] /\ Synced) =>
     /\ rb[c][2] # 0 => rb[c][2] = rb[c][3]
     /\ (store[c].bond /\ CentralKey(store[c]) # 0) => rb[c][2] # 0

\* cooperative users and an untampered link complete
Succeeds == (Decided /\ ~BadInput /\ ~(\E s \in S : cfg[s].mitm /\ E.m = "JW") /\ \A s \in S : ans[s].cfm # "no")
              => \A s \in S : res[s] = "ok"

NoHang == <>Terminal
=============================================================================
