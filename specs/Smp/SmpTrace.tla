----------------------------- MODULE SmpTrace -----------------------------
(* Trace validation for C13: a HISTORY of pairings between two real Devices - per life one
   pairing attempt, then reconnections in the same and in swapped roles that encrypt from the
   key stores, bonds deleted by the user, and the next life ("life" event: new connection,
   same or swapped roles, new configuration; only the key stores survive) - recorded at
   public boundaries; every logged event is one action of Smp.tla fed with what was observed
   (user answers, key identities, flags), and the properties of Smp.tla plus the
   observation-level clauses below must hold after it.  A step that is not a behaviour of
   the spec, or that breaks a property, is reported with the name of the failing clause.   *)
EXTENDS Smp, Json, IOUtils, TLCExt

Traces == JsonDeserialize(IOEnv.TRACE_FILE)

VARIABLES tid, l,
          kauth,   \* side -> some key of the 'pairing' event is flagged authenticated
          rep,     \* side -> outcome reported through the API ("none", "ok", "fail")
          fin,     \* what was measured at quiescence
          sid0     \* side -> identity of that device's key-store content when the life began (0 = empty)
tvars == <<vars, tid, l, kauth, rep, fin, sid0>>

T  == Traces[tid]
Ev == T[l]
SetOf(q) == {q[j] : j \in DOMAIN q}
ToCfg(c) == [io |-> c.io, sc |-> c.sc, mitm |-> c.mitm, bond |-> c.bond, oob |-> c.oob,
             ikd |-> SetOf(c.ikd), rkd |-> SetOf(c.rkd)]
NoFin == [done |-> FALSE, hang |-> FALSE, has |-> [s \in S |-> FALSE], sauth |-> [s \in S |-> FALSE],
          encd |-> [s \in S |-> FALSE], undisplayed |-> FALSE, sid |-> [s \in S |-> 0],
          now |-> [s \in S |-> 0]]     \* sid: store content identity at quiescence; now: after the user's deletions since
KEYT == {"encinfo", "mid", "idinfo", "idaddr", "sign"}

Tx == LET s == Ev.s IN
      IF res[s] = "fail" THEN TxStray(s, Ev.t) ELSE
      CASE Ev.t = "req"  -> s = "i" /\ Start
        [] Ev.t = "rsp"  -> s = "r" /\ TxRsp(SetOf(Ev.ik), SetOf(Ev.rk))
        [] Ev.t = "pub"  -> TxPub(s)
        [] Ev.t = "cfm"  -> TxCfm(s)
        [] Ev.t = "rnd"  -> TxRnd(s)
        [] Ev.t = "dhk"  -> TxDhk(s)
        [] Ev.t = "fail" -> TxFail(s)
        [] Ev.t \in KEYT -> out[s] # <<>> /\ Head(out[s]) = Ev.t /\ TxKey(s, Ev.k)
        [] OTHER -> FALSE

Rx == LET s == Ev.s IN
      /\ chan[s] # <<>>
      /\ IF Head(chan[s]).t = "stray" THEN Head(chan[s]).was = Ev.t ELSE Head(chan[s]).t = Ev.t
      /\ IF res[s] = "fail" THEN RxStale(s)
         ELSE CASE Ev.t = "req"  -> s = "r" /\ RxReq
                [] Ev.t = "rsp"  -> s = "i" /\ RxRsp
                [] Ev.t = "pub"  -> RxPub(s)
                [] Ev.t = "cfm"  -> RxCfm(s)
                [] Ev.t = "rnd"  -> RxRnd(s)
                [] Ev.t = "dhk"  -> RxDhk(s)
                [] Ev.t = "fail" -> RxFail(s)
                [] Ev.t \in KEYT -> RxKey(s)
                [] OTHER -> FALSE

\* a prompt that reaches the user after that side has failed changes nothing
Ui == LET s == Ev.s IN
      IF res[s] = "fail" THEN UNCHANGED vars ELSE
      CASE Ev.t = "accept"  -> s = "r" /\ Accept(Ev.b)
        [] Ev.t = "display" -> AskDisplay(s)
        [] Ev.t = "input"   -> AskInput(s, Ev.v)
        [] Ev.t = "compare" -> AskCompare(s, Ev.b)
        [] Ev.t = "confirm" -> AskConfirm(s, Ev.b)
        [] OTHER -> FALSE

\* pair() returned / raised, 'pairing' / 'pairing_failure' events
Report ==
  LET s == Ev.s IN
  CASE Ev.t = "ok" ->
         /\ IF res[s] = "none" THEN Complete(s, FALSE) ELSE res[s] = "ok" /\ UNCHANGED vars
         /\ rep' = [rep EXCEPT ![s] = "ok"] /\ UNCHANGED <<kauth, fin, sid0>>
    [] Ev.t = "keys" ->
         /\ IF res[s] = "none" THEN Complete(s, FALSE) ELSE res[s] = "ok" /\ UNCHANGED vars
         /\ (neg[s].sc /\ Ev.k # 0) => Ev.k = lk.req            \* the stored SC LTK is the key the link runs on
         /\ kauth' = [kauth EXCEPT ![s] = Ev.b]
         /\ rep' = [rep EXCEPT ![s] = "ok"] /\ UNCHANGED <<fin, sid0>>
    [] Ev.t = "fail" ->
         /\ res[s] = "fail" /\ rep[s] # "ok"
         /\ rep' = [rep EXCEPT ![s] = "fail"] /\ UNCHANGED <<vars, kauth, fin, sid0>>
    [] OTHER -> FALSE

Quiesce ==
  /\ ~fin.done
  /\ fin' = [done |-> TRUE, hang |-> Ev.hang, has |-> [s \in S |-> IF s = "i" THEN Ev.has_i ELSE Ev.has_r],
             sauth |-> [s \in S |-> IF s = "i" THEN Ev.sauth_i ELSE Ev.sauth_r],
             encd |-> [s \in S |-> IF s = "i" THEN Ev.enc_i ELSE Ev.enc_r], undisplayed |-> Ev.undisplayed,
             sid |-> [s \in S |-> IF s = "i" THEN Ev.sid_i ELSE Ev.sid_r],
             now |-> [s \in S |-> IF s = "i" THEN Ev.sid_i ELSE Ev.sid_r]]
  /\ UNCHANGED <<vars, kauth, rep, sid0>>

\* the user deletes the bond on the device in role Ev.s
ForgetEv ==
  /\ fin.done /\ Forget(Ev.s)
  /\ fin' = [fin EXCEPT !.now[Ev.s] = 0]
  /\ UNCHANGED <<kauth, rep, sid0>>

\* the next life: new connection (Ev.swap: the other device is the central now), new configuration and scripts
LifeEv ==
  /\ fin.done
  /\ NewLife(Ev.swap, [i |-> ToCfg(Ev.ci), r |-> ToCfg(Ev.cr)], [i |-> Ev.ai, r |-> Ev.ar], Ev.tamper, Ev.badround)
  /\ sid0' = [s \in S |-> fin.now[IF Ev.swap THEN Other(s) ELSE s]]
  /\ kauth' = [s \in S |-> FALSE]
  /\ rep' = [s \in S |-> "none"]
  /\ fin' = NoFin

Obs0 == UNCHANGED <<kauth, rep, fin, sid0>>
Act == \/ Ev.e = "tx" /\ Tx /\ Obs0
       \/ Ev.e = "rx" /\ Rx /\ Obs0
       \/ Ev.e = "ui" /\ Ui /\ Obs0
       \/ Ev.e = "encreq" /\ EncReq(Ev.k) /\ Obs0
       \/ Ev.e = "ltkreply" /\ LtkReply(Ev.k) /\ Obs0
       \/ Ev.e = "enc" /\ EncOn(Ev.s) /\ Obs0
       \/ Ev.e = "report" /\ Report
       \/ Ev.e = "quiesce" /\ Quiesce
       \/ Ev.e = "rebond" /\ fin.done /\ Rebond(Ev.s, Ev.k, Ev.k2) /\ Obs0
       \/ Ev.e = "forget" /\ ForgetEv
       \/ Ev.e = "life" /\ LifeEv

(* ---------------- observation-level clauses ---------------- *)
\* the responder "reports failure" also by never reporting success (DESIGN Appendix D)
Outcome(s) == IF s = "i" THEN rep[s] ELSE IF rep[s] = "ok" THEN "ok" ELSE "fail"

ObsNoHang == fin.done => /\ ~fin.hang /\ rep["i"] # "none"
                         /\ \A s \in S : res[s] # "none" /\ chan[s] = <<>>
ObsAgreement ==
  fin.done => /\ Outcome("i") = Outcome("r")
              /\ \A s \in S : rep[s] # "none" => rep[s] = res[s]
              /\ \A s \in S : res[s] = "ok" => /\ rep[s] = "ok" /\ fin.encd[s]
                                               /\ neg[s].bond => fin.has[s] /\ fin.sid[s] # 0
\* the side that generated the passkey also showed it
ObsModel == ~fin.undisplayed
\* (the stored flags are those of this life's pairing only if it completed and replaced what was there: a failed attempt
\* leaves an earlier bond alone, an unbonded one may)
Replaced(s) == res[s] = "ok" /\ (neg[s].bond \/ sid0[s] = 0)
ObsHonest == \A s \in S : (kauth[s] \/ (Replaced(s) /\ fin.sauth[s])) => MitmProtected(E.m)
\* a pairing that did not complete leaves the key store as it was when the life began (or empty)
ObsNoKeys == fin.done => \A s \in S : res[s] # "ok" => fin.sid[s] \in {0, sid0[s]}
\* the key the central sends is one of the long-term keys of the latest pairing
ObsRebond == \A c \in S : (rb[c][1] /\ rb[c][2] # 0 /\ Synced) =>
                rb[c][2] \in ({store[c].ltk, store[c].mine, store[c].peers} \ {0})

AllProps == /\ TypeOK /\ StraysHarmless /\ Agreement /\ ObsAgreement /\ Model /\ ObsModel /\ Honest /\ ObsHonest
            /\ NoKeysOnFailure /\ ObsNoKeys /\ RebondOk /\ ObsRebond /\ Succeeds /\ ObsNoHang

Step == /\ l <= Len(T)
        /\ Act
        /\ AllProps'
        /\ l' = l + 1 /\ tid' = tid

Done == /\ l = Len(T) + 1
        /\ PrintT(<<"ACCEPT", tid>>)
        /\ UNCHANGED tvars

StepIf(P) == l <= Len(T) /\ Act /\ P /\ l' = l + 1 /\ tid' = tid
Stuck == /\ l <= Len(T)
         /\ ~ENABLED Step
         /\ PrintT(<<"REJECT", tid, l, Ev,
              [act |-> ENABLED StepIf(TRUE),
               agreement |-> ENABLED StepIf(Agreement' /\ ObsAgreement'),
               model |-> ENABLED StepIf(Model' /\ ObsModel'),
               honest |-> ENABLED StepIf(Honest' /\ ObsHonest'),
               nokeys |-> ENABLED StepIf(NoKeysOnFailure' /\ ObsNoKeys'),
               rebond |-> ENABLED StepIf(RebondOk' /\ ObsRebond'),
               succeeds |-> ENABLED StepIf(Succeeds'),
               nohang |-> ENABLED StepIf(ObsNoHang'),
               life |-> life, sid0 |-> sid0, expect |-> E, ph |-> ph, meth |-> meth, res |-> res, rep |-> rep, mustfail |-> mustfail,
               pk |-> pk, rd |-> rd, cmp |-> cmp, cnf |-> cnf, lk |-> lk, enc |-> enc, out |-> out, want |-> want,
               heads |-> [s \in S |-> IF chan[s] = <<>> THEN "-" ELSE Head(chan[s]).t],
               store |-> store]>>)
         /\ UNCHANGED tvars

TraceInit ==
  /\ tid \in 1..Len(Traces) /\ l = 2
  /\ LET c == Traces[tid][1] IN
     /\ cfg = [i |-> ToCfg(c.ci), r |-> ToCfg(c.cr)]
     /\ ans = [i |-> c.ai, r |-> c.ar]
     /\ tamper = c.tamper
     /\ badround = c.badround
  /\ InitRest
  /\ kauth = [s \in S |-> FALSE]
  /\ rep = [s \in S |-> "none"]
  /\ fin = NoFin
  /\ sid0 = [s \in S |-> 0]
TraceNext == Step \/ Done \/ Stuck
TraceSpec == TraceInit /\ [][TraceNext]_tvars
=============================================================================
