SPECIFICATION Spec
CONSTANTS
  Deviations = {}
INVARIANT TypeOK
INVARIANT Gate
INVARIANT Agrees
INVARIANT Serves
CHECK_DEADLOCK FALSE
