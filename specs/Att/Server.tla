------------------------------- MODULE Server -------------------------------
(* C10.  An ATT server on one or more bearers (bumble/gatt_server.py Server.on_gatt_pdu and
   the handlers it dispatches to; bumble/device.py Device.on_gatt_pdu in front of it).

   Two layers.

   MONITOR (what a peer can observe on the bearer; it is the statement of the property):
     variables mtu, out, ind, mtuReq, may, err; actions MOpen, MClientPdu, MServerPdu, MMtuSet,
     MIndTimeout, MQuiesce.  The monitor is total: a server PDU that breaks a clause does not
     block, it adds the clause's name to `err`.  The property is  err = {}  (and OneInd).
     ServerTrace.tla replays recorded bearer traffic of the real server through these actions.

   DESIGN (how a correct server is organised; one action per step of the code):
     Recv = on_gatt_pdu dispatch, a handler per request that runs (possibly as a task) and
     ends in exactly one of HandlerOk / HandlerAttError / HandlerCrash / Unsupported,
     AppNotify / AppIndicate / IndSend under a one-slot semaphore per bearer.  TLC shows that
     this organisation satisfies the monitor for every opcode 0..255 and every interleaving.
     The ways in which the code under test is suspected or known to deviate are *named*
     actions, enabled only when their name is in the constant Deviations; with Deviations = {}
     they are dead, with one of them enabled TLC must report NoViolation / OneInd violated
     (used by the binding self-test).

   Free (not constrained): which error code, the content and the exact length of a response
   (only len <= MTU), whether a confirmation nobody waits for is ignored.                  *)
EXTENDS Naturals, FiniteSets, TLC

CONSTANTS Bearers,     \* bearer identifiers (1 = fixed channel CID 4, others = enhanced bearers)
          Mtus,        \* ATT_MTU values a bearer can take
          Ops,         \* opcodes the peer sends in this configuration (0..255 for the full table)
          Lens,        \* PDU lengths the response / notification builders may produce
          MaxSteps,    \* model bound on peer PDUs + application calls
          MaxInd,      \* model bound on indicate() calls waiting per bearer
          Deviations   \* names of deliberate deviations that are enabled (normally {})

None == 256            \* "no request outstanding" (opcodes are 0..255)
AllOps == 0..255       \* cfg files cannot hold expressions: Ops <- AllOps / RepOps, Mtus <- MtuRange
RepOps == {1, 2, 10, 14, 18, 29, 30, 58, 59, 82, 127, 158}
MtuRange == 23..517

(***************************************************************************)
(* Opcode classification (Core Vol 3 Part F 3.3, 3.4.8; DESIGN Appendix D) *)
(***************************************************************************)
CmdBit(op) == (op \div 64) % 2 = 1
SigBit(op) == op \div 128 = 1

KnownReq == {2, 4, 6, 8, 10, 12, 14, 16, 18, 22, 24, 32}
             \* MTU, FindInfo, FindByTypeValue, ReadByType, Read, ReadBlob, ReadMultiple,
             \* ReadByGroupType, Write, PrepareWrite, ExecuteWrite, ReadMultipleVariable
KnownCmd == {82, 210}                       \* Write Command 0x52, Signed Write Command 0xD2
Conf     == 30                              \* Handle Value Confirmation 0x1E
ErrRsp   == 1
MtuReqOp == 2
MtuRspOp == 3
Notifs   == {27, 35}                        \* Handle Value Notification, Multiple Handle Value Notification
IndOp    == 29
RspOf(q) == q + 1
Responses == {ErrRsp} \cup {RspOf(q) : q \in KnownReq}
ServerToClient == Responses \cup Notifs \cup {IndOp}

Class(op) == IF op \in KnownReq THEN "req"
             ELSE IF op \in KnownCmd THEN "cmd"
             ELSE IF op = Conf THEN "conf"
             ELSE IF op \in ServerToClient THEN "s2c"      \* PDUs of the server role arriving at a server: not its business
             ELSE IF CmdBit(op) THEN "unkcmd"
             ELSE "unkreq"

IsRequest(op) == Class(op) \in {"req", "unkreq"}

ASSUME /\ KnownReq \cup KnownCmd \cup {Conf} \cup ServerToClient \subseteq 0..255
       /\ KnownReq \cap ServerToClient = {} /\ KnownCmd \cap ServerToClient = {}
       /\ Conf \notin KnownReq \cup KnownCmd \cup ServerToClient
       /\ \A op \in KnownReq \cup {Conf} \cup ServerToClient : ~CmdBit(op)
       /\ \A op \in KnownCmd : CmdBit(op)
       /\ \A op \in 0..255 : Class(op) \in {"req", "cmd", "conf", "s2c", "unkcmd", "unkreq"}
       /\ \A op \in 0..255 : CmdBit(op) => Class(op) \in {"cmd", "unkcmd"}
       /\ Cardinality({op \in 0..255 : Class(op) = "unkcmd"}) = 126
       /\ Cardinality({op \in 0..255 : Class(op) = "unkreq"}) = 99

\* a server PDU r (with request-opcode-in-error field rie when r is an Error Response) answers request q
Matches(r, rie, q) == \/ (q \in KnownReq /\ r = RspOf(q))
                      \/ (r = ErrRsp /\ rie = q)

(***************************************************************************)
(* Monitor                                                                 *)
(***************************************************************************)
VARIABLES mtu,      \* [Bearers -> Mtus \cup {0}]  0 = bearer not open
          out,      \* [Bearers -> 0..255 \cup {None}]  request awaiting its response
          ind,      \* [Bearers -> Nat]  indications awaiting confirmation
          mtuReq,   \* [Bearers -> BOOLEAN]  Exchange MTU Response sent, new MTU takes effect next
          may,      \* [Bearers -> 0..255 \cup {None}]  server-role PDU just received (a response, notification or
                    \*   indication is not a request: like every other non-request it is owed nothing; the variable is
                    \*   kept so that a rejection can name the PDU that was answered)
          err       \* set of clause names violated so far
mvars == <<mtu, out, ind, mtuReq, may, err>>

\* clauses a server PDU violates in the current state
SrvErr(b, op, len, rie) ==
    (IF len > mtu[b] THEN {"exceeds-mtu"} ELSE {})
    \cup (IF op \in Responses
          THEN (IF out[b] = None
                THEN (IF may[b] # None /\ op = ErrRsp /\ rie = may[b] THEN {"reply-to-server-role-pdu"} ELSE {"unsolicited-response"})
                ELSE IF ~Matches(op, rie, out[b]) THEN {"wrong-response"} ELSE {})
          ELSE IF op = IndOp THEN (IF ind[b] >= 1 THEN {"second-indication"} ELSE {})
          ELSE IF op \in Notifs THEN {}
          ELSE {"not-a-server-pdu"})

QuiesceErr == IF \E b \in Bearers : out[b] # None THEN {"no-response"} ELSE {}

MOpen(b, n) == /\ mtu[b] = 0 /\ n \in Mtus
               /\ mtu' = [mtu EXCEPT ![b] = n]
               /\ UNCHANGED <<out, ind, mtuReq, may, err>>

\* the peer is a well-behaved ATT client as far as sequencing goes: one request at a time per bearer
MClientPdu(b, op) ==
    /\ mtu[b] # 0
    /\ IsRequest(op) => out[b] = None
    /\ out' = IF IsRequest(op) THEN [out EXCEPT ![b] = op] ELSE out
    /\ ind' = IF Class(op) = "conf" /\ ind[b] > 0 THEN [ind EXCEPT ![b] = @ - 1] ELSE ind
    /\ may' = [may EXCEPT ![b] = IF Class(op) = "s2c" THEN op ELSE None]
    /\ UNCHANGED <<mtu, mtuReq, err>>

MServerPdu(b, op, len, rie) ==
    /\ mtu[b] # 0
    /\ err' = err \cup SrvErr(b, op, len, rie)
    /\ out' = IF op \in Responses THEN [out EXCEPT ![b] = None] ELSE out
    /\ ind' = IF op = IndOp THEN [ind EXCEPT ![b] = @ + 1] ELSE ind
    /\ mtuReq' = IF op = MtuRspOp /\ out[b] = MtuReqOp THEN [mtuReq EXCEPT ![b] = TRUE] ELSE mtuReq
    /\ may' = IF op \in Responses THEN [may EXCEPT ![b] = None] ELSE may
    /\ UNCHANGED mtu

\* the MTU agreed by an Exchange MTU transaction applies to everything sent after the response
MMtuSet(b, n) == /\ mtuReq[b] /\ n \in Mtus
                 /\ mtu' = [mtu EXCEPT ![b] = n]
                 /\ mtuReq' = [mtuReq EXCEPT ![b] = FALSE]
                 /\ UNCHANGED <<out, ind, may, err>>

\* 30 s without confirmation: the indication transaction has failed, nothing is awaited any more
MIndTimeout(b) == /\ ind[b] > 0
                  /\ ind' = [ind EXCEPT ![b] = @ - 1]
                  /\ UNCHANGED <<mtu, out, mtuReq, may, err>>

\* nothing runnable and every protocol time-out has elapsed
MQuiesce == /\ err' = err \cup QuiesceErr
            /\ out' = [b \in Bearers |-> None]
            /\ may' = [b \in Bearers |-> None]
            /\ UNCHANGED <<mtu, ind, mtuReq>>

MInit == /\ mtu = [b \in Bearers |-> 0]
         /\ out = [b \in Bearers |-> None]
         /\ ind = [b \in Bearers |-> 0]
         /\ mtuReq = [b \in Bearers |-> FALSE]
         /\ may = [b \in Bearers |-> None]
         /\ err = {}

(***************************************************************************)
(* Design                                                                  *)
(***************************************************************************)
VARIABLES task,     \* [Bearers -> 0..255 \cup {None}]  request being handled (handler not finished)
          waiting,  \* [Bearers -> Nat]  indicate() calls waiting for the bearer's semaphore
          held,     \* [Bearers -> Nat]  indicate() calls holding it (sent, awaiting confirmation)
          steps
dvars == <<task, waiting, held, steps>>
vars == <<mvars, dvars>>

SemCap == IF "two-indications" \in Deviations THEN 2 ELSE 1

Init == /\ MInit
        /\ task = [b \in Bearers |-> None]
        /\ waiting = [b \in Bearers |-> 0]
        /\ held = [b \in Bearers |-> 0]
        /\ steps = 0

Open(b, n) == MOpen(b, n) /\ UNCHANGED dvars

\* Device.on_gatt_pdu / Server.on_gatt_pdu: classify and dispatch
Recv(b, op) ==
    /\ steps < MaxSteps /\ steps' = steps + 1
    /\ op \in Ops
    /\ MClientPdu(b, op)
    /\ task' = IF IsRequest(op) THEN [task EXCEPT ![b] = op] ELSE task
    /\ held' = IF Class(op) = "conf" /\ held[b] > 0 THEN [held EXCEPT ![b] = @ - 1] ELSE held
    /\ UNCHANGED waiting

Finish(b) == task' = [task EXCEPT ![b] = None] /\ UNCHANGED <<waiting, held, steps>>

\* the handler of a supported request builds its response within the bearer's MTU
HandlerOk(b) ==
    /\ task[b] \in KnownReq
    /\ \E len \in Lens : len <= mtu[b] /\ MServerPdu(b, RspOf(task[b]), len, 0)
    /\ Finish(b)

\* the handler (or anything it awaits) raises ATT_Error: Error Response naming the request
HandlerAttError(b) ==
    /\ task[b] \in KnownReq
    /\ MServerPdu(b, ErrRsp, 5, task[b])
    /\ Finish(b)

\* any other exception in the handler: Error Response (Unlikely Error) naming the request
HandlerCrash(b) ==
    /\ task[b] \in KnownReq
    /\ MServerPdu(b, ErrRsp, 5, task[b])
    /\ Finish(b)

\* a request this server has no handler for, defined or not: Request Not Supported
Unsupported(b) ==
    /\ task[b] # None /\ Class(task[b]) = "unkreq"
    /\ MServerPdu(b, ErrRsp, 5, task[b])
    /\ Finish(b)

\* DEVIATION (negative control, enabled only by Deviations): a server-role PDU arriving at a server is refused
\* like an unsupported request - a reply to something that is not a request
RefuseServerPdu(b) ==
    /\ "refuse_s2c" \in Deviations
    /\ may[b] # None /\ out[b] = None
    /\ MServerPdu(b, ErrRsp, 5, may[b])
    /\ UNCHANGED dvars

\* a malformed request cannot be parsed: Error Response (Invalid PDU) naming the opcode
Malformed(b) ==
    /\ task[b] # None
    /\ MServerPdu(b, ErrRsp, 5, task[b])
    /\ Finish(b)

MtuSet(b, n) == MMtuSet(b, n) /\ UNCHANGED dvars

AppNotify(b) ==
    /\ steps < MaxSteps /\ steps' = steps + 1
    /\ mtu[b] # 0
    /\ \E len \in Lens : len <= mtu[b] /\ MServerPdu(b, 27, len, 0)
    /\ UNCHANGED <<task, waiting, held>>

AppIndicate(b) ==
    /\ steps < MaxSteps /\ steps' = steps + 1
    /\ mtu[b] # 0 /\ waiting[b] < MaxInd
    /\ waiting' = [waiting EXCEPT ![b] = @ + 1]
    /\ UNCHANGED <<mvars, task, held>>

IndSend(b) ==
    /\ waiting[b] > 0 /\ held[b] < SemCap
    /\ \E len \in Lens : len <= mtu[b] /\ MServerPdu(b, IndOp, len, 0)
    /\ waiting' = [waiting EXCEPT ![b] = @ - 1]
    /\ held' = [held EXCEPT ![b] = @ + 1]
    /\ UNCHANGED <<task, steps>>

IndTimeout(b) ==
    /\ held[b] > 0
    /\ MIndTimeout(b)
    /\ held' = [held EXCEPT ![b] = @ - 1]
    /\ UNCHANGED <<task, waiting, steps>>

\* quiescence: no handler running, no indicate() call able to proceed
Quiesce ==
    /\ \A b \in Bearers : task[b] = None /\ (waiting[b] > 0 => held[b] >= SemCap)
    /\ MQuiesce
    /\ UNCHANGED dvars

(* ---- named deviations (dead unless listed in Deviations) ---- *)
\* the handler runs as a fire-and-forget task whose exceptions are only logged
DevLostInTask(b) ==
    /\ "lost-in-task" \in Deviations
    /\ task[b] \in KnownReq
    /\ UNCHANGED mvars /\ Finish(b)
\* requests without a handler and outside the table of defined requests are dropped
DevIgnoreUnknownRequest(b) ==
    /\ "ignore-unknown-request" \in Deviations
    /\ task[b] # None /\ Class(task[b]) = "unkreq"
    /\ UNCHANGED mvars /\ Finish(b)
\* a request that does not parse raises out of the receive path
DevDropMalformed(b) ==
    /\ "drop-malformed" \in Deviations
    /\ task[b] # None
    /\ UNCHANGED mvars /\ Finish(b)
\* a builder that appends before checking the space left
DevNoSizeCheck(b) ==
    /\ "no-size-check" \in Deviations
    /\ task[b] \in KnownReq
    /\ \E len \in Lens : len > mtu[b] /\ MServerPdu(b, RspOf(task[b]), len, 0)
    /\ Finish(b)
\* commands answered like requests
DevAnswerCommand(b, op) ==
    /\ "answer-commands" \in Deviations
    /\ op \in Ops /\ Class(op) \in {"cmd", "unkcmd"}
    /\ mtu[b] # 0
    /\ MServerPdu(b, ErrRsp, 5, op)
    /\ UNCHANGED dvars
\* the response names another opcode / is another response
DevWrongOpcode(b) ==
    /\ "wrong-opcode" \in Deviations
    /\ task[b] \in KnownReq
    /\ MServerPdu(b, ErrRsp, 5, 0)
    /\ Finish(b)
\* the handler answers and its caller answers again
DevDoubleResponse(b) ==
    /\ "double-response" \in Deviations
    /\ task[b] \in KnownReq
    /\ MServerPdu(b, RspOf(task[b]), 1, 0)
    /\ UNCHANGED dvars

Next == \E b \in Bearers :
           \/ \E n \in Mtus : Open(b, n) \/ MtuSet(b, n)
           \/ \E op \in Ops : Recv(b, op) \/ DevAnswerCommand(b, op)
           \/ HandlerOk(b) \/ HandlerAttError(b) \/ HandlerCrash(b) \/ Unsupported(b) \/ Malformed(b) \/ RefuseServerPdu(b)
           \/ AppNotify(b) \/ AppIndicate(b) \/ IndSend(b) \/ IndTimeout(b)
           \/ DevLostInTask(b) \/ DevIgnoreUnknownRequest(b) \/ DevDropMalformed(b) \/ DevNoSizeCheck(b)
           \/ DevWrongOpcode(b) \/ DevDoubleResponse(b)
        \/ Quiesce

Spec == Init /\ [][Next]_vars

(***************************************************************************)
(* Properties                                                              *)
(***************************************************************************)
TypeOK == /\ mtu \in [Bearers -> Mtus \cup {0}]
          /\ out \in [Bearers -> 0..255 \cup {None}]
          /\ ind \in [Bearers -> 0..(MaxInd + 2)]
          /\ mtuReq \in [Bearers -> BOOLEAN]
          /\ may \in [Bearers -> 0..255 \cup {None}]
          /\ task \in [Bearers -> 0..255 \cup {None}]
          /\ err \subseteq {"exceeds-mtu", "unsolicited-response", "wrong-response", "second-indication",
                            "not-a-server-pdu", "no-response"}

\* the property: every request answered exactly once by its response or an Error Response naming it,
\* nothing for commands / confirmations / unknown commands, every server PDU within the MTU
NoViolation == err = {}
\* at most one indication per bearer awaits confirmation
OneInd == \A b \in Bearers : ind[b] <= 1
\* a request is never forgotten: it is outstanding exactly as long as its handler has not finished
NeverForgotten == \A b \in Bearers : out[b] = task[b]
\* the monitor's view of pending indications is the semaphore's
IndLedger == \A b \in Bearers : ind[b] = held[b]
=============================================================================
