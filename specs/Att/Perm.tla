------------------------------- MODULE Perm -------------------------------
(* C11.  GATT attribute permissions gate every read and write path
   (bumble/att.py Attribute.read_value / write_value and the gatt_server.py handlers that call them).

   PROPERTY LAYER (written from the property, not from the code):
     Allowed(op, p, sec)  - may a peer at link security `sec` perform access path `op` on an attribute
                            with permission byte `p`;
     OutcomeOk(row, o)    - what a peer may observe when the access is NOT allowed: the value is not
                            disclosed, not modified, and - if the path has a response - the answer is an
                            ATT permission-class error (ranged reads may instead stop before the attribute
                            when an accessible neighbour precedes it; Find By Type Value simply does not
                            match).  PermTrace.tla judges one observed outcome per table row with it.

   DESIGN LAYER: Serve(row) = the outcomes a gate-keeping server produces on each of the nine access
     paths (single handle, handle list, handle range, value match, write with / without response), the
     target alone or next to an accessible neighbour of the same type placed before / after it.  TLC
     enumerates the whole decision table (256 permission bytes x 3 security levels x 9 paths x 3
     neighbour placements = 20 736 rows) and shows that every outcome of the design satisfies OutcomeOk and
     that the design's check agrees with Allowed.  Suspected deviations of the code are named and dead
     unless listed in Deviations.

   Free: which permission-class error code; whether an allowed access succeeds (C12's business);
   authorisation: there is no authorisation hook, "bit set => refused" is what Allowed says.
   "Readable / writable" follows the library's permission model, see CanRead / CanWrite.            *)
EXTENDS Naturals, FiniteSets, Sequences, TLC

CONSTANTS Deviations

Perms == 0..255
Secs  == {"plain", "enc", "authn"}          \* unencrypted; encrypted; encrypted and authenticated
ReadOps  == {"read", "read_blob", "read_by_type", "read_by_group", "read_multiple", "read_multiple_var",
             "find_by_type_value"}
WriteOps == {"write_req", "write_cmd"}
PathOps  == ReadOps \cup WriteOps
Nbs == {"alone", "before", "after"}         \* accessible neighbour of the same type: none / at a lower / at a higher handle

READABLE == 1    WRITEABLE == 2
R_ENC    == 4    W_ENC     == 8
R_AUTHN  == 16   W_AUTHN   == 32
R_AUTHZ  == 64   W_AUTHZ   == 128
Bit(p, k) == (p \div k) % 2 = 1

Rows == [op : PathOps, p : Perms, sec : Secs, nb : Nbs]

(* ---- property layer ---- *)
\* "Readable": the permission byte grants read access at all.  In this library's permission model (used by
\* every profile in bumble/profiles: permissions = READ_REQUIRES_ENCRYPTION alone means "readable on an
\* encrypted link", as Android's PERMISSION_READ_ENCRYPTED) a READ_REQUIRES_* flag grants read access subject to
\* that requirement, READABLE grants it without requirement; a byte with no read flag grants none.
CanRead(p)  == Bit(p, READABLE)  \/ Bit(p, R_ENC) \/ Bit(p, R_AUTHN) \/ Bit(p, R_AUTHZ)
CanWrite(p) == Bit(p, WRITEABLE) \/ Bit(p, W_ENC) \/ Bit(p, W_AUTHN) \/ Bit(p, W_AUTHZ)

Allowed(op, p, sec) ==
    IF op \in ReadOps
    THEN CanRead(p) /\ (Bit(p, R_ENC) => sec # "plain") /\ (Bit(p, R_AUTHN) => sec = "authn") /\ ~Bit(p, R_AUTHZ)
    ELSE CanWrite(p) /\ (Bit(p, W_ENC) => sec # "plain") /\ (Bit(p, W_AUTHN) => sec = "authn") /\ ~Bit(p, W_AUTHZ)

\* why an access is refused (first reason; used to name violations)
Why(op, p, sec) ==
    IF op \in ReadOps
    THEN (IF ~CanRead(p) THEN "not-readable" ELSE IF Bit(p, R_AUTHZ) THEN "needs-authorization"
          ELSE IF Bit(p, R_ENC) /\ sec = "plain" THEN "needs-encryption" ELSE IF Bit(p, R_AUTHN) /\ sec # "authn" THEN "needs-authentication" ELSE "allowed")
    ELSE (IF ~CanWrite(p) THEN "not-writeable" ELSE IF Bit(p, W_AUTHZ) THEN "needs-authorization"
          ELSE IF Bit(p, W_ENC) /\ sec = "plain" THEN "needs-encryption" ELSE IF Bit(p, W_AUTHN) /\ sec # "authn" THEN "needs-authentication" ELSE "allowed")

(* ---- property layer: the link's security level as the controller's HCI security events establish it ----
   `sec` above is a fact about the LINK, not about what the stack remembers.  When a link's security is produced by
   HCI events (no pairing, no key material visible to the host), the level it can have reached is bounded by what the
   events say.  On BR/EDR, Encryption Change with encryption_enabled = 1 is legacy E0 encryption: it says that the
   link is encrypted and nothing about authentication, so without an Authentication Complete before it the link is
   "enc", never "authn".  Encryption Change 2 (AES-CCM) and, on LE, Encryption Change 1 (the only "on" value LE
   reports) do not tell whether the key is authenticated, Authentication Complete does not tell whether the key is
   MITM protected: the property does not decide those, SecAfter takes the strongest level they could denote (Allowed
   is monotone in the level, so this is the most permissive judgement).  Encryption Change 0: the link is plain. *)
Transports == {"le", "bredr"}
LinkEvents == {"auth", "enc0", "enc1", "enc2"}       \* Authentication Complete (success); Encryption Change (success) 0 / 1 / 2
RECURSIVE LinkFold(_, _, _, _)
LinkFold(tr, evs, enc, authn) ==
    IF evs = <<>> THEN (IF ~enc THEN "plain" ELSE IF authn THEN "authn" ELSE "enc")
    ELSE LET e == Head(evs)
         IN  CASE e = "auth" -> LinkFold(tr, Tail(evs), enc, TRUE)
               [] e = "enc0" -> LinkFold(tr, Tail(evs), FALSE, authn)
               [] e = "enc1" -> LinkFold(tr, Tail(evs), TRUE, authn \/ tr = "le")
               [] e = "enc2" -> LinkFold(tr, Tail(evs), TRUE, TRUE)
SecAfter(tr, evs) == LinkFold(tr, evs, FALSE, FALSE)
ASSUME /\ SecAfter("bredr", <<"enc1">>) = "enc"                 \* E0 alone never authenticates
       /\ SecAfter("bredr", <<"auth", "enc1">>) = "authn"
       /\ SecAfter("bredr", <<"enc1", "auth">>) = "authn"
       /\ SecAfter("bredr", <<"enc1", "enc0">>) = "plain"
       /\ SecAfter("le", <<"enc1">>) = "authn"
       /\ SecAfter("bredr", <<>>) = "plain"
       \* an authentication requirement is never met on a BR/EDR link that only saw E0 come on
       /\ \A op \in PathOps, p \in Perms :
              Allowed(op, p, SecAfter("bredr", <<"enc1">>)) => ~Bit(p, IF op \in ReadOps THEN R_AUTHN ELSE W_AUTHN)

HasRsp(op)   == op # "write_cmd"
Ranged(op)   == op \in {"read_by_type", "read_by_group"}
Matching(op) == op = "find_by_type_value"
\* Read/Write Not Permitted, Insufficient Authentication / Authorization / Encryption Key Size / Encryption
PermErrors == {2, 3, 5, 8, 12, 15}

Outcomes == [disclosed : BOOLEAN, modified : BOOLEAN, rsp : {"rsp", "error", "none"}, code : 0..255]

RspOk(row, o) ==
    \/ o.rsp = "error" /\ (o.code \in PermErrors \/ Matching(row.op))
    \/ o.rsp = "rsp" /\ (Matching(row.op) \/ (Ranged(row.op) /\ row.nb = "before"))

OutcomeOk(row, o) ==
    ~Allowed(row.op, row.p, row.sec) =>
        /\ ~o.disclosed
        /\ ~o.modified
        /\ HasRsp(row.op) => RspOk(row, o)

\* which clause an outcome breaks (for verdicts)
Broken(row, o) ==
    IF Allowed(row.op, row.p, row.sec) THEN {}
    ELSE (IF o.disclosed THEN {"disclosed"} ELSE {})
         \cup (IF o.modified THEN {"modified"} ELSE {})
         \cup (IF HasRsp(row.op) /\ ~RspOk(row, o)
               THEN {IF o.rsp = "none" THEN "no-response" ELSE IF o.rsp = "error" THEN "wrong-error-class" ELSE "not-refused"}
               ELSE {})

(* ---- design layer ---- *)
ReadFail(p, sec) ==
    (IF ~CanRead(p) /\ "ignore-readable" \notin Deviations THEN {2} ELSE {})
    \cup (IF Bit(p, R_ENC) /\ sec = "plain" THEN {15} ELSE {})
    \cup (IF Bit(p, R_AUTHN) /\ sec # "authn" THEN {5} ELSE {})
    \cup (IF Bit(p, R_AUTHZ) THEN {8} ELSE {})
WriteFail(p, sec) ==
    (IF ~CanWrite(p) /\ "ignore-writeable" \notin Deviations THEN {3} ELSE {})
    \cup (IF Bit(p, W_ENC) /\ sec = "plain" THEN {15} ELSE {})
    \cup (IF Bit(p, W_AUTHN) /\ sec # "authn" THEN {5} ELSE {})
    \cup (IF Bit(p, W_AUTHZ) THEN {8} ELSE {})

Out(d, m, r, c) == [disclosed |-> d, modified |-> m, rsp |-> r, code |-> c]
Errors(codes) == {Out(FALSE, FALSE, "error", c) : c \in codes}

Serve(row) ==
    LET op == row.op
        rf == ReadFail(row.p, row.sec)
        wf == WriteFail(row.p, row.sec)
    IN  CASE op \in {"read", "read_blob"} ->
               IF rf = {} THEN {Out(TRUE, FALSE, "rsp", 0)} ELSE Errors(rf)
          [] op \in {"read_multiple", "read_multiple_var"} ->
               IF rf = {} \/ "list-no-check" \in Deviations THEN {Out(TRUE, FALSE, "rsp", 0)}
               ELSE IF "lost-error" \in Deviations THEN {Out(FALSE, FALSE, "none", 0)}
               ELSE Errors(rf)
          [] Ranged(op) ->
               IF rf = {} \/ "range-swallow" \in Deviations THEN {Out(TRUE, FALSE, "rsp", 0)}
               ELSE IF row.nb = "before" THEN {Out(FALSE, FALSE, "rsp", 0)} \cup Errors(rf)
               ELSE Errors(rf)
          [] Matching(op) ->
               IF rf = {} THEN {Out(TRUE, FALSE, "rsp", 0)}
               ELSE {Out(FALSE, FALSE, "error", 10)}             \* unreadable attributes do not match: Attribute Not Found
          [] op = "write_req" ->
               IF wf = {} THEN {Out(FALSE, TRUE, "rsp", 0)} ELSE Errors(wf)
          [] op = "write_cmd" ->
               IF wf = {} \/ "cmd-bypass" \in Deviations THEN {Out(FALSE, TRUE, "none", 0)}
               ELSE {Out(FALSE, FALSE, "none", 0)}

VARIABLES phase, row, outcome
vars == <<phase, row, outcome>>

NoRow == [op |-> "read", p |-> 0, sec |-> "plain", nb |-> "alone"]
NoOutcome == Out(FALSE, FALSE, "none", 0)

Init == phase = "idle" /\ row = NoRow /\ outcome = NoOutcome

SetRow(r) == /\ phase = "idle" /\ r \in Rows
             /\ row' = r /\ phase' = "row" /\ UNCHANGED outcome

\* the access as the design performs it
Access == /\ phase = "row"
          /\ outcome' \in Serve(row)
          /\ phase' = "done" /\ UNCHANGED row

\* the access as observed on an implementation (trace validation)
Observe(o) == /\ phase = "row" /\ o \in Outcomes
              /\ OutcomeOk(row, o)
              /\ outcome' = o /\ phase' = "done" /\ UNCHANGED row

Pick == phase = "idle" /\ \E r \in Rows : SetRow(r)      \* (guard first: Rows has 20 736 elements)
Next == Pick \/ Access
Spec == Init /\ [][Next]_vars

TypeOK == phase \in {"idle", "row", "done"} /\ row \in Rows /\ outcome \in Outcomes
\* the property on every row of the table
Gate == phase = "done" => OutcomeOk(row, outcome)
\* the design's checks are exactly the property's decision
Agrees == phase = "row" =>
            (Allowed(row.op, row.p, row.sec) <=> (IF row.op \in ReadOps THEN ReadFail(row.p, row.sec) ELSE WriteFail(row.p, row.sec)) = {})
\* an allowed access is served (keeps the table from being vacuously safe)
Serves == phase = "done" /\ Allowed(row.op, row.p, row.sec) =>
            (IF row.op \in ReadOps THEN outcome.disclosed ELSE outcome.modified)
=============================================================================
