\* two bearers, one representative opcode per class
SPECIFICATION Spec
CONSTANTS
  Bearers = {1, 2}
  Mtus = {23, 64}
  Ops <- RepOps
  Lens = {1, 5, 23, 24, 64, 65}
  MaxSteps = 3
  MaxInd = 1
  Deviations = {}
INVARIANT TypeOK
INVARIANT NoViolation
INVARIANT OneInd
INVARIANT NeverForgotten
INVARIANT IndLedger
CHECK_DEADLOCK FALSE
