\* full opcode table on one bearer (the driver generates the same with tier-dependent bounds: drivers/c10_attserver.py model_check)
SPECIFICATION Spec
CONSTANTS
  Bearers = {1}
  Mtus = {23, 64}
  Ops <- AllOps
  Lens = {1, 5, 23, 24, 64, 65}
  MaxSteps = 2
  MaxInd = 1
  Deviations = {}
INVARIANT TypeOK
INVARIANT NoViolation
INVARIANT OneInd
INVARIANT NeverForgotten
INVARIANT IndLedger
CHECK_DEADLOCK FALSE
