SPECIFICATION TraceSpec
CONSTANTS
  Deviations = {}
CHECK_DEADLOCK FALSE
