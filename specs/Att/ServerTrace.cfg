SPECIFICATION TraceSpec
CONSTANTS
  Bearers = {1, 2, 3}
  Mtus <- MtuRange
  Ops <- AllOps
  Lens = {1}
  MaxSteps = 0
  MaxInd = 0
  Deviations = {}
CHECK_DEADLOCK FALSE
