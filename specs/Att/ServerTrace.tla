--------------------------- MODULE ServerTrace ---------------------------
(* C10 trace validation (code -> spec).  A trace is what a raw ATT puppet client recorded on the
   bearers of one connection to the real server:
     open(b, n)               bearer b exists, ATT_MTU n
     req(b, op, len)          PDU sent by the puppet (any opcode 0..255)
     srv(b, op, len, rie)     server-role PDU received (rie = request-opcode-in-error of an Error Response)
     mtu(b, n)                MTU agreed by the Exchange MTU transaction just completed
     indto(b)                 30 s passed since an indication the puppet did not confirm
     quiesce                  virtual time ran past every protocol time-out, nothing more arrived
     class(op, cls)           (table cross-check) the puppet's classification of opcode op
   Every event is one monitor action of Server.tla; a step is accepted only if it adds no clause to
   `err` and keeps OneInd.  The design-layer variables are not used.                           *)
EXTENDS Server, Sequences, Json, IOUtils, TLCExt

Traces == JsonDeserialize(IOEnv.TRACE_FILE)

VARIABLES tid, l
tvars == <<vars, tid, l>>

T  == Traces[tid]
Ev == T[l]

Act == \/ Ev.e = "open"    /\ MOpen(Ev.b, Ev.n)
       \/ Ev.e = "req"     /\ MClientPdu(Ev.b, Ev.op)
       \/ Ev.e = "srv"     /\ MServerPdu(Ev.b, Ev.op, Ev.len, Ev.rie)
       \/ Ev.e = "mtu"     /\ MMtuSet(Ev.b, Ev.n)
       \/ Ev.e = "indto"   /\ MIndTimeout(Ev.b)
       \/ Ev.e = "quiesce" /\ MQuiesce
       \/ Ev.e = "class"   /\ Class(Ev.op) = Ev.cls /\ UNCHANGED mvars

Step == /\ l <= Len(T)
        /\ Act
        /\ err' = {}
        /\ \A b \in Bearers : ind'[b] <= 1
        /\ UNCHANGED dvars
        /\ l' = l + 1 /\ tid' = tid

Done == /\ l = Len(T) + 1
        /\ PrintT(<<"ACCEPT", tid>>)
        /\ UNCHANGED tvars

\* the clauses the offending event breaks (for the verdict; "guard" = the event was not even enabled)
Clauses == IF Ev.e = "srv" /\ Ev.b \in Bearers /\ mtu[Ev.b] # 0
              THEN SrvErr(Ev.b, Ev.op, Ev.len, Ev.rie)
           ELSE IF Ev.e = "quiesce" THEN QuiesceErr
           ELSE IF Ev.e = "class" THEN {"classification:" \o Class(Ev.op)}
           ELSE {"guard"}

Stuck == /\ l <= Len(T)
         /\ ~ENABLED Step
         /\ PrintT(<<"REJECT", tid, l, Ev, [clauses |-> Clauses, out |-> out, ind |-> ind, mtu |-> mtu]>>)
         /\ UNCHANGED tvars

TraceInit == Init /\ tid \in 1..Len(Traces) /\ l = 1
TraceNext == Step \/ Done \/ Stuck
TraceSpec == TraceInit /\ [][TraceNext]_tvars
=============================================================================
