--------------------------- MODULE PermTrace ---------------------------
(* C11 trace validation: one trace per implementation test = [row(op, p, sec, nb), outcome(...)].
   The row event fixes the table row, the outcome event must satisfy OutcomeOk for that row.
   A trace may start with link(tr, evs): the link's security was produced by delivering those HCI security events
   to the server's host on a connection of that transport; the row's security level is then SecAfter(tr, evs) of
   Perm.tla, whatever the harness or the stack believes.
   disclosed / modified travel as 0 / 1.                                                      *)
EXTENDS Perm, Sequences, Json, IOUtils, TLCExt

Traces == JsonDeserialize(IOEnv.TRACE_FILE)

VARIABLES tid, l
tvars == <<vars, tid, l>>

T  == Traces[tid]
Ev == T[l]

Linked == l > 1 /\ T[l - 1].e = "link"
RowOf(e) == [op |-> e.op, p |-> e.p, sec |-> IF Linked THEN SecAfter(T[l - 1].tr, T[l - 1].evs) ELSE e.sec, nb |-> e.nb]
OutOf(e) == [disclosed |-> e.disclosed = 1, modified |-> e.modified = 1, rsp |-> e.rsp, code |-> e.code]

Act == \/ Ev.e = "link"    /\ phase = "idle" /\ l = 1 /\ Ev.tr \in Transports
                           /\ \A i \in 1..Len(Ev.evs) : Ev.evs[i] \in LinkEvents
                           /\ UNCHANGED vars
       \/ Ev.e = "row"     /\ SetRow(RowOf(Ev))
       \/ Ev.e = "outcome" /\ Observe(OutOf(Ev))

Step == /\ l <= Len(T)
        /\ Act
        /\ l' = l + 1 /\ tid' = tid

Done == /\ l = Len(T) + 1
        /\ PrintT(<<"ACCEPT", tid>>)
        /\ UNCHANGED tvars

Stuck == /\ l <= Len(T)
         /\ ~ENABLED Step
         /\ PrintT(<<"REJECT", tid, l, Ev,
                     [clauses |-> IF Ev.e = "outcome" /\ phase = "row" /\ OutOf(Ev) \in Outcomes THEN Broken(row, OutOf(Ev)) ELSE {"guard"},
                      why |-> Why(row.op, row.p, row.sec), phase |-> phase]>>)
         /\ UNCHANGED tvars

TraceInit == Init /\ tid \in 1..Len(Traces) /\ l = 1
TraceNext == Step \/ Done \/ Stuck
TraceSpec == TraceInit /\ [][TraceNext]_tvars
=============================================================================
