-------------------------------- MODULE Slc --------------------------------
(* C20.  The Hands-Free Profile service level connection (HFP 1.8 section 4.2.1; bumble/hfp.py
   HfProtocol.initiate_slc / execute_command, AgProtocol._read_at and its _on_* handlers) as the
   sequence of AT lines on one RFCOMM data link, and the AT discipline underneath it: every command
   the audio gateway (AG) receives is concluded by exactly one final result code before the next.

   The configuration of both ends is fixed by Init (cfg): feature sets as sets of BIT POSITIONS of the
   AT+BRSF / +BRSF bit maps, the hands-free unit's (HF) HF-indicator and codec lists, the AG's
   indicator list with ranges and current values, its HF-indicator list and its call hold operations.
   Which commands the HF issues is a function of BOTH feature sets (Steps):
       BRSF ; BAC iff codec negotiation on both ; CIND=? ; CIND? ; CMER ; CHLD=? iff three-way calling
       on both ; BIND= , BIND=? , BIND? iff HF indicators on both.
   hfk / agk are what each end has been TOLD on the wire; at completion what each end HOLDS must be
   the negotiated values: the other end's true feature set, the same indicator lists, the HF's
   codecs, the AG's call hold operations, the same set of HF indicators with the enabled flags the
   AG reported.

   Actions = AT lines as they are written to the data link (the link is reliable and ordered: Dlc.tla):
       HfCmd(code, a)   a command of the HF; a = its arguments
       AgInfo(code, a)  an information response of the AG to the outstanding command
       AgFinal(code)    a final result code (DESIGN Appendix D: OK, ERROR, +CME ERROR, NO CARRIER, BUSY,
                        NO ANSWER, DELAYED, BLACKLISTED)
       Unsol            any other result code while no command is outstanding: not a final, not checked
   mode "slc": the command order and the contents are checked; mode "at": only the discipline (a puppet
   HF sends arbitrary commands to a real AG).  A probe (mode "at") is a command that must be answered
   with one information response and OK: the AG still works.                                    *)
EXTENDS Naturals, Sequences, FiniteSets

CONSTANTS HfBits, AgBits,           \* feature bit positions; Init explores ALL subsets of each
          Rich                      \* TRUE: the larger family of indicator / codec / call hold lists

\* the lists explored by Init (model choices; the real lists are carried by each trace)
HfIndSeqs   == IF Rich THEN {<<>>, <<1>>, <<2, 1>>} ELSE {<<>>, <<2, 1>>}
HfCodecSeqs == IF Rich THEN {<<>>, <<2, 1, 3>>} ELSE {<<>>, <<1, 2>>}
AgIndSeqs   == IF Rich
               THEN {<<[name |-> "call", sup |-> "0,1", val |-> 0]>>,
                     <<[name |-> "call", sup |-> "0,1", val |-> 1], [name |-> "callsetup", sup |-> "0,1,2,3", val |-> 2],
                       [name |-> "battchg", sup |-> "0,2,5", val |-> 5]>>}
               ELSE {<<[name |-> "service", sup |-> "0,1", val |-> 1], [name |-> "call", sup |-> "0,1", val |-> 0]>>}
AgHfIndSeqs == IF Rich THEN {<<1>>, <<2>>, <<2, 1>>} ELSE {<<1>>, <<1, 2>>}
AgHoldSeqs  == IF Rich THEN {<<"1">>, <<"0", "1", "1x", "2", "2x", "3", "4">>} ELSE {<<"1">>, <<"2", "1x">>}
Enabled     == {0, 1}               \* values the AG may report for an HF indicator's enabled flag

\* bit positions of the features that branch the procedure (HFP 1.8 table 4.34 / AT+BRSF)
HF_3WAY == 1   HF_CODEC == 7   HF_HFIND == 8
AG_3WAY == 0   AG_CODEC == 9   AG_HFIND == 10

Finals == {"OK", "ERROR", "+CME ERROR", "NO CARRIER", "BUSY", "NO ANSWER", "DELAYED", "BLACKLISTED"}

VARIABLES cfg,      \* configuration of both ends + mode
          step,     \* index of the next SLC command in Steps (Len + 1 = complete, 99 = failed)
          out,      \* the outstanding command ("" = none)
          ninfo,    \* information responses to the outstanding command so far
          probing,  \* the outstanding command is a probe
          hfk,      \* what the HF has been told by the AG
          agk,      \* what the AG has been told by the HF
          ncmd, nfinal   \* commands sent / final result codes sent (exactly-one accounting)

vars == <<cfg, step, out, ninfo, probing, hfk, agk, ncmd, nfinal>>

SetOf(q) == {q[i] : i \in 1..Len(q)}
NoArgs == [bits |-> {}, ints |-> <<>>, strs |-> <<>>, sup |-> <<>>]

Both(hfbit, agbit, agfeat) == hfbit \in cfg.hfFeat /\ agbit \in agfeat
\* the commands of the procedure, given the HF's own features and the features the AG REPORTED
Steps(agfeat) ==
    <<"BRSF=">> \o (IF Both(HF_CODEC, AG_CODEC, agfeat) THEN <<"BAC=">> ELSE <<>>)
    \o <<"CIND=?", "CIND?", "CMER=">>
    \o (IF Both(HF_3WAY, AG_3WAY, agfeat) THEN <<"CHLD=?">> ELSE <<>>)
    \o (IF Both(HF_HFIND, AG_HFIND, agfeat) THEN <<"BIND=", "BIND=?", "BIND?">> ELSE <<>>)
Plan == Steps(hfk.agFeat)
Complete == step = Len(Plan) + 1

InfoOf(cmd) == CASE cmd = "BRSF=" -> "+BRSF" [] cmd \in {"CIND=?", "CIND?"} -> "+CIND" [] cmd = "CHLD=?" -> "+CHLD"
                 [] cmd \in {"BIND=?", "BIND?"} -> "+BIND" [] OTHER -> ""
\* how many information responses the command takes before its OK (0 = none, 2 = any number)
Single(cmd) == cmd \in {"BRSF=", "CIND=?", "CIND?", "CHLD=?", "BIND=?"}

Negotiated == SetOf(cfg.hfInds) \cap SetOf(cfg.agHfInds)

InitWith(c) ==
    /\ cfg = c
    /\ step = 1 /\ out = "" /\ ninfo = 0 /\ probing = FALSE
    /\ hfk = [agFeat |-> {}, agInds |-> <<>>, agSup |-> <<>>, agVals |-> <<>>, holds |-> <<>>, sup |-> {}, en |-> {}]
    /\ agk = [hfFeat |-> {}, codecs |-> <<>>, hfInds |-> {}]
    /\ ncmd = 0 /\ nfinal = 0

Init == \E hf \in SUBSET HfBits, ag \in SUBSET AgBits, hi \in HfIndSeqs, hc \in HfCodecSeqs, ai \in AgIndSeqs,
           ah \in AgHfIndSeqs, ao \in AgHoldSeqs :
        InitWith([mode |-> "slc", hfFeat |-> hf, agFeat |-> ag, hfInds |-> hi, hfCodecs |-> hc,
                  agInds |-> [i \in 1..Len(ai) |-> ai[i].name], agSup |-> [i \in 1..Len(ai) |-> ai[i].sup],
                  agVals |-> [i \in 1..Len(ai) |-> ai[i].val], agHfInds |-> ah, agHolds |-> ao])

----------------------------------------------------------------------------
(* named clauses (the trace spec prints them when a line is refused) *)
Concluded      == out = ""                                           \* the previous command has had its final result code
InOrder(code)  == cfg.mode = "slc" => (step <= Len(Plan) /\ code = Plan[step])
CmdArgsOk(code, a) ==
    cfg.mode = "slc" =>
        CASE code = "BRSF=" -> a.bits = cfg.hfFeat
          [] code = "BAC="  -> a.ints = cfg.hfCodecs
          [] code = "CMER=" -> a.ints = <<3, 0, 0, 1>>
          [] code = "BIND=" -> a.ints = cfg.hfInds
          [] OTHER -> TRUE
Outstanding    == out # ""
InfoExpected(code) == cfg.mode = "slc" => (code = InfoOf(out) /\ (Single(out) => ninfo = 0))
InfoArgsOk(code, a) ==
    cfg.mode = "slc" =>
        CASE out = "BRSF="  -> a.bits = cfg.agFeat
          [] out = "CIND=?" -> a.strs = cfg.agInds /\ a.sup = cfg.agSup
          [] out = "CIND?"  -> a.ints = cfg.agVals
          [] out = "CHLD=?" -> a.strs = cfg.agHolds
          [] out = "BIND=?" -> SetOf(a.ints) = SetOf(cfg.agHfInds)      \* a set: its order is the AG's business
          [] out = "BIND?"  -> Len(a.ints) = 2 /\ a.ints[1] \in agk.hfInds
          [] OTHER -> TRUE
InfoCount      == (Single(out) \/ probing) => ninfo = 1              \* OK only after the one information response

----------------------------------------------------------------------------
HfCmd(code, a, probe) ==
    /\ Concluded
    /\ InOrder(code)
    /\ CmdArgsOk(code, a)
    /\ out' = code /\ ninfo' = 0 /\ probing' = probe
    /\ ncmd' = ncmd + 1
    /\ agk' = CASE code = "BRSF=" -> [agk EXCEPT !.hfFeat = a.bits]
                [] code = "BAC="  -> [agk EXCEPT !.codecs = a.ints]
                [] code = "BIND=" -> [agk EXCEPT !.hfInds = SetOf(a.ints) \cap SetOf(cfg.agHfInds)]
                [] OTHER -> agk
    /\ UNCHANGED <<cfg, step, hfk, nfinal>>

AgInfo(code, a) ==
    /\ Outstanding
    /\ InfoExpected(code)
    /\ InfoArgsOk(code, a)
    /\ ninfo' = ninfo + 1
    /\ hfk' = IF cfg.mode # "slc" THEN hfk ELSE
              CASE out = "BRSF="  -> [hfk EXCEPT !.agFeat = a.bits]
                [] out = "CIND=?" -> [hfk EXCEPT !.agInds = a.strs, !.agSup = a.sup]
                [] out = "CIND?"  -> [hfk EXCEPT !.agVals = a.ints]
                [] out = "CHLD=?" -> [hfk EXCEPT !.holds = a.strs]
                [] out = "BIND=?" -> [hfk EXCEPT !.sup = SetOf(a.ints) \cap SetOf(cfg.hfInds)]
                [] out = "BIND?"  -> [hfk EXCEPT !.en = IF a.ints[2] # 0 THEN @ \cup {a.ints[1]} ELSE @ \ {a.ints[1]}]
                [] OTHER -> hfk
    /\ UNCHANGED <<cfg, step, out, probing, agk, ncmd, nfinal>>

AgFinal(code) ==
    /\ Outstanding
    /\ code \in Finals
    /\ probing => code = "OK"
    /\ code = "OK" => InfoCount
    /\ out' = "" /\ ninfo' = 0 /\ probing' = FALSE
    /\ nfinal' = nfinal + 1
    /\ step' = IF cfg.mode # "slc" THEN step ELSE IF code = "OK" THEN step + 1 ELSE 99
    /\ UNCHANGED <<cfg, hfk, agk, ncmd>>

Unsol == UNCHANGED vars                       \* an unsolicited result code: never a final, nothing to check

Quiesce == Concluded /\ UNCHANGED vars        \* nothing moves any more: no command is left without its final result code

(* what each end holds when the procedure is complete; h = the values read from the real object of `side` *)
Own(side)   == IF side = "hf" THEN cfg.hfFeat ELSE cfg.agFeat
Other(side) == IF side = "hf" THEN cfg.agFeat ELSE cfg.hfFeat
H_Feat(side, h)   == h.bits = Own(side) /\ h.peer = Other(side)
H_AgInds(side, h) == h.strs = cfg.agInds /\ h.ints = cfg.agVals
H_AgSup(side, h)  == h.sup = cfg.agSup
H_Codecs(side, h) == (side = "ag" /\ Both(HF_CODEC, AG_CODEC, cfg.agFeat)) => h.codecs = cfg.hfCodecs
H_Holds(side, h)  == Both(HF_3WAY, AG_3WAY, cfg.agFeat) => h.holds = cfg.agHolds
H_HfInds(side, h) == Both(HF_HFIND, AG_HFIND, cfg.agFeat) => SetOf(h.hfinds) = Negotiated
H_HfEn(side, h)   == Both(HF_HFIND, AG_HFIND, cfg.agFeat) => SetOf(h.hfen) = hfk.en
Holds(side, h) ==
    /\ Complete /\ out = ""
    /\ H_Feat(side, h) /\ H_AgInds(side, h) /\ H_AgSup(side, h) /\ H_Codecs(side, h) /\ H_Holds(side, h)
    /\ H_HfInds(side, h) /\ H_HfEn(side, h)
    /\ UNCHANGED vars

----------------------------------------------------------------------------
(* model checking: the reference HF and the reference AG *)
CmdArgs(code) == CASE code = "BRSF=" -> [NoArgs EXCEPT !.bits = cfg.hfFeat]
                   [] code = "BAC="  -> [NoArgs EXCEPT !.ints = cfg.hfCodecs]
                   [] code = "CMER=" -> [NoArgs EXCEPT !.ints = <<3, 0, 0, 1>>]
                   [] code = "BIND=" -> [NoArgs EXCEPT !.ints = cfg.hfInds]
                   [] OTHER -> NoArgs
HfStep == step <= Len(Plan) /\ HfCmd(Plan[step], CmdArgs(Plan[step]), FALSE)

AgInfoStep ==
    /\ out # ""
    /\ \/ /\ out = "BRSF="  /\ ninfo = 0 /\ AgInfo("+BRSF", [NoArgs EXCEPT !.bits = cfg.agFeat])
       \/ /\ out = "CIND=?" /\ ninfo = 0 /\ AgInfo("+CIND", [NoArgs EXCEPT !.strs = cfg.agInds, !.sup = cfg.agSup])
       \/ /\ out = "CIND?"  /\ ninfo = 0 /\ AgInfo("+CIND", [NoArgs EXCEPT !.ints = cfg.agVals])
       \/ /\ out = "CHLD=?" /\ ninfo = 0 /\ AgInfo("+CHLD", [NoArgs EXCEPT !.strs = cfg.agHolds])
       \/ /\ out = "BIND=?" /\ ninfo = 0 /\ AgInfo("+BIND", [NoArgs EXCEPT !.ints = cfg.agHfInds])
       \/ /\ out = "BIND?"  /\ ninfo < Len(cfg.agHfInds)
          /\ LET i == cfg.agHfInds[ninfo + 1] IN
             IF i \in agk.hfInds THEN \E e \in Enabled : AgInfo("+BIND", [NoArgs EXCEPT !.ints = <<i, e>>])
             ELSE ninfo' = ninfo + 1 /\ UNCHANGED <<cfg, step, out, probing, hfk, agk, ncmd, nfinal>>   \* not negotiated: no line
AgFinalStep ==
    /\ out # ""
    /\ IF out = "BIND?" THEN ninfo = Len(cfg.agHfInds) ELSE (InfoOf(out) # "" => ninfo = 1)
    /\ AgFinal("OK")

Next == HfStep \/ AgInfoStep \/ AgFinalStep
Spec == Init /\ [][Next]_vars /\ WF_vars(Next)

----------------------------------------------------------------------------
(* the commands an HF can put on the link: every command of HFP 1.8 section 4.34 (AT+ commands, ATA, ATD) in its execute,
   read, test and set form, the set form with 0..4 parameters.  SlcAt.cfg lets TLC enumerate them (one HfEmit edge each);
   the driver sends every one of them to a real AG as raw bytes: whatever the command, exactly one final result code. *)
AtCodes  == {"BRSF", "BAC", "CIND", "CMER", "CHLD", "BIND", "BIEV", "BIA", "BCC", "BCS", "BVRA", "CMEE", "CCWA", "CLIP", "VGS", "VGM",
             "NREC", "VTS", "COPS", "CNUM", "CLCC", "CHUP", "BLDN", "BINP", "BTRH", "A", "D"}
AtForms  == {"exec", "read", "test", "set"}
Suffix(f) == CASE f = "exec" -> "" [] f = "read" -> "?" [] f = "test" -> "=?" [] OTHER -> "="
HfEmit(c, f, k) ==
    /\ cfg.mode = "at" /\ ncmd < 1
    /\ (f # "set" => k = 0) /\ (c \in {"A", "D"} => f = "exec")
    /\ HfCmd(c \o Suffix(f), NoArgs, FALSE)
InitAt == InitWith([mode |-> "at", hfFeat |-> {}, agFeat |-> {}, hfInds |-> <<>>, hfCodecs |-> <<>>, agInds |-> <<>>, agSup |-> <<>>,
                    agVals |-> <<>>, agHfInds |-> <<>>, agHolds |-> <<>>])
NextAt == \/ \E c \in AtCodes, f \in AtForms, k \in 0..4 : HfEmit(c, f, k)
          \/ \E r \in {"OK", "ERROR", "+CME ERROR"} : AgFinal(r)
SpecAt == InitAt /\ [][NextAt]_vars

----------------------------------------------------------------------------
(* properties *)
\* exactly one final result code per command, before the next command
Inv_OneFinal == /\ nfinal <= ncmd /\ ncmd <= nfinal + 1
                /\ (out = "") = (ncmd = nfinal)
\* at completion both ends have been told the negotiated values - the same on both sides
Inv_Same ==
    (Complete /\ out = "") =>
        /\ agk.hfFeat = cfg.hfFeat /\ hfk.agFeat = cfg.agFeat
        /\ hfk.agInds = cfg.agInds /\ hfk.agSup = cfg.agSup /\ hfk.agVals = cfg.agVals
        /\ Both(HF_CODEC, AG_CODEC, cfg.agFeat) => agk.codecs = cfg.hfCodecs
        /\ Both(HF_3WAY, AG_3WAY, cfg.agFeat) => hfk.holds = cfg.agHolds
        /\ Both(HF_HFIND, AG_HFIND, cfg.agFeat) => (hfk.sup = Negotiated /\ agk.hfInds = Negotiated /\ hfk.en \subseteq Negotiated)
\* the plan is exactly what HFP prescribes for the two feature sets
Inv_Plan == hfk.agFeat = cfg.agFeat =>
    /\ ("BAC=" \in SetOf(Plan)) = (HF_CODEC \in cfg.hfFeat /\ AG_CODEC \in cfg.agFeat)
    /\ ("CHLD=?" \in SetOf(Plan)) = (HF_3WAY \in cfg.hfFeat /\ AG_3WAY \in cfg.agFeat)
    /\ ("BIND?" \in SetOf(Plan)) = (HF_HFIND \in cfg.hfFeat /\ AG_HFIND \in cfg.agFeat)
\* the service level connection completes for every combination
Live == <>(Complete /\ out = "")
=============================================================================
