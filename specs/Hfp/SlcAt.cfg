SPECIFICATION SpecAt
CONSTANTS
  HfBits = {}
  AgBits = {}
  Rich = FALSE
INVARIANT Inv_OneFinal
CHECK_DEADLOCK FALSE
