----------------------------- MODULE SlcTrace -----------------------------
(* Trace validation for C20 (Hands-Free Profile).  One trace = the AT lines on one RFCOMM data link between a
   hands-free unit (HF) and an audio gateway (AG), in the order in which they were written, at least one of the
   two being bumble's real HfProtocol / AgProtocol.  The first record is the configuration of both ends:

     cfg    mode hfFeat agFeat hfInds hfCodecs agInds agSup agVals agHfInds agHolds
     at     dir cls code bits ints strs sup
                 dir = "hf": cls = cmd / probe, code = "BRSF=", "CIND?", "CHLD=", "A", "D", ...
                 dir = "ag": cls = final (OK, ERROR, +CME ERROR, NO CARRIER, ...) / result (any other result code)
     slc    side done bits peer strs sup ints codecs holds hfinds hfen
                 what the real object of `side` holds once the procedure has ended (done = it completed): own and
                 peer feature bits, AG indicator names / ranges / values, codecs, call hold operations, the HF
                 indicators both support and those enabled
     quiesce     nothing moves any more

   mode "slc": real HF against real AG, or real HF against the harness' reference AG (which may report any
   enabled flags).  mode "at": a puppet HF writes raw command lines to a real AG: only the final-result-code
   discipline and the probes are checked.  The module adds no semantics: a refused line is a violated clause
   of Slc.tla; Stuck prints which.                                                                      *)
EXTENDS Slc, Json, IOUtils, TLC, TLCExt

Traces == JsonDeserialize(IOEnv.TRACE_FILE)

VARIABLES tid, l
tvars == <<vars, tid, l>>

T  == Traces[tid]
Ev == T[l]

A == [bits |-> SetOf(Ev.bits), ints |-> Ev.ints, strs |-> Ev.strs, sup |-> Ev.sup]
H == [bits |-> SetOf(Ev.bits), peer |-> SetOf(Ev.peer), strs |-> Ev.strs, sup |-> Ev.sup, ints |-> Ev.ints,
      codecs |-> Ev.codecs, holds |-> Ev.holds, hfinds |-> Ev.hfinds, hfen |-> Ev.hfen]

IsInfo == Outstanding /\ (cfg.mode = "at" \/ Ev.code = InfoOf(out))

Act == \/ Ev.e = "at" /\ Ev.dir = "hf" /\ Ev.cls \in {"cmd", "probe"} /\ HfCmd(Ev.code, A, Ev.cls = "probe")
       \/ Ev.e = "at" /\ Ev.dir = "ag" /\ Ev.cls = "final" /\ AgFinal(Ev.code)
       \/ Ev.e = "at" /\ Ev.dir = "ag" /\ Ev.cls = "result" /\ IF IsInfo THEN AgInfo(Ev.code, A) ELSE Unsol
       \/ Ev.e = "slc" /\ Ev.done /\ Holds(Ev.side, H)
       \/ Ev.e = "quiesce" /\ Quiesce

Step == /\ l <= Len(T)
        /\ Act
        /\ l' = l + 1 /\ tid' = tid

Done == /\ l = Len(T) + 1
        /\ PrintT(<<"ACCEPT", tid>>)
        /\ UNCHANGED tvars

IsCmd   == Ev.e = "at" /\ Ev.dir = "hf" /\ Ev.cls \in {"cmd", "probe"}
IsFinal == Ev.e = "at" /\ Ev.dir = "ag" /\ Ev.cls = "final"
IsRes   == Ev.e = "at" /\ Ev.dir = "ag" /\ Ev.cls = "result" /\ IsInfo
IsSlc   == Ev.e = "slc"
Why ==
    [concluded   |-> (IsCmd \/ Ev.e = "quiesce") => Concluded,
     inorder     |-> IsCmd => InOrder(Ev.code),
     cmdargs     |-> IsCmd => CmdArgsOk(Ev.code, A),
     outstanding |-> IsFinal => Outstanding,
     isfinal     |-> IsFinal => Ev.code \in Finals,
     probeok     |-> (IsFinal /\ probing) => Ev.code = "OK",
     infocount   |-> (IsFinal /\ Ev.code = "OK") => InfoCount,
     infoexpected |-> IsRes => InfoExpected(Ev.code),
     infoargs    |-> IsRes => InfoArgsOk(Ev.code, A),
     completed   |-> IsSlc => (Ev.done /\ Complete /\ out = ""),
     feat        |-> IsSlc => H_Feat(Ev.side, H),
     aginds      |-> IsSlc => H_AgInds(Ev.side, H),
     agsup       |-> IsSlc => H_AgSup(Ev.side, H),
     codecs      |-> IsSlc => H_Codecs(Ev.side, H),
     holds       |-> IsSlc => H_Holds(Ev.side, H),
     hfinds      |-> IsSlc => H_HfInds(Ev.side, H),
     hfen        |-> IsSlc => H_HfEn(Ev.side, H),
     known       |-> Ev.e \in {"at", "slc", "quiesce"} /\ (Ev.e = "at" => Ev.cls \in {"cmd", "probe", "final", "result"})]

Stuck == /\ l <= Len(T)
         /\ ~ENABLED Step
         /\ PrintT(<<"REJECT", tid, l, Ev,
                     [why |-> Why,
                      st |-> [step |-> step, plan |-> Plan, out |-> out, ninfo |-> ninfo, probing |-> probing, hfk |-> hfk, agk |-> agk,
                              ncmd |-> ncmd, nfinal |-> nfinal]]>>)
         /\ UNCHANGED tvars

C0 == Traces[tid][1]
TraceInit == /\ tid \in 1..Len(Traces)
             /\ l = 2
             /\ InitWith([mode |-> C0.mode, hfFeat |-> SetOf(C0.hfFeat), agFeat |-> SetOf(C0.agFeat), hfInds |-> C0.hfInds,
                          hfCodecs |-> C0.hfCodecs, agInds |-> C0.agInds, agSup |-> C0.agSup, agVals |-> C0.agVals,
                          agHfInds |-> C0.agHfInds, agHolds |-> C0.agHolds])
TraceNext == Step \/ Done \/ Stuck
TraceSpec == TraceInit /\ [][TraceNext]_tvars
=============================================================================
