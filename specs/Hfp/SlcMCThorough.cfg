SPECIFICATION Spec
CONSTANTS
  HfBits = {0, 1, 2, 5, 7, 8}
  AgBits = {0, 1, 5, 6, 9, 10}
  Rich = FALSE
INVARIANT Inv_OneFinal
INVARIANT Inv_Same
INVARIANT Inv_Plan
CHECK_DEADLOCK FALSE
