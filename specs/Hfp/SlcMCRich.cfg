SPECIFICATION Spec
CONSTANTS
  HfBits = {0, 1, 7, 8}
  AgBits = {0, 5, 9, 10}
  Rich = TRUE
INVARIANT Inv_OneFinal
INVARIANT Inv_Same
INVARIANT Inv_Plan
PROPERTY Live
CHECK_DEADLOCK FALSE
