---------------------------- MODULE LeCocTrace ----------------------------
(* Trace validation for C07.  One trace = one direction of one credit-based channel of a real
   LE connection; the first record is the `open` event (what the receiver of this direction
   announced in the signalling seen on the wire), every further record is ONE action of LeCoc.tla
   with its arguments, logged at the boundary where it happens:

     write   n            application of the sending side calls write (n bytes)
     send    n first k    K-frame leaves the sending host (information payload n; first frame of an SDU of k bytes)
     recv    n            the frame reaches the receiving host
     grant   n            LE Flow Control Credit (n credits) leaves the receiving host
     credit  n            ... and reaches the sending host
     sink    n ok         receiver hands n bytes to its sink; ok = they are the next n bytes of the written stream
     close   first ok     a Disconnection Request for the channel leaves an endpoint (first = the sender of this
                          direction sent it; ok = the application on that endpoint had called disconnect())
     quiesce n            nothing is runnable any more; n = number of drain() calls still blocked

   Anything else the observers log ("stray": a frame or credit packet on a CID that belongs to no
   open channel, "raise": the stack raised out of a public call or a receive path) has no action and is
   refused.  The module adds no semantics of its own: a refused event is a violated clause of LeCoc.tla;
   Stuck prints which.                                                                        *)
EXTENDS LeCoc, Json, IOUtils, TLC, TLCExt

Traces == JsonDeserialize(IOEnv.TRACE_FILE)

VARIABLES tid, l
tvars == <<vars, tid, l>>

T  == Traces[tid]
Ev == T[l]

Act == \/ Ev.e = "write"   /\ Write(Ev.n)
       \/ Ev.e = "send"    /\ Ev.first  /\ SendFirst(Ev.k, Ev.n)
       \/ Ev.e = "send"    /\ ~Ev.first /\ SendNext(Ev.n)
       \/ Ev.e = "recv"    /\ Recv(Ev.n)
       \/ Ev.e = "grant"   /\ Grant(Ev.n)
       \/ Ev.e = "credit"  /\ RecvCredits(Ev.n)
       \/ Ev.e = "sink"    /\ Ev.ok /\ Sink(Ev.n)
       \/ Ev.e = "close"   /\ Close(Ev.ok)
       \/ Ev.e = "quiesce" /\ Ev.n = 0 /\ Quiesce

Step == /\ l <= Len(T)
        /\ Act
        /\ l' = l + 1 /\ tid' = tid

Done == /\ l = Len(T) + 1
        /\ PrintT(<<"ACCEPT", tid>>)
        /\ UNCHANGED tvars

\* the clauses of the refused action, evaluated in the state before the event (TRUE = satisfied / not applicable)
Why ==
    [credit   |-> (Ev.e = "send") => HasCredit,
     mps      |-> (Ev.e = "send") => FitsMps(Ev.n),
     mtu      |-> (Ev.e = "send" /\ Ev.first) => FitsMtu(Ev.k),
     written  |-> (Ev.e = "send" /\ Ev.first) => WasWritten(Ev.k),
     shape    |-> (Ev.e = "send") => IF Ev.first THEN FirstShape(Ev.k, Ev.n) ELSE NextShape(Ev.n),
     fifo     |-> /\ (Ev.e = "recv")   => (flight # <<>> /\ Head(flight).n = Ev.n)
                  /\ (Ev.e = "credit") => (grants # <<>> /\ Head(grants) = Ev.n),
     cap      |-> (Ev.e = "grant") => (Ev.n >= 1 /\ CapOk(Ev.n)),
     bytes    |-> (Ev.e = "sink") => Ev.ok,
     have     |-> (Ev.e = "sink") => delivered + Ev.n <= rbytes,
     alldelivered |-> (Ev.e = "quiesce") => AllDelivered,
     drained  |-> (Ev.e = "quiesce") => Ev.n = 0,
     asked    |-> (Ev.e = "close") => CloseAsked(Ev.ok),
     known    |-> Ev.e \in {"write", "send", "recv", "grant", "credit", "sink", "close", "quiesce"}]

Stuck == /\ l <= Len(T)
         /\ ~ENABLED Step
         /\ PrintT(<<"REJECT", tid, l, Ev,
                     [why |-> Why,
                      st |-> [mtu |-> mtu, mps |-> mps, written |-> written, packed |-> packed, sduLeft |-> sduLeft,
                              cr |-> cr, inflight |-> Len(flight), grants |-> Len(grants), ledger |-> ledger,
                              rbytes |-> rbytes, delivered |-> delivered]]>>)
         /\ UNCHANGED tvars

TraceInit == /\ tid \in 1..Len(Traces)
             /\ l = 2
             /\ InitWith(Traces[tid][1].mtu, Traces[tid][1].mps, Traces[tid][1].n)
TraceNext == Step \/ Done \/ Stuck
TraceSpec == TraceInit /\ [][TraceNext]_tvars
=============================================================================
