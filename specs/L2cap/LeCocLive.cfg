SPECIFICATION Spec
CONSTANTS
  Mtus = {1, 2}
  MpsS = {2, 3}
  Inits = {0, 1, 2}
  MaxCredits = 2
  MaxWritten = 3
  MaxWrite = 2
  MinSdu = 1
PROPERTY Live
CHECK_DEADLOCK FALSE
