------------------------------- MODULE LeCoc -------------------------------
(* C07.  ONE DIRECTION of an LE credit-based / enhanced credit-based L2CAP channel
   (Core Vol 3 Part A 3.4, 4.22-4.26, 10.1; bumble/l2cap.py LeCreditBasedChannel).  A channel
   is two independent instances of this module (they share no variable: the credits for
   direction A->B are granted by B and travel B->A, nothing else couples them).

   sender S  --- K-frames (FIFO) --->  receiver R
   sender S  <-- credit packets (FIFO) ---  receiver R

   The module is a MONITOR OF THE PROPERTY, not of today's implementation:
     * what the sender must respect is in the guards of SendFirst / SendNext (holds a credit, frame
       <= the receiver's MPS, SDU <= the receiver's MTU, only bytes that were written, SDU framing
       announced by the 2-byte SDU length is respected);
     * everything the property leaves free is a parameter: how writes are grouped into SDUs (k), how
       an SDU is cut into frames below the MPS (n), when and how many credits the receiver returns
       (Grant(k), only the 65535 cap), in what pieces the receiver hands bytes to its sink (Sink(n)).
   Sizes are bytes (the SDU length header is 2 bytes and counts against the MPS of the first frame).
   Byte identity is decided outside (Python compares the bytes at the logged stream offsets and logs
   ok); here the stream is byte counters: written >= packed >= rbytes >= delivered.

   mtu / mps / initial credits are what the RECEIVER announced when the channel was opened; they are
   variables fixed by Init so that one TLC run covers a set of values (MC) and one batch of traces can
   carry its own values per trace (trace validation, InitWith).                                    *)
EXTENDS Naturals, Sequences

CONSTANTS Mtus,        \* receiver MTU values explored by Init       (real: 23..65535)
          MpsS,        \* receiver MPS values explored by Init       (real: 23..65533), all >= 2
          Inits,       \* initial credits explored by Init           (real: 1..65535; 0 is legal on the wire)
          MaxCredits,  \* cap on the credits a sender may hold       (real: 65535)
          MaxWritten,  \* model bound: total bytes written
          MaxWrite,    \* model bound: largest single write (MC only)
          MinSdu       \* smallest SDU payload the sender may emit (0 = empty SDU allowed; MC uses 1)

VARIABLES mtu, mps,    \* receiver's MTU / MPS as announced at open
          written,     \* S: bytes written by the application so far
          packed,      \* S: bytes already put into SDUs
          sduLeft,     \* S: bytes of the SDU in progress (header included) not yet sent
          cr,          \* S: credits held
          flight,      \* wire S->R: Seq of frames [n |-> information payload length, first, k |-> SDU length]
          grants,      \* wire R->S: Seq of credit counts
          ledger,      \* R: credits granted and not yet seen consumed
          rbytes,      \* R: SDU payload bytes received (headers excluded)
          rleft,       \* R: payload bytes still missing from the SDU being reassembled
          rcomplete,   \* R: payload bytes in completely reassembled SDUs
          delivered    \* R: bytes handed to the sink

vars == <<mtu, mps, written, packed, sduLeft, cr, flight, grants, ledger, rbytes, rleft, rcomplete, delivered>>

RECURSIVE SeqSum(_)
SeqSum(s) == IF s = <<>> THEN 0 ELSE Head(s) + SeqSum(Tail(s))

Payload(f) == IF f.first THEN f.n - 2 ELSE f.n

RECURSIVE FlightPayload(_)
FlightPayload(s) == IF s = <<>> THEN 0 ELSE Payload(Head(s)) + FlightPayload(Tail(s))

\* receiver's "bytes missing from the current SDU" after it will have consumed the frames s
RECURSIVE LeftAfter(_, _)
LeftAfter(r, s) == IF s = <<>> THEN r
                   ELSE LeftAfter(IF Head(s).first THEN Head(s).k - (Head(s).n - 2) ELSE r - Head(s).n, Tail(s))

InitWith(m, p, c) ==
    /\ mtu = m /\ mps = p
    /\ written = 0 /\ packed = 0 /\ sduLeft = 0 /\ cr = c
    /\ flight = <<>> /\ grants = <<>>
    /\ ledger = c /\ rbytes = 0 /\ rleft = 0 /\ rcomplete = 0 /\ delivered = 0

Init == \E m \in Mtus, p \in MpsS, c \in Inits : InitWith(m, p, c)

----------------------------------------------------------------------------
(* sender *)

Write(n) ==                                  \* channel.write(data), len(data) = n
    /\ written + n <= MaxWritten
    /\ written' = written + n
    /\ UNCHANGED <<mtu, mps, packed, sduLeft, cr, flight, grants, ledger, rbytes, rleft, rcomplete, delivered>>

\* named clauses (the trace spec prints them when an event is refused)
HasCredit      == cr > 0
FitsMps(n)     == n <= mps
FitsMtu(k)     == k <= mtu
WasWritten(k)  == k <= written - packed
FirstShape(k, n) == sduLeft = 0 /\ k >= MinSdu /\ n >= 2 /\ n <= k + 2
NextShape(n)     == sduLeft > 0 /\ n >= 1 /\ n <= sduLeft

SendFirst(k, n) ==                           \* first K-frame of a new SDU of k payload bytes; n = 2 + first piece
    /\ HasCredit
    /\ FitsMps(n)
    /\ FitsMtu(k)
    /\ WasWritten(k)
    /\ FirstShape(k, n)
    /\ packed' = packed + k
    /\ sduLeft' = k + 2 - n
    /\ cr' = cr - 1
    /\ flight' = Append(flight, [n |-> n, first |-> TRUE, k |-> k])
    /\ UNCHANGED <<mtu, mps, written, grants, ledger, rbytes, rleft, rcomplete, delivered>>

SendNext(n) ==                               \* continuation K-frame
    /\ HasCredit
    /\ FitsMps(n)
    /\ NextShape(n)
    /\ sduLeft' = sduLeft - n
    /\ cr' = cr - 1
    /\ flight' = Append(flight, [n |-> n, first |-> FALSE, k |-> 0])
    /\ UNCHANGED <<mtu, mps, written, packed, grants, ledger, rbytes, rleft, rcomplete, delivered>>

RecvCredits(k) ==                            \* a credit packet reaches the sender
    /\ grants # <<>> /\ Head(grants) = k
    /\ grants' = Tail(grants)
    /\ cr' = cr + k
    /\ UNCHANGED <<mtu, mps, written, packed, sduLeft, flight, ledger, rbytes, rleft, rcomplete, delivered>>

----------------------------------------------------------------------------
(* receiver *)

Recv(n) ==                                   \* the oldest frame in flight reaches the receiver
    /\ flight # <<>> /\ Head(flight).n = n
    /\ LET f  == Head(flight)
           nl == IF f.first THEN f.k - (f.n - 2) ELSE rleft - f.n
       IN /\ rbytes' = rbytes + Payload(f)
          /\ rleft' = nl
          /\ rcomplete' = IF nl = 0 THEN rbytes + Payload(f) ELSE rcomplete
    /\ flight' = Tail(flight)
    /\ ledger' = ledger - 1
    /\ UNCHANGED <<mtu, mps, written, packed, sduLeft, cr, grants, delivered>>

CapOk(k) == ledger + k <= MaxCredits

Grant(k) ==                                  \* LE Flow Control Credit leaves the receiver: any k >= 1 at any time (policy free)
    /\ k >= 1
    /\ CapOk(k)
    /\ ledger' = ledger + k
    /\ grants' = Append(grants, k)
    /\ UNCHANGED <<mtu, mps, written, packed, sduLeft, cr, flight, rbytes, rleft, rcomplete, delivered>>

Sink(n) ==                                   \* n more bytes of the stream handed to the application
    /\ delivered + n <= rbytes
    /\ delivered' = delivered + n
    /\ UNCHANGED <<mtu, mps, written, packed, sduLeft, cr, flight, grants, ledger, rbytes, rleft, rcomplete>>

\* nothing is runnable any more: everything written must have been delivered
AllDelivered == delivered = written /\ flight = <<>> /\ sduLeft = 0
Quiesce == AllDelivered /\ UNCHANGED vars

\* A Disconnection Request for the channel leaves one of its two endpoints.  The property promises that "a transfer
\* always completes while the receiver keeps consuming" for every initial-credit value 1..65535 and every legal pattern
\* of credit returns: an open channel therefore stays open until an APPLICATION asks for the disconnection.  A stack may
\* also close a channel whose peer broke the protocol (frame without credit, MPS / MTU exceeded, a credit return that
\* takes the sender above 65535) - but no such event is ever accepted by this monitor, so in an accepted prefix a
\* disconnection nobody asked for is unprovoked: e.g. a sender topped up to EXACTLY 65535 credits (CapOk: legal) that
\* treats the return as an overflow.  Closing changes none of the counters: what was written before is still owed (Quiesce).
CloseAsked(asked) == asked
Close(asked) == CloseAsked(asked) /\ UNCHANGED vars

----------------------------------------------------------------------------
(* model-checking next-state relation: every choice the property leaves free is explored *)

MaxMtu == CHOOSE m \in Mtus : \A x \in Mtus : x <= m
MaxMps == CHOOSE m \in MpsS : \A x \in MpsS : x <= m

WriteAny    == \E n \in 1..MaxWrite : Write(n)
SendAny     == \/ \E k \in MinSdu..MaxMtu, n \in 2..MaxMps : SendFirst(k, n)
               \/ \E n \in 1..MaxMps : SendNext(n)
RecvAny     == flight # <<>> /\ Recv(Head(flight).n)
GrantAny    == \E k \in 1..MaxCredits : Grant(k)
CreditsAny  == grants # <<>> /\ RecvCredits(Head(grants))
SinkSdu     == rcomplete > delivered /\ Sink(rcomplete - delivered)   \* reference receiver: SDU by SDU

Next == WriteAny \/ SendAny \/ RecvAny \/ GrantAny \/ CreditsAny \/ SinkSdu

Fairness == /\ WF_vars(SendAny) /\ WF_vars(RecvAny) /\ WF_vars(GrantAny)
            /\ WF_vars(CreditsAny) /\ WF_vars(SinkSdu)

Spec == Init /\ [][Next]_vars /\ Fairness

\* negative control for the liveness check: a receiver that is not obliged to return credits
SpecNoGrantFairness == Init /\ [][Next]_vars
                       /\ WF_vars(SendAny) /\ WF_vars(RecvAny) /\ WF_vars(CreditsAny) /\ WF_vars(SinkSdu)

----------------------------------------------------------------------------
(* properties *)

TypeOK ==
    /\ mtu \in Mtus /\ mps \in MpsS
    /\ written \in 0..MaxWritten /\ packed \in 0..written
    /\ sduLeft \in Nat /\ cr \in 0..MaxCredits /\ ledger \in 0..MaxCredits
    /\ rbytes \in Nat /\ rleft \in Nat /\ rcomplete \in Nat /\ delivered \in Nat

\* credits are conserved: what the receiver believes is outstanding is held, in use, or on its way
Inv_Ledger    == ledger = cr + Len(flight) + SeqSum(grants)
\* the receiver never sees a frame it has not granted a credit for
Inv_NoOverrun == Len(flight) <= ledger
\* nobody ever holds more than 65535 credits
Inv_CreditCap == ledger <= MaxCredits /\ cr <= MaxCredits
\* no frame above the receiver's MPS, no SDU above its MTU
Inv_Mps       == \A i \in 1..Len(flight) : flight[i].n <= mps
Inv_Mtu       == \A i \in 1..Len(flight) : flight[i].first => flight[i].k <= mtu
\* the stream: nothing is invented, lost or overtaken between the counters
Inv_Stream    == /\ delivered <= rcomplete /\ rcomplete <= rbytes /\ rbytes <= packed /\ packed <= written
                 /\ packed = rbytes + FlightPayload(flight) + (IF sduLeft > 0 THEN sduLeft ELSE 0)
\* reassembly at the receiver closes exactly on SDU boundaries (never overflows, never ends short)
Inv_Reassembly == /\ LeftAfter(rleft, flight) = sduLeft
                  /\ rleft = 0 => rcomplete = rbytes

\* progress: while the receiver keeps consuming and returning credits, everything written is delivered
Live == \A w \in 1..MaxWritten : (written >= w) ~> (delivered >= w)
=============================================================================
