------------------------------- MODULE Ertm -------------------------------
(* C08: a connection-oriented L2CAP channel in Basic or Enhanced Retransmission mode between two
   sides over a loss-free, order-preserving link (what a BR/EDR ACL link gives L2CAP once the
   baseband has done its job; bumble has no retransmission and none is needed here).

   One action per place where the code acts (bumble/l2cap.py):
     WriteSdu  ClassicChannel.write                 SendI   EnhancedRetransmissionProcessor._send_i_frame
     SendB     Processor.send_sdu (Basic)           SendS   ._send_s_frame
     Recv      ClassicChannel.on_pdu -> .on_pdu     Deliver ClassicChannel.on_sdu -> sink
     Timeout   ._receiver_ready_poll / ._monitor    (only in the "Timers" configurations)

   The actions carry the values that are visible on the air as parameters; their guards are the
   property (window, numbering, acknowledgements, segmentation) and leave everything else free:
   how an SDU is cut into segments below the peer's MPS, when and how lazily the receiver
   acknowledges, the P and F bits.  Model checking (NextFree) shows that every behaviour the
   guards admit delivers each SDU once, intact and in order and never has more I-frames
   outstanding than the window the peer advertised, with a small modulus M so that sequence
   numbers wrap many times.  ErtmTrace.tla replays what two real bumble Devices did, with M = 64,
   through the same actions.

   NextTimers adds the retransmission / monitor timer and the poll - final handshake of the Core
   specification (Vol 3, Part A, 8.6.5): a poll is an S-frame with P = 1, it is answered by a
   frame with F = 1, no new I-frame is sent while the answer is outstanding.  PollAsFinal = TRUE
   is the named deviation found in the code (the poll goes out with F = 1 and P = 0): TLC then
   reports the stall as a deadlock.                                                           *)
EXTENDS Naturals, Sequences, FiniteSets, TLC

CONSTANTS M,            \* modulus of TxSeq / ReqSeq
          ModeSet,      \* subset of {"basic", "ertm"}
          WinSet,       \* TxWindow values a side may advertise, each < M
          MpsSet,       \* MPS values a side may advertise
          LenSet,       \* SDU lengths the application may write
          MaxSdus1, MaxSdus2,  \* SDUs written by side 1 / side 2
          MaxPolls,     \* bound on timer expiries
          PollAsFinal,  \* BOOLEAN: the deviation
          PreWritten    \* BOOLEAN: SDUs are chosen in Init instead of by WriteSdu steps

Sides == {1, 2}
MaxSdus == <<MaxSdus1, MaxSdus2>>
O(s)  == 3 - s

VARIABLES
  mode,      \* "basic" | "ertm": what set-up agreed on
  win,       \* win[s]: TxWindow advertised by s = I-frames the peer may have unacknowledged towards s
  mps,       \* mps[s]: largest information payload s accepts
  mtu,       \* mtu[s]: largest SDU s accepts
  written,   \* written[s]: lengths of the SDUs the application of s wrote, in order (SDU id = index)
  segIdx,    \* segIdx[s]: id of the SDU s is cutting into frames
  segOff,    \* segOff[s]: octets of that SDU already sent
  nextTx,    \* nextTx[s]: TxSeq of the next new I-frame
  ackedTx,   \* ackedTx[s]: ReqSeq last accepted by s as sender
  unacked,   \* unacked[s]: I-frames sent by s and not yet acknowledged to s
  wire,      \* wire[s]: frames sent by s, not yet taken by the other side (FIFO)
  expRx,     \* expRx[s]: TxSeq s expects next
  lastReq,   \* lastReq[s]: ReqSeq in the last frame s sent
  rasm,      \* rasm[s]: reassembly [id, got]; id = 0 when idle
  ready,     \* ready[s]: complete SDUs [id, len] not yet handed to the sink of s
  dlv,       \* dlv[s]: lengths of the SDUs handed to the sink of s, in order
  waitF,     \* timers: s has polled and waits for F = 1
  owesF,     \* timers: s has seen P = 1 and owes a frame with F = 1
  polls      \* timers: expiries so far

vars == <<mode, win, mps, mtu, written, segIdx, segOff, nextTx, ackedTx, unacked, wire, expRx,
          lastReq, rasm, ready, dlv, waitF, owesF, polls>>
tvars == <<waitF, owesF, polls>>
cfgvars == <<mode, win, mps, mtu>>

ASSUME \A w \in WinSet : w >= 1 /\ w < M

MaxOf(S) == CHOOSE x \in S : \A y \in S : y <= x

\* SDUs already written when the behaviour starts (model checking: all of them, which removes the
\* uninteresting interleavings of write calls; trace validation: none)
SeqsUpTo(S, n) == UNION {[1..k -> S] : k \in 0..n}
InitWritten(s) == IF PreWritten THEN SeqsUpTo(LenSet, MaxSdus[s]) ELSE {<<>>}

Frame(k, tx, req, sar, len, id, sdulen, fn, p, f) ==
  [k |-> k, tx |-> tx, req |-> req, sar |-> sar, len |-> len, id |-> id, sdulen |-> sdulen,
   fn |-> fn, p |-> p, f |-> f]

Init ==
  /\ mode \in ModeSet
  /\ win \in [Sides -> WinSet]
  /\ mps \in [Sides -> MpsSet]
  /\ mtu = [s \in Sides |-> MaxOf(LenSet)]
  /\ written \in {w \in [Sides -> InitWritten(1) \cup InitWritten(2)] : \A s \in Sides : w[s] \in InitWritten(s)}
  /\ segIdx = [s \in Sides |-> 1]
  /\ segOff = [s \in Sides |-> 0]
  /\ nextTx = [s \in Sides |-> 0]
  /\ ackedTx = [s \in Sides |-> 0]
  /\ unacked = [s \in Sides |-> 0]
  /\ wire = [s \in Sides |-> <<>>]
  /\ expRx = [s \in Sides |-> 0]
  /\ lastReq = [s \in Sides |-> 0]
  /\ rasm = [s \in Sides |-> [id |-> 0, got |-> 0]]
  /\ ready = [s \in Sides |-> <<>>]
  /\ dlv = [s \in Sides |-> <<>>]
  /\ waitF = [s \in Sides |-> FALSE]
  /\ owesF = [s \in Sides |-> FALSE]
  /\ polls = 0

-----------------------------------------------------------------------------
(* what the property says about the fields of a frame *)

\* a ReqSeq acknowledges only I-frames that s has taken, and never goes backwards
ReqOk(s, req) == (req + M - lastReq[s]) % M <= (expRx[s] + M - lastReq[s]) % M

HasData(s) == segIdx[s] <= Len(written[s])
Total(s)   == written[s][segIdx[s]]

SarOf(total, off, len) ==
  IF off = 0 /\ len = total THEN "U"
  ELSE IF off = 0 THEN "S"
  ELSE IF off + len = total THEN "E" ELSE "C"

SegOk(s, sar, len, sdulen) ==
  /\ HasData(s)
  /\ len <= mps[O(s)]                          \* information payload within the peer's MPS
  /\ segOff[s] + len <= Total(s)
  /\ (len >= 1 \/ Total(s) = 0)
  /\ sar = SarOf(Total(s), segOff[s], len)
  /\ sdulen = IF sar = "S" THEN Total(s) ELSE 0  \* SDU length field = length of the whole SDU

Advance(s, len) ==
  IF segOff[s] + len = Total(s)
  THEN /\ segIdx' = [segIdx EXCEPT ![s] = @ + 1]
       /\ segOff' = [segOff EXCEPT ![s] = 0]
  ELSE /\ segOff' = [segOff EXCEPT ![s] = @ + len]
       /\ UNCHANGED segIdx

-----------------------------------------------------------------------------
WriteSdu(s, len) ==
  /\ Len(written[s]) < MaxSdus[s]
  /\ len <= mtu[O(s)]
  /\ written' = [written EXCEPT ![s] = Append(@, len)]
  /\ UNCHANGED <<cfgvars, segIdx, segOff, nextTx, ackedTx, unacked, wire, expRx, lastReq, rasm, ready, dlv>>

SendI(s, tx, req, sar, len, sdulen, f) ==
  /\ mode = "ertm"
  /\ SegOk(s, sar, len, sdulen)
  /\ tx = nextTx[s]                              \* numbered consecutively modulo M
  /\ unacked[s] < win[O(s)]                      \* never more outstanding than the peer's window
  /\ ReqOk(s, req)
  /\ nextTx' = [nextTx EXCEPT ![s] = (@ + 1) % M]
  /\ unacked' = [unacked EXCEPT ![s] = @ + 1]
  /\ lastReq' = [lastReq EXCEPT ![s] = req]
  /\ wire' = [wire EXCEPT ![s] = Append(@, Frame("I", tx, req, sar, len, segIdx[s], sdulen, "", 0, f))]
  /\ Advance(s, len)
  /\ UNCHANGED <<cfgvars, written, ackedTx, expRx, rasm, ready, dlv>>

SendS(s, fn, req, p, f) ==
  /\ mode = "ertm"
  /\ fn \in {"RR", "RNR"}                        \* nothing is ever lost: no REJ / SREJ
  /\ ReqOk(s, req)
  /\ lastReq' = [lastReq EXCEPT ![s] = req]
  /\ wire' = [wire EXCEPT ![s] = Append(@, Frame("S", 0, req, "", 0, 0, 0, fn, p, f))]
  /\ UNCHANGED <<cfgvars, written, segIdx, segOff, nextTx, ackedTx, unacked, expRx, rasm, ready, dlv>>

SendB(s, len) ==
  /\ mode = "basic"
  /\ HasData(s)
  /\ len = Total(s)                              \* one SDU = one B-frame
  /\ wire' = [wire EXCEPT ![s] = Append(@, Frame("B", 0, 0, "", len, segIdx[s], 0, "", 0, 0))]
  /\ segIdx' = [segIdx EXCEPT ![s] = @ + 1]
  /\ UNCHANGED <<cfgvars, written, segOff, nextTx, ackedTx, unacked, expRx, lastReq, rasm, ready, dlv>>

\* s as sender takes the acknowledgement carried by a frame
AckN(s, req) == (req + M - ackedTx[s]) % M
Ack(s, req) ==
  IF AckN(s, req) <= unacked[s]
  THEN /\ unacked' = [unacked EXCEPT ![s] = @ - AckN(s, req)]
       /\ ackedTx' = [ackedTx EXCEPT ![s] = req]
  ELSE UNCHANGED <<unacked, ackedTx>>             \* acknowledges what was never sent: ignored (Inv_Ack: never)

Recv(s) ==
  /\ wire[O(s)] # <<>>
  /\ LET fr == Head(wire[O(s)]) IN
     /\ wire' = [wire EXCEPT ![O(s)] = Tail(@)]
     /\ CASE fr.k = "S" ->
               /\ Ack(s, fr.req)
               /\ UNCHANGED <<expRx, rasm, ready>>
          [] fr.k = "B" ->
               /\ ready' = [ready EXCEPT ![s] = Append(@, [id |-> fr.id, len |-> fr.len])]
               /\ UNCHANGED <<expRx, rasm, unacked, ackedTx>>
          [] fr.k = "I" ->
               /\ Ack(s, fr.req)
               /\ IF fr.tx # expRx[s]
                  THEN UNCHANGED <<expRx, rasm, ready>>      \* out of sequence: dropped (Inv_Seq: never)
                  ELSE /\ expRx' = [expRx EXCEPT ![s] = (@ + 1) % M]
                       /\ CASE fr.sar = "U" ->
                                 /\ ready' = [ready EXCEPT ![s] = Append(@, [id |-> fr.id, len |-> fr.len])]
                                 /\ rasm' = [rasm EXCEPT ![s] = [id |-> 0, got |-> 0]]
                            [] fr.sar = "S" ->
                                 /\ rasm' = [rasm EXCEPT ![s] = [id |-> fr.id, got |-> fr.len]]
                                 /\ UNCHANGED ready
                            [] fr.sar = "C" ->
                                 /\ rasm' = [rasm EXCEPT ![s].got = @ + fr.len]
                                 /\ UNCHANGED ready
                            [] fr.sar = "E" ->
                                 /\ ready' = [ready EXCEPT ![s] = Append(@, [id |-> rasm[s].id, len |-> rasm[s].got + fr.len])]
                                 /\ rasm' = [rasm EXCEPT ![s] = [id |-> 0, got |-> 0]]
  /\ UNCHANGED <<cfgvars, written, segIdx, segOff, nextTx, lastReq, dlv>>

Deliver(s, id, len) ==
  /\ ready[s] # <<>>
  /\ Head(ready[s]) = [id |-> id, len |-> len]
  /\ ready' = [ready EXCEPT ![s] = Tail(@)]
  /\ dlv' = [dlv EXCEPT ![s] = Append(@, len)]
  /\ UNCHANGED <<cfgvars, written, segIdx, segOff, nextTx, ackedTx, unacked, wire, expRx, lastReq, rasm>>

-----------------------------------------------------------------------------
(* the property *)

IFrames(q) == SelectSeq(q, LAMBDA fr : fr.k = "I")

Inv_Window == \A s \in Sides : /\ unacked[s] <= win[O(s)]
                               /\ Len(IFrames(wire[s])) <= unacked[s]

Inv_Seq == \A s \in Sides :
             LET q == IFrames(wire[s])
                 k == Len(q)
             IN  /\ \A i \in 1..k : q[i].tx = (nextTx[s] + M * k - k + i - 1) % M
                 /\ mode = "ertm" => expRx[O(s)] = (nextTx[s] + M * k - k) % M

Inv_Ack == \A s \in Sides : \A i \in 1..Len(wire[O(s)]) :
             LET fr == wire[O(s)][i] IN
               fr.k \in {"I", "S"} =>
                 /\ AckN(s, fr.req) <= unacked[s]                  \* acknowledges only what was sent
                 /\ (i > 1 /\ wire[O(s)][i - 1].k \in {"I", "S"})   \* and never less than the frame before it
                      => AckN(s, wire[O(s)][i - 1].req) <= AckN(s, fr.req)

\* once, intact, in order
Inv_Sdus == \A s \in Sides :
              /\ Len(dlv[s]) <= Len(written[O(s)])
              /\ \A i \in 1..Len(dlv[s]) : dlv[s][i] = written[O(s)][i]
              /\ \A i \in 1..Len(ready[s]) :
                   /\ ready[s][i].id = Len(dlv[s]) + i
                   /\ ready[s][i].id <= Len(written[O(s)])
                   /\ ready[s][i].len = written[O(s)][ready[s][i].id]

InvAll == Inv_Window /\ Inv_Seq /\ Inv_Ack /\ Inv_Sdus

AllDelivered == \A s \in Sides : /\ dlv[s] = written[O(s)]
                                 /\ wire[s] = <<>>
                                 /\ ready[s] = <<>>
                                 /\ ~HasData(s)

TypeOK ==
  /\ mode \in {"basic", "ertm"}
  /\ \A s \in Sides : /\ nextTx[s] \in 0..(M - 1) /\ expRx[s] \in 0..(M - 1)
                      /\ ackedTx[s] \in 0..(M - 1) /\ lastReq[s] \in 0..(M - 1)
                      /\ unacked[s] \in 0..M /\ segIdx[s] \in 1..(Len(written[s]) + 1)

-----------------------------------------------------------------------------
(* model-checking behaviours *)

MaxLen == MaxOf(LenSet)

Done == /\ AllDelivered
        /\ PreWritten \/ \A s \in Sides : Len(written[s]) = MaxSdus[s]
        /\ UNCHANGED vars

\* handing a complete SDU to the sink is part of taking the frame (synchronous in the code), so in
\* model checking it has priority over every other step; this only removes commuting interleavings
Idle == \A s \in Sides : ready[s] = <<>>

F_Write == \E s \in Sides, len \in LenSet : ~PreWritten /\ Idle /\ WriteSdu(s, len) /\ UNCHANGED tvars
F_SendI == \E s \in Sides, len \in 0..MaxLen, req \in 0..(M - 1) :
             /\ Idle /\ HasData(s)
             /\ SendI(s, nextTx[s], req, SarOf(Total(s), segOff[s], len), len,
                      IF SarOf(Total(s), segOff[s], len) = "S" THEN Total(s) ELSE 0, 0)
             /\ UNCHANGED tvars
F_SendS == \E s \in Sides, req \in 0..(M - 1) :
             /\ Idle /\ req # lastReq[s]
             /\ SendS(s, "RR", req, 0, 0) /\ UNCHANGED tvars
F_SendB == \E s \in Sides : Idle /\ HasData(s) /\ SendB(s, Total(s)) /\ UNCHANGED tvars
F_Recv  == \E s \in Sides : Idle /\ Recv(s) /\ UNCHANGED tvars
F_Deliver == \E s \in Sides : /\ ready[s] # <<>>
                               /\ Deliver(s, Head(ready[s]).id, Head(ready[s]).len) /\ UNCHANGED tvars

NextFree == F_Write \/ F_SendI \/ F_SendS \/ F_SendB \/ F_Recv \/ F_Deliver \/ Done

(* timers and poll / final; acknowledgements are eager here (ReqSeq = expRx) to keep the graph small *)
PollP == IF PollAsFinal THEN 0 ELSE 1
PollF == IF PollAsFinal THEN 1 ELSE 0

TRecvBits(s) ==
  LET fr == Head(wire[O(s)]) IN
  /\ owesF' = [owesF EXCEPT ![s] = @ \/ (fr.k = "S" /\ fr.p = 1)]
  /\ waitF' = [waitF EXCEPT ![s] = @ /\ ~(fr.k \in {"I", "S"} /\ fr.f = 1)]

T_SendI == \E s \in Sides, len \in 0..MaxLen :
             /\ Idle /\ HasData(s) /\ ~waitF[s]
             /\ SendI(s, nextTx[s], expRx[s], SarOf(Total(s), segOff[s], len), len,
                      IF SarOf(Total(s), segOff[s], len) = "S" THEN Total(s) ELSE 0, 0)
             /\ UNCHANGED tvars
T_Ack == \E s \in Sides :                                         \* plain acknowledgement
             /\ Idle /\ ~owesF[s] /\ expRx[s] # lastReq[s]
             /\ SendS(s, "RR", expRx[s], 0, 0) /\ UNCHANGED tvars
T_Final == \E s \in Sides :                                       \* answer to a poll
             /\ Idle /\ owesF[s]
             /\ SendS(s, "RR", expRx[s], 0, 1)
             /\ owesF' = [owesF EXCEPT ![s] = FALSE] /\ UNCHANGED <<waitF, polls>>
T_Timeout == \E s \in Sides :                                     \* retransmission / monitor timer
             /\ Idle /\ polls < MaxPolls /\ mode = "ertm"
             /\ (unacked[s] > 0 \/ waitF[s])
             /\ SendS(s, "RR", expRx[s], PollP, PollF)
             /\ waitF' = [waitF EXCEPT ![s] = TRUE] /\ polls' = polls + 1 /\ UNCHANGED owesF
T_Recv == \E s \in Sides : Idle /\ Recv(s) /\ TRecvBits(s) /\ UNCHANGED polls

NextTimers == F_Write \/ T_SendI \/ T_Ack \/ T_Final \/ T_Timeout \/ T_Recv \/ F_Deliver \/ Done

SpecFree   == Init /\ [][NextFree]_vars
SpecTimers == Init /\ [][NextTimers]_vars
=============================================================================
