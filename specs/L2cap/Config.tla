------------------------------- MODULE Config -------------------------------
(* C08, set-up clause: "channel set-up ends with both ends open in the same mode or both ends closed".

   Two configuration state machines (Core specification Vol 3, Part A, 6 and 7.1) exchanging
   Connection / Configuration / Disconnection requests and responses over two order-preserving
   signalling pipes.  Side 1 initiates, side 2 has a server on the PSM.  Each side has its own
   channel spec (mode, FCS wanted); every pair is explored, matching or not.

   Requests create obligations, responses discharge them; a side's state changes when it sends a
   response or takes one, which is also how bumble's ClassicChannel works
   (on_connection_request / _response, on_configure_request / _response, send_configure_request,
   _disconnect_sync, on_disconnection_request / _response).

   What a side may answer to a Configuration Request that asks for another mode than its own:
     - refuse it (Unacceptable Parameters, proposing its own mode) or disconnect   [the standard's ways]
     - LaxBasic (named deviation, what the code does): a side in ERTM accepts a request that carries no
       Retransmission-and-Flow-Control option (= Basic) and stays in ERTM; this is harmless between two such
       implementations because the Basic side never accepts the ERTM request - TLC shows it.
   LaxAll = TRUE lets every foreign mode be accepted (the acceptance mutant "no mode check"); TLC then finds
   both ends open in different modes.                                                                     *)
EXTENDS Naturals, Sequences, FiniteSets, TLC

CONSTANTS Modes,      \* {"basic", "ertm"}
          MaxReq,     \* Configuration Requests a side may send
          LaxAll      \* BOOLEAN

Sides == {1, 2}
O(s)  == 3 - s
None  == [m |-> "none", f |-> 0]

VARIABLES
  mode,     \* mode[s]: mode of the channel spec of s
  fcs,      \* fcs[s] \in {0, 1}: s asks for FCS
  st,       \* st[s] \in {"closed", "wait_conn", "config", "open", "wait_disc"}
  started,  \* the initiator has sent its Connection Request
  wire,     \* wire[s]: signalling commands sent by s and not yet taken by the other side
  connIn,   \* connIn[s]: an unanswered Connection Request
  confIn,   \* confIn[s]: the unanswered Configuration Request [m, f], or None
  discIn,   \* discIn[s]: an unanswered Disconnection Request
  outReq,   \* outReq[s]: own Configuration Request awaiting its response
  reqMode,  \* reqMode[s]: mode in the last Configuration Request s sent
  reqFcs,   \* reqFcs[s]
  okOut,    \* okOut[s]: own request was accepted
  okIn,     \* okIn[s]: s accepted the peer's request
  inFcs,    \* inFcs[s]: FCS option in the request s accepted
  nreq      \* nreq[s]: Configuration Requests sent

vars == <<mode, fcs, st, started, wire, connIn, confIn, discIn, outReq, reqMode, reqFcs, okOut, okIn, inFcs, nreq>>
specvars == <<mode, fcs>>

Msg(t, m, f, res) == [t |-> t, m |-> m, f |-> f, res |-> res]

Init ==
  /\ mode \in [Sides -> Modes]
  /\ fcs \in [Sides -> {0, 1}]
  /\ st = [s \in Sides |-> "closed"]
  /\ started = FALSE
  /\ wire = [s \in Sides |-> <<>>]
  /\ connIn = [s \in Sides |-> FALSE]
  /\ confIn = [s \in Sides |-> None]
  /\ discIn = [s \in Sides |-> FALSE]
  /\ outReq = [s \in Sides |-> FALSE]
  /\ reqMode = [s \in Sides |-> "none"]
  /\ reqFcs = [s \in Sides |-> 0]
  /\ okOut = [s \in Sides |-> FALSE]
  /\ okIn = [s \in Sides |-> FALSE]
  /\ inFcs = [s \in Sides |-> 0]
  /\ nreq = [s \in Sides |-> 0]

Send(s, msg) == wire' = [wire EXCEPT ![s] = Append(@, msg)]

\* the operating parameters of an open end
OpMode(s) == reqMode[s]
OpFcs(s)  == IF reqFcs[s] = 1 \/ inFcs[s] = 1 THEN 1 ELSE 0

-----------------------------------------------------------------------------
(* sending *)

TxConnReq(s) ==
  /\ s = 1 /\ ~started /\ st[s] = "closed"
  /\ started' = TRUE
  /\ st' = [st EXCEPT ![s] = "wait_conn"]
  /\ Send(s, Msg("ConnReq", "none", 0, 0))
  /\ UNCHANGED <<specvars, connIn, confIn, discIn, outReq, reqMode, reqFcs, okOut, okIn, inFcs, nreq>>

TxConnRsp(s, res) ==                      \* res = 0 success, 1 pending, others refuse
  /\ connIn[s]
  /\ connIn' = [connIn EXCEPT ![s] = (res = 1)]
  /\ st' = [st EXCEPT ![s] = IF res = 0 THEN "config" ELSE @]
  /\ Send(s, Msg("ConnRsp", "none", 0, res))
  /\ UNCHANGED <<specvars, started, confIn, discIn, outReq, reqMode, reqFcs, okOut, okIn, inFcs, nreq>>

TxConfReq(s, m, f) ==
  /\ st[s] = "config" /\ ~outReq[s] /\ ~okOut[s] /\ nreq[s] < MaxReq
  /\ outReq' = [outReq EXCEPT ![s] = TRUE]
  /\ reqMode' = [reqMode EXCEPT ![s] = m]
  /\ reqFcs' = [reqFcs EXCEPT ![s] = f]
  /\ nreq' = [nreq EXCEPT ![s] = @ + 1]
  /\ Send(s, Msg("ConfReq", m, f, 0))
  /\ UNCHANGED <<specvars, st, started, connIn, confIn, discIn, okOut, okIn, inFcs>>

\* may s answer "success" to a request for mode m ?
MayAccept(s, m) == \/ m = mode[s]
                   \/ m = "basic"            \* LaxBasic
                   \/ LaxAll

OpenIf(s, oin, oout) == IF st[s] = "config" /\ oin /\ oout THEN "open" ELSE st[s]

TxConfRsp(s, res) ==                      \* res = 0 success, others refuse (1 = unacceptable parameters ...)
  /\ confIn[s] # None
  /\ st[s] = "config"
  /\ res = 0 => MayAccept(s, confIn[s].m)
  /\ confIn' = [confIn EXCEPT ![s] = None]
  /\ okIn' = [okIn EXCEPT ![s] = @ \/ res = 0]
  /\ inFcs' = [inFcs EXCEPT ![s] = IF res = 0 THEN confIn[s].f ELSE @]
  /\ st' = [st EXCEPT ![s] = OpenIf(s, okIn[s] \/ res = 0, okOut[s])]
  /\ Send(s, Msg("ConfRsp", mode[s], 0, res))
  /\ UNCHANGED <<specvars, started, connIn, discIn, outReq, reqMode, reqFcs, okOut, nreq>>

TxDiscReq(s) ==
  /\ st[s] \in {"config", "open"}
  /\ st' = [st EXCEPT ![s] = "wait_disc"]
  /\ Send(s, Msg("DiscReq", "none", 0, 0))
  /\ UNCHANGED <<specvars, started, connIn, confIn, discIn, outReq, reqMode, reqFcs, okOut, okIn, inFcs, nreq>>

TxDiscRsp(s) ==
  /\ discIn[s]
  /\ discIn' = [discIn EXCEPT ![s] = FALSE]
  /\ st' = [st EXCEPT ![s] = "closed"]
  /\ Send(s, Msg("DiscRsp", "none", 0, 0))
  /\ UNCHANGED <<specvars, started, connIn, confIn, outReq, reqMode, reqFcs, okOut, okIn, inFcs, nreq>>

-----------------------------------------------------------------------------
(* taking the next command from the peer *)

Rx(s) ==
  /\ wire[O(s)] # <<>>
  /\ LET msg == Head(wire[O(s)]) IN
     /\ wire' = [wire EXCEPT ![O(s)] = Tail(@)]
     /\ CASE msg.t = "ConnReq" ->
               /\ connIn' = [connIn EXCEPT ![s] = TRUE]
               /\ UNCHANGED <<st, confIn, discIn, outReq, okOut>>
          [] msg.t = "ConnRsp" ->
               /\ st' = [st EXCEPT ![s] = IF @ = "wait_conn"
                                          THEN (IF msg.res = 0 THEN "config" ELSE IF msg.res = 1 THEN @ ELSE "closed")
                                          ELSE @]
               /\ UNCHANGED <<connIn, confIn, discIn, outReq, okOut>>
          [] msg.t = "ConfReq" ->
               \* only a side that is configuring owes an answer; anything else is late and dropped
               /\ confIn' = [confIn EXCEPT ![s] = IF st[s] = "config" THEN [m |-> msg.m, f |-> msg.f] ELSE @]
               /\ UNCHANGED <<st, connIn, discIn, outReq, okOut>>
          [] msg.t = "ConfRsp" ->
               /\ outReq' = [outReq EXCEPT ![s] = FALSE]
               /\ okOut' = [okOut EXCEPT ![s] = @ \/ (msg.res = 0 /\ outReq[s])]
               /\ st' = [st EXCEPT ![s] = OpenIf(s, okIn[s], okOut[s] \/ (msg.res = 0 /\ outReq[s]))]
               /\ UNCHANGED <<connIn, confIn, discIn>>
          [] msg.t = "DiscReq" ->
               /\ discIn' = [discIn EXCEPT ![s] = TRUE]
               /\ UNCHANGED <<st, connIn, confIn, outReq, okOut>>
          [] msg.t = "DiscRsp" ->
               /\ st' = [st EXCEPT ![s] = IF @ = "wait_disc" THEN "closed" ELSE @]
               /\ UNCHANGED <<connIn, confIn, discIn, outReq, okOut>>
  /\ UNCHANGED <<specvars, started, reqMode, reqFcs, okIn, inFcs, nreq>>

-----------------------------------------------------------------------------
(* the property *)

BothOpenSame == /\ st[1] = "open" /\ st[2] = "open"
                /\ OpMode(1) = OpMode(2) /\ OpMode(1) = mode[1] /\ OpMode(2) = mode[2]
                /\ OpFcs(1) = OpFcs(2)
BothClosed   == st[1] = "closed" /\ st[2] = "closed"
GoodFinal    == BothOpenSame \/ BothClosed

\* never, not even in passing, two open ends that disagree
Inv_NoSplit == (st[1] = "open" /\ st[2] = "open") => BothOpenSame

TypeOK == /\ \A s \in Sides : st[s] \in {"closed", "wait_conn", "config", "open", "wait_disc"}
          /\ \A s \in Sides : nreq[s] <= MaxReq

-----------------------------------------------------------------------------
(* model checking: every state without a successor must be a good final state (CHECK_DEADLOCK TRUE).
   A side that is configuring can always give up by disconnecting (the standard's RTX time-out), so the
   model never waits for ever; whether the code does is decided on the traces (quiesce).              *)

A_ConnReq == \E s \in Sides : TxConnReq(s)
A_ConnRsp == \E s \in Sides, res \in {0, 2} : TxConnRsp(s, res)
A_ConfReq == \E s \in Sides : TxConfReq(s, mode[s], fcs[s])
A_ConfRsp == \E s \in Sides, res \in {0, 1} : TxConfRsp(s, res)
A_DiscReq == \E s \in Sides : TxDiscReq(s) /\ st[s] = "config"
A_DiscRsp == \E s \in Sides : TxDiscRsp(s)
A_Rx      == \E s \in Sides : Rx(s)
Finished  == started /\ GoodFinal /\ UNCHANGED vars

Next == A_ConnReq \/ A_ConnRsp \/ A_ConfReq \/ A_ConfRsp \/ A_DiscReq \/ A_DiscRsp \/ A_Rx \/ Finished
Spec == Init /\ [][Next]_vars
=============================================================================
