SPECIFICATION Spec
CONSTANTS
  Mtus = {2, 3}
  MpsS = {2, 3, 4}
  Inits = {0, 1, 2, 3}
  MaxCredits = 3
  MaxWritten = 6
  MaxWrite = 5
  MinSdu = 1
INVARIANT TypeOK
INVARIANT Inv_Ledger
INVARIANT Inv_NoOverrun
INVARIANT Inv_CreditCap
INVARIANT Inv_Mps
INVARIANT Inv_Mtu
INVARIANT Inv_Stream
INVARIANT Inv_Reassembly
CHECK_DEADLOCK FALSE
