---------------------------- MODULE ConfigTrace ----------------------------
(* Trace validation for C08, set-up phase: the signalling commands two real bumble Devices exchanged
   for one classic channel (read from the HCI taps by the harness' own parser) replayed through the
   actions of Config.tla, and what each end reports afterwards.

   Events (every object has all fields):
     cfg      first event: mode = <<side 1, side 2>>, fcs = <<..>> from the two ClassicChannelSpecs
     tx       s, m in {ConnReq, ConnRsp, ConfReq, ConfRsp, DiscReq, DiscRsp}, mode, fcs (ConfReq), res (responses)
     rx       s, m                 the host of s takes the next signalling command for this channel
     open     s, mode, fcs         the channel of s emits 'open'
     state    s, st, mode, fcs     at quiescence: channel.state / .mode / .fcs_enabled (st = closed when the
                                   connect call failed and there is no channel)
     quiesce                       nothing runnable any more                                         *)
EXTENDS Config, Json, IOUtils, TLCExt

Traces == JsonDeserialize(IOEnv.TRACE_FILE)

VARIABLES tid, l
allvars == <<vars, tid, l>>

T  == Traces[tid]
Ev == T[l]
S  == Ev.s

HeadOk == wire[O(S)] # <<>> /\ Head(wire[O(S)]).t = Ev.m

Reports == /\ Ev.st = st[S]
           /\ Ev.st = "open" => (Ev.mode = OpMode(S) /\ Ev.fcs = OpFcs(S))

Act ==
  \/ Ev.e = "tx" /\ Ev.m = "ConnReq" /\ TxConnReq(S)
  \/ Ev.e = "tx" /\ Ev.m = "ConnRsp" /\ TxConnRsp(S, Ev.res)
  \/ Ev.e = "tx" /\ Ev.m = "ConfReq" /\ TxConfReq(S, Ev.mode, Ev.fcs)
  \/ Ev.e = "tx" /\ Ev.m = "ConfRsp" /\ TxConfRsp(S, Ev.res)
  \/ Ev.e = "tx" /\ Ev.m = "DiscReq" /\ TxDiscReq(S)
  \/ Ev.e = "tx" /\ Ev.m = "DiscRsp" /\ TxDiscRsp(S)
  \/ Ev.e = "rx" /\ HeadOk /\ Rx(S)
  \/ Ev.e = "open"  /\ st[S] = "open" /\ Ev.mode = OpMode(S) /\ Ev.fcs = OpFcs(S) /\ UNCHANGED vars
  \/ Ev.e = "state" /\ Reports /\ UNCHANGED vars
  \/ Ev.e = "quiesce" /\ GoodFinal /\ UNCHANGED vars

Step == /\ l <= Len(T)
        /\ Act
        /\ Inv_NoSplit'
        /\ l' = l + 1 /\ tid' = tid

Done2 == /\ l = Len(T) + 1
         /\ PrintT(<<"ACCEPT", tid>>)
         /\ UNCHANGED allvars

Clauses ==
  CASE Ev.e = "tx" /\ Ev.m = "ConfRsp" ->
         [request |-> confIn[S] # None, configuring |-> st[S] = "config",
          mode |-> confIn[S] # None /\ (Ev.res = 0 => MayAccept(S, confIn[S].m))]
    [] Ev.e = "tx" /\ Ev.m = "ConfReq" ->
         [configuring |-> st[S] = "config", outstanding |-> ~outReq[S], needed |-> ~okOut[S]]
    [] Ev.e = "tx" /\ Ev.m = "ConnRsp" -> [request |-> connIn[S]]
    [] Ev.e = "tx" /\ Ev.m = "DiscRsp" -> [request |-> discIn[S]]
    [] Ev.e = "tx" /\ Ev.m = "DiscReq" -> [connected |-> st[S] \in {"config", "open"}]
    [] Ev.e = "tx" /\ Ev.m = "ConnReq" -> [fresh |-> ~started /\ st[S] = "closed"]
    [] Ev.e = "rx" -> [wire |-> HeadOk]
    [] Ev.e = "open" -> [isopen |-> st[S] = "open", mode |-> Ev.mode = OpMode(S), fcs |-> Ev.fcs = OpFcs(S)]
    [] Ev.e = "state" -> [state |-> Ev.st = st[S], mode |-> Ev.st = "open" => Ev.mode = OpMode(S),
                          fcs |-> Ev.st = "open" => Ev.fcs = OpFcs(S)]
    [] Ev.e = "quiesce" -> [bothopen |-> st[1] = "open" /\ st[2] = "open", bothclosed |-> BothClosed,
                            samemode |-> OpMode(1) = OpMode(2), samefcs |-> OpFcs(1) = OpFcs(2)]
    [] OTHER -> [unknown |-> FALSE]

Stuck == /\ l <= Len(T)
         /\ ~ENABLED Step
         /\ PrintT(<<"REJECT", tid, l, Ev, Clauses,
                     [st |-> st, mode |-> mode, reqMode |-> reqMode, okIn |-> okIn, okOut |-> okOut,
                      outReq |-> outReq, nwire |-> <<Len(wire[1]), Len(wire[2])>>]>>)
         /\ UNCHANGED allvars

C == Traces[tid][1]

TraceInit ==
  /\ tid \in 1..Len(Traces)
  /\ l = 2
  /\ mode = <<C.mode[1], C.mode[2]>>
  /\ fcs = <<C.fcs[1], C.fcs[2]>>
  /\ st = <<"closed", "closed">>
  /\ started = FALSE
  /\ wire = <<<<>>, <<>>>>
  /\ connIn = <<FALSE, FALSE>>
  /\ confIn = <<None, None>>
  /\ discIn = <<FALSE, FALSE>>
  /\ outReq = <<FALSE, FALSE>>
  /\ reqMode = <<"none", "none">>
  /\ reqFcs = <<0, 0>>
  /\ okOut = <<FALSE, FALSE>>
  /\ okIn = <<FALSE, FALSE>>
  /\ inFcs = <<0, 0>>
  /\ nreq = <<0, 0>>

TraceNext == Step \/ Done2 \/ Stuck
TraceSpec == TraceInit /\ [][TraceNext]_allvars
=============================================================================
