--------------------------- MODULE ChanTableTrace ---------------------------
(* Trace validation for C09.  One trace = one history executed on a real network (one central holding two
   links on ONE ChannelManager, two peripherals: real bumble stacks or scripted raw L2CAP peers).  The driver
   issues a batch of user operations (possibly on both links and from both sides at once), lets the virtual
   time event loop run until nothing moves any more, and then logs what it observes:

     op       o s c k kind psm S t   user operation number o issued by side s on connection c:
                                       k = open (kind, psm class, S = the CIDs the side allocated), close / abort /
                                       drain (S = <<own CID>>), cancel (t = number of the open being given up)
     linkdown o c                     somebody disconnects the link of c (takes effect at some later point)
     linkup   o c                     the link is established again
     res      o out                   the awaited call of operation o ended: ok / refused / error
     tables   s c S L R g             at quiescence: keys of channels[handle] (S), of le_coc_channels[handle] (L; R = 99:
                                       the private tables are not observable), number of pending requests (R), entries
                                       of any table that belong to no live connection (g)
     quiesce  W                       at quiescence: the operations whose awaited call has not ended
   Every record also carries nx = for (c,1) (p,1) (c,2) (p,2) the index of the next `tables` record of that end, or 0
   (computed by the driver from the log itself; it only prunes the search, see AcceptPool).

   op / linkdown / linkup are the user actions of ChanTable.tla with their arguments.  What the stacks do in
   between (the Recv* handlers, the link actually going away, a drain returning) is not logged: those actions are
   taken silently, in any order the specification allows, and the observations decide which of them happened.
   A trace is accepted iff SOME such execution of the specification explains every observation.

   After a local abort() / cancelled connect the other end keeps an orphan, and what the two ends make of each
   other's later requests on that link is no longer determined by the property.  The batch in which the abort
   happens is still checked in full (the aborting side's tables, the waiters it releases); from the quiescence
   after it the link is "untracked" until it drops: its observations are accepted as they come, except that
   nothing may refer to a dead connection and that every call has ended once the link is gone.           *)
EXTENDS ChanTable, Json, IOUtils, TLCExt

Traces == JsonDeserialize(IOEnv.TRACE_FILE)

VARIABLES tid, l, dying, untr, lops, lfin
tvars == <<vars, tid, l, dying, untr, lops, lfin>>

T  == Traces[tid]
Ev == T[l]
SetOf(q) == {q[i] : i \in DOMAIN q}
NoObs == 99

(* look-ahead that only prunes the search: a channel accepted silently by side s on c shows up in the next
   `tables` observation of (s, c): nothing closes it before (operations name channels that were open when they
   were issued); the driver gives no index when the link is dropped in between.  On a link with orphans a channel may be
   closed again before it is observed: there the pool is every CID that end is ever seen with, plus one unseen CID *)
NxIdx(s, c) == 2 * (c - 1) + (IF s = "c" THEN 1 ELSE 2)
Lowest(S) == IF S = {} THEN {} ELSE {CHOOSE x \in S : \A y \in S : x <= y}
AcceptPool(s, c) == IF c > 2 THEN Cids
                    ELSE IF taint[c] THEN SetOf(T[1].seen[NxIdx(s, c)]) \cup Lowest(Cids \ table[s][c])
                    ELSE IF Ev.nx[NxIdx(s, c)] = 0 THEN Cids ELSE SetOf(T[Ev.nx[NxIdx(s, c)]].S)
\* does the outcome the implementation reported fit the way the specification ended the operation?
OutOk(op, specOut, out) ==
    \/ specOut = "ok"      /\ out = "ok"
    \/ specOut = "refused" /\ out = "refused"
    \/ specOut = "partial" /\ out \in {"ok", "refused"}        \* some channels of the request exist: the call may return or raise
    \/ specOut = "gone"    /\ op = "connect" /\ out \in {"error", "refused"}
    \/ specOut = "gone"    /\ op # "connect" /\ out \in {"ok", "error"}

Keep == UNCHANGED <<dying, untr, lops, lfin>>

Tracked ==
    \/ /\ Ev.k = "open" /\ OpenReq(Ev.s, Ev.c, Ev.kind, SetOf(Ev.S), Ev.psm)
    \/ /\ Ev.k = "close" /\ CloseReq(Ev.s, Ev.c, Ev.S[1])
    \/ /\ Ev.k = "abort" /\ Abort(Ev.s, Ev.c, Ev.S[1])
    \/ /\ Ev.k = "drain" /\ Drain(Ev.s, Ev.c, Ev.S[1])
    \/ /\ Ev.k = "cancel" /\ \E w \in waiters : w.o = Ev.t /\ w.op = "connect" /\ CancelConnect(w.s, w.c, w.key)

UserAct ==
    \/ /\ Ev.e = "op" /\ Ev.o = ops + 1 /\ Ev.c \notin untr
       /\ Tracked /\ Keep
    \/ /\ Ev.e = "op" /\ Ev.o = ops + 1 /\ Ev.c \in untr
       /\ Tick /\ lops' = lops \cup {<<Ev.o, Ev.c>>}
       /\ UNCHANGED <<chan, table, leTable, req, waiters, done, link, msgs, taint, unjust, dying, untr, lfin>>
    \/ /\ Ev.e = "linkdown" /\ Ev.o = ops + 1 /\ link[Ev.c]
       /\ Tick
       /\ dying' = [dying EXCEPT ![Ev.c] = TRUE]
       /\ UNCHANGED <<chan, table, leTable, req, waiters, done, link, msgs, taint, unjust, untr, lops, lfin>>
    \/ /\ Ev.e = "linkup" /\ Ev.o = ops + 1 /\ ~dying[Ev.c] /\ LinkUp(Ev.c) /\ Keep

NewUntr == {c \in Conns : taint[c]} \ untr

Observe ==
    \/ /\ Ev.e = "res"
       /\ \/ \E d \in done : /\ d.o = Ev.o /\ OutOk(d.op, d.out, Ev.out)
                             /\ done' = done \ {d}
                             /\ UNCHANGED <<waiters, lfin>>
          \/ \E w \in waiters : /\ w.o = Ev.o /\ w.op \in {"disconnect", "drain"} /\ Ev.out \in {"ok", "error"}   \* returning early is not this property's business
                                /\ waiters' = waiters \ {w}
                                /\ UNCHANGED <<done, lfin>>
          \/ /\ \E p \in lops : p[1] = Ev.o
             /\ UNCHANGED <<waiters, done, lfin>>
          \/ /\ Ev.o \in lfin
             /\ lfin' = lfin \ {Ev.o}
             /\ UNCHANGED <<waiters, done>>
       /\ UNCHANGED <<chan, table, leTable, req, link, msgs, ops, taint, unjust, dying, untr, lops>>
    \/ /\ Ev.e = "tables" /\ Ev.c \notin untr
       /\ Quiet(Ev.c) /\ ~dying[Ev.c]
       /\ table[Ev.s][Ev.c] = SetOf(Ev.S)
       /\ (Ev.R = NoObs \/ taint[Ev.c] \/ leTable[Ev.s][Ev.c] = SetOf(Ev.L))
       /\ (Ev.R = NoObs \/ Cardinality(req[Ev.s][Ev.c]) = Ev.R)
       /\ Ev.g = 0
       /\ UNCHANGED <<vars, dying, untr, lops, lfin>>
    \/ /\ Ev.e = "tables" /\ Ev.c \in untr
       /\ ~dying[Ev.c] /\ Ev.g = 0
       /\ UNCHANGED <<vars, dying, untr, lops, lfin>>
    \/ /\ Ev.e = "quiesce"
       /\ \A c \in Conns : ~dying[c] /\ (c \notin untr => Quiet(c))
       /\ done = {}
       /\ SetOf(Ev.W) \subseteq {w.o : w \in waiters} \cup {p[1] : p \in lops}
       \* links tainted in this batch are untracked from here on
       /\ untr' = untr \cup NewUntr
       /\ lops' = lops \cup {<<w.o, w.c>> : w \in {x \in waiters : x.c \in NewUntr}}
       /\ waiters' = {w \in waiters : w.c \notin NewUntr}
       /\ msgs' = [c \in Conns |-> IF c \in NewUntr THEN [s \in Sides |-> <<>>] ELSE msgs[c]]
       /\ UNCHANGED <<chan, table, leTable, req, done, link, ops, taint, unjust, dying, lfin>>

Step == /\ l <= Len(T)
        /\ (UserAct \/ Observe)
        /\ l' = l + 1 /\ tid' = tid

(* what the stacks do on their own.  Handlers of different sides and of different connections commute (each changes
   its own side's tables and appends to the other side's queue; Frame_Indep), so only one order is explored: the
   lowest (connection, side) that has something to do goes first - except between the two sides of a link that is
   about to drop.  When the link of a connection actually goes
   away relative to that connection's handlers does matter and is explored.  A drain returns silently only when
   its `res` is the next observation.                                                                        *)
\* (on a link with orphans a configuration may never end: it is not "work" that others have to wait for)
HasWork(c, s) == c \notin untr /\ (msgs[c][s] # <<>> \/ (~taint[c] /\ \E ch \in chan[s][c] : ch.st = "config"))
Rank(c, s)    == 2 * c + (IF s = "c" THEN 0 ELSE 1)
\* (while a link drop is pending on c, WHERE the two ends of c are cut matters: every interleaving of c's two sides is explored)
First(c, s)   == \A c2 \in Conns, s2 \in Sides : (Rank(c2, s2) < Rank(c, s) /\ HasWork(c2, s2)) => (c2 = c /\ dying[c])
Handlers(s, c) == RecvCreqP(s, c, AcceptPool(s, c)) \/ RecvCrsp(s, c) \/ RecvDreq(s, c) \/ RecvDrsp(s, c) \/ ConfigDone(s, c)

Silent == /\ l <= Len(T)
          /\ \/ \E c \in Conns \ untr, s \in Sides : First(c, s) /\ Handlers(s, c) /\ Keep
             \/ \E c \in Conns : /\ dying[c] /\ (\A c2 \in Conns, s2 \in Sides : c2 < c => ~HasWork(c2, s2))
                                 /\ LinkGone(c) /\ UNCHANGED ops
                                 /\ dying' = [dying EXCEPT ![c] = FALSE]
                                 /\ untr' = untr \ {c}
                                 /\ lops' = {p \in lops : p[2] # c}
                                 /\ lfin' = lfin \cup {p[1] : p \in {q \in lops : q[2] = c}}
             \/ \E w \in waiters : Ev.e = "res" /\ Ev.o = w.o /\ DrainDone(w) /\ Keep
          /\ UNCHANGED <<tid, l>>

Done == /\ l = Len(T) + 1
        /\ PrintT(<<"ACCEPT", tid>>)
        /\ UNCHANGED tvars

\* the clauses of the refused observation, evaluated in the (dead end) state it was refused in
Why ==
    IF Ev.e = "tables"
    THEN [quiet |-> ~dying[Ev.c] /\ (Ev.c \in untr \/ Quiet(Ev.c)),
          S |-> (Ev.c \in untr \/ table[Ev.s][Ev.c] = SetOf(Ev.S)),
          L |-> (Ev.c \in untr \/ Ev.R = NoObs \/ taint[Ev.c] \/ leTable[Ev.s][Ev.c] = SetOf(Ev.L)),
          R |-> (Ev.c \in untr \/ Ev.R = NoObs \/ Cardinality(req[Ev.s][Ev.c]) = Ev.R),
          g |-> Ev.g = 0]
    ELSE IF Ev.e = "quiesce"
    THEN [quiet |-> \A c \in Conns : ~dying[c] /\ (c \notin untr => Quiet(c)),
          reported |-> done = {},
          released |-> SetOf(Ev.W) \subseteq {w.o : w \in waiters} \cup {p[1] : p \in lops}]
    ELSE IF Ev.e = "res"
    THEN [ended |-> \E d \in done : d.o = Ev.o,
          outcome |-> \E d \in done : d.o = Ev.o /\ OutOk(d.op, d.out, Ev.out)]
    ELSE [enabled |-> FALSE]

Stuck == /\ l <= Len(T)
         /\ ~ENABLED (Step \/ Silent)
         /\ PrintT(<<"REJECT", tid, l, Ev,
                     [why |-> Why,
                      st |-> [table |-> table, leTable |-> leTable, req |-> req, link |-> link, taint |-> taint, untracked |-> untr,
                              waiters |-> {[o |-> w.o, op |-> w.op] : w \in waiters} \cup {[o |-> p[1], op |-> "untracked"] : p \in lops},
                              done |-> done,
                              inflight |-> [c \in Conns |-> Len(msgs[c]["c"]) + Len(msgs[c]["p"])]]]>>)
         /\ UNCHANGED tvars

TraceInit == Init /\ tid \in 1..Len(Traces) /\ l = 1 /\ dying = [c \in Conns |-> FALSE]
             /\ untr = {} /\ lops = {} /\ lfin = {}
TraceNext == Step \/ Silent \/ Done \/ Stuck
TraceSpec == TraceInit /\ [][TraceNext]_tvars
=============================================================================
