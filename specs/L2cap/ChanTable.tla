------------------------------ MODULE ChanTable ------------------------------
(* C09: L2CAP channel tables stay exact; closed identifiers are reusable; waiters are released.

   Two sides per connection: "c" (the central: ONE channel manager holding every connection)
   and "p" (the peripheral of that connection).  Connections in LeConns carry LE credit based
   ("le") and enhanced credit based ("ecred") channels, the others classic channels.

   Ground truth   chan[s][c]    the channels side s believes to exist on connection c
                                (scid = its own CID, dcid = the peer's, st = connecting / open / closing)
   Bookkeeping    table[s][c]   keys of ChannelManager.channels[handle]        (own CIDs)
                  leTable[s][c] keys of ChannelManager.le_coc_channels[handle]  (peer CIDs, credit based kinds)
                  req[s][c]     pending connection requests (le_coc_requests, pending_credit_based_connections)
   The bookkeeping is what the code consults (duplicate source CID check, free CID search, "too many
   concurrent requests"); the invariants say that it always equals what the ground truth implies.
   One action per signalling step: a user operation puts a request on the per-connection, per-direction
   FIFO msgs[c][receiver]; Recv* actions are the handlers of the receiving side.

   The named deviations in Bugs are the defects this property was written for; each must break the
   invariant given in the driver (negative controls: the invariants are not vacuous).           *)
EXTENDS Naturals, FiniteSets, Sequences, TLC

CONSTANTS Conns,        \* connection ids, e.g. {1, 2}
          LeConns,      \* subset of Conns that are LE links
          Cids,         \* dynamic CID pool of every (side, connection), e.g. {1, 2}
          MaxOps,       \* bound on user operations in one history
          MaxReq,       \* signalling identifiers 1..MaxReq: bound on requests of one side outstanding on one connection
          MaxN,         \* channels per enhanced credit based request (1..MaxN)
          RecordDone,   \* TRUE: keep operation numbers and outcomes (replay / trace validation); FALSE: model checking
          UserOps,      \* user operations enabled: subset of {"open", "cancel", "close", "abort", "drain", "down", "up"}; "partial": enhanced requests may be accepted in part
          Kinds,        \* channel kinds used: subset of {"le", "ecred", "classic"}
          Atomic,       \* TRUE: a user operation other than LinkDown waits until nothing of its connection is in flight
          Bugs          \* named deviations (empty set = the property's reference behaviour)

VARIABLES chan, table, leTable, req, waiters, done, link, msgs, ops, taint, unjust

vars == <<chan, table, leTable, req, waiters, done, link, msgs, ops, taint, unjust>>

Sides   == {"c", "p"}
Peer(s) == IF s = "c" THEN "p" ELSE "c"
LeKinds == {"le", "ecred"}
KindsOn(c) == Kinds \cap (IF c \in LeConns THEN LeKinds ELSE {"classic"})
Psms    == {"srv", "none"}                 \* a PSM somebody listens on / one nobody listens on

Used(s, c)     == {ch.scid : ch \in chan[s][c]}
FreeCids(s, c) == Cids \ table[s][c]       \* what find_free_*_cid looks at
PeerCids(s, c) == IF c \in LeConns THEN {ch.dcid : ch \in {x \in chan[s][c] : x.st # "connecting"}} ELSE {}

Send(m, c, to) == [msgs EXCEPT ![c][to] = Append(@, m)]
Pop(c, at)     == [msgs EXCEPT ![c][at] = Tail(@)]
\* identifiers side s cannot use for a new request on c: still awaited, or still travelling (request given up)
LiveIds(s, c) == {ch.rid : ch \in {x \in chan[s][c] : x.st \in {"connecting", "config"}}}
                 \cup {msgs[c][Peer(s)][i].id : i \in {j \in DOMAIN msgs[c][Peer(s)] : msgs[c][Peer(s)][j].t = "creq"}}
                 \cup {msgs[c][s][i].id : i \in {j \in DOMAIN msgs[c][s] : msgs[c][s][j].t = "crsp"}}
FreeIds(s, c) == (1..MaxReq) \ LiveIds(s, c)
HasMsg(c, at, t) == msgs[c][at] # <<>> /\ Head(msgs[c][at]).t = t

\* waiters of (s, c) that hang on the channels with own CID in scids / on request rid
OnChans(s, c, scids) == {w \in waiters : w.s = s /\ w.c = c /\ w.op \in {"disconnect", "drain"} /\ w.key \in scids}
OnReq(s, c, rid)     == {w \in waiters : w.s = s /\ w.c = c /\ w.op = "connect" /\ w.key = rid}
Finish(ws, out)      == IF RecordDone THEN done \cup {[o |-> w.o, op |-> w.op, out |-> out] : w \in ws} ELSE done
OpNo                 == IF RecordDone THEN ops + 1 ELSE 0
Budget               == MaxOps = 0 \/ ops < MaxOps          \* MaxOps = 0: histories of any length (finite state: bounded by MaxReq)
Tick                 == ops' = IF MaxOps = 0 /\ ~RecordDone THEN 0 ELSE ops + 1

Quiet(c)  == \A s \in Sides : msgs[c][s] = <<>> /\ (taint[c] \/ \A ch \in chan[s][c] : ch.st # "config")
Ready(c)  == link[c] /\ (Atomic => Quiet(c))

Init ==
    /\ chan    = [s \in Sides |-> [c \in Conns |-> {}]]
    /\ table   = [s \in Sides |-> [c \in Conns |-> {}]]
    /\ leTable = [s \in Sides |-> [c \in Conns |-> {}]]
    /\ req     = [s \in Sides |-> [c \in Conns |-> {}]]
    /\ waiters = {}
    /\ done    = {}
    /\ link    = [c \in Conns |-> TRUE]
    /\ msgs    = [c \in Conns |-> [s \in Sides |-> <<>>]]
    /\ ops     = 0
    /\ taint   = [c \in Conns |-> FALSE]
    /\ unjust  = FALSE

-----------------------------------------------------------------------------
(* user operation: open n channels of a kind towards a PSM (create_l2cap_channel /
   create_enhanced_credit_based_channels).  scs = the CIDs the side allocates (free choice).   *)
OpenReq(s, c, kind, scs, psm) ==
    /\ "open" \in UserOps
    /\ Ready(c) /\ Budget
    /\ kind \in KindsOn(c) /\ psm \in Psms
    /\ scs \subseteq FreeCids(s, c) /\ scs # {}
    /\ FreeIds(s, c) # {}
    /\ Cardinality(scs) <= (IF kind = "ecred" THEN MaxN ELSE 1)
    /\ Tick
    /\ LET rid == CHOOSE i \in FreeIds(s, c) : \A j \in FreeIds(s, c) : i <= j
           o   == OpNo
       IN IF "req_by_ident" \in Bugs /\ kind = "le" /\ \E c2 \in Conns : rid \in req[s][c2]
          THEN \* deviation: the request table is keyed by the identifier alone -> spurious local failure
               /\ done' = Finish({[o |-> o, op |-> "connect"]}, "gone")
               /\ unjust' = TRUE
               /\ UNCHANGED <<chan, table, leTable, req, waiters, link, msgs, taint>>
          ELSE /\ chan'  = [chan EXCEPT ![s][c] = @ \cup {[scid |-> x, dcid |-> 0, st |-> "connecting", rid |-> rid] : x \in scs}]
               /\ table' = [table EXCEPT ![s][c] = @ \cup scs]
               /\ req'   = [req EXCEPT ![s][c] = @ \cup {rid}]
               /\ waiters' = waiters \cup {[o |-> o, s |-> s, c |-> c, op |-> "connect", key |-> rid]}
               /\ msgs'  = Send([t |-> "creq", kind |-> kind, id |-> rid, scids |-> scs, psm |-> psm, map |-> {}, ok |-> TRUE], c, Peer(s))
               /\ UNCHANGED <<leTable, done, link, taint, unjust>>

(* the receiving side handles a connection request: refuse (no server, source CID already
   allocated, no CID left) or accept with CIDs of its own choice                              *)
RecvCreqP(r, c, pool) ==          \* pool: the CIDs the accepting side may pick from (model checking: any)
    /\ HasMsg(c, r, "creq")
    /\ LET m      == Head(msgs[c][r])
           s      == Peer(r)
           dupChk == IF m.kind \in LeKinds THEN m.scids \cap leTable[r][c] # {} ELSE FALSE     \* what the code looks at
           dupReal == m.kind \in LeKinds /\ m.scids \cap PeerCids(r, c) # {}                     \* what is true
           noRoom == Cardinality(FreeCids(r, c)) < Cardinality(m.scids)
           must   == m.psm = "none" \/ dupChk \/ noRoom
       IN \E refuse \in (IF taint[c] /\ ~noRoom THEN BOOLEAN ELSE {must}) :
          IF refuse
          THEN /\ msgs' = [msgs EXCEPT ![c][r] = Tail(@),
                                       ![c][s] = Append(@, [t |-> "crsp", kind |-> m.kind, id |-> m.id, scids |-> m.scids, psm |-> m.psm, map |-> {}, ok |-> FALSE])]
               /\ unjust' = (unjust \/ (m.psm = "srv" /\ ~noRoom /\ ~dupReal /\ ~taint[c]))
               /\ UNCHANGED <<chan, table, leTable, req, waiters, done, link, ops, taint>>
          ELSE \* an enhanced request may be accepted in part ("some connections refused"): the channels accepted exist
               \E acc \in (IF m.kind = "ecred" /\ "partial" \in UserOps THEN (SUBSET m.scids) \ {{}} ELSE {m.scids}) :
               \E f \in [acc -> FreeCids(r, c) \cap pool] :
               /\ \A x, y \in acc : x # y => f[x] # f[y]
               /\ chan'  = [chan EXCEPT ![r][c] = @ \cup {[scid |-> f[x], dcid |-> x, st |-> IF m.kind = "classic" THEN "config" ELSE "open", rid |-> 0] : x \in acc}]
               /\ table' = [table EXCEPT ![r][c] = @ \cup {f[x] : x \in acc}]
               /\ leTable' = IF m.kind \in LeKinds
                             THEN [leTable EXCEPT ![r][c] = @ \cup (IF "local_cid_key" \in Bugs /\ m.kind = "ecred"
                                                                    THEN {f[x] : x \in acc} ELSE acc)]
                             ELSE leTable
               /\ msgs' = [msgs EXCEPT ![c][r] = Tail(@),
                                       ![c][s] = Append(@, [t |-> "crsp", kind |-> m.kind, id |-> m.id, scids |-> m.scids, psm |-> m.psm,
                                                             map |-> {<<x, f[x]>> : x \in acc}, ok |-> TRUE])]
               /\ UNCHANGED <<req, waiters, done, link, ops, taint, unjust>>

RecvCreq(r, c) == RecvCreqP(r, c, Cids)

(* the requesting side handles the response *)
RecvCrsp(s, c) ==
    /\ HasMsg(c, s, "crsp")
    /\ LET m    == Head(msgs[c][s])
           mine == {ch \in chan[s][c] : ch.st = "connecting" /\ ch.rid = m.id}
           dcidOf(x) == (CHOOSE p \in m.map : p[1] = x)[2]
       IN /\ msgs' = Pop(c, s)
          /\ IF mine = {}
             THEN \* the request was given up locally (cancelled): a channel the peer opened is an orphan there
                  UNCHANGED <<chan, table, leTable, req, waiters, done>>
             ELSE /\ IF m.ok
                     THEN LET got == {ch \in mine : \E p \in m.map : p[1] = ch.scid}
                          IN /\ chan' = [chan EXCEPT ![s][c] = (@ \ mine) \cup {IF m.kind = "classic" THEN [ch EXCEPT !.dcid = dcidOf(ch.scid), !.st = "config"]
                                                                                     ELSE [ch EXCEPT !.dcid = dcidOf(ch.scid), !.st = "open", !.rid = 0] : ch \in got}]
                             /\ leTable' = IF m.kind \in LeKinds THEN [leTable EXCEPT ![s][c] = @ \cup {p[2] : p \in m.map}] ELSE leTable
                             /\ table' = [table EXCEPT ![s][c] = @ \ {ch.scid : ch \in mine \ got}]
                     ELSE /\ chan' = [chan EXCEPT ![s][c] = @ \ mine]
                          /\ table' = [table EXCEPT ![s][c] = @ \ {ch.scid : ch \in mine}]
                          /\ leTable' = leTable
                  /\ req' = IF "req_by_ident" \in Bugs /\ m.kind = "le"
                            THEN [req EXCEPT ![s] = [c2 \in Conns |-> @[c2] \ {m.id}]]        \* deviation: pops whatever connection holds that identifier
                            ELSE [req EXCEPT ![s][c] = @ \ {m.id}]
                  /\ IF m.ok /\ m.kind = "classic"
                     THEN UNCHANGED <<waiters, done>>          \* the classic connect returns once the channel is configured
                     ELSE /\ waiters' = waiters \ OnReq(s, c, m.id)
                          /\ done' = Finish(OnReq(s, c, m.id), IF ~m.ok THEN "refused"
                                                                ELSE IF Cardinality(m.map) = Cardinality(mine) THEN "ok" ELSE "partial")
    /\ UNCHANGED <<link, ops, taint, unjust>>

(* classic channels: the configuration exchange that follows a successful connection response has ended *)
ConfigDone(s, c) ==
    /\ link[c]
    /\ \E ch \in chan[s][c] :
         /\ ch.st = "config"
         /\ chan' = [chan EXCEPT ![s][c] = (@ \ {ch}) \cup {[ch EXCEPT !.st = "open", !.rid = 0]}]
         /\ waiters' = waiters \ OnReq(s, c, ch.rid)
         /\ done' = Finish(OnReq(s, c, ch.rid), "ok")
    /\ UNCHANGED <<table, leTable, req, link, msgs, ops, taint, unjust>>

(* user operation: the connect is given up while the request is outstanding (the awaiting task is cancelled) *)
CancelConnect(s, c, rid) ==
    /\ "cancel" \in UserOps
    /\ link[c] /\ Budget          \* like LinkDown, a cancellation falls between the request and its response
    /\ OnReq(s, c, rid) # {}
    /\ Tick
    /\ LET mine == {ch \in chan[s][c] : ch.st \in {"connecting", "config"} /\ ch.rid = rid}
       IN /\ chan'  = [chan EXCEPT ![s][c] = @ \ mine]
          /\ table' = [table EXCEPT ![s][c] = @ \ {ch.scid : ch \in mine}]
          /\ req'   = [req EXCEPT ![s][c] = @ \ {rid}]
          /\ waiters' = waiters \ OnReq(s, c, rid)
          /\ done'  = Finish(OnReq(s, c, rid), "gone")
    /\ taint' = [taint EXCEPT ![c] = TRUE]
    /\ UNCHANGED <<leTable, link, msgs, unjust>>

(* user operation: close an open channel (disconnect()) *)
CloseReq(s, c, cid) ==
    /\ "close" \in UserOps
    /\ Ready(c) /\ Budget
    /\ \E ch \in chan[s][c] :
         /\ ch.scid = cid /\ ch.st = "open"
         /\ chan' = [chan EXCEPT ![s][c] = (@ \ {ch}) \cup {[ch EXCEPT !.st = "closing"]}]
         /\ msgs' = Send([t |-> "dreq", kind |-> "", id |-> 0, scids |-> {ch.scid}, psm |-> "srv", map |-> {<<ch.scid, ch.dcid>>}, ok |-> TRUE], c, Peer(s))
    /\ Tick
    /\ waiters' = waiters \cup {[o |-> OpNo, s |-> s, c |-> c, op |-> "disconnect", key |-> cid]}
    /\ UNCHANGED <<table, leTable, req, done, link, taint, unjust>>

\* side s forgets channel ch (closed): tables, waiters
Forget(s, c, ch, out) ==
    /\ chan'  = [chan EXCEPT ![s][c] = @ \ {ch}]
    /\ table' = [table EXCEPT ![s][c] = @ \ {ch.scid}]
    /\ leTable' = IF c \in LeConns /\ "le_elif" \notin Bugs THEN [leTable EXCEPT ![s][c] = @ \ {ch.dcid}] ELSE leTable
    /\ LET ws == OnChans(s, c, {ch.scid})
           \* closed by the peer before the connect returned: the connect fails (with the last channel of its request)
           cs == IF ch.st \in {"connecting", "config"} /\ ~\E x \in chan[s][c] \ {ch} : x.rid = ch.rid /\ x.st \in {"connecting", "config"}
                 THEN OnReq(s, c, ch.rid) ELSE {}
       IN IF "no_release" \in Bugs
          THEN UNCHANGED <<waiters, done>>
          ELSE /\ waiters' = waiters \ (ws \cup cs)
               /\ done' = IF RecordDone THEN done \cup {[o |-> w.o, op |-> w.op, out |-> out] : w \in ws} \cup {[o |-> w.o, op |-> w.op, out |-> "gone"] : w \in cs}
                                         ELSE done

(* disconnection request arrives: the channel (in whatever state: open, or closing = both ends closed at
   the same time) is closed and answered; a request for a CID that is no channel is not answered here   *)
RecvDreq(r, c) ==
    /\ HasMsg(c, r, "dreq")
    /\ LET m == Head(msgs[c][r])
           p == CHOOSE q \in m.map : TRUE          \* <<sender's cid, receiver's cid>>
       IN \* the request names both CIDs and both have to match; on a link with orphans (after an abort) a receiver that only
          \* looks at its own CID is tolerated
          \E strict \in (IF "dreq_dcid_only" \in Bugs THEN {FALSE} ELSE IF taint[c] THEN BOOLEAN ELSE {TRUE}) :
          LET known == {ch \in chan[r][c] : ch.scid = p[2] /\ (ch.dcid = p[1] \/ ~strict)
                                             /\ (ch.st \in {"config", "open", "closing"} \/ (~strict /\ ch.st = "connecting"))}
          IN IF known = {}
             THEN /\ msgs' = Pop(c, r)
                  /\ UNCHANGED <<chan, table, leTable, req, waiters, done>>
             ELSE \E ch \in known :
                  /\ Forget(r, c, ch, "ok")
                  /\ req' = IF ch.st = "connecting" /\ ~\E x \in chan[r][c] \ {ch} : x.rid = ch.rid /\ x.st = "connecting"
                            THEN [req EXCEPT ![r][c] = @ \ {ch.rid}] ELSE req
                  /\ msgs' = [msgs EXCEPT ![c][r] = Tail(@), ![c][Peer(r)] = Append(@, [m EXCEPT !.t = "drsp"])]
    /\ UNCHANGED <<link, ops, taint, unjust>>

RecvDrsp(s, c) ==
    /\ HasMsg(c, s, "drsp")
    /\ LET m == Head(msgs[c][s])
           p == CHOOSE q \in m.map : TRUE
           mine == {ch \in chan[s][c] : ch.scid = p[1] /\ ch.dcid = p[2] /\ ch.st = "closing"}
       IN /\ msgs' = Pop(c, s)
          /\ IF mine = {}
             THEN UNCHANGED <<chan, table, leTable, waiters, done>>
             ELSE \E ch \in mine : Forget(s, c, ch, "ok")
    /\ UNCHANGED <<req, link, ops, taint, unjust>>

(* user operation: abort() - the channel is closed locally without signalling; the peer's end is an orphan *)
Abort(s, c, cid) ==
    /\ "abort" \in UserOps
    /\ Ready(c) /\ Budget
    /\ Tick
    /\ \E ch \in chan[s][c] :
         /\ ch.scid = cid /\ ch.st \in {"open", "closing"}
         /\ chan'  = [chan EXCEPT ![s][c] = @ \ {ch}]
         /\ table' = [table EXCEPT ![s][c] = @ \ {ch.scid}]
         /\ leTable' = IF c \in LeConns /\ "le_elif" \notin Bugs THEN [leTable EXCEPT ![s][c] = @ \ {ch.dcid}] ELSE leTable
         /\ waiters' = IF "no_release" \in Bugs THEN waiters ELSE waiters \ OnChans(s, c, {ch.scid})
         /\ done'  = IF "no_release" \in Bugs THEN done ELSE Finish(OnChans(s, c, {ch.scid}), "gone")
    /\ taint' = [taint EXCEPT ![c] = TRUE]
    /\ UNCHANGED <<req, link, msgs, unjust>>

(* user operation: drain() on an open credit based channel; it may return at any time (DrainDone) and has
   to return once the channel is gone                                                                    *)
Drain(s, c, cid) ==
    /\ "drain" \in UserOps
    /\ Ready(c) /\ Budget
    /\ ~\E w \in waiters : w.s = s /\ w.c = c /\ w.op = "drain" /\ w.key = cid
    /\ \E ch \in chan[s][c] : ch.scid = cid /\ ch.st = "open" /\ c \in LeConns
    /\ Tick
    /\ waiters' = waiters \cup {[o |-> OpNo, s |-> s, c |-> c, op |-> "drain", key |-> cid]}
    /\ UNCHANGED <<chan, table, leTable, req, done, link, msgs, taint, unjust>>

DrainDone(w) ==
    /\ w \in waiters /\ w.op = "drain"
    /\ waiters' = waiters \ {w}
    /\ done' = Finish({w}, "ok")
    /\ UNCHANGED <<chan, table, leTable, req, link, msgs, ops, taint, unjust>>

(* the link of connection c goes away (either side disconnects, supervision time-out ...): everything in
   flight is lost, both ends drop every channel and pending request of c, every waiter of c ends          *)
LinkGone(c) ==
    /\ link[c]
    /\ link' = [link EXCEPT ![c] = FALSE]
    /\ msgs' = [msgs EXCEPT ![c] = [s \in Sides |-> <<>>]]
    /\ chan' = [s \in Sides |-> [chan[s] EXCEPT ![c] = {}]]
    /\ table' = [s \in Sides |-> [table[s] EXCEPT ![c] = {}]]
    /\ leTable' = [s \in Sides |-> [leTable[s] EXCEPT ![c] = IF "keep_le_on_down" \in Bugs THEN @ ELSE {}]]
    /\ req' = [s \in Sides |-> [req[s] EXCEPT ![c] = IF "req_by_ident" \in Bugs THEN @ ELSE {}]]
    /\ taint' = [taint EXCEPT ![c] = FALSE]
    /\ LET ws == {w \in waiters : w.c = c /\ ("no_release" \notin Bugs \/ w.op = "connect")}
       IN /\ waiters' = waiters \ ws
          /\ done' = Finish(ws, "gone")
    /\ UNCHANGED <<unjust>>

LinkDown(c) == "down" \in UserOps /\ Budget /\ Tick /\ LinkGone(c)

LinkUp(c) ==
    /\ "up" \in UserOps
    /\ ~link[c] /\ Budget
    /\ link' = [link EXCEPT ![c] = TRUE]
    /\ Tick
    /\ UNCHANGED <<chan, table, leTable, req, waiters, done, msgs, taint, unjust>>

-----------------------------------------------------------------------------
Internal(c) == \E s \in Sides : RecvCreq(s, c) \/ RecvCrsp(s, c) \/ RecvDreq(s, c) \/ RecvDrsp(s, c) \/ ConfigDone(s, c)

OnConn(c) ==
    \/ \E s \in Sides, k \in LeKinds \cup {"classic"}, scs \in SUBSET Cids, p \in Psms : OpenReq(s, c, k, scs, p)
    \/ \E s \in Sides, rid \in 1..MaxReq : CancelConnect(s, c, rid)
    \/ \E s \in Sides, cid \in Cids : CloseReq(s, c, cid) \/ Abort(s, c, cid) \/ Drain(s, c, cid)
    \/ Internal(c)
    \/ LinkDown(c) \/ LinkUp(c)

Next == (\E c \in Conns : OnConn(c)) \/ (\E w \in waiters : DrainDone(w))

Spec == Init /\ [][Next]_vars

-----------------------------------------------------------------------------
\* properties
TypeOK ==
    /\ \A s \in Sides, c \in Conns : /\ table[s][c] \subseteq Cids /\ leTable[s][c] \subseteq Cids
                                      /\ \A ch \in chan[s][c] : ch.scid \in Cids /\ ch.st \in {"connecting", "config", "open", "closing"}

(* the tables contain exactly the channels that exist; nothing of a dead link is left *)
Inv_Exact ==
    \A s \in Sides, c \in Conns :
        /\ table[s][c]   = Used(s, c)
        /\ ~taint[c] => leTable[s][c] = PeerCids(s, c)
        /\ req[s][c]     = {ch.rid : ch \in {x \in chan[s][c] : x.st = "connecting"}}
        /\ ~link[c] => (chan[s][c] = {} /\ table[s][c] = {} /\ leTable[s][c] = {} /\ req[s][c] = {})

(* once nothing is in flight the two ends agree on the open channels (not required after a local abort / cancel: the peer's end is an orphan until the link drops) *)
OpenPairs(s, c) == {<<ch.scid, ch.dcid>> : ch \in {x \in chan[s][c] : x.st = "open"}}
Inv_Agree ==
    \A c \in Conns : (link[c] /\ Quiet(c) /\ ~taint[c]) =>
        OpenPairs("c", c) = {<<p[2], p[1]>> : p \in OpenPairs("p", c)}

(* identifiers in use are unique per connection *)
Inv_Unique ==
    \A s \in Sides, c \in Conns :
        /\ Cardinality(Used(s, c)) = Cardinality(chan[s][c])
        /\ LET le == {x \in chan[s][c] : x.st # "connecting"}
           IN (~taint[c] /\ c \in LeConns) => Cardinality({x.dcid : x \in le}) = Cardinality(le)

(* an action of one connection leaves every other connection alone *)
ConnState(c) == <<[s \in Sides |-> chan[s][c]], [s \in Sides |-> table[s][c]], [s \in Sides |-> leTable[s][c]],
                  [s \in Sides |-> req[s][c]], msgs[c], link[c], {w \in waiters : w.c = c}>>
Frame_Indep == [][\A c1, c2 \in Conns : (c1 # c2 /\ ConnState(c1)' # ConnState(c1)) => ConnState(c2)' = ConnState(c2)]_vars

(* closed identifiers are reusable: with a live link and a free CID an open is possible, and it is never
   refused or failed for a reason that is not true (stale table entry, another connection's request)      *)
Inv_Reusable ==
    /\ ~unjust
    /\ \A s \in Sides, c \in Conns :
          (link[c] /\ Cardinality(Used(s, c)) < Cardinality(Cids)) => FreeCids(s, c) # {}      \* the guard of OpenReq

(* nobody waits on something that no longer exists *)
Holds(w) ==
    /\ link[w.c]
    /\ \E ch \in chan[w.s][w.c] :
          \/ w.op = "connect"    /\ ch.st \in {"connecting", "config"} /\ ch.rid = w.key
          \/ w.op = "disconnect" /\ ch.st = "closing" /\ ch.scid = w.key
          \/ w.op = "drain"      /\ ch.st \in {"open", "closing"} /\ ch.scid = w.key
Inv_Released == \A w \in waiters : Holds(w)

\* every operation ends at most once
Inv_Once == \A d1, d2 \in done : d1.o = d2.o => d1 = d2
=============================================================================
