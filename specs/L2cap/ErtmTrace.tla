----------------------------- MODULE ErtmTrace -----------------------------
(* Trace validation for C08, data phase: what two real bumble Devices on a BR/EDR link did on one
   classic channel, replayed through the actions of Ertm.tla with M = 64.

   Events (one JSON object each; every object has all fields, unused ones 0 / ""):
     cfg      first event: mode, win / mps / mtu = <<side 1, side 2>> as read from the Configuration
              Requests on the air by the harness' own parser
     sdu_out  s, id, len            the application of s calls channel.write
     iframe   s, tx, req, sar, len, sdulen, f, ok     s hands an I-frame to its controller (HCI tap);
                                    ok = payload is the next `len` octets of the SDU being sent
     sframe   s, fn, req, p, f      likewise an S-frame
     bframe   s, len, ok            likewise a B-frame (Basic mode)
     rx       s, k, tx, req         the host of s takes the next frame from its controller
     sdu_in   s, id, len, ok        the sink of s is called; id = position of these octets among the SDUs
                                    the peer wrote (0 = none of them), ok = octets identical
     bad      s, why                a frame the parser cannot read in the agreed format (wrong FCS ...)
     quiesce                        nothing runnable, all protocol timers have fired

   Every check is a guard, so a trace that breaks the property is REJECTed with the event and the
   named clauses; InvAll' is part of the step for the same reason.                              *)
EXTENDS Ertm, Json, IOUtils, TLCExt

Traces == JsonDeserialize(IOEnv.TRACE_FILE)

VARIABLES tid, l
allvars == <<vars, tid, l>>

T  == Traces[tid]
Ev == T[l]
S  == Ev.s

IsHeadOk == /\ wire[O(S)] # <<>>
            /\ Head(wire[O(S)]).k = Ev.k
            /\ Ev.k = "I" => Head(wire[O(S)]).tx = Ev.tx
            /\ Ev.k \in {"I", "S"} => Head(wire[O(S)]).req = Ev.req

Quiet == AllDelivered

Act ==
  \/ Ev.e = "sdu_out" /\ WriteSdu(S, Ev.len) /\ Ev.id = Len(written'[S])
  \/ Ev.e = "iframe"  /\ Ev.ok = 1 /\ SendI(S, Ev.tx, Ev.req, Ev.sar, Ev.len, Ev.sdulen, Ev.f)
  \/ Ev.e = "sframe"  /\ SendS(S, Ev.fn, Ev.req, Ev.p, Ev.f)
  \/ Ev.e = "bframe"  /\ Ev.ok = 1 /\ SendB(S, Ev.len)
  \/ Ev.e = "rx"      /\ IsHeadOk /\ Recv(S)
  \/ Ev.e = "sdu_in"  /\ Ev.ok = 1 /\ Ev.id = Len(dlv[S]) + 1 /\ Deliver(S, Ev.id, Ev.len)
  \/ Ev.e = "quiesce" /\ Quiet /\ UNCHANGED vars

Step == /\ l <= Len(T)
        /\ Act
        /\ UNCHANGED tvars
        /\ InvAll'
        /\ l' = l + 1 /\ tid' = tid

Done2 == /\ l = Len(T) + 1
         /\ PrintT(<<"ACCEPT", tid>>)
         /\ UNCHANGED allvars

(* which clause fails: evaluated in the state before the offending event *)
Clauses ==
  CASE Ev.e = "iframe" ->
         [payload |-> Ev.ok = 1,
          data    |-> HasData(S),
          txseq   |-> Ev.tx = nextTx[S],
          window  |-> unacked[S] < win[O(S)],
          reqseq  |-> ReqOk(S, Ev.req),
          mps     |-> Ev.len <= mps[O(S)],
          sar     |-> HasData(S) /\ Ev.sar = SarOf(Total(S), segOff[S], Ev.len) /\ segOff[S] + Ev.len <= Total(S)
                                 /\ (Ev.len >= 1 \/ Total(S) = 0),
          sdulen  |-> HasData(S) /\ Ev.sdulen = (IF Ev.sar = "S" THEN Total(S) ELSE 0),
          mode    |-> mode = "ertm"]
    [] Ev.e = "sframe" ->
         [reqseq |-> ReqOk(S, Ev.req), fn |-> Ev.fn \in {"RR", "RNR"}, mode |-> mode = "ertm"]
    [] Ev.e = "bframe" ->
         [payload |-> Ev.ok = 1, data |-> HasData(S), whole |-> HasData(S) /\ Ev.len = Total(S), mode |-> mode = "basic"]
    [] Ev.e = "rx" ->
         [wire |-> IsHeadOk]
    [] Ev.e = "sdu_in" ->
         [intact   |-> Ev.ok = 1,
          complete |-> ready[S] # <<>>,
          order    |-> Ev.id = Len(dlv[S]) + 1,
          length   |-> ready[S] # <<>> /\ Head(ready[S]).len = Ev.len]
    [] Ev.e = "quiesce" ->
         [delivered |-> \A s \in Sides : dlv[s] = written[O(s)],
          sent      |-> \A s \in Sides : ~HasData(s),
          taken     |-> \A s \in Sides : wire[s] = <<>> /\ ready[s] = <<>>]
    [] Ev.e = "sdu_out" ->
         [mtu |-> Ev.len <= mtu[O(S)]]
    [] Ev.e = "bad" -> [wellformed |-> FALSE]
    [] OTHER -> [unknown |-> FALSE]

Stuck == /\ l <= Len(T)
         /\ ~ENABLED Step
         /\ PrintT(<<"REJECT", tid, l, Ev, Clauses,
                     [nextTx |-> nextTx, unacked |-> unacked, ackedTx |-> ackedTx, expRx |-> expRx, lastReq |-> lastReq,
                      segIdx |-> segIdx, segOff |-> segOff, nwire |-> <<Len(wire[1]), Len(wire[2])>>,
                      ready |-> ready, ndlv |-> <<Len(dlv[1]), Len(dlv[2])>>, nwritten |-> <<Len(written[1]), Len(written[2])>>,
                      win |-> win, mps |-> mps]>>)
         /\ UNCHANGED allvars

C == Traces[tid][1]

TraceInit ==
  /\ tid \in 1..Len(Traces)
  /\ l = 2
  /\ mode = C.mode
  /\ win = <<C.win[1], C.win[2]>>
  /\ mps = <<C.mps[1], C.mps[2]>>
  /\ mtu = <<C.mtu[1], C.mtu[2]>>
  /\ written = <<<<>>, <<>>>>
  /\ segIdx = <<1, 1>>
  /\ segOff = <<0, 0>>
  /\ nextTx = <<0, 0>>
  /\ ackedTx = <<0, 0>>
  /\ unacked = <<0, 0>>
  /\ wire = <<<<>>, <<>>>>
  /\ expRx = <<0, 0>>
  /\ lastReq = <<0, 0>>
  /\ rasm = <<[id |-> 0, got |-> 0], [id |-> 0, got |-> 0]>>
  /\ ready = <<<<>>, <<>>>>
  /\ dlv = <<<<>>, <<>>>>
  /\ waitF = <<FALSE, FALSE>>
  /\ owesF = <<FALSE, FALSE>>
  /\ polls = 0

TraceNext == Step \/ Done2 \/ Stuck
TraceSpec == TraceInit /\ [][TraceNext]_allvars
=============================================================================
