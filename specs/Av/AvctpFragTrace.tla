--------------------------- MODULE AvctpFragTrace ---------------------------
(* Trace validation for C19 (b), code -> spec: what the real sender put on a stub L2CAP
   channel of a given peer MTU, one event per message:
     tx(L, lab, mtu, types[], labs[], counts[], lens[], ok)
   types / labs / counts / lens = packet type, transaction label, count field (0 when the
   packet form has none) and payload length of every packet written, in order; ok = the
   harness's own parser found the remaining header fields right and the concatenated
   payloads byte-identical to the message.  The event is accepted iff the split is one the
   sender of AvctpFrag.tla may produce for that MTU (Send enabled with exactly these
   packets) and the reference assembler turns these packets into exactly that message.  *)
EXTENDS AvctpFrag, Json, IOUtils, TLC, TLCExt

Traces == JsonDeserialize(IOEnv.TRACE_FILE)

VARIABLES tid, l
tvars == <<vars, tid, l>>

T  == Traces[tid]
Ev == T[l]

RECURSIVE AssembleAll(_, _, _)
AssembleAll(a, d, ps) == IF ps = <<>> THEN <<a, d>>
                         ELSE LET r == Assemble(a, d, Head(ps)) IN AssembleAll(r[1], r[2], Tail(ps))

Pk == Packets(1, Ev.lab, Ev.lens)

G_split  == IsChunking(Ev.lens, Ev.L, Ev.mtu)                    \* every packet fits, sizes add up
G_labels == /\ Len(Ev.types) = Len(Ev.lens) /\ Len(Ev.labs) = Len(Ev.lens) /\ Len(Ev.counts) = Len(Ev.lens)
            /\ \A i \in 1..Len(Ev.lens) :
                  Pk[i].t = Ev.types[i] /\ Pk[i].lab = Ev.labs[i] /\ Pk[i].n = Ev.counts[i]
G_whole  == AssembleAll(Idle, <<>>, Pk)[2] =
               <<[m |-> 1, lab |-> Ev.lab,
                  parts |-> [i \in 1..Len(Ev.lens) |-> <<1, SumTo(Ev.lens, i - 1), Ev.lens[i]>>]]>>

Step == /\ l <= Len(T)
        /\ Ev.e = "tx"
        /\ Len(Ev.lens) >= 1
        /\ G_split /\ G_labels /\ G_whole /\ Ev.ok
        /\ l' = l + 1 /\ tid' = tid
        /\ UNCHANGED vars

Done == /\ l = Len(T) + 1
        /\ PrintT(<<"ACCEPT", tid>>)
        /\ UNCHANGED tvars

Stuck == /\ l <= Len(T)
         /\ ~ENABLED Step
         /\ PrintT(<<"REJECT", tid, l, [L |-> Ev.L, lab |-> Ev.lab, mtu |-> Ev.mtu, npk |-> Len(Ev.lens)],
                     IF Len(Ev.lens) = 0 THEN [nothing_sent |-> TRUE]
                     ELSE [split |-> G_split, labels |-> (G_split => G_labels), whole |-> ((G_split /\ G_labels) => G_whole), ok |-> Ev.ok]>>)
         /\ UNCHANGED tvars

TraceInit == Init /\ tid \in 1..Len(Traces) /\ l = 1
TraceNext == Step \/ Done \/ Stuck
TraceSpec == TraceInit /\ [][TraceNext]_tvars
=============================================================================
