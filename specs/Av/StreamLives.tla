----------------------------- MODULE StreamLives -----------------------------
(* Stream.tla with one history variable: how the PREVIOUS life of this stream object ended.
   A stream object is used again after it has returned to IDLE (configure after close / abort);
   an implementation carries state across lives (a reference to a released transport channel, a
   flag left set), so the behaviours worth replaying are not only "every edge of the state graph"
   but "every edge in every kind of later life".  hist does not constrain anything: the state graph
   of this module is Stream's, unfolded by (how the last life ended, whether it had a transport
   channel); the transition tours over it make the driver take every operation of a second life
   after every kind of first life.                                                             *)
EXTENDS Stream

VARIABLE hist
lvars == <<vars, hist>>

NoLife == [ended |-> "none", hadRtp |-> FALSE]

\* a life ends when the initiating side's stream returns to IDLE
H == hist' = IF ini # "IDLE" /\ ini' = "IDLE"
             THEN [ended |-> pend.op, hadRtp |-> rtp]
             ELSE hist

LInit == Init /\ hist = NoLife

LIssueSend(op, via)         == IssueSend(op, via) /\ H
LIssueRefuse(op)            == IssueRefuse(op) /\ H
LIssueAbortIdle(via, o)     == IssueAbortIdle(via, o) /\ H
LIssueAutoOpen              == IssueAutoOpen /\ H
LAcpHandle                  == AcpHandle /\ H
LIniComplete                == IniComplete /\ H
LRtpOpen                    == RtpOpen /\ H
LRtpClose                   == RtpClose /\ H
LInternal == LAcpHandle \/ LIniComplete \/ LRtpOpen \/ LRtpClose

LNext == \/ \E op \in Ops, via \in {"api", "raw"} : LIssueSend(op, via)
         \/ \E op \in Ops : LIssueRefuse(op)
         \/ \E via \in {"api", "raw"}, o \in {"ok", "refused"} : LIssueAbortIdle(via, o)
         \/ LIssueAutoOpen
         \/ LInternal

LSpec     == LInit /\ [][LNext]_lvars
LLiveSpec == LSpec /\ WF_lvars(LInternal)

HistOK == /\ hist.ended \in {"none", "close", "abort"}
          /\ hist.hadRtp \in BOOLEAN
          /\ (hist.ended = "none" => ~hist.hadRtp)
\* every kind of earlier life is followed by a later one within the bound (vacuity guard, checked by the driver
\* through the coverage of the graph, not an invariant)
=============================================================================
