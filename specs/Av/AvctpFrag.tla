----------------------------- MODULE AvctpFrag -----------------------------
(* C19 (b).  AVCTP message fragmentation (AVCTP 1.4, 6.1.1 - 6.1.4), bumble/avctp.py
   MessageAssembler.on_pdu.  The profile identifier (PID) is carried by the single and
   by the START packet ONLY; continue and end packets are one header byte plus data:

     single    | label:4 type=00 C/R IPID | PID:16 | payload                   3-byte header
     start     | label:4 type=01 C/R IPID | count  | PID:16 | payload          4-byte header
     continue  | label:4 type=10 C/R IPID | payload                            1-byte header
     end       | label:4 type=11 C/R IPID | payload                            1-byte header

   The PID of a reassembled message is the one of its start packet (part of `m` in the
   abstract packet: the driver gives every message its own PID and compares it).
   Everything else is FragCore (which this module extends; the header sizes are
   constants of FragCore, pinned by the ASSUME below).                                                         *)
EXTENDS FragCore

\* the header forms above; the configuration must assign exactly these
ASSUME HdrSingle = 3 /\ HdrStart = 4 /\ HdrCont = 1
=============================================================================
