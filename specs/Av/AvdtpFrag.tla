----------------------------- MODULE AvdtpFrag -----------------------------
(* C19 (b).  AVDTP signalling fragmentation (AVDTP 1.3, 8.4.2 / 8.4.3), bumble/avdtp.py
   Protocol.send_message and MessageAssembler.on_pdu.

     single    | label:4 type=00 msgtype:2 | rfa:2 signal:6 | payload          2-byte header
     start     | label:4 type=01 msgtype:2 | rfa:2 signal:6 | NOSP | payload   3-byte header
     continue  | label:4 type=10 msgtype:2 | payload                           1-byte header
     end       | label:4 type=11 msgtype:2 | payload                           1-byte header

   NOSP (number of signal packets) is the count field.  Everything else is FragCore (which this module extends; the header sizes are
   constants of FragCore, pinned by the ASSUME below).    *)
EXTENDS FragCore

\* the header forms above; the configuration must assign exactly these
ASSUME HdrSingle = 2 /\ HdrStart = 3 /\ HdrCont = 1
=============================================================================
