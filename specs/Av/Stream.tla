------------------------------- MODULE Stream -------------------------------
(* C19 (c).  One AVDTP stream seen from both ends: `ini` is the state of the initiating
   side's stream (bumble/avdtp.py Stream.configure/open/start/stop/close), `acp` the state
   of the accepting side's stream (Protocol.on_*_command -> Stream.on_*_command).
   One action per critical section: the initiator checks and sends (Issue), the acceptor
   checks and answers (AcpHandle), the initiator takes the answer (IniComplete), the
   transport channel is opened / released (RtpOpen / RtpClose).

   Procedures (AVDTP 1.3, 6.x and figure 6.2): legal in
       configure  IDLE            -> CONFIGURED
       open       CONFIGURED      -> OPEN        (then the transport channel is created)
       start      OPEN            -> STREAMING
       suspend    STREAMING       -> OPEN
       close      OPEN, STREAMING -> (CLOSING: transport channel released) -> IDLE
       abort      any but IDLE    -> (ABORTING: transport channel released) -> IDLE
   A procedure that is not legal in the current state is refused (locally by the
   initiating side's own check - via = "api" -, or by the acceptor's reject - via = "raw",
   the command put on the signalling channel without the local check, which is how the
   acceptor's refusal is exercised) and changes neither end.

   Left free (not fixed by the property):
     * abort in IDLE: accepted or refused, nothing changes;
     * start in CONFIGURED through the API: refused, or performed as open followed by
       start (Bumble documents "auto-open"): both ends STREAMING.                        *)
EXTENDS Naturals, Sequences

CONSTANTS MaxOps      \* bound on the number of operations issued (model bound)

VARIABLES ini, acp,   \* stream state on the initiating / accepting side
          rtp,        \* the transport (media) channel exists
          pend,       \* operation in progress: [op, via] or NoOp
          rsp,        \* "none" | "accept" | "reject": the acceptor's answer, not yet taken
          fin,        \* "none" | "rtp_open" | "rtp_close": what is left to do after the answer
          chain,      \* TRUE: an auto-open is in progress, start follows
          last,       \* outcome of the last completed operation: "none" | "ok" | "refused"
          ini0, acp0, \* states when the last operation was issued
          nops

vars == <<ini, acp, rtp, pend, rsp, fin, chain, last, ini0, acp0, nops>>

States == {"IDLE", "CONFIGURED", "OPEN", "STREAMING", "CLOSING", "ABORTING"}
\* start_list / suspend_list: a START / SUSPEND command that names this stream's endpoint FIRST and then an endpoint
\* that cannot perform the procedure (unknown, or never configured).  The command as a whole is illegal in every
\* state: it must be rejected and must not have started / suspended the endpoints named before the bad one.
Ops    == {"configure", "open", "start", "suspend", "close", "abort", "start_list", "suspend_list"}
NoOp   == [op |-> "none", via |-> "none"]

Legal(op, s) ==
    CASE op = "configure" -> s = "IDLE"
      [] op = "open"      -> s = "CONFIGURED"
      [] op = "start"     -> s = "OPEN"
      [] op = "suspend"   -> s = "STREAMING"
      [] op = "close"     -> s \in {"OPEN", "STREAMING"}
      [] op = "abort"     -> s # "IDLE"
      [] op \in {"start_list", "suspend_list"} -> FALSE

\* state after an accepted command; has_rtp: a transport channel has to be released first
After(op, has_rtp) ==
    CASE op = "configure" -> "CONFIGURED"
      [] op = "open"      -> "OPEN"
      [] op = "start"     -> "STREAMING"
      [] op = "suspend"   -> "OPEN"
      [] op = "close"     -> IF has_rtp THEN "CLOSING" ELSE "IDLE"
      [] op = "abort"     -> IF has_rtp THEN "ABORTING" ELSE "IDLE"

Stable == pend = NoOp /\ fin = "none"

Init == /\ ini = "IDLE" /\ acp = "IDLE" /\ rtp = FALSE
        /\ pend = NoOp /\ rsp = "none" /\ fin = "none" /\ chain = FALSE
        /\ last = "none" /\ ini0 = "IDLE" /\ acp0 = "IDLE" /\ nops = 0

-----------------------------------------------------------------------------
Begin == /\ Stable /\ nops < MaxOps
         /\ nops' = nops + 1 /\ ini0' = ini /\ acp0' = acp

\* the initiating side sends the command
IssueSend(op, via) ==
    /\ Begin
    /\ \/ via = "api" /\ Legal(op, ini)
       \/ via = "raw" /\ ~Legal(op, ini)            \* bypasses the local check: only to probe the acceptor
    /\ ~(op = "abort" /\ ini = "IDLE")
    /\ pend' = [op |-> op, via |-> via]
    /\ UNCHANGED <<ini, acp, rtp, rsp, fin, chain, last>>

\* the initiating side's own check refuses
IssueRefuse(op) ==
    /\ Begin
    /\ op \notin {"start_list", "suspend_list"}     \* bare commands only: the stream API names one endpoint
    /\ ~Legal(op, ini)
    /\ ~(op = "abort" /\ ini = "IDLE")
    /\ last' = "refused"
    /\ UNCHANGED <<ini, acp, rtp, pend, rsp, fin, chain>>

\* abort with no stream established: nothing to do, outcome free
IssueAbortIdle(via, outcome) ==
    /\ Begin
    /\ ini = "IDLE"
    /\ outcome \in {"ok", "refused"}
    /\ last' = outcome
    /\ UNCHANGED <<ini, acp, rtp, pend, rsp, fin, chain>>

\* start in CONFIGURED through the API may be performed as open + start
IssueAutoOpen ==
    /\ Begin
    /\ ini = "CONFIGURED"
    /\ pend' = [op |-> "open", via |-> "api"]
    /\ chain' = TRUE
    /\ UNCHANGED <<ini, acp, rtp, rsp, fin, last>>

\* the accepting side handles the command
AcpHandle ==
    /\ pend # NoOp /\ rsp = "none" /\ fin = "none"
    /\ IF Legal(pend.op, acp)
       THEN /\ acp' = After(pend.op, rtp)
            /\ rsp' = "accept"
       ELSE /\ rsp' = "reject"
            /\ UNCHANGED acp
    /\ UNCHANGED <<ini, rtp, pend, fin, chain, last, ini0, acp0, nops>>

\* the initiating side takes the answer
IniComplete ==
    /\ pend # NoOp /\ rsp # "none"
    /\ rsp' = "none"
    /\ IF rsp = "reject"
       THEN /\ last' = "refused" /\ pend' = NoOp /\ chain' = FALSE
            /\ UNCHANGED <<ini, fin>>
       ELSE /\ ini' = After(pend.op, rtp)
            /\ IF pend.op = "open" THEN fin' = "rtp_open" /\ UNCHANGED <<pend, last, chain>>
               ELSE IF pend.op \in {"close", "abort"} /\ rtp THEN fin' = "rtp_close" /\ UNCHANGED <<pend, last, chain>>
               ELSE fin' = "none" /\ pend' = NoOp /\ last' = "ok" /\ UNCHANGED chain
    /\ UNCHANGED <<acp, rtp, ini0, acp0, nops>>

\* the initiator creates the transport channel; an auto-open goes on with start
RtpOpen ==
    /\ fin = "rtp_open"
    /\ rtp' = TRUE /\ fin' = "none"
    /\ IF chain
       THEN pend' = [op |-> "start", via |-> "api"] /\ chain' = FALSE /\ UNCHANGED last
       ELSE pend' = NoOp /\ last' = "ok" /\ UNCHANGED chain
    /\ UNCHANGED <<ini, acp, rsp, ini0, acp0, nops>>

\* the initiator releases the transport channel: both ends reach IDLE
RtpClose ==
    /\ fin = "rtp_close"
    /\ rtp' = FALSE /\ fin' = "none"
    /\ ini' = "IDLE"
    /\ acp' = IF acp \in {"CLOSING", "ABORTING"} THEN "IDLE" ELSE acp
    /\ pend' = NoOp /\ last' = "ok"
    /\ UNCHANGED <<rsp, chain, ini0, acp0, nops>>

Internal == AcpHandle \/ IniComplete \/ RtpOpen \/ RtpClose

Next == \/ \E op \in Ops, via \in {"api", "raw"} : IssueSend(op, via)
        \/ \E op \in Ops : IssueRefuse(op)
        \/ \E via \in {"api", "raw"}, o \in {"ok", "refused"} : IssueAbortIdle(via, o)
        \/ IssueAutoOpen
        \/ Internal

Spec     == Init /\ [][Next]_vars
LiveSpec == Spec /\ WF_vars(Internal)

-----------------------------------------------------------------------------
TypeOK == /\ ini \in States /\ acp \in States /\ rtp \in BOOLEAN
          /\ rsp \in {"none", "accept", "reject"} /\ fin \in {"none", "rtp_open", "rtp_close"}
          /\ last \in {"none", "ok", "refused"} /\ nops \in 0..MaxOps

\* after each completed operation both ends are in the same (non-transitional) state
Inv_Same == Stable => ini = acp /\ ini \notin {"CLOSING", "ABORTING"}

\* the transport channel exists exactly in OPEN and STREAMING
Inv_Rtp == Stable => (rtp <=> ini \in {"OPEN", "STREAMING"})

\* a refused operation changed neither end
Inv_RefusedNoChange == (Stable /\ last = "refused") => ini = ini0 /\ acp = acp0

\* the acceptor never accepts what is illegal in its state (so `raw` probes are always rejected)
Inv_RawRejected == (pend.via = "raw" /\ rsp # "none") => rsp = "reject"

\* every operation completes
Live_Completes == []<>Stable
=============================================================================
