---------------------------- MODULE StreamTrace ----------------------------
(* Trace validation for C19 (c): operation sequences (transition tours of Stream.tla) executed
   on a real source / sink pair of bumble.avdtp.  Two events per operation:
     issue(op, via)               the driver calls the API (via = "api") or puts the bare
                                  command on the signalling channel (via = "raw")
     done(outcome, src, snk)      the call returned ("ok"), was refused ("refused": raised
                                  InvalidStateError locally or a reject came back), never
                                  returned ("hang") or failed otherwise ("error"); src / snk =
                                  Stream.state of the initiating / accepting side afterwards
   The acceptor's handling, the answer and the transport channel are internal steps.    *)
EXTENDS Stream, Json, IOUtils, TLC, TLCExt

Traces == JsonDeserialize(IOEnv.TRACE_FILE)

VARIABLES tid, l
tvars == <<vars, tid, l>>

T  == Traces[tid]
Ev == T[l]

IssueEv ==
    /\ Ev.e = "issue"
    /\ \/ IssueSend(Ev.op, Ev.via)
       \/ Ev.via = "api" /\ IssueRefuse(Ev.op)
       \/ Ev.op = "abort" /\ \E o \in {"ok", "refused"} : IssueAbortIdle(Ev.via, o)
       \/ Ev.op = "start" /\ Ev.via = "api" /\ IssueAutoOpen
    /\ l' = l + 1

DoneEv ==
    /\ Ev.e = "done"
    /\ Stable
    /\ last = Ev.outcome
    /\ ini = Ev.src /\ acp = Ev.snk
    /\ l' = l + 1
    /\ UNCHANGED vars

Step == /\ l <= Len(T)
        /\ \/ IssueEv
           \/ DoneEv
           \/ Internal /\ UNCHANGED l
        /\ tid' = tid

Done == /\ l = Len(T) + 1
        /\ PrintT(<<"ACCEPT", tid>>)
        /\ UNCHANGED tvars

Stuck == /\ l <= Len(T)
         /\ ~ENABLED Step
         /\ PrintT(<<"REJECT", tid, l, Ev,
                     [ini |-> ini, acp |-> acp, rtp |-> rtp, last |-> last, stable |-> Stable,
                      outcome_ok |-> (Ev.e = "done" => last = Ev.outcome),
                      src_ok |-> (Ev.e = "done" => ini = Ev.src),
                      snk_ok |-> (Ev.e = "done" => acp = Ev.snk)]>>)
         /\ UNCHANGED tvars

TraceInit == Init /\ tid \in 1..Len(Traces) /\ l = 1
TraceNext == Step \/ Done \/ Stuck
TraceSpec == TraceInit /\ [][TraceNext]_tvars
=============================================================================
