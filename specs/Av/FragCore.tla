----------------------------- MODULE FragCore -----------------------------
(* C19 (b).  Fragmentation and reassembly of one signalling direction of AVDTP / AVCTP.
   Common part of AvdtpFrag.tla and AvctpFrag.tla, which pin the header forms
   (HdrSingle / HdrStart / HdrCont = bytes in front of the payload in a single, start,
   continue-or-end packet) with an ASSUME.

   Payload is abstract: message m is the interval [0, len) of "the bytes of m"; a packet
   carries the chunk <<m, off, len>>.  A reassembled message is byte-identical to the
   sent one iff its chunks are exactly the sender's chunks of ONE message, in order.

   sender     Send(L, lab, ch, mtu): any split `ch` (sequence of chunk sizes) that the
              property allows: every packet fits the peer MTU, one packet is labelled
              single, several are labelled start, continue.., end, the start packet's count
              field is the number of packets, all carry the message's transaction label.
              Sizes are otherwise free (DESIGN Appendix D).
   faults     Drop(i), Dup(i), MislabelTxn(i) (another transaction label),
              MislabelType(i) (continue <-> end; same header layout) on the wire.
   assembler  Recv: the reference assembler.  A start / single packet always
              re-synchronises; continue / end packets without a message in progress are
              ignored; the count field decides completeness.

   Phases keep the state graph small without losing any assembler input: the assembler
   only ever sees the final packet sequence, so the messages are sent first ("send"), then
   faults hit the wire ("fault"), then the assembler consumes it ("run").               *)
EXTENDS Naturals, Sequences, FiniteSets

CONSTANTS HdrSingle, HdrStart, HdrCont,   \* header forms (fixed by the including module)
          Mtu,        \* peer MTU in units (model checking only; trace specs pass the real one)
          MaxLen,     \* payload lengths 0..MaxLen
          MaxMsgs,    \* number of messages sent
          MaxPk,      \* packets per message (model bound)
          MaxFaults,  \* number of faults injected
          Labels      \* transaction labels in use, e.g. {0, 1}

VARIABLES phase,      \* "send" | "fault" | "run"
          sent,       \* Seq of [m, lab, len, ch]                      messages handed to the sender
          wire,       \* Seq of packets not yet seen by the assembler
          asm,        \* reference assembler state
          delivered,  \* Seq of [m, lab, parts]                        assembler call-backs so far
          touched,    \* set of message ids one of whose packets was hit by a fault
          nfaults

vars == <<phase, sent, wire, asm, delivered, touched, nfaults>>

Idle == [st |-> "idle", m |-> 0, lab |-> 0, n |-> 0, got |-> 0, parts |-> <<>>]

RECURSIVE SumSeq(_)
SumSeq(s) == IF s = <<>> THEN 0 ELSE Head(s) + SumSeq(Tail(s))
RECURSIVE SumTo(_, _)
SumTo(s, k) == IF k = 0 THEN 0 ELSE s[k] + SumTo(s, k - 1)        \* s[1] + .. + s[k]

-----------------------------------------------------------------------------
(* What the property fixes about a split of a payload of L bytes for a peer MTU.        *)
IsChunking(ch, L, mtu) ==
    /\ Len(ch) >= 1
    /\ SumSeq(ch) = L
    /\ IF Len(ch) = 1
       THEN L + HdrSingle <= mtu
       ELSE /\ ch[1] + HdrStart <= mtu
            /\ \A i \in 2..Len(ch) : ch[i] >= 1 /\ ch[i] + HdrCont <= mtu
            /\ Len(ch) <= 255                                   \* the count field is one byte

PkType(ch, i) == IF Len(ch) = 1 THEN "single"
                 ELSE IF i = 1 THEN "start"
                 ELSE IF i = Len(ch) THEN "end" ELSE "cont"

\* the packets of message m: type, transaction label, count field (start only), chunk
Packets(m, lab, ch) ==
    [i \in 1..Len(ch) |->
        [m |-> m, t |-> PkType(ch, i), lab |-> lab,
         n |-> IF PkType(ch, i) = "start" THEN Len(ch) ELSE 0,
         off |-> SumTo(ch, i - 1), len |-> ch[i]]]

PacketSize(p) == p.len + (CASE p.t = "single" -> HdrSingle [] p.t = "start" -> HdrStart [] OTHER -> HdrCont)

ChunkOf(p) == <<p.m, p.off, p.len>>

Send(L, lab, ch, mtu) ==
    /\ phase = "send"
    /\ Len(sent) < MaxMsgs
    /\ IsChunking(ch, L, mtu)
    /\ LET m == Len(sent) + 1 IN
       /\ sent' = Append(sent, [m |-> m, lab |-> lab, len |-> L, ch |-> ch])
       /\ wire' = wire \o Packets(m, lab, ch)
    /\ UNCHANGED <<phase, asm, delivered, touched, nfaults>>

-----------------------------------------------------------------------------
Fault(w, ms) == /\ phase = "fault" /\ nfaults < MaxFaults
                /\ wire' = w /\ touched' = touched \cup ms /\ nfaults' = nfaults + 1
                /\ UNCHANGED <<phase, sent, asm, delivered>>

Without(s, i) == SubSeq(s, 1, i - 1) \o SubSeq(s, i + 1, Len(s))

Drop(i) == /\ i \in 1..Len(wire)
           /\ Fault(Without(wire, i), {wire[i].m})

Dup(i) ==  /\ i \in 1..Len(wire)
           /\ Fault(SubSeq(wire, 1, i) \o <<wire[i]>> \o SubSeq(wire, i + 1, Len(wire)), {wire[i].m})

MislabelTxn(i) ==
    /\ i \in 1..Len(wire)
    /\ \E l \in Labels \ {wire[i].lab} :
         Fault([wire EXCEPT ![i].lab = l], {wire[i].m})

MislabelType(i) ==                                  \* continue <-> end: same header layout
    /\ i \in 1..Len(wire)
    /\ wire[i].t \in {"cont", "end"}
    /\ Fault([wire EXCEPT ![i].t = IF @ = "cont" THEN "end" ELSE "cont"], {wire[i].m})

Seal == /\ phase = "send" /\ sent # <<>>
        /\ phase' = "fault"
        /\ UNCHANGED <<sent, wire, asm, delivered, touched, nfaults>>

Run == /\ phase = "fault"
       /\ phase' = "run"
       /\ UNCHANGED <<sent, wire, asm, delivered, touched, nfaults>>

-----------------------------------------------------------------------------
(* The reference assembler: <<asm', delivered'>> after packet p.                        *)
Assemble(a, d, p) ==
    CASE p.t = "single" ->
           <<Idle, Append(d, [m |-> p.m, lab |-> p.lab, parts |-> <<ChunkOf(p)>>])>>
      [] p.t = "start" ->
           <<[st |-> "rx", m |-> p.m, lab |-> p.lab, n |-> p.n, got |-> 1, parts |-> <<ChunkOf(p)>>], d>>
      [] OTHER ->
           IF a.st = "idle" THEN <<a, d>>                         \* stray continue / end
           ELSE IF p.lab # a.lab THEN <<a, d>>                    \* not part of this message
           ELSE LET g == a.got + 1
                    ps == Append(a.parts, ChunkOf(p)) IN
                IF p.t = "end"
                THEN IF g = a.n
                     THEN <<Idle, Append(d, [m |-> a.m, lab |-> a.lab, parts |-> ps])>>
                     ELSE <<Idle, d>>                             \* count mismatch: discard
                ELSE IF g >= a.n
                     THEN <<Idle, d>>                             \* a continue cannot be the last
                     ELSE <<[a EXCEPT !.got = g, !.parts = ps], d>>

Recv == /\ phase = "run" /\ wire # <<>>
        /\ LET r == Assemble(asm, delivered, Head(wire)) IN
           /\ asm' = r[1] /\ delivered' = r[2]
        /\ wire' = Tail(wire)
        /\ UNCHANGED <<phase, sent, touched, nfaults>>

-----------------------------------------------------------------------------
Init == /\ phase = "send" /\ sent = <<>> /\ wire = <<>> /\ asm = Idle
        /\ delivered = <<>> /\ touched = {} /\ nfaults = 0

\* all splits of payloads 0..MaxLen into at most MaxPk packets that fit Mtu (evaluated once)
ChunkSeqs == UNION {[1..k -> 0..MaxLen] : k \in 1..MaxPk}
ValidCh == {ch \in ChunkSeqs : SumSeq(ch) <= MaxLen /\ IsChunking(ch, SumSeq(ch), Mtu)}

\* (phase guard first: TLC must not enumerate the splits in states where Send is disabled)
DoSend == phase = "send" /\ Len(sent) < MaxMsgs /\ \E ch \in ValidCh, lab \in Labels : Send(SumSeq(ch), lab, ch, Mtu)

DoDrop         == \E i \in 1..Len(wire) : Drop(i)
DoDup          == \E i \in 1..Len(wire) : Dup(i)
DoMislabelTxn  == \E i \in 1..Len(wire) : MislabelTxn(i)
DoMislabelType == \E i \in 1..Len(wire) : MislabelType(i)

Next == DoSend \/ Seal \/ DoDrop \/ DoDup \/ DoMislabelTxn \/ DoMislabelType \/ Run \/ Recv

Spec == Init /\ [][Next]_vars

-----------------------------------------------------------------------------
ChunksOfSent(m) == LET s == sent[m] IN [i \in 1..Len(s.ch) |-> <<m, SumTo(s.ch, i - 1), s.ch[i]>>]

Identical(d) == d.m \in 1..Len(sent) /\ d.parts = ChunksOfSent(d.m)

Untouched(s) == SelectSeq(s, LAMBDA x : x.m \notin touched)
Ids(s) == [i \in 1..Len(s) |-> s[i].m]

IsPrefixOf(s, t) == Len(s) <= Len(t) /\ \A i \in 1..Len(s) : s[i] = t[i]

\* every packet the sender produced fits the MTU
Inv_Fits == \A i \in 1..Len(wire) : PacketSize(wire[i]) <= Mtu

\* without faults delivered = sent
Inv_NoFaultExact ==
    (nfaults = 0 /\ phase = "run" /\ wire = <<>>) =>
        /\ Ids(delivered) = Ids(sent)
        /\ \A i \in 1..Len(delivered) : Identical(delivered[i]) /\ delivered[i].lab = sent[delivered[i].m].lab

\* a message no packet of which was hit is delivered exactly once, in order, byte-identical,
\* with its own label - whatever happened to its neighbours
Inv_OnlyTouchedLost ==
    /\ IsPrefixOf(Ids(Untouched(delivered)), Ids(Untouched(sent)))
    /\ (phase = "run" /\ wire = <<>>) => Ids(Untouched(delivered)) = Ids(Untouched(sent))
    /\ \A i \in 1..Len(delivered) :
          delivered[i].m \notin touched => Identical(delivered[i]) /\ delivered[i].lab = sent[delivered[i].m].lab

\* one fault cannot make the assembler deliver wrong bytes (two can: there are no sequence numbers)
Inv_SingleFaultIdentical ==
    nfaults <= 1 => \A i \in 1..Len(delivered) : Identical(delivered[i])

TypeOK == /\ phase \in {"send", "fault", "run"} /\ nfaults \in 0..MaxFaults
          /\ asm.st \in {"idle", "rx"}
=============================================================================
