----------------------------- MODULE LinkTrace -----------------------------
(* Trace validation for C06.  One trace = one scenario executed on N real bumble stacks
   (Device / Host / Controller) on one LocalLink under seeded order-preserving HCI and link
   delays.  Every logged event is one action of Link.tla with its arguments.  Two observation
   levels per device:

     API calls (logged when the call is made):
       adv(d, ak, fl)  advstop_call(d)  advstop(d) [returned, and nothing of d is on the air any more]  scan(d, m)  connect(d, tr, a, ak, own)  send(d, h, n)
       disconnect(d, h)  [h: an LE / BR/EDR connection or an (e)SCO link]
       sco(d, h)                         (e)SCO link requested on the BR/EDR connection h -> ScoCall
     T2 = the controller -> host HCI tap, logged when the controller emits the packet:
       t2_conn(d, h, role, tr, a, ak)    LE / BR/EDR / Synchronous Connection Complete (tr = "le" | "br" |
                                         "sco")  -> LinkConnect, ConnectInd, ClassicAccept, ClassicAccepted,
                                         ScoAccept, ScoAccepted
       t2_disc(d, h)                     Disconnection Complete -> CtrlDisc, LinkTerm, ConnFail
       t2_acl(d, h, fd, n)               ACL data packet with test PDU n of sender fd -> LinkData
       t2_report(d, a, ak, rt, what, src) advertising report (rt = "adv" | "rsp") whose payload is
                                         what = "adv" | "rsp" | "empty" | "other" of device src
     Device level (logged when the event is emitted / the call returns):
       conn_evt(d, h, role, tr, a, ak)   'connection' / 'sco_connection' event -> HostEvt
       disc_evt(d, h)                    'disconnection' event         -> HostEvt
       recv(d, h, fd, n, ok)             PDU on the test fixed channel -> HostEvt  (ok: bytes identical)
       ret_connect(d, ctr, h, role, tr, a, ak) Device.connect(transport = ctr) returned that Connection
                                         (whose transport is tr) -> RetConnect
       advert(d, a, ak, what, src)       'advertisement' event: what = "adv" | "advrsp" | "other"
     settle                              the loop ran until nothing moved  -> Quiesce

   Not logged: a PDU or terminate that the link drops (LinkDrop: only enabled where the design
   itself finds no route) and a Disconnect command refused because the connection is already
   gone (CtrlDiscRefused).  The spec takes those steps on its own.

   A trace is accepted iff some interleaving of the unlogged steps reaches its end.  Otherwise
   the REJECT names the first event no interleaving can explain, with a diagnosis of what is
   still owed (Diag).                                                                        *)
EXTENDS Link, Json, IOUtils, TLCExt

Traces == JsonDeserialize(IOEnv.TRACE_FILE)

VARIABLES tid, l
tvars == <<vars, tid, l>>

T  == Traces[tid]
Ev == T[l]

EvAddr == <<Ev.a, Ev.ak>>
SideOf(role) == IF role = "central" THEN "c" ELSE "p"

\* the connection end the controller / the host of d knows under handle h
CtlEnd(d, h)  == {ks \in CtlAt(d) : conns[ks[1]].h[ks[2]] = h}
HostEnd(d, h) == {ks \in HostAt(d) : conns[ks[1]].h[ks[2]] = h}

T2Conn ==
    \/ /\ Ev.tr = "le" /\ Ev.role = "central"
       /\ pend[Ev.d].on /\ pend[Ev.d].ta = EvAddr
       /\ LinkConnect(Ev.d, Ev.h)
    \/ /\ Ev.tr = "le" /\ Ev.role = "peripheral"
       /\ \E k \in Ks : conns[k].ca = EvAddr /\ ConnectInd(k, Ev.d, Ev.h)
    \/ /\ Ev.tr = "br"
       /\ \E k \in Ks : \/ conns[k].p = Ev.d /\ conns[k].ca = EvAddr /\ ClassicAccept(k, Ev.h)
                        \/ conns[k].c = Ev.d /\ conns[k].pa = EvAddr /\ ClassicAccepted(k, Ev.h)
    \/ /\ Ev.tr = "sco"
       /\ \E k \in Ks : \/ conns[k].p = Ev.d /\ conns[k].ca = EvAddr /\ ScoAccept(k, Ev.h)
                        \/ conns[k].c = Ev.d /\ conns[k].pa = EvAddr /\ ScoAccepted(k, Ev.h)

\* A Disconnect command names a HANDLE.  The virtual controller hands out the lowest free handle, so a handle is re-used
\* at once: a Disconnect that is still on its way to the controller when the connection it was meant for goes away (the
\* peer was faster) is executed against whatever connection holds that handle when it arrives.  The host did ask for
\* it - the property does not say which connection a handle denotes across such a race - so this is an accepted
\* explanation of a Disconnection Complete (both ends are still told); the request of the old connection is consumed.
StaleDisc(t) ==
    \E k0 \in Ks, s0 \in Sides :
        /\ k0 # t[1] /\ Dev(k0, s0) = Ev.d /\ conns[k0].h[s0] = Ev.h
        /\ conns[k0].want[s0] /\ ~conns[k0].ctl[s0]
        /\ Idle /\ conns[t[1]].ctl[t[2]] /\ ~conns[t[1]].want[t[2]]
        /\ conns' = [conns EXCEPT ![k0].want[s0] = FALSE,
                                  ![t[1]].ctl[t[2]] = FALSE,
                                  ![t[1]].link = IF @ = "failed" THEN @ ELSE "closed",
                                  ![t[1]].out[t[2]] = Append(@, TERM)]
        /\ evq' = [evq EXCEPT ![Dev(t[1], t[2])] = Append(@, EvDisc(t[1], t[2]))]
        /\ quiesced' = FALSE
        /\ UNCHANGED <<adv, advd, scan, pend, call, rets, heard, seen, cnt>>

T2Disc ==
    \E t \in CtlEnd(Ev.d, Ev.h) :
        \/ CtrlDisc(t[1], t[2])
        \/ \E k \in Ks, s \in Sides : LinkTerm(k, s, t)
        \/ t[2] = "c" /\ ConnFail(t[1])
        \/ StaleDisc(t)

T2Acl ==
    \E t \in CtlEnd(Ev.d, Ev.h), k \in Ks, s \in Sides :
        /\ Dev(k, s) = Ev.fd /\ conns[k].out[s] # <<>> /\ Head(conns[k].out[s]) = Ev.n
        /\ LinkData(k, s, t)

T2Report ==
    /\ Ev.src \in Devs
    /\ \E flav \in Flavs :
        \/ Ev.rt = "adv" /\ Ev.what = "adv" /\ HearAdv(Ev.d, Ev.src, Ev.ak, flav) /\ Ev.a = Ev.src
        \/ Ev.rt = "rsp" /\ Ev.what = RspWhatOf(flav) /\ HearRsp(Ev.d, Ev.src, Ev.ak, flav) /\ Ev.a = Ev.src

HeadIs(d, t, ks) ==
    /\ evq[d] # <<>>
    /\ Head(evq[d]).t = t /\ Head(evq[d]).k = ks[1] /\ Head(evq[d]).s = ks[2]

ConnEvt ==
    /\ \E ks \in {x \in Ends : Dev(x[1], x[2]) = Ev.d} :
        /\ HeadIs(Ev.d, "conn", ks)
        /\ conns[ks[1]].h[ks[2]] = Ev.h /\ conns[ks[1]].tr = Ev.tr
        /\ (Ev.tr = "sco" \/ ks[2] = SideOf(Ev.role)) /\ Peer(ks[1], ks[2]) = EvAddr     \* (an (e)SCO link has no role)
    /\ HostEvt(Ev.d)

DiscEvt ==
    /\ \E ks \in HostEnd(Ev.d, Ev.h) : HeadIs(Ev.d, "disc", ks)
    /\ HostEvt(Ev.d)

Recv ==
    /\ Ev.ok = 1
    /\ \E ks \in HostEnd(Ev.d, Ev.h) :
        /\ HeadIs(Ev.d, "data", ks)
        /\ Head(evq[Ev.d]).id = Ev.n /\ Head(evq[Ev.d]).fk = ks[1]
        /\ Dev(ks[1], Other(ks[2])) = Ev.fd
    /\ HostEvt(Ev.d)

\* the Connection object that connect() returned: the end of d that its host holds as live under that handle
\* (there is at most one); if there is none (reported closed before connect returned), the newest end of d
\* reported under that handle
Returned(d, h) ==
    LET C == {ks \in Ends : Dev(ks[1], ks[2]) = d /\ conns[ks[1]].h[ks[2]] = h /\ conns[ks[1]].st[ks[2]] # "none"}
    IN IF HostEnd(d, h) # {} THEN HostEnd(d, h) ELSE {ks \in C : \A y \in C : y[1] <= ks[1]}

RetConn ==
    \E ks \in Returned(Ev.d, Ev.h) :
        /\ ks[2] = SideOf(Ev.role) /\ Peer(ks[1], ks[2]) = EvAddr /\ conns[ks[1]].tr = Ev.tr
        /\ RetConnect(Ev.d, Ev.ctr, ks[1])

TrSend ==
    \E ks \in HostEnd(Ev.d, Ev.h) : conns[ks[1]].ns[ks[2]] + 1 = Ev.n /\ Send(ks[1], ks[2])

TrSco ==
    \E ks \in HostEnd(Ev.d, Ev.h) : ScoCall(ks[1], ks[2])

TrDisconnect ==
    \E ks \in HostEnd(Ev.d, Ev.h) :
        \/ Disconnect(ks[1], ks[2])
        \/ conns[ks[1]].want[ks[2]] /\ UNCHANGED vars          \* asked again before the first request was executed

TrStopAdvCall ==
    IF adv[Ev.d].on /\ ~adv[Ev.d].stopping THEN StopAdvCall(Ev.d) ELSE UNCHANGED vars
TrStopAdv ==
    IF adv[Ev.d].on /\ adv[Ev.d].stopping THEN StopAdv(Ev.d) ELSE UNCHANGED vars   \* a connection had already ended it

TrSettle ==
    \/ Quiesce
    \/ quiesced /\ Propagated /\ (\A s, d \in Devs : ~ScanOwed(s, d)) /\ UNCHANGED vars

Logged ==
    /\ l <= Len(T)
    /\ \/ Ev.e = "adv" /\ StartAdv(Ev.d, Ev.ak, Ev.fl)
       \/ Ev.e = "advstop_call" /\ TrStopAdvCall
       \/ Ev.e = "advstop" /\ TrStopAdv
       \/ Ev.e = "scan" /\ SetScan(Ev.d, Ev.m)
       \/ Ev.e = "connect" /\ Call(Ev.d, Ev.tr, EvAddr, Ev.own)
       \/ Ev.e = "send" /\ TrSend
       \/ Ev.e = "disconnect" /\ TrDisconnect
       \/ Ev.e = "sco" /\ TrSco
       \/ Ev.e = "t2_conn" /\ T2Conn
       \/ Ev.e = "t2_disc" /\ T2Disc
       \/ Ev.e = "t2_acl" /\ T2Acl
       \/ Ev.e = "t2_report" /\ T2Report
       \/ Ev.e = "conn_evt" /\ ConnEvt
       \/ Ev.e = "disc_evt" /\ DiscEvt
       \/ Ev.e = "recv" /\ Recv
       \/ Ev.e = "ret_connect" /\ RetConn
       \/ Ev.e = "advert" /\ Ev.a = Ev.src /\ Advert(Ev.d, EvAddr, Ev.what)
       \/ Ev.e = "settle" /\ TrSettle
    /\ l' = l + 1 /\ tid' = tid

Internal ==
    /\ l <= Len(T)
    /\ \E k \in Ks, s \in Sides : LinkDrop(k, s) \/ CtrlDiscRefused(k, s)
    /\ UNCHANGED <<tid, l>>

Step == Logged \/ Internal

\* what is still owed in this state (used by the driver to name the failing clause)
ClassOf(k, s) == [tr |-> conns[k].tr, side |-> s, own |-> Self(k, s)[2], peer |-> Peer(k, s)[2]]
Diag ==
    [ undelivered |-> {[tr |-> conns[ks[1]].tr, side |-> ks[2], own |-> Self(ks[1], ks[2])[2], peer |-> Peer(ks[1], ks[2])[2],
                        term |-> Head(conns[ks[1]].out[ks[2]]) = TERM] : ks \in {x \in Ends : conns[x[1]].out[x[2]] # <<>>}},
      setup   |-> {[tr |-> conns[k].tr, pk |-> conns[k].pa[2]] : k \in {x \in Ks : conns[x].link = "setup"}},
      unpopped |-> {Head(evq[d]).t : d \in {x \in Devs : evq[x] # <<>>}},
      want    |-> {ClassOf(ks[1], ks[2]) : ks \in {x \in Ends : conns[x[1]].want[x[2]]}},
      canconnect |-> {d \in Devs : MustLinkConnect(d)},
      callable |-> {d \in Devs : \E tr \in Trs : call[d][tr].on /\ \E k \in Ks : Returnable(d, tr, k)},
      owed    |-> {[mode |-> scan[p[1]], flav |-> adv[p[2]].flav] : p \in {x \in Devs \X Devs : ScanOwed(x[1], x[2])}},
      ends    |-> [d \in Devs |-> {<<conns[ks[1]].h[ks[2]], ks[2], conns[ks[1]].st[ks[2]], conns[ks[1]].ctl[ks[2]], conns[ks[1]].link>> :
                                    ks \in {x \in Ends : Dev(x[1], x[2]) = d}}],
      calls   |-> {d \in Devs : \E tr \in Trs : call[d][tr].on},
      pend    |-> {d \in Devs : pend[d].on} ]

Done ==
    /\ l = Len(T) + 1
    /\ PrintT(<<"ACCEPT", tid>>)
    /\ UNCHANGED tvars

Stuck ==
    /\ l <= Len(T)
    /\ ~ENABLED Step
    /\ PrintT(<<"REJECT", tid, l, Ev, Diag>>)
    /\ UNCHANGED tvars

TraceInit == Init /\ tid \in 1..Len(Traces) /\ l = 1
TraceNext == Step \/ Done \/ Stuck
TraceSpec == TraceInit /\ [][TraceNext]_tvars
=============================================================================
