-------------------------------- MODULE Link --------------------------------
(* C06  The virtual link connects the right peers and delivers only between them.

   N stacks (Device / Host / virtual Controller) on one LocalLink.  Every device d owns three
   addresses: <<d, "pub">>, <<d, "rnd">> (the controller's random address) and <<d, "set">> (the
   random address of an extended advertising set, HCI_LE_Set_Advertising_Set_Random_Address, which
   is not the controller's).  One action per critical section of the code
   (bumble/link.py, controller.py, device.py); what travels controller -> host is a FIFO per
   device (evq: order-preserving HCI delays are exactly FIFO non-determinism), what travels on a
   connection from one controller to the other is a FIFO per connection and direction (out).

     StartAdv / StopAdvCall, StopAdv / SetScan   Device.start_advertising (legacy commands, or an advertising set
                             on a controller with the extended commands), stop_advertising,
                             start_scanning(active | passive) / stop_scanning
     HearAdv / HearRsp       LocalLink.send_advertising_pdu -> Controller.on_advertising_pdu at a
                             scanning controller: advertising report, scan-response report
     Advert                  Device.on_advertising_report: the 'advertisement' event (advertising
                             data, or advertising data followed by scan-response data)
     Call                    Device.connect(address, transport, own_address_type): LE: the
                             controller keeps pending_le_connection; BR/EDR: LMP host connection
                             request on its way to the owner of the address.  One call per device
                             AND transport may be awaited at a time (an LE connect next to a page,
                             possibly to the same peer)
     LinkConnect(d, h)       on_advertising_pdu at an initiating controller whose pending target
                             is the advertiser's address: create_le_connection (CONNECT_IND is
                             broadcast, Connection Complete [central] queued to the host)
     ConnectInd(k, e, h)     on_le_connect_ind at e: accepted only by the controller that
                             advertises the requested address; Connection Complete [peripheral]
     ConnFail(k)             the CONNECT_IND found nobody advertising that address any more (an
                             other initiator was faster): the initiator's connection is never
                             established; its host is told (Disconnection Complete)
     ClassicAccept(k, h) / ClassicAccepted(k, h)
                             the paged device accepts (Connection Complete there), LMP accepted
                             reaches the initiator (Connection Complete there)
     ScoCall(k, s)           side s of the open BR/EDR connection k asks for an (e)SCO link on it
                             (Enhanced Setup Synchronous Connection): a further entry of both
                             controllers' link tables, with a handle of its own
     ScoAccept(j, h) / ScoAccepted(j, h)
                             the peer accepts (Synchronous Connection Complete there), LMP accepted
                             reaches the requester (Synchronous Connection Complete there)
     HostEvt(d)              the host of d takes the oldest HCI event: 'connection' /
                             'disconnection' events of the Device, or an L2CAP PDU
     RetConnect(d, k)        the awaited Device.connect returns connection k
     Send(k, s)              Connection.send_l2cap_pdu on side s (ids 1, 2, ... per direction)
     LinkData(k, s)          the oldest PDU of side s crosses the link: LocalLink.send_acl_data
                             routes by the peer's address, stamps the connection's own address,
                             Controller.on_link_acl_data finds the connection by that stamp.  A
                             PDU whose route or stamp finds nothing is dropped.  The TERMINATE_IND
                             / LMP_detach of a disconnection travels in the same FIFO (id 0)
     Disconnect(k, s)        Connection.disconnect() called; CtrlDisc(k, s): the controller
                             executes it (Disconnection Complete to its own host, terminate on
                             its way to the peer)
     Quiesce                 nothing is in flight and nothing can move any more

   The handle of a new link (LE, BR/EDR ACL or (e)SCO) is any handle not used by a link of any
   kind the controller still holds (AnyHandle) or the lowest such handle (what the code does).

   Bugs is empty in the design that is checked.  The named deviations are what the code was
   seen (or could be changed) to do; the self-test turns each on and requires TLC to report the
   invariant it breaks:
     "stamp_random"     send_acl_data stamps LE data with the sender's random address whatever the
                        connection's own address is                              -> Delivered
     "match_peer_addr"  find_le_controller matches the peer address             -> Delivered / OnlyPeer
     "any_conn_resolves" Device.connect returns whatever connection completes first -> CallerGets
     "accept_any_adv"   on_le_connect_ind accepts whenever an advertiser is on   -> RightPeer
     "adv_to_self"      send_advertising_pdu also delivers to the sender         -> AdvData
     "rsp_is_adv"       the scan-response report repeats the advertising data    -> AdvData
     "no_disc_event"    the peer of a disconnection tells its host nothing       -> BothTold
     "phantom"          a CONNECT_IND nobody accepts leaves the initiator connected -> BothTold
     "handle_ignores_classic" handle allocation does not look at BR/EDR connections -> Handles
     "no_rsp"           an active scanner gets no scan response                  -> ScanGiven
     "handle_ignores_sco" handle allocation does not look at (e)SCO links       -> Handles
     "connect_ignores_transport" a page is resolved by any connection to that peer address -> CallerGets
     "route_by_controller_addr" find_le_controller looks the destination up among the controllers'
                        own public / random addresses, not the connections'      -> Delivered / BothTold
*)
EXTENDS Naturals, FiniteSets, Sequences, TLC

CONSTANTS
    Devs,        \* device numbers (positive integers)
    Advs,        \* subset of Devs: devices that may advertise
    Inits,       \* subset of Devs: devices that may call Device.connect
    Ext,         \* subset of Devs: controllers with the extended advertising commands
    Transports,  \* subset of {"le", "br"}
    Scanning,    \* BOOLEAN: scanners take part
    MaxConns,    \* connection records per behaviour
    MaxPdus,     \* PDUs per connection and direction
    MaxSends,    \* PDUs per behaviour
    OwnKinds,    \* own-address kinds an initiator may use (subset of Kinds)
    AdvKinds,    \* own-address kinds an advertiser may use
    EagerHost,   \* TRUE: hosts take their HCI events at once (no HCI delay); FALSE: any delay
    StaleAdv,    \* TRUE: an advertising PDU may still arrive after its advertiser stopped (link delay)
    MaxAdv,      \* StartAdv per behaviour
    MaxStop,     \* StopAdv per behaviour
    MaxCalls,    \* Device.connect calls per behaviour
    MaxDisc,     \* disconnect requests per behaviour
    MaxScan,     \* scan mode changes per behaviour
    MaxSco,      \* (e)SCO links requested per behaviour
    MaxH,        \* connection handles 1..MaxH
    AnyHandle,   \* TRUE: any free handle (what the property allows); FALSE: the lowest (the code)
    Bugs

Kinds  == {"pub", "rnd", "set"}   \* "set": the own random address of an extended advertising set
OwnK   == {"pub", "rnd"}          \* what an initiator can use (LE Create Connection own_address_type)
Trs    == {"le", "br"}            \* what Device.connect can be asked for
Paged  == {"br", "sco"}           \* links set up by an LMP request / accepted exchange, addressed by BD_ADDR
Flavs  == {"legacy", "ext"}
Sides  == {"c", "p"}
Other(s) == IF s = "c" THEN "p" ELSE "c"
Owner(a) == a[1]
NoAddr == <<0, "pub">>
TERM   == 0

VARIABLES
    adv,      \* [Devs -> [on, kind, flav]]      the controller's advertiser
    advd,     \* [Devs -> SUBSET (Kinds \X Flavs)] everything d has advertised as so far
    scan,     \* [Devs -> "off" | "passive" | "active"]
    pend,     \* [Devs -> [on, ta, own]]          Controller.pending_le_connection
    call,     \* [Devs -> [Trs -> [on, ta, own]]]  Device.connect awaited, per transport
    conns,    \* Seq of connection records (see NewConn)
    evq,      \* [Devs -> Seq(event)]             HCI events / ACL data controller -> host
    rets,     \* Seq of [d, k, tr, ta]            what the connect calls returned
    heard,    \* [Devs -> set of [a, rt, what, src]]  HCI advertising reports given to the host
    seen,     \* [Devs -> set of <<a, what>>]     'advertisement' events of the Device
    cnt,      \* counters that bound the model
    quiesced

vars == <<adv, advd, scan, pend, call, conns, evq, rets, heard, seen, cnt, quiesced>>

NoAdv  == [on |-> FALSE, kind |-> "rnd", flav |-> "legacy", stopping |-> FALSE]
NoPend == [on |-> FALSE, ta |-> NoAddr, own |-> "rnd"]
NoCall == [on |-> FALSE, ta |-> NoAddr, own |-> "rnd"]

Ks == 1..Len(conns)
Dev(k, s)   == IF s = "c" THEN conns[k].c ELSE conns[k].p
Self(k, s)  == IF s = "c" THEN conns[k].ca ELSE conns[k].pa
Peer(k, s)  == Self(k, Other(s))
Ends        == {ks \in Ks \X Sides : TRUE}
CtlAt(d)    == {ks \in Ends : Dev(ks[1], ks[2]) = d /\ conns[ks[1]].ctl[ks[2]]}
HostAt(d)   == {ks \in Ends : Dev(ks[1], ks[2]) = d /\ conns[ks[1]].st[ks[2]] = "up"}
AllCtl      == {ks \in Ends : conns[ks[1]].ctl[ks[2]]}

\* allocate_connection_handle looks at every link table of the controller
Overlooked == (IF "handle_ignores_classic" \in Bugs THEN {"br"} ELSE {}) \cup (IF "handle_ignores_sco" \in Bugs THEN {"sco"} ELSE {})
UsedHandles(d) == {conns[ks[1]].h[ks[2]] : ks \in {x \in CtlAt(d) : conns[x[1]].tr \notin Overlooked}}
Free(d) == (1..MaxH) \ UsedHandles(d)
Lowest(S) == CHOOSE x \in S : \A y \in S : x <= y
HandleChoices(d) == IF Free(d) = {} THEN {} ELSE IF AnyHandle THEN Free(d) ELSE {Lowest(Free(d))}

NewConn(tr, c, p, ca, pa) ==
    [tr |-> tr, c |-> c, p |-> p, ca |-> ca, pa |-> pa,       \* tr: "le" | "br" | "sco"
     acl  |-> 0,                                        \* (e)SCO link: the BR/EDR connection it was set up on
     link |-> "setup",                                  \* "setup" | "open" | "closed" | "failed"
     ctl  |-> [c |-> FALSE, p |-> FALSE],               \* the controller of that side holds the connection
     h    |-> [c |-> 0, p |-> 0],                       \* its handle there
     st   |-> [c |-> "none", p |-> "none"],             \* what the Device of that side has reported: none -> up -> down
     want |-> [c |-> FALSE, p |-> FALSE],               \* disconnect requested by that side, not executed yet
     cut  |-> [c |-> FALSE, p |-> FALSE],               \* a PDU of that side found the connection gone at its controller
     out  |-> [c |-> <<>>, p |-> <<>>],                 \* PDU ids sent by that side, not yet across the link
     ns   |-> [c |-> 0, p |-> 0],                       \* number of PDUs sent by that side
     got  |-> [c |-> <<>>, p |-> <<>>],                 \* <<connection sent on, id>> handed to that side's host
     ret  |-> FALSE]                                    \* handed to a caller of connect

EvConn(k, s)         == [t |-> "conn", k |-> k, s |-> s, fk |-> 0, id |-> 0]
EvDisc(k, s)         == [t |-> "disc", k |-> k, s |-> s, fk |-> 0, id |-> 0]
EvData(k, s, fk, id) == [t |-> "data", k |-> k, s |-> s, fk |-> fk, id |-> id]
Rep(a, rt, what, src) == [a |-> a, rt |-> rt, what |-> what, src |-> src]

Init ==
    /\ adv = [d \in Devs |-> NoAdv] /\ advd = [d \in Devs |-> {}]
    /\ scan = [d \in Devs |-> "off"]
    /\ pend = [d \in Devs |-> NoPend] /\ call = [d \in Devs |-> [tr \in Trs |-> NoCall]]
    /\ conns = <<>> /\ evq = [d \in Devs |-> <<>>] /\ rets = <<>>
    /\ heard = [d \in Devs |-> {}] /\ seen = [d \in Devs |-> {}]
    /\ cnt = [adv |-> 0, stop |-> 0, call |-> 0, disc |-> 0, scan |-> 0, send |-> 0, sco |-> 0]
    /\ quiesced = FALSE

\* EagerHost: nothing else moves while an HCI event waits for its host
Idle == EagerHost => \A d \in Devs : evq[d] = <<>>

-----------------------------------------------------------------------------
\* ---- advertising and scanning
StartAdv(d, kind, flav) ==
    /\ Idle
    /\ d \in Advs /\ ~adv[d].on /\ cnt.adv < MaxAdv /\ kind \in AdvKinds
    /\ flav = "ext" => d \in Ext
    /\ kind = "set" => flav = "ext"                          \* only an advertising set has an address of its own
    /\ adv' = [adv EXCEPT ![d] = [on |-> TRUE, kind |-> kind, flav |-> flav, stopping |-> FALSE]]
    /\ advd' = IF Scanning \/ StaleAdv THEN [advd EXCEPT ![d] = @ \cup {<<kind, flav>>}] ELSE advd
    /\ cnt' = [cnt EXCEPT !.adv = @ + 1]
    /\ quiesced' = FALSE
    /\ UNCHANGED <<scan, pend, call, conns, evq, rets, heard, seen>>

\* stop_advertising is called: from now on the controller may have switched the advertiser off
StopAdvCall(d) ==
    /\ Idle
    /\ adv[d].on /\ ~adv[d].stopping /\ cnt.stop < MaxStop
    /\ adv' = [adv EXCEPT ![d].stopping = TRUE]
    /\ cnt' = [cnt EXCEPT !.stop = @ + 1]
    /\ quiesced' = FALSE
    /\ UNCHANGED <<advd, scan, pend, call, conns, evq, rets, heard, seen>>

\* ... it has returned: the advertiser is off
StopAdv(d) ==
    /\ Idle
    /\ adv[d].on /\ adv[d].stopping
    /\ adv' = [adv EXCEPT ![d] = NoAdv]
    /\ quiesced' = FALSE
    /\ UNCHANGED <<advd, scan, pend, call, conns, evq, rets, heard, seen, cnt>>

SetScan(d, m) ==
    /\ Idle
    /\ Scanning /\ m \in {"off", "passive", "active"} /\ scan[d] # m /\ cnt.scan < MaxScan
    /\ scan[d] # "off" => m = "off"                          \* the mode changes through stop_scanning
    /\ scan' = [scan EXCEPT ![d] = m]
    /\ heard' = [heard EXCEPT ![d] = {}] /\ seen' = [seen EXCEPT ![d] = {}]
    /\ cnt' = [cnt EXCEPT !.scan = @ + 1]
    /\ quiesced' = FALSE
    /\ UNCHANGED <<adv, advd, pend, call, conns, evq, rets>>

AdvAddr(d) == <<d, adv[d].kind>>
RspWhatOf(flav) == IF flav = "ext" THEN "empty"             \* connectable extended PDUs carry no scan response
                   ELSE IF "rsp_is_adv" \in Bugs THEN "adv" ELSE "rsp"

\* d advertises as <<kind, flav>>, or (StaleAdv) did so and a PDU may still be on its way
OnAir(d, kind, flav) ==
    \/ adv[d].on /\ adv[d].kind = kind /\ adv[d].flav = flav
    \/ StaleAdv /\ <<kind, flav>> \in advd[d]

\* an advertising PDU of d reaches the scanning controller s: advertising report
HearAdv(s, d, kind, flav) ==
    /\ Idle
    /\ scan[s] # "off" /\ OnAir(d, kind, flav)
    /\ s # d \/ "adv_to_self" \in Bugs
    /\ heard' = [heard EXCEPT ![s] = @ \cup {Rep(<<d, kind>>, "adv", "adv", d)}]
    /\ quiesced' = FALSE
    /\ UNCHANGED <<adv, advd, scan, pend, call, conns, evq, rets, seen, cnt>>

\* ... and the scan response that goes with it (an active scanner asks for it; a report to a
\* passive scanner is tolerated, DESIGN Appendix D)
HearRsp(s, d, kind, flav) ==
    /\ Idle
    /\ scan[s] # "off" /\ OnAir(d, kind, flav)
    /\ s # d \/ "adv_to_self" \in Bugs
    /\ "no_rsp" \notin Bugs
    /\ heard' = [heard EXCEPT ![s] = @ \cup {Rep(<<d, kind>>, "rsp", RspWhatOf(flav), d)}]
    /\ quiesced' = FALSE
    /\ UNCHANGED <<adv, advd, scan, pend, call, conns, evq, rets, seen, cnt>>

\* Device 'advertisement' event: what = "adv" (advertising data) | "advrsp" (followed by the scan response)
Advert(s, a, what) ==
    /\ Idle
    /\ scan[s] # "off"
    /\ \E r \in heard[s] : r.a = a /\ r.rt = "adv"
    /\ what \in {"adv", "advrsp"}
    /\ what = "advrsp" => \E r \in heard[s] : r.a = a /\ r.rt = "rsp" /\ r.what \in {"rsp", "empty"}
    /\ seen' = [seen EXCEPT ![s] = @ \cup {<<a, what>>}]
    /\ UNCHANGED <<adv, advd, scan, pend, call, conns, evq, rets, heard, cnt, quiesced>>

-----------------------------------------------------------------------------
\* ---- connection establishment
Linked(d, e, tr) ==     \* a connection of that transport between d and e exists, is being made or torn down
    \E k \in Ks : /\ conns[k].tr = tr /\ {conns[k].c, conns[k].p} = {d, e}
                  /\ \/ conns[k].link \in {"setup", "open"}
                     \/ \E s \in Sides : conns[k].ctl[s] \/ conns[k].out[s] # <<>>
\* e is itself trying to reach d on that transport.  Two devices that initiate towards each other
\* at the same time are outside the model (see notes/C06.md: the controller would hold two LE
\* connections under one peer-address key)
Crossing(d, e, tr) == call[e][tr].on /\ Owner(call[e][tr].ta) = d

Call(d, tr, ta, own) ==
    /\ Idle
    /\ d \in Inits /\ tr \in Transports /\ ~call[d][tr].on /\ cnt.call < MaxCalls
    /\ Owner(ta) \in Devs \ {d} /\ ta[2] \in Kinds /\ own \in OwnK
    /\ tr = "le" => own \in OwnKinds /\ ta[2] \in AdvKinds
    /\ ~Linked(d, Owner(ta), tr) /\ ~Crossing(d, Owner(ta), tr)
    /\ \/ /\ tr = "le" /\ ~pend[d].on
          /\ pend' = [pend EXCEPT ![d] = [on |-> TRUE, ta |-> ta, own |-> own]]
          /\ UNCHANGED conns
       \* (the virtual controller refuses a page while an LE create-connection is pending: Controller Busy)
       \/ /\ tr = "br" /\ ta[2] = "pub" /\ own = "pub" /\ Len(conns) < MaxConns /\ ~pend[d].on
          /\ conns' = Append(conns, NewConn("br", d, Owner(ta), <<d, "pub">>, ta))
          /\ UNCHANGED pend
    /\ call' = [call EXCEPT ![d][tr] = [on |-> TRUE, ta |-> ta, own |-> own]]
    /\ cnt' = [cnt EXCEPT !.call = @ + 1]
    /\ quiesced' = FALSE
    /\ UNCHANGED <<adv, advd, scan, evq, rets, heard, seen>>

\* on_advertising_pdu + create_le_connection at the initiating controller d
CanLinkConnect(d) ==
    /\ pend[d].on /\ Len(conns) < MaxConns
    /\ LET e == Owner(pend[d].ta) IN
       /\ e # d \/ "adv_to_self" \in Bugs
       /\ \E flav \in Flavs : OnAir(e, pend[d].ta[2], flav)
       /\ ~\E ks \in CtlAt(d) : conns[ks[1]].tr = "le" /\ Peer(ks[1], ks[2]) = pend[d].ta

LinkConnect(d, h) ==
    /\ Idle
    /\ CanLinkConnect(d) /\ h \in HandleChoices(d)
    /\ LET k == Len(conns) + 1
           r == NewConn("le", d, Owner(pend[d].ta), <<d, pend[d].own>>, pend[d].ta)
       IN /\ conns' = Append(conns, [r EXCEPT !.ctl.c = TRUE, !.h.c = h])
          /\ evq' = [evq EXCEPT ![d] = Append(@, EvConn(k, "c"))]
    /\ pend' = [pend EXCEPT ![d] = NoPend]
    /\ quiesced' = FALSE
    /\ UNCHANGED <<adv, advd, scan, call, rets, heard, seen, cnt>>

\* who takes a CONNECT_IND for connection k
Acceptors(k) ==
    IF "accept_any_adv" \in Bugs THEN {e \in Devs \ {conns[k].c} : adv[e].on}
    ELSE {e \in Devs \ {conns[k].c} : e = Owner(conns[k].pa) /\ adv[e].on /\ adv[e].kind = conns[k].pa[2]}

ConnectInd(k, e, h) ==
    /\ Idle
    /\ k \in Ks /\ conns[k].tr = "le" /\ conns[k].link = "setup"
    /\ e \in Acceptors(k) /\ h \in HandleChoices(e)
    /\ conns' = [conns EXCEPT ![k].p = e, ![k].link = "open", ![k].ctl.p = TRUE, ![k].h.p = h]
    /\ evq' = [evq EXCEPT ![e] = Append(@, EvConn(k, "p"))]
    /\ adv' = [adv EXCEPT ![e] = NoAdv]
    /\ quiesced' = FALSE
    /\ UNCHANGED <<advd, scan, pend, call, rets, heard, seen, cnt>>

ConnFail(k) ==
    /\ Idle
    /\ k \in Ks /\ conns[k].tr = "le" /\ conns[k].link = "setup"
    /\ \A e \in Acceptors(k) : adv[e].stopping
    /\ IF "phantom" \in Bugs
       THEN /\ conns' = [conns EXCEPT ![k].link = "failed"]
            /\ UNCHANGED evq
       ELSE /\ conns' = [conns EXCEPT ![k].link = "failed", ![k].ctl.c = FALSE]
            /\ evq' = [evq EXCEPT ![conns[k].c] = Append(@, EvDisc(k, "c"))]
    /\ quiesced' = FALSE
    /\ UNCHANGED <<adv, advd, scan, pend, call, rets, heard, seen, cnt>>

\* a link set up by an LMP request: the requested side accepts ...
AcceptAt(k, h) ==
    /\ Idle
    /\ conns[k].tr \in Paged /\ conns[k].link = "setup" /\ ~conns[k].ctl.p
    /\ h \in HandleChoices(conns[k].p)
    /\ conns' = [conns EXCEPT ![k].ctl.p = TRUE, ![k].h.p = h]
    /\ evq' = [evq EXCEPT ![conns[k].p] = Append(@, EvConn(k, "p"))]
    /\ quiesced' = FALSE
    /\ UNCHANGED <<adv, advd, scan, pend, call, rets, heard, seen, cnt>>

\* ... and its LMP accepted reaches the requester
\* (the accepting side may already have disconnected again: its LMP accepted still arrives first)
AcceptedAt(k, h) ==
    /\ Idle
    /\ conns[k].tr \in Paged /\ conns[k].h.p # 0 /\ conns[k].h.c = 0
    /\ h \in HandleChoices(conns[k].c)
    /\ conns' = [conns EXCEPT ![k].ctl.c = TRUE, ![k].h.c = h, ![k].link = IF @ = "setup" THEN "open" ELSE @]
    /\ evq' = [evq EXCEPT ![conns[k].c] = Append(@, EvConn(k, "c"))]
    /\ quiesced' = FALSE
    /\ UNCHANGED <<adv, advd, scan, pend, call, rets, heard, seen, cnt>>

ClassicAccept(k, h) ==
    /\ k \in Ks /\ conns[k].tr = "br"
    /\ AcceptAt(k, h)
ClassicAccepted(k, h) ==
    /\ k \in Ks /\ conns[k].tr = "br"
    /\ AcceptedAt(k, h)

\* ---- (e)SCO links: further entries of the link tables of both controllers
\* the (e)SCO link on BR/EDR connection k is being set up, up, or being torn down
ScoLive(k) == \E j \in Ks : /\ conns[j].tr = "sco" /\ conns[j].acl = k
                             /\ \/ conns[j].link \in {"setup", "open"}
                                \/ \E s \in Sides : conns[j].ctl[s] \/ conns[j].want[s] \/ conns[j].out[s] # <<>>

\* HCI_Enhanced_Setup_Synchronous_Connection on side s of connection k (both controllers hold k and
\* nobody has asked to disconnect it; the controller keeps one (e)SCO link per peer)
ScoCall(k, s) ==
    /\ Idle
    /\ k \in Ks /\ conns[k].tr = "br" /\ conns[k].link = "open" /\ conns[k].st[s] = "up"
    /\ \A x \in Sides : conns[k].ctl[x] /\ ~conns[k].want[x] /\ conns[k].st[x] # "down"
    /\ cnt.sco < MaxSco /\ Len(conns) < MaxConns
    /\ ~Linked(Dev(k, s), Dev(k, Other(s)), "sco")
    /\ LET d == Dev(k, s)
           e == Dev(k, Other(s))
       IN conns' = Append(conns, [NewConn("sco", d, e, <<d, "pub">>, <<e, "pub">>) EXCEPT !.acl = k])
    /\ cnt' = [cnt EXCEPT !.sco = @ + 1]
    /\ quiesced' = FALSE
    /\ UNCHANGED <<adv, advd, scan, pend, call, evq, rets, heard, seen>>

ScoAccept(k, h) ==
    /\ k \in Ks /\ conns[k].tr = "sco"
    /\ AcceptAt(k, h)
ScoAccepted(k, h) ==
    /\ k \in Ks /\ conns[k].tr = "sco"
    /\ AcceptedAt(k, h)

-----------------------------------------------------------------------------
\* ---- the host side
HostEvt(d) ==
    /\ evq[d] # <<>>
    /\ LET ev == Head(evq[d]) IN
       conns' = CASE ev.t = "conn" -> [conns EXCEPT ![ev.k].st[ev.s] = "up"]
                  [] ev.t = "disc" -> [conns EXCEPT ![ev.k].st[ev.s] = "down"]
                  [] ev.t = "data" -> [conns EXCEPT ![ev.k].got[ev.s] = Append(@, <<ev.fk, ev.id>>)]
    /\ evq' = [evq EXCEPT ![d] = Tail(@)]
    /\ quiesced' = FALSE
    /\ UNCHANGED <<adv, advd, scan, pend, call, rets, heard, seen, cnt>>

\* which connection may be handed to the caller of connect(transport = tr) at d
Returnable(d, tr, k) ==
    /\ ~conns[k].ret /\ conns[k].tr \in Trs
    /\ IF "any_conn_resolves" \in Bugs
       THEN \E s \in Sides : Dev(k, s) = d /\ conns[k].st[s] # "none" /\ (tr = "le" \/ conns[k].tr = "br")
       ELSE IF "connect_ignores_transport" \in Bugs /\ tr = "br"
       THEN \E s \in Sides : Dev(k, s) = d /\ conns[k].st[s] # "none" /\ Peer(k, s) = call[d][tr].ta
       ELSE /\ conns[k].c = d /\ conns[k].st.c # "none"
            /\ conns[k].tr = tr /\ conns[k].pa = call[d][tr].ta

RetConnect(d, tr, k) ==
    /\ Idle
    /\ tr \in Trs /\ call[d][tr].on /\ k \in Ks /\ Returnable(d, tr, k)
    /\ rets' = Append(rets, [d |-> d, k |-> k, tr |-> tr, ta |-> call[d][tr].ta])
    /\ conns' = [conns EXCEPT ![k].ret = TRUE]
    /\ call' = [call EXCEPT ![d][tr] = NoCall]
    /\ quiesced' = FALSE
    /\ UNCHANGED <<adv, advd, scan, pend, evq, heard, seen, cnt>>

Send(k, s) ==
    /\ Idle
    /\ k \in Ks /\ conns[k].tr \in Trs /\ conns[k].st[s] = "up" /\ conns[k].ns[s] < MaxPdus /\ cnt.send < MaxSends
    \* a PDU sent after the host asked for the disconnection races with the Disconnect command (commands
    \* wait for their turn, data does not): it leaves before the terminate or finds the connection gone
    \* (and once one of them found the connection gone, so do all later ones)
    /\ \E keep \in (IF conns[k].cut[s] THEN {FALSE} ELSE IF conns[k].want[s] THEN {TRUE, FALSE} ELSE {TRUE}) :
         conns' = [conns EXCEPT ![k].ns[s] = @ + 1, ![k].cut[s] = ~keep,
                                ![k].out[s] = IF keep THEN Append(@, conns[k].ns[s] + 1) ELSE @]
    /\ cnt' = [cnt EXCEPT !.send = @ + 1]
    /\ quiesced' = FALSE
    /\ UNCHANGED <<adv, advd, scan, pend, call, evq, rets, heard, seen>>

\* ---- the link
\* the controllers LocalLink.find_*_controller may pick for destination address a
Holders(tr, a) ==
    IF tr \in Paged THEN {Owner(a)} \cap Devs
    ELSE IF "route_by_controller_addr" \in Bugs THEN {d \in Devs : a \in {<<d, "pub">>, <<d, "rnd">>}}
    ELSE {Dev(ks[1], ks[2]) : ks \in {x \in AllCtl : /\ conns[x[1]].tr = "le"
                                                      /\ (IF "match_peer_addr" \in Bugs THEN Peer(x[1], x[2]) ELSE Self(x[1], x[2])) = a}}
\* the connection a controller finds for the sender address it is given
Targets(e, tr, stamp) == {ks \in CtlAt(e) : conns[ks[1]].tr = tr /\ Peer(ks[1], ks[2]) = stamp}

Stamp(k, s, id) ==
    IF conns[k].tr \in Paged THEN <<Dev(k, s), "pub">>
    ELSE IF id # TERM /\ "stamp_random" \in Bugs THEN <<Dev(k, s), "rnd">> ELSE Self(k, s)

\* the PDUs queued before the terminate left the controller while it still held the connection
TermBehind(k, s) == \E i \in 1..Len(conns[k].out[s]) : conns[k].out[s][i] = TERM
Established(k) == conns[k].link # "setup" /\ (conns[k].tr \in Paged => conns[k].h.c # 0)
CanCross(k, s) == k \in Ks /\ conns[k].out[s] # <<>> /\ Established(k)

\* the PDU (or the terminate) is dropped: the sender's controller lost the connection, no
\* controller holds the destination address, or that controller knows no such sender
LinkDrop(k, s) ==
    /\ Idle
    /\ CanCross(k, s)
    /\ LET id == Head(conns[k].out[s]) IN
       \/ ~conns[k].ctl[s] /\ id # TERM /\ ~TermBehind(k, s)
       \/ Holders(conns[k].tr, Peer(k, s)) = {}
       \/ \E e \in Holders(conns[k].tr, Peer(k, s)) : Targets(e, conns[k].tr, Stamp(k, s, id)) = {}
    /\ conns' = [conns EXCEPT ![k].out[s] = Tail(@)]
    /\ quiesced' = FALSE
    /\ UNCHANGED <<adv, advd, scan, pend, call, evq, rets, heard, seen, cnt>>

\* the PDU is handed to connection end t = <<k2, s2>> of controller e
LinkData(k, s, t) ==
    /\ Idle
    /\ CanCross(k, s) /\ t[1] \in Ks
    /\ LET id == Head(conns[k].out[s])
           e  == Dev(t[1], t[2])
       IN /\ id # TERM /\ (conns[k].ctl[s] \/ TermBehind(k, s))
          /\ e \in Holders(conns[k].tr, Peer(k, s))
          /\ t \in Targets(e, conns[k].tr, Stamp(k, s, id))
          /\ evq' = [evq EXCEPT ![e] = Append(@, EvData(t[1], t[2], k, id))]
    /\ conns' = [conns EXCEPT ![k].out[s] = Tail(@)]
    /\ quiesced' = FALSE
    /\ UNCHANGED <<adv, advd, scan, pend, call, rets, heard, seen, cnt>>

\* the terminate reaches the peer's controller: it drops the connection and tells its host
LinkTerm(k, s, t) ==
    /\ Idle
    /\ CanCross(k, s) /\ t[1] \in Ks /\ Head(conns[k].out[s]) = TERM
    /\ LET e == Dev(t[1], t[2]) IN
       /\ e \in Holders(conns[k].tr, Peer(k, s))
       /\ t \in Targets(e, conns[k].tr, Stamp(k, s, TERM))
       /\ evq' = IF "no_disc_event" \in Bugs THEN evq ELSE [evq EXCEPT ![e] = Append(@, EvDisc(t[1], t[2]))]
    /\ conns' = [conns EXCEPT ![k].out[s] = Tail(@), ![t[1]].ctl[t[2]] = FALSE]
    /\ quiesced' = FALSE
    /\ UNCHANGED <<adv, advd, scan, pend, call, rets, heard, seen, cnt>>

Disconnect(k, s) ==
    /\ Idle
    /\ k \in Ks /\ conns[k].st[s] = "up" /\ ~conns[k].want[s] /\ cnt.disc < MaxDisc
    \* (what happens to an (e)SCO link whose ACL connection is disconnected under it is outside this model)
    /\ conns[k].tr = "br" => ~ScoLive(k)
    /\ conns' = [conns EXCEPT ![k].want[s] = TRUE]
    /\ cnt' = [cnt EXCEPT !.disc = @ + 1]
    /\ quiesced' = FALSE
    /\ UNCHANGED <<adv, advd, scan, pend, call, evq, rets, heard, seen>>

\* the controller executes the Disconnect command
CtrlDisc(k, s) ==
    /\ Idle
    /\ k \in Ks /\ conns[k].want[s] /\ conns[k].ctl[s]
    /\ conns' = [conns EXCEPT ![k].want[s] = FALSE, ![k].ctl[s] = FALSE,
                              ![k].link = IF @ = "failed" THEN @ ELSE "closed",
                              ![k].out[s] = Append(@, TERM)]
    /\ evq' = [evq EXCEPT ![Dev(k, s)] = Append(@, EvDisc(k, s))]
    /\ quiesced' = FALSE
    /\ UNCHANGED <<adv, advd, scan, pend, call, rets, heard, seen, cnt>>

\* ... or refuses it: the connection is already gone there (the peer was faster)
CtrlDiscRefused(k, s) ==
    /\ Idle
    /\ k \in Ks /\ conns[k].want[s] /\ ~conns[k].ctl[s]
    /\ conns' = [conns EXCEPT ![k].want[s] = FALSE]
    /\ quiesced' = FALSE
    /\ UNCHANGED <<adv, advd, scan, pend, call, evq, rets, heard, seen, cnt>>

-----------------------------------------------------------------------------
\* ---- quiescence: everything that can happen without a new API call has happened
ScanOwed(s, d) ==       \* what scanner s is still owed about advertiser d
    /\ scan[s] # "off" /\ adv[d].on /\ ~adv[d].stopping /\ s # d
    /\ \/ ~\E r \in heard[s] : r.a = AdvAddr(d) /\ r.rt = "adv"
       \/ <<AdvAddr(d), "adv">> \notin seen[s] /\ <<AdvAddr(d), "advrsp">> \notin seen[s]
       \/ /\ scan[s] = "active" /\ adv[d].flav = "legacy"
          /\ \/ ~\E r \in heard[s] : r.a = AdvAddr(d) /\ r.rt = "rsp"
             \/ <<AdvAddr(d), "advrsp">> \notin seen[s]

\* the initiator d will hear its target: the target is advertising right now
MustLinkConnect(d) ==
    /\ CanLinkConnect(d)
    /\ adv[Owner(pend[d].ta)].on /\ adv[Owner(pend[d].ta)].kind = pend[d].ta[2] /\ ~adv[Owner(pend[d].ta)].stopping

Propagated ==
    /\ \A d \in Devs : evq[d] = <<>> /\ ~MustLinkConnect(d)
    /\ \A k \in Ks : /\ Established(k)
                     /\ \A s \in Sides : conns[k].out[s] = <<>> /\ ~conns[k].want[s]
    /\ \A d \in Devs, tr \in Trs : call[d][tr].on => ~\E k \in Ks : Returnable(d, tr, k)

Quiesce ==
    /\ Idle
    /\ Propagated /\ ~quiesced
    /\ "no_rsp" \notin Bugs => \A s, d \in Devs : ~ScanOwed(s, d)
    /\ quiesced' = TRUE
    /\ UNCHANGED <<adv, advd, scan, pend, call, conns, evq, rets, heard, seen, cnt>>

-----------------------------------------------------------------------------
\* (quantified over constant sets so that TLC reports coverage per action)
KK == 1..MaxConns
Next ==
    \/ \E d \in Devs : HostEvt(d)
    \/ \E d \in Devs, kind \in Kinds, flav \in Flavs : StartAdv(d, kind, flav)
    \/ \E d \in Devs : StopAdvCall(d)
    \/ \E d \in Devs : StopAdv(d)
    \/ \E d \in Devs, m \in {"off", "passive", "active"} : SetScan(d, m)
    \/ \E s, d \in Devs, kind \in Kinds, flav \in Flavs : HearAdv(s, d, kind, flav)
    \/ \E s, d \in Devs, kind \in Kinds, flav \in Flavs : HearRsp(s, d, kind, flav)
    \/ \E s, d \in Devs, kind \in Kinds, what \in {"adv", "advrsp"} : Advert(s, <<d, kind>>, what)
    \/ \E d, e \in Devs, tr \in Transports, kind \in Kinds, own \in OwnK : Call(d, tr, <<e, kind>>, own)
    \/ \E d \in Devs, h \in 1..MaxH : LinkConnect(d, h)
    \/ \E k \in KK, e \in Devs, h \in 1..MaxH : ConnectInd(k, e, h)
    \/ \E k \in KK : ConnFail(k)
    \/ \E k \in KK, h \in 1..MaxH : ClassicAccept(k, h)
    \/ \E k \in KK, h \in 1..MaxH : ClassicAccepted(k, h)
    \/ \E k \in KK, s \in Sides : ScoCall(k, s)
    \/ \E k \in KK, h \in 1..MaxH : ScoAccept(k, h)
    \/ \E k \in KK, h \in 1..MaxH : ScoAccepted(k, h)
    \/ \E d \in Devs, tr \in Trs, k \in KK : RetConnect(d, tr, k)
    \/ \E k \in KK, s \in Sides : Send(k, s)
    \/ \E k \in KK, s \in Sides : LinkDrop(k, s)
    \/ \E k \in KK, s \in Sides, t \in KK \X Sides : LinkData(k, s, t)
    \/ \E k \in KK, s \in Sides, t \in KK \X Sides : LinkTerm(k, s, t)
    \/ \E k \in KK, s \in Sides : Disconnect(k, s)
    \/ \E k \in KK, s \in Sides : CtrlDisc(k, s)
    \/ \E k \in KK, s \in Sides : CtrlDiscRefused(k, s)
    \/ Quiesce

Spec == Init /\ [][Next]_vars

-----------------------------------------------------------------------------
\* ---- the property
TypeOK ==
    /\ \A d \in Devs : adv[d].kind \in Kinds /\ adv[d].flav \in Flavs /\ scan[d] \in {"off", "passive", "active"}
    /\ Len(conns) <= MaxConns
    /\ \A k \in Ks : /\ conns[k].tr \in {"le", "br", "sco"} /\ (conns[k].tr = "sco") = (conns[k].acl # 0) /\ conns[k].link \in {"setup", "open", "closed", "failed"}
                     /\ \A s \in Sides : conns[k].st[s] \in {"none", "up", "down"} /\ conns[k].h[s] \in 0..MaxH

\* a connection joins the initiator and the owner of the address it asked for, and nobody else
RightPeer == \A k \in Ks : Owner(conns[k].ca) = conns[k].c /\ Owner(conns[k].pa) = conns[k].p

\* the caller of connect(a) is handed the connection whose peer is a, as central - and no other
CallerGets ==
    \A i \in 1..Len(rets) :
        LET r == rets[i] IN conns[r.k].c = r.d /\ conns[r.k].pa = r.ta /\ conns[r.k].tr = r.tr

\* handles of the links (LE, BR/EDR ACL, (e)SCO) a host holds as live are pairwise distinct; so are
\* those of the links a controller holds
Handles ==
    \A d \in Devs :
        /\ \A x, y \in HostAt(d) : x # y => conns[x[1]].h[x[2]] # conns[y[1]].h[y[2]]
        /\ \A x, y \in CtlAt(d) : x # y => conns[x[1]].h[x[2]] # conns[y[1]].h[y[2]]

\* what a host is handed on a connection was sent on that connection, by its peer, in order, once
OnlyPeer ==
    \A k \in Ks, s \in Sides :
        /\ Len(conns[k].got[s]) <= conns[k].ns[Other(s)]
        /\ \A i \in 1..Len(conns[k].got[s]) : conns[k].got[s][i] = <<k, i>>

\* a PDU is only ever handed to a host that holds the connection as live
LiveOnly == \A d \in Devs : \A i \in 1..Len(evq[d]) :
                evq[d][i].t = "data" => conns[evq[d][i].k].st[evq[d][i].s] # "down"

\* reports carry the advertiser's own payloads, under an address it advertises with, and are
\* never given to the advertiser itself
AdvData ==
    \A s \in Devs : \A r \in heard[s] :
        /\ r.src = Owner(r.a) /\ r.src # s
        /\ \E kf \in advd[r.src] : kf[1] = r.a[2]
        /\ r.rt = "adv" => r.what = "adv"
        /\ r.rt = "rsp" => r.what \in {"rsp", "empty"}

\* at quiescence ...
BothTold ==     \* a connection is up at both ends or at neither; a closed one has been reported closed
    quiesced => \A k \in Ks :
        /\ conns[k].link = "open" => \A s \in Sides : conns[k].st[s] = "up"
        /\ conns[k].link \in {"closed", "failed"} => \A s \in Sides : conns[k].st[s] # "up"
Delivered ==    \* every PDU sent on a connection that is still open has been handed to the peer
    quiesced => \A k \in Ks : conns[k].link = "open" =>
        \A s \in Sides : Len(conns[k].got[s]) = conns[k].ns[Other(s)]
CallsDone ==    \* a connect call still waits only if its target cannot be reached
    quiesced => \A d \in Devs, tr \in Trs : call[d][tr].on =>
        /\ ~\E k \in Ks : conns[k].c = d /\ conns[k].tr = tr /\ conns[k].pa = call[d][tr].ta /\ ~conns[k].ret
        /\ tr = "le"
ScanGiven ==    \* scanners have been given the data of everyone who advertises
    quiesced => \A s, d \in Devs : ~ScanOwed(s, d)
=============================================================================
