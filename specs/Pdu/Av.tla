--------------------------------- MODULE Av ---------------------------------
(* C18, the AV protocols' headers.
   AVDTP signalling (AVDTP 1.3, 8.4): first octet = label << 4 | packet type << 2 | message type;
     single   (0)  hdr, signal id (6 bits), payload
     start    (1)  hdr, signal id, NOSP (number of signal packets of the message), fragment
     continue (2)  hdr, fragment          end (3)  hdr, fragment
     How a message is cut into fragments is the sender's choice (every packet <= MTU); the receiver
     concatenates.  Sent(m, mtu, pdus) accepts any legal cut.
   AVCTP (AVCTP 1.4, 6.1), unfragmented: label << 4 | packet type(0) << 2 | c/r << 1 | ipid, PID (BE16), payload.
   AV/C frame (AV/C Digital Interface Command Set 4.1, 5.3.1, unit / subunit ids below 5 or 7):
     ctype / response (4 bits), subunit_type << 3 | subunit_id, opcode, operands;
     PASS THROUGH operands: state << 7 | operation id, length, operation data;
     VENDOR DEPENDENT operands: company id (24 bits, big endian), data.
   RTP header (RFC 3550, 5.1): V(2) P(1) X(1) CC(4) | M(1) PT(7) | seq (BE16) | timestamp (BE32) |
     SSRC (BE32) | CC x CSRC (BE32) | payload.  32-bit numbers are <<lo16, hi16>>.               *)
EXTENDS Codec

(* ------------------------------------------------------------------ AVDTP *)
AvdtpHdr(label, pt, mt) == 16 * label + 4 * pt + mt
AvdtpSingle(m) == <<AvdtpHdr(m.label, 0, m.mt), m.sig>> \o m.payload
AvdtpInRange(m) == m.label \in 0..15 /\ m.mt \in 0..3 /\ m.sig \in 0..63 /\ IsBytes(m.payload)

Body(m, pdus, i) == IF i = 1 THEN Slice(pdus[1], 4, Len(pdus[1])) ELSE Slice(pdus[i], 2, Len(pdus[i]))
Sent(m, mtu, pdus) ==
    /\ Len(pdus) >= 1
    /\ \A i \in 1..Len(pdus) : Len(pdus[i]) <= mtu /\ IsBytes(pdus[i])
    /\ IF Len(pdus) = 1
       THEN pdus[1] = AvdtpSingle(m)
       ELSE /\ Len(pdus) <= 255
            /\ Len(pdus[1]) >= 3
            /\ SubSeq(pdus[1], 1, 3) = <<AvdtpHdr(m.label, 1, m.mt), m.sig, Len(pdus)>>
            /\ \A i \in 2..Len(pdus) : /\ Len(pdus[i]) >= 2          \* no empty fragments
                                       /\ pdus[i][1] = AvdtpHdr(m.label, IF i = Len(pdus) THEN 3 ELSE 2, m.mt)
            /\ Flatten([i \in 1..Len(pdus) |-> Body(m, pdus, i)]) = m.payload
\* a message that fits must not be fragmented
MustBeSingle(m, mtu) == Len(m.payload) + 2 <= mtu

\* the message a receiver gets from a well-formed packet sequence
Received(pdus) ==
    LET h == pdus[1][1] IN
    IF Len(pdus) = 1
    THEN [label |-> h \div 16, mt |-> h % 4, sig |-> pdus[1][2] % 64, payload |-> Slice(pdus[1], 3, Len(pdus[1]))]
    ELSE [label |-> h \div 16, mt |-> h % 4, sig |-> pdus[1][2] % 64,
          payload |-> Flatten([i \in 1..Len(pdus) |-> IF i = 1 THEN Slice(pdus[1], 4, Len(pdus[1])) ELSE Slice(pdus[i], 2, Len(pdus[i]))])]
PdusWf(pdus) ==
    /\ Len(pdus) >= 1 /\ \A i \in 1..Len(pdus) : Len(pdus[i]) >= 1
    /\ IF Len(pdus) = 1 THEN Len(pdus[1]) >= 2 /\ (pdus[1][1] \div 4) % 4 = 0
       ELSE /\ Len(pdus[1]) >= 3 /\ (pdus[1][1] \div 4) % 4 = 1 /\ pdus[1][3] = Len(pdus)
            /\ \A i \in 2..Len(pdus) : /\ (pdus[i][1] \div 4) % 4 = (IF i = Len(pdus) THEN 3 ELSE 2)
                                       /\ pdus[i][1] \div 16 = pdus[1][1] \div 16
                                       /\ pdus[i][1] % 4 = pdus[1][1] % 4

(* ------------------------------------------------------------------ AVCTP *)
AvctpSer(r) == <<16 * r.label + 2 * r.cr + r.ipid>> \o U16BeSer(r.pid) \o r.payload
AvctpPar(b) == [label |-> At(b, 1) \div 16, cr |-> (At(b, 1) \div 2) % 2, ipid |-> At(b, 1) % 2, pid |-> U16BeAt(b, 1), payload |-> Slice(b, 4, Len(b))]
AvctpInRange(r) == r.label \in 0..15 /\ r.cr \in 0..1 /\ r.ipid \in 0..1 /\ r.pid \in 0..65535 /\ IsBytes(r.payload) /\ (r.cr = 0 => r.ipid = 0)
AvctpWf(b) == Len(b) >= 3 /\ IsBytes(b) /\ (At(b, 1) \div 4) % 4 = 0 /\ AvctpInRange(AvctpPar(b))

(* ------------------------------------------------------------------ AV/C *)
AvcSer(r) == <<r.ctype, 8 * r.st + r.sid, r.op>> \o r.operands
AvcPar(b) == [ctype |-> At(b, 1) % 16, st |-> At(b, 2) \div 8, sid |-> At(b, 2) % 8, op |-> At(b, 3), operands |-> Slice(b, 4, Len(b))]
AvcInRange(r) == r.ctype \in 0..15 /\ r.st \in 0..31 /\ r.st # 30 /\ r.sid \in {0, 1, 2, 3, 4, 7} /\ r.op \in Byte /\ IsBytes(r.operands)
AvcWf(b) == Len(b) >= 3 /\ IsBytes(b) /\ At(b, 1) < 16 /\ AvcInRange(AvcPar(b))

PassSer(r) == <<128 * r.state + r.opid, Len(r.data)>> \o r.data
PassPar(b) == [state |-> At(b, 1) \div 128, opid |-> At(b, 1) % 128, data |-> Slice(b, 3, 2 + At(b, 2))]
PassInRange(r) == r.state \in 0..1 /\ r.opid \in 0..127 /\ IsBytes(r.data) /\ Len(r.data) <= 255
PassWf(b) == Len(b) >= 2 /\ IsBytes(b) /\ Len(b) = 2 + At(b, 2)

VendorSer(r) == <<r.company \div 65536, (r.company \div 256) % 256, r.company % 256>> \o r.data
VendorPar(b) == [company |-> 65536 * At(b, 1) + 256 * At(b, 2) + At(b, 3), data |-> Slice(b, 4, Len(b))]
VendorInRange(r) == r.company \in 0..16777215 /\ IsBytes(r.data)
VendorWf(b) == Len(b) >= 3 /\ IsBytes(b)

(* ------------------------------------------------------------------ RTP *)
RtpSer(r) ==
    <<64 * r.v + 32 * r.p + 16 * r.x + Len(r.csrc), 128 * r.m + r.pt>> \o U16BeSer(r.seq) \o U32BeSer(r.ts) \o U32BeSer(r.ssrc)
    \o Flatten([i \in 1..Len(r.csrc) |-> U32BeSer(r.csrc[i])]) \o r.payload
RtpPar(b) ==
    LET cc == At(b, 1) % 16 IN
    [v |-> At(b, 1) \div 64, p |-> (At(b, 1) \div 32) % 2, x |-> (At(b, 1) \div 16) % 2, m |-> At(b, 2) \div 128, pt |-> At(b, 2) % 128,
     seq |-> U16BeAt(b, 2), ts |-> U32BeAt(b, 4), ssrc |-> U32BeAt(b, 8),
     csrc |-> [i \in 1..cc |-> U32BeAt(b, 12 + 4 * (i - 1))], payload |-> Slice(b, 13 + 4 * cc, Len(b))]
Limb2(l) == Len(l) = 2 /\ l[1] \in 0..65535 /\ l[2] \in 0..65535
RtpInRange(r) == /\ r.v \in 0..3 /\ r.p \in 0..1 /\ r.x \in 0..1 /\ r.m \in 0..1 /\ r.pt \in 0..127 /\ r.seq \in 0..65535
                 /\ Limb2(r.ts) /\ Limb2(r.ssrc) /\ Len(r.csrc) <= 15 /\ (\A i \in 1..Len(r.csrc) : Limb2(r.csrc[i])) /\ IsBytes(r.payload)
RtpWf(b) == Len(b) >= 12 + 4 * (At(b, 1) % 16) /\ IsBytes(b)
=============================================================================
