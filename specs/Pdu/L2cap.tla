------------------------------- MODULE L2cap -------------------------------
(* C18, L2CAP encodings with case analysis (Core Vol 3 Part A).
   - signalling frames use the generic field codec: frame "l2c" of Codec.tla, the variable-length PSM
     is kind "psm" there;
   - basic L2CAP header (3.1): length(LE16) cid(LE16) payload;
   - enhanced control field (3.3.2, Table 3.2), 16 bits, little endian:
       I-frame  bit0 = 0, TxSeq bits 1..6, F bit 7, ReqSeq bits 8..13, SAR bits 14..15
       S-frame  bit0 = 1, S bits 2..3, P bit 4, F bit 7, ReqSeq bits 8..13
     a control field is a record [t, tx, req, sar, f, p, s] (unused members 0).               *)
EXTENDS Codec

BasicSer(r) == U16Ser(Len(r.payload)) \o U16Ser(r.cid) \o r.payload
BasicPar(b) == [cid |-> U16At(b, 2), payload |-> Slice(b, 5, 4 + U16At(b, 0))]
BasicInRange(r) == r.cid \in 0..65535 /\ IsBytes(r.payload) /\ Len(r.payload) <= 65535
BasicWf(b) == Len(b) >= 4 /\ Len(b) = 4 + U16At(b, 0)

EcfSer(r) ==
    IF r.t = "i"
    THEN <<2 * r.tx + 128 * r.f, r.req + 64 * r.sar>>
    ELSE <<1 + 4 * r.s + 16 * r.p + 128 * r.f, r.req>>

EcfPar(b) ==
    IF At(b, 1) % 2 = 0
    THEN [t |-> "i", tx |-> (At(b, 1) \div 2) % 64, f |-> At(b, 1) \div 128, req |-> At(b, 2) % 64, sar |-> At(b, 2) \div 64, p |-> 0, s |-> 0]
    ELSE [t |-> "s", s |-> (At(b, 1) \div 4) % 4, p |-> (At(b, 1) \div 16) % 2, f |-> At(b, 1) \div 128, req |-> At(b, 2) % 64, tx |-> 0, sar |-> 0]

EcfInRange(r) ==
    /\ r.t \in {"i", "s"} /\ r.req \in 0..63 /\ r.f \in 0..1
    /\ (r.t = "i" => r.tx \in 0..63 /\ r.sar \in 0..3 /\ r.p = 0 /\ r.s = 0)
    /\ (r.t = "s" => r.s \in 0..3 /\ r.p \in 0..1 /\ r.tx = 0 /\ r.sar = 0)

EcfWf(b) == Len(b) = 2 /\ IsBytes(b) /\ EcfSer(EcfPar(b)) = b     \* reserved bits clear
=============================================================================
