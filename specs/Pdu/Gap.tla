-------------------------------- MODULE Gap --------------------------------
(* C18, advertising data, UUIDs, addresses.
   AD (Core Vol 3 Part C 11, Supplement Part A): a sequence of structures length(1) type(1) data, where
   length counts type and data; a zero length octet is padding (skipped), parsing stops when fewer
   than two octets remain.  structs = <<[t |-> type, d |-> data], ..>>.
   UUID (Vol 3 Part B 2.5.1): 16-, 32- or 128-bit; value of a short form = Base UUID with the short
   value in octets 12..15 (little endian storage).  The width is part of what is serialised: a
   128-bit UUID that happens to lie in the Base UUID range still serialises to 16 octets.       *)
EXTENDS Codec

AdSer(structs) == Flatten([i \in 1..Len(structs) |-> <<Len(structs[i].d) + 1, structs[i].t>> \o structs[i].d])
AdInRange(structs) == \A i \in 1..Len(structs) : structs[i].t \in Byte /\ IsBytes(structs[i].d) /\ Len(structs[i].d) <= 254

RECURSIVE AdParFrom(_, _)
AdParFrom(b, o) ==
    IF o + 1 >= Len(b) THEN <<>>
    ELSE LET L == At(b, o + 1) IN
         IF L = 0 THEN AdParFrom(b, o + 1)
         ELSE <<[t |-> At(b, o + 2), d |-> Slice(b, o + 3, o + 1 + L)]>> \o AdParFrom(b, o + 1 + L)
AdPar(b) == AdParFrom(b, 0)
AdWf(b)  == IsBytes(b) /\ AdSer(AdPar(b)) = b

\* little-endian Base UUID 00000000-0000-1000-8000-00805F9B34FB without its first 32 bits
BaseLow == <<251, 52, 155, 95, 128, 0, 0, 128, 0, 16, 0, 0>>
Uuid128(u) == CASE Len(u) = 2  -> BaseLow \o u \o <<0, 0>>
                [] Len(u) = 4  -> BaseLow \o u
                [] Len(u) = 16 -> u
UuidInRange(u) == Len(u) \in {2, 4, 16} /\ IsBytes(u)
\* ATT PDUs carry 32-bit UUIDs as 128-bit ones (Vol 3 Part F 3.2.1)
UuidPduSer(u) == IF Len(u) = 4 THEN Uuid128(u) ELSE u
=============================================================================
