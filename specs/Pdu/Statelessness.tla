---------------------------- MODULE Statelessness ----------------------------
(* C18, "whatever has been parsed or constructed earlier in the same process".
   A codec is a function of its input alone.  One trace = one process history: a list of
   operations  [op, key, res]  where op names the codec operation ("uuid.from_bytes",
   "sdp.parse", ..), key is its input (a byte sequence) and res what it produced (the re-serialised
   bytes / a canonical value).  The history is accepted iff equal (op, key) always gave equal res:
   memo remembers the first result, every later occurrence must repeat it.  An event with
   op = "restart" separates two histories over the same inputs (a new process): memo is kept, so the
   result must also be the same in every history - that is what "whatever happened earlier" means.
   A process-wide registry or cache that leaks into results (core.UUID.UUIDS) makes two histories
   that visit the inputs in different orders diverge.
   C01 uses the same spec for "parses back into a packet ... with the same field values": op = "hci.parse",
   key = the bytes of an HCI packet, res = a digest of the canonical field values of the parsed packet (every
   attribute of a field value as its own entry - an address is its six octets and its address type as a
   number, whatever the value object's own equality says); the histories are really separate processes
   that parse the same packets (same octets in the address-like fields, the one-octet fields around them
   going through their codes) in different orders, "restart" marks the process boundary.          *)
EXTENDS Sequences, Naturals, TLC, Json, IOUtils, TLCExt

Traces == JsonDeserialize(IOEnv.TRACE_FILE)

VARIABLES tid, l, memo
tvars == <<tid, l, memo>>

T  == Traces[tid]
Ev == T[l]
KeyOf(ev) == <<ev.op, ev.key>>

Restart == Ev.op = "restart"
Fresh   == ~Restart /\ KeyOf(Ev) \notin DOMAIN memo
Repeat  == ~Restart /\ KeyOf(Ev) \in DOMAIN memo /\ memo[KeyOf(Ev)] = Ev.res

Step == /\ l <= Len(T)
        /\ \/ Fresh /\ memo' = (KeyOf(Ev) :> Ev.res) @@ memo
           \/ Repeat /\ UNCHANGED memo
           \/ Restart /\ UNCHANGED memo
        /\ l' = l + 1 /\ tid' = tid

Done == /\ l = Len(T) + 1
        /\ PrintT(<<"ACCEPT", tid>>)
        /\ UNCHANGED tvars

Stuck == /\ l <= Len(T)
         /\ ~Fresh /\ ~Repeat /\ ~Restart
         /\ PrintT(<<"REJECT", tid, l, Ev, [first |-> memo[KeyOf(Ev)]]>>)
         /\ UNCHANGED tvars

TraceInit == tid \in 1..Len(Traces) /\ l = 1 /\ memo = <<>>
TraceNext == Step \/ Done \/ Stuck
TraceSpec == TraceInit /\ [][TraceNext]_tvars
=============================================================================
