-------------------------------- MODULE Smp --------------------------------
(* C18, Security Manager Protocol command formats (Core Vol 3 Part H 3.5, 3.6): the widths, in octets, of
   the parameters that follow the code octet.  Stated independently of the implementation's field
   declarations, so that a field declared with another width is seen even though the codec would still
   be consistent with itself.                                                                     *)
EXTENDS Integers, Sequences

SmpWidths(code) ==
    CASE code = 1  -> <<1, 1, 1, 1, 1, 1>>   \* Pairing Request: IO cap, OOB, AuthReq, max key size, init / resp key dist
      [] code = 2  -> <<1, 1, 1, 1, 1, 1>>   \* Pairing Response
      [] code = 3  -> <<16>>                 \* Pairing Confirm
      [] code = 4  -> <<16>>                 \* Pairing Random
      [] code = 5  -> <<1>>                  \* Pairing Failed: reason
      [] code = 6  -> <<16>>                 \* Encryption Information: LTK
      [] code = 7  -> <<2, 8>>               \* Central Identification: EDIV, Rand
      [] code = 8  -> <<16>>                 \* Identity Information: IRK
      [] code = 9  -> <<1, 6>>               \* Identity Address Information: type, address
      [] code = 10 -> <<16>>                 \* Signing Information: CSRK
      [] code = 11 -> <<1>>                  \* Security Request: AuthReq
      [] code = 12 -> <<32, 32>>             \* Pairing Public Key: X, Y
      [] code = 13 -> <<16>>                 \* Pairing DHKey Check
      [] code = 14 -> <<1>>                  \* Pairing Keypress Notification
      [] OTHER     -> <<>>
SmpKnown(code) == code \in 1..14
=============================================================================
