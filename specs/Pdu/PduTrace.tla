------------------------------ MODULE PduTrace ------------------------------
(* Code -> spec validation for the C18 codecs that are not the generic field codec (those go through
   Hci/CodecTrace.tla).  One event = one thing a real bumble codec did:
     dir = "ser": an object built from the values r; bytes = what it serialised to
                  accepted iff r is in range and bytes = Ser(r)
     dir = "par": bytes parsed; r = the values of the parsed object; again = serialisation of a fresh
                  object built from those values
                  accepted iff (bytes well formed => r = Par(bytes) /\ again = bytes)
   e selects the codec: basic ecf sdpel rfc mcc pn msc avdtp avctp avc pass vendor rtp ad uuid;
   e = "smplayout": the parameter widths a registered SMP class declares must be those of Smp.tla.   *)
EXTENDS L2cap, Sdp, Rfcomm, Av, Gap, Smp, Json, IOUtils, TLC, TLCExt

Traces == JsonDeserialize(IOEnv.TRACE_FILE)

VARIABLES tid, l
tvars == <<tid, l>>
T  == Traces[tid]
Ev == T[l]

SerOf(ev) ==
    CASE ev.e = "basic"  -> BasicSer(ev.r)   [] ev.e = "ecf"    -> EcfSer(ev.r)
      [] ev.e = "sdpel"  -> ElemSer(ev.r)    [] ev.e = "rfc"    -> RfSer(ev.r)
      [] ev.e = "mcc"    -> MccSer(ev.r)     [] ev.e = "pn"     -> PnSer(ev.r)
      [] ev.e = "msc"    -> MscSer(ev.r)     [] ev.e = "avctp"  -> AvctpSer(ev.r)
      [] ev.e = "avc"    -> AvcSer(ev.r)     [] ev.e = "pass"   -> PassSer(ev.r)
      [] ev.e = "vendor" -> VendorSer(ev.r)  [] ev.e = "rtp"    -> RtpSer(ev.r)
      [] ev.e = "ad"     -> AdSer(ev.r)      [] ev.e = "uuid"   -> ev.r.u
      [] ev.e = "uuidpdu" -> UuidPduSer(ev.r.u)
InRangeOf(ev) ==
    CASE ev.e = "basic"  -> BasicInRange(ev.r)   [] ev.e = "ecf"    -> EcfInRange(ev.r)
      [] ev.e = "sdpel"  -> ElemInRange(ev.r)    [] ev.e = "rfc"    -> RfInRange(ev.r)
      [] ev.e = "mcc"    -> MccInRange(ev.r)     [] ev.e = "pn"     -> PnInRange(ev.r)
      [] ev.e = "msc"    -> MscInRange(ev.r)     [] ev.e = "avctp"  -> AvctpInRange(ev.r)
      [] ev.e = "avc"    -> AvcInRange(ev.r)     [] ev.e = "pass"   -> PassInRange(ev.r)
      [] ev.e = "vendor" -> VendorInRange(ev.r)  [] ev.e = "rtp"    -> RtpInRange(ev.r)
      [] ev.e = "ad"     -> AdInRange(ev.r)      [] ev.e = "uuid"   -> UuidInRange(ev.r.u)
      [] ev.e = "uuidpdu" -> UuidInRange(ev.r.u)
ParOf(ev) ==
    CASE ev.e = "basic"  -> BasicPar(ev.bytes)   [] ev.e = "ecf"    -> EcfPar(ev.bytes)
      [] ev.e = "sdpel"  -> ElemPar(ev.bytes, 0)[1]  [] ev.e = "rfc" -> RfPar(ev.bytes)
      [] ev.e = "mcc"    -> MccPar(ev.bytes)     [] ev.e = "pn"     -> PnPar(ev.bytes)
      [] ev.e = "msc"    -> MscPar(ev.bytes)     [] ev.e = "avctp"  -> AvctpPar(ev.bytes)
      [] ev.e = "avc"    -> AvcPar(ev.bytes)     [] ev.e = "pass"   -> PassPar(ev.bytes)
      [] ev.e = "vendor" -> VendorPar(ev.bytes)  [] ev.e = "rtp"    -> RtpPar(ev.bytes)
      [] ev.e = "ad"     -> AdPar(ev.bytes)
      \* a UUID is its octets: the width is kept, the 128-bit value is the Base UUID expansion
      [] ev.e = "uuid"   -> [u |-> ev.bytes, v128 |-> Uuid128(ev.bytes)]
WfOf(ev) ==
    CASE ev.e = "basic"  -> BasicWf(ev.bytes)   [] ev.e = "ecf"    -> EcfWf(ev.bytes)
      [] ev.e = "sdpel"  -> ElemWf(ev.bytes)    [] ev.e = "rfc"    -> RfWf(ev.bytes)
      [] ev.e = "mcc"    -> MccWf(ev.bytes)     [] ev.e = "pn"     -> PnWf(ev.bytes)
      [] ev.e = "msc"    -> MscWf(ev.bytes)     [] ev.e = "avctp"  -> AvctpWf(ev.bytes)
      [] ev.e = "avc"    -> AvcWf(ev.bytes)     [] ev.e = "pass"   -> PassWf(ev.bytes)
      [] ev.e = "vendor" -> VendorWf(ev.bytes)  [] ev.e = "rtp"    -> RtpWf(ev.bytes)
      [] ev.e = "ad"     -> AdWf(ev.bytes)      [] ev.e = "uuid"   -> UuidInRange(ev.bytes)

Claim(ev, wf) == IF (ev.wf = "y" /\ ~wf) \/ (ev.wf = "n" /\ wf) THEN {"harness:wf-claim"} ELSE {}

WhyAvdtp(ev) ==
    IF ev.dir = "ser"
    THEN (IF AvdtpInRange(ev.m) /\ ev.mtu >= 4 THEN {} ELSE {"harness:value-out-of-range"})
         \cup (IF AvdtpInRange(ev.m) /\ ev.mtu >= 4 /\ ~Sent(ev.m, ev.mtu, ev.pdus) THEN {"bytes"} ELSE {})
    ELSE Claim(ev, PdusWf(ev.pdus))
         \cup (IF PdusWf(ev.pdus) /\ ev.m # Received(ev.pdus) THEN {"values"} ELSE {})

\* SDP elements: TLC's evaluation of the recursive parser is exponential in the nesting depth, so a parse is
\* judged through the serialiser, which PduMC shows to be injective (ElemPar(ElemSer(e)) = e): the driver
\* supplies the element `orig` it built the bytes from; if orig is in range and ElemSer(orig) = bytes then
\* bytes are well formed and orig is the one element they denote, so the parsed values must equal orig.
\* wf = "n": a legal but non-canonical size form, only the values are compared.
WhySdpPar(ev) ==
    IF ev.wf = "y"
    THEN (IF ElemInRange(ev.orig) /\ ElemSer(ev.orig) = ev.bytes THEN {} ELSE {"harness:wf-claim"})
         \cup (IF ev.r # ev.orig THEN {"values"} ELSE {})
         \cup (IF ev.again # ev.bytes THEN {"reserialised"} ELSE {})
    ELSE IF ev.wf = "w"
    \* a legal non-minimal size form: the driver supplies the element and the width tree it encoded; again is
    \* the serialisation of the PARSED object, which must replay the octets it was parsed from
    THEN (IF ElemInRange(ev.orig) /\ WidthsOk(ev.orig, ev.ow) /\ ElemSerW(ev.orig, ev.ow) = ev.bytes THEN {} ELSE {"harness:wf-claim"})
         \cup (IF ev.r # ev.orig THEN {"values"} ELSE {})
         \cup (IF ev.again # ev.bytes THEN {"reserialised"} ELSE {})
    ELSE (IF ev.r # ev.orig THEN {"values"} ELSE {})

\* the parameter widths a registered SMP command class declares (code, widths) against the Core format
WhyLayout(ev) == IF SmpKnown(ev.code) /\ ev.widths # SmpWidths(ev.code) THEN {"bytes"} ELSE {}

Why(ev) ==
    IF ev.e = "avdtp" THEN WhyAvdtp(ev)
    ELSE IF ev.e = "smplayout" THEN WhyLayout(ev)
    ELSE IF ev.e = "sdpel" /\ ev.dir = "par" THEN WhySdpPar(ev)
    ELSE IF ev.dir = "ser"
    THEN (IF InRangeOf(ev) THEN {} ELSE {"harness:value-out-of-range"})
         \cup (IF InRangeOf(ev) /\ ev.bytes # SerOf(ev) THEN {"bytes"} ELSE {})
    ELSE Claim(ev, WfOf(ev))
         \cup (IF WfOf(ev) /\ ParOf(ev) # ev.r THEN {"values"} ELSE {})
         \cup (IF WfOf(ev) /\ ev.again # ev.bytes THEN {"reserialised"} ELSE {})

Want(ev) ==
    IF ev.e = "smplayout" THEN [widths |-> SmpWidths(ev.code)]
    ELSE IF ev.e = "avdtp" THEN (IF ev.dir = "par" /\ PdusWf(ev.pdus) THEN [r |-> Received(ev.pdus)] ELSE [none |-> 0])
    ELSE IF ev.e = "sdpel" /\ ev.dir = "par" THEN [r |-> ev.orig]
    ELSE IF ev.dir = "ser" THEN [bytes |-> IF InRangeOf(ev) THEN SerOf(ev) ELSE <<>>]
    ELSE [r |-> ParOf(ev)]

Step == /\ l <= Len(T)
        /\ Why(Ev) = {}
        /\ l' = l + 1 /\ tid' = tid
Done == /\ l = Len(T) + 1
        /\ PrintT(<<"ACCEPT", tid>>)
        /\ UNCHANGED tvars
Stuck == /\ l <= Len(T)
         /\ Why(Ev) # {}
         /\ PrintT(<<"REJECT", tid, l, Why(Ev), Want(Ev)>>)
         /\ UNCHANGED tvars

TraceInit == tid \in 1..Len(Traces) /\ l = 1
TraceNext == Step \/ Done \/ Stuck
TraceSpec == TraceInit /\ [][TraceNext]_tvars
=============================================================================
