------------------------------- MODULE PduMC -------------------------------
(* Model-level round trips of the C18 encodings (L2cap, Sdp, Rfcomm, Av, Gap), checked by TLC over
   boundary values and boundary LENGTHS of every variable-length form.  One state = one vector
   (reached in one step from Init); invariant RoundTrip is the theorem
       Par(Ser(v)) = v,  Ser(v) well formed,  and the named layout facts (which length form is used
       at 127 / 128, 255 / 256, 65535 / 65536; which octets the FCS covers; poll is not final).   *)
EXTENDS L2cap, Sdp, Rfcomm, Av, Gap, TLC

CONSTANTS MaxNest,     \* deepest SDP nesting built
          BigLens      \* TRUE: also the 65535 / 65536 octet SDP strings (thorough)

VARIABLE c
vars == <<c>>

Pat(n, s) == [i \in 1..n |-> (s + 37 * i) % 256]
IntE(t, sz, n) == [t |-> t, sz |-> sz, n |-> n, v |-> <<>>, kids |-> <<>>]
Txt(t, v)     == [t |-> t, sz |-> 0, n |-> 0, v |-> v, kids |-> <<>>]
SeqE(t, kids) == [t |-> t, sz |-> 0, n |-> 0, v |-> <<>>, kids |-> kids]
RECURSIVE Nest(_, _)
Nest(d, leaf) == IF d = 0 THEN leaf ELSE SeqE(IF d % 2 = 0 THEN 6 ELSE 7, <<Nest(d - 1, leaf)>>)

SmallInts == {IntE(1, 1, n) : n \in {0, 1, 127, 128, 255}} \cup {IntE(2, 1, n) : n \in {-128, -1, 0, 1, 127}}
    \cup {IntE(1, 2, n) : n \in {0, 255, 256, 258, 32768, 65535}} \cup {IntE(2, 2, n) : n \in {-32768, -256, -1, 0, 258, 32767}}
    \cup {Leaf(0), IntE(5, 0, 0), IntE(5, 0, 1)}
WideInts4 == {IntE(t, 4, n) : t \in {1, 2}, n \in {<<0, 0>>, <<1, 2>>, <<32768, 0>>, <<65535, 65535>>}}
WideInts8 == {IntE(t, 8, n) : t \in {1, 2}, n \in {<<0, 0, 0, 0>>, <<1, 2, 3, 4>>, <<32768, 0, 0, 1>>}}
    \cup {IntE(1, 16, <<1, 2, 3, 4, 5, 6, 7, 65535>>)}
Texts == {Txt(3, Pat(n, 1)) : n \in {2, 4, 16}}
    \cup {Txt(t, Pat(n, 2)) : t \in {4, 8}, n \in {0, 1, 254, 255, 256, 257}}
    \cup (IF BigLens THEN {Txt(4, Pat(n, 3)) : n \in {65534, 65535, 65536, 65537}} ELSE {})

Init == c = [t |-> "init"]
ChkEcfI  == c.t = "init" /\ \E tx \in {0, 1, 62, 63} : \E req \in {0, 1, 63} : \E sar \in 0..3 : \E f \in 0..1 :
              c' = [t |-> "ecf", r |-> [t |-> "i", tx |-> tx, req |-> req, sar |-> sar, f |-> f, p |-> 0, s |-> 0]]
ChkEcfS  == c.t = "init" /\ \E s \in 0..3 : \E p \in 0..1 : \E req \in {0, 1, 63} : \E f \in 0..1 :
              c' = [t |-> "ecf", r |-> [t |-> "s", tx |-> 0, req |-> req, sar |-> 0, f |-> f, p |-> p, s |-> s]]
ChkBasic == c.t = "init" /\ \E cid \in {0, 1, 64, 65535} : \E n \in {0, 1, 255, 256} :
              c' = [t |-> "basic", r |-> [cid |-> cid, payload |-> Pat(n, cid)]]
ChkSdpLeaf == c.t = "init" /\ \E e \in SmallInts : c' = [t |-> "sdp", e |-> e]
ChkSdpWide == c.t = "init" /\ ((\E e \in WideInts4 : c' = [t |-> "sdp", e |-> e]) \/ (\E e \in WideInts8 : c' = [t |-> "sdp", e |-> e]))
ChkSdpText == c.t = "init" /\ \E e \in Texts : c' = [t |-> "sdp", e |-> e]
ChkSdpNest == c.t = "init" /\ \E d \in 0..MaxNest : \E leaf \in {Leaf(0), IntE(1, 2, 258), Txt(4, Pat(250, 1))} :
              c' = [t |-> "sdp", e |-> Nest(d, leaf)]
ChkSdpSeq  == c.t = "init" /\ \E t \in {6, 7} : \E n \in {0, 1, 2, 85, 86} :
              \* n three-octet elements: 255 / 258 octets of content straddle the 1 / 2 octet size forms
              c' = [t |-> "sdp", e |-> SeqE(t, [i \in 1..n |-> IntE(1, 2, i)])]
ChkSdpMixed == c.t = "init" /\
              c' = [t |-> "sdp", e |-> SeqE(6, <<IntE(1, 2, 256), SeqE(6, <<Txt(3, <<1, 17>>), IntE(1, 1, 3)>>), SeqE(7, <<>>), Txt(8, Pat(5, 1)), IntE(5, 0, 1)>>)]
\* legal non-minimal size forms: every assignment of forms 5 / 6 / 7 to the explicit-size nodes of a few shapes
WLeaf(i) == [idx |-> i, kids |-> <<>>]
ChkSdpForms == c.t = "init" /\
    \/ \E i \in 5..7 : \E n \in {0, 3, 255} : c' = [t |-> "sdpw", e |-> Txt(4, Pat(n, 2)), w |-> WLeaf(i)]
    \/ \E i \in 6..7 : c' = [t |-> "sdpw", e |-> Txt(8, Pat(256, 2)), w |-> WLeaf(i)]
    \/ \E i \in 5..7 : \E j \in 5..7 : \E k \in 5..7 : \E t \in {6, 7} :
          c' = [t |-> "sdpw", e |-> SeqE(t, <<IntE(1, 2, 258), SeqE(6, <<Txt(4, Pat(2, 1)), IntE(1, 1, 3)>>)>>),
                w |-> [idx |-> i, kids |-> <<WLeaf(0), [idx |-> j, kids |-> <<WLeaf(k), WLeaf(0)>>]>>]]
    \/ \E i \in 5..7 : c' = [t |-> "sdpw", e |-> SeqE(6, <<>>), w |-> WLeaf(i)]
ChkRfc   == c.t = "init" /\ \E ty \in {47, 99, 15, 67, 239} : \E pf \in 0..1 : \E n \in {0, 1, 2, 126, 127, 128, 129, 130, 255, 256} :
              \E dlci \in {0, 2, 63} : \E cr \in 0..1 :
              (ty # 239 => n = 0) /\ (ty = 239 /\ pf = 1 => n >= 1) /\
              c' = [t |-> "rfc", r |-> [dlci |-> dlci, cr |-> cr, ty |-> ty, pf |-> pf, info |-> Pat(n, dlci)]]
ChkMcc   == c.t = "init" /\ \E ty \in {0, 8, 32, 56, 63} : \E cr \in 0..1 : \E n \in {0, 1, 8, 126, 127, 128, 129, 300} :
              c' = [t |-> "mcc", r |-> [ty |-> ty, cr |-> cr, value |-> Pat(n, ty)]]
ChkPn    == c.t = "init" /\ \E dlci \in {0, 63} : \E cl \in {0, 240, 255} : \E mfs \in {0, 127, 128, 32767, 65535} : \E k \in {0, 1, 7} :
              c' = [t |-> "pn", r |-> [dlci |-> dlci, cl |-> cl, prio |-> 63 - dlci, ack |-> cl, mfs |-> mfs, retx |-> 255 - cl, k |-> k]]
ChkMsc   == c.t = "init" /\ \E dlci \in {0, 1, 63} : \E fc \in 0..1 : \E rtc \in 0..1 : \E rtr \in 0..1 : \E ic \in 0..1 : \E dv \in 0..1 :
              c' = [t |-> "msc", r |-> [dlci |-> dlci, fc |-> fc, rtc |-> rtc, rtr |-> rtr, ic |-> ic, dv |-> dv]]
ChkAvdtp == c.t = "init" /\ \E label \in {0, 15} : \E mt \in 0..3 : \E sig \in {1, 63} : \E n \in {0, 1, 45, 46, 47, 48, 100, 200} : \E mtu \in {8, 48} :
              c' = [t |-> "avdtp", m |-> [label |-> label, mt |-> mt, sig |-> sig, payload |-> Pat(n, label)], mtu |-> mtu]
ChkAvctp == c.t = "init" /\ \E label \in {0, 15} : \E cr \in 0..1 : \E ipid \in 0..1 : \E pid \in {0, 258, 4366, 65535} : \E n \in {0, 3} :
              (cr = 0 => ipid = 0) /\
              c' = [t |-> "avctp", r |-> [label |-> label, cr |-> cr, ipid |-> ipid, pid |-> pid, payload |-> Pat(n, label)]]
ChkAvc   == c.t = "init" /\ \E ctype \in {0, 7, 8, 15} : \E st \in {0, 9, 31} : \E sid \in {0, 4, 7} : \E op \in {0, 124, 255} : \E n \in {0, 2} :
              c' = [t |-> "avc", r |-> [ctype |-> ctype, st |-> st, sid |-> sid, op |-> op, operands |-> Pat(n, op)]]
ChkPass  == c.t = "init" /\ \E state \in 0..1 : \E opid \in {0, 68, 127} : \E n \in {0, 1, 2, 255} :
              c' = [t |-> "pass", r |-> [state |-> state, opid |-> opid, data |-> Pat(n, opid)]]
ChkVendor == c.t = "init" /\ \E co \in {0, 6488, 66051, 16777215} : \E n \in {0, 4} :
              c' = [t |-> "vendor", r |-> [company |-> co, data |-> Pat(n, 1)]]
ChkRtp   == c.t = "init" /\ \E cc \in 0..3 : \E m \in 0..1 : \E pt \in {0, 96, 127} : \E x \in 0..1 : \E seq \in {0, 258, 65535} :
              c' = [t |-> "rtp", r |-> [v |-> 2, p |-> x, x |-> 1 - x, m |-> m, pt |-> pt, seq |-> seq, ts |-> <<513, 1027>>, ssrc |-> <<65535, 32768>>,
                                        csrc |-> [i \in 1..cc |-> <<256 * i + 1, 256 * i + 2>>], payload |-> Pat(3 * cc, pt)]]
ChkAd    == c.t = "init" /\ \E n \in 0..3 : \E len \in {0, 1, 29, 254} :
              c' = [t |-> "ad", s |-> [i \in 1..n |-> [t |-> (i * 85) % 256, d |-> Pat(IF i = 1 THEN len ELSE i, i)]]]
ChkAdPad == c.t = "init" /\ \E pad \in 1..3 :     \* zero padding after (and between) structures is skipped by a parser
              c' = [t |-> "adpad", s |-> <<[t |-> 9, d |-> <<65>>], [t |-> 1, d |-> <<6>>]>>, pad |-> pad]
ChkUuid  == c.t = "init" /\ \E u \in {<<1, 17>>, <<255, 254>>, <<1, 17, 0, 0>>, <<4, 3, 2, 1>>, Pat(16, 5), BaseLow \o <<1, 17, 0, 0>>} :
              c' = [t |-> "uuid", u |-> u]

Next == ChkEcfI \/ ChkEcfS \/ ChkBasic \/ ChkSdpLeaf \/ ChkSdpWide \/ ChkSdpText \/ ChkSdpNest \/ ChkSdpSeq \/ ChkSdpMixed \/ ChkSdpForms \/ ChkRfc \/ ChkMcc \/ ChkPn \/ ChkMsc
        \/ ChkAvdtp \/ ChkAvctp \/ ChkAvc \/ ChkPass \/ ChkVendor \/ ChkRtp \/ ChkAd \/ ChkAdPad \/ ChkUuid
Spec == Init /\ [][Next]_vars

\* one legal way of cutting a message (what matters is that Sent accepts it and Received undoes it)
RECURSIVE Cont(_, _, _, _)
Cont(m, rest, room, acc) ==
    IF Len(rest) <= room THEN acc \o <<<<AvdtpHdr(m.label, 3, m.mt)>> \o rest>>
    ELSE Cont(m, SubSeq(rest, room + 1, Len(rest)), room, acc \o <<<<AvdtpHdr(m.label, 2, m.mt)>> \o SubSeq(rest, 1, room)>>)
Cut(m, mtu) ==
    IF Len(m.payload) + 2 <= mtu THEN <<AvdtpSingle(m)>>
    ELSE LET room == mtu - 3
             tail == Cont(m, SubSeq(m.payload, room + 1, Len(m.payload)), mtu - 1, <<>>)
         IN <<<<AvdtpHdr(m.label, 1, m.mt), m.sig, 1 + Len(tail)>> \o SubSeq(m.payload, 1, room)>> \o tail

ASSUME RfSer([dlci |-> 0, cr |-> 1, ty |-> 47, pf |-> 1, info |-> <<>>]) = <<3, 63, 1, 28>>      \* SABM on DLCI 0: 03 3F 01 1C
ASSUME RfSer([dlci |-> 0, cr |-> 1, ty |-> 99, pf |-> 1, info |-> <<>>]) = <<3, 115, 1, 215>>    \* UA: 03 73 01 D7
ASSUME Uuid128(<<1, 17>>) = <<251, 52, 155, 95, 128, 0, 0, 128, 0, 16, 0, 0, 1, 17, 0, 0>>        \* 00001101-0000-1000-8000-00805F9B34FB

RoundTrip ==
    CASE c.t = "init"  -> TRUE
      [] c.t = "ecf"   -> /\ EcfInRange(c.r) /\ EcfPar(EcfSer(c.r)) = c.r /\ EcfWf(EcfSer(c.r))
                          \* the poll bit is bit 4, the final bit is bit 7
                          /\ (c.r.t = "s" => (EcfSer(c.r)[1] \div 16) % 2 = c.r.p /\ EcfSer(c.r)[1] \div 128 = c.r.f)
      [] c.t = "basic" -> BasicInRange(c.r) /\ BasicPar(BasicSer(c.r)) = c.r /\ BasicWf(BasicSer(c.r))
      [] c.t = "sdp"   -> /\ ElemInRange(c.e)
                          /\ LET b == ElemSer(c.e) IN
                               /\ IsBytes(b) /\ ElemPar(b, 0) = <<c.e, Len(b)>> /\ ElemWf(b)
                               /\ ElemPar(<<7>> \o b, 1)[1] = c.e
                               \* which size form: 1 octet up to 255, 2 up to 65535, then 4
                               /\ (c.e.t \in {4, 6, 7, 8} => LET n == Len(ElemBody(c.e)) IN
                                     b[1] % 8 = (IF n <= 255 THEN 5 ELSE IF n <= 65535 THEN 6 ELSE 7))
      [] c.t = "sdpw"  -> /\ ElemInRange(c.e) /\ WidthsOk(c.e, c.w)
                          /\ LET b == ElemSerW(c.e, c.w) IN
                               /\ IsBytes(b) /\ ElemPar(b, 0) = <<c.e, Len(b)>>
                               \* the minimal tree gives the canonical image, any other tree a longer one
                               /\ ElemSerW(c.e, MinWidths(c.e)) = ElemSer(c.e)
                               /\ (Len(b) = Len(ElemSer(c.e)) <=> b = ElemSer(c.e))
                               /\ Len(b) >= Len(ElemSer(c.e))
      [] c.t = "rfc"   -> /\ RfInRange(c.r)
                          /\ LET b == RfSer(c.r) L == Len(c.r.info) - (IF HasCredit(c.r) THEN 1 ELSE 0) IN
                               /\ IsBytes(b) /\ RfPar(b) = c.r /\ RfWf(b)
                               /\ Len(b) = 3 + (IF L <= 127 THEN 1 ELSE 2) + Len(c.r.info)
                               /\ LenEAPar(b, 2)[1] = L
                               \* FCS coverage: UIH ignores the length octets, the others do not
                               /\ (c.r.ty = UIH => b[Len(b)] = Fcs(<<b[1], b[2]>>))
                               /\ (c.r.ty # UIH => b[Len(b)] = Fcs(<<b[1], b[2], b[3]>>) /\ b[Len(b)] # Fcs(<<b[1], b[2]>>))
      [] c.t = "mcc"   -> MccInRange(c.r) /\ MccPar(MccSer(c.r)) = c.r /\ MccWf(MccSer(c.r))
                          /\ Len(MccSer(c.r)) = 1 + (IF Len(c.r.value) <= 127 THEN 1 ELSE 2) + Len(c.r.value)
      [] c.t = "pn"    -> PnInRange(c.r) /\ PnPar(PnSer(c.r)) = c.r /\ PnWf(PnSer(c.r))
      [] c.t = "msc"   -> MscInRange(c.r) /\ MscPar(MscSer(c.r)) = c.r /\ MscWf(MscSer(c.r))
      [] c.t = "avdtp" -> /\ AvdtpInRange(c.m)
                          /\ LET pdus == Cut(c.m, c.mtu) IN
                               /\ Sent(c.m, c.mtu, pdus) /\ PdusWf(pdus) /\ Received(pdus) = c.m
                               /\ (Len(pdus) > 1 => ~Sent(c.m, c.mtu, [pdus EXCEPT ![1][3] = @ + 1]))     \* NOSP is exact
      [] c.t = "avctp" -> AvctpInRange(c.r) /\ AvctpPar(AvctpSer(c.r)) = c.r /\ AvctpWf(AvctpSer(c.r))
      [] c.t = "avc"   -> AvcInRange(c.r) /\ AvcPar(AvcSer(c.r)) = c.r /\ AvcWf(AvcSer(c.r))
      [] c.t = "pass"  -> PassInRange(c.r) /\ PassPar(PassSer(c.r)) = c.r /\ PassWf(PassSer(c.r))
      [] c.t = "vendor" -> VendorInRange(c.r) /\ VendorPar(VendorSer(c.r)) = c.r /\ VendorWf(VendorSer(c.r))
      [] c.t = "rtp"   -> RtpInRange(c.r) /\ RtpPar(RtpSer(c.r)) = c.r /\ RtpWf(RtpSer(c.r))
      [] c.t = "ad"    -> AdInRange(c.s) /\ AdPar(AdSer(c.s)) = c.s /\ AdWf(AdSer(c.s))
      [] c.t = "adpad" -> /\ AdPar(AdSer(c.s) \o Zeros(c.pad)) = c.s /\ ~AdWf(AdSer(c.s) \o Zeros(c.pad))
                          /\ AdPar(<<2, 9, 65>> \o Zeros(c.pad) \o <<2, 1, 6>>) = c.s
      [] c.t = "uuid"  -> /\ UuidInRange(c.u) /\ Len(Uuid128(c.u)) = 16
                          /\ (Len(c.u) = 2 => Uuid128(c.u) = Uuid128(c.u \o <<0, 0>>))           \* equal value, different width
                          /\ Len(UuidPduSer(c.u)) = (IF Len(c.u) = 2 THEN 2 ELSE 16)
=============================================================================
