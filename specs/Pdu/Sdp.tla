-------------------------------- MODULE Sdp --------------------------------
(* C18, SDP data elements (Core Vol 3 Part B 3.1-3.3).
   header octet = type << 3 | size index; size index 0..4: 1 (0 for nil), 2, 4, 8, 16 octets;
   5 / 6 / 7: the size follows in 1 / 2 / 4 octets, big endian; integers are big endian, two's
   complement when signed; sequences and alternatives nest.

   An element is a record [t, sz, n, v, kids]:
     t     type 0..31 (0 nil, 1 unsigned, 2 signed, 3 UUID, 4 text, 5 boolean, 6 sequence,
           7 alternative, 8 URL)
     sz    integer width in octets (types 1, 2), else 0
     n     types 1, 2: the integer when sz <= 2, else sz/2 16-bit limbs of its two's complement
           pattern, most significant first; type 5: 0 / 1; else 0
     v     UUID (little endian, 2 / 4 / 16 octets - the wire is big endian), text, URL (UTF-8), or the
           raw value of another type; else <<>>
     kids  the elements of a sequence / alternative; else <<>>                              *)
EXTENDS Codec

IntBody(e) ==
    IF e.sz = 1 THEN <<TwoC(e.n, 256)>>
    ELSE IF e.sz = 2 THEN U16BeSer(TwoC(e.n, 65536))
    ELSE Flatten([i \in 1..Len(e.n) |-> U16BeSer(e.n[i])])

U32BeOfInt(x) == <<x \div 16777216, (x \div 65536) % 256, (x \div 256) % 256, x % 256>>

\* <<size index, size octets>> for a value of len octets
SizeDesc(t, len) ==
    IF t = 0 THEN <<0, <<>>>>
    ELSE IF t \in {1, 2, 3} THEN <<(CASE len = 1 -> 0 [] len = 2 -> 1 [] len = 4 -> 2 [] len = 8 -> 3 [] len = 16 -> 4 [] OTHER -> 0), <<>>>>
    ELSE IF t = 5 THEN <<0, <<>>>>
    ELSE IF len <= 255 THEN <<5, <<len>>>>
    ELSE IF len <= 65535 THEN <<6, U16BeSer(len)>>
    ELSE <<7, U32BeOfInt(len)>>

LeafBody(e) ==
    CASE e.t = 0 -> <<>>
      [] e.t \in {1, 2} -> IntBody(e)
      [] e.t = 3 -> Rev(e.v)
      [] e.t = 5 -> <<e.n>>
      [] OTHER -> e.v
WithHeader(t, body) == <<8 * t + SizeDesc(t, Len(body))[1]>> \o SizeDesc(t, Len(body))[2] \o body

RECURSIVE ElemSer(_)
ElemBody(e) == IF e.t \in {6, 7} THEN Flatten([i \in 1..Len(e.kids) |-> ElemSer(e.kids[i])]) ELSE LeafBody(e)
ElemSer(e)  == Once({WithHeader(e.t, body) : body \in {ElemBody(e)}})

(* Legal but not minimal size descriptors.  A text / URL / sequence / alternative / other-typed value of len
   octets may be announced with any of the explicit forms that can hold len (index 5 up to 255, 6 up to 65535,
   7 always); many stacks always emit the 16-bit form for lists.  A width tree [idx, kids] parallel to an
   element says which form each node uses (ignored for the fixed-size types).  ElemSerW(e, w) is the wire
   image with those forms; ElemSer is the special case of the minimal tree.  Whatever the forms, the octets
   denote the same element (PduMC: ElemPar(ElemSerW(e, w), 0)[1] = e), and a parsed unit must re-serialise
   to the octets it was parsed from, not to its minimal re-encoding.                                      *)
Explicit(t) == t \notin {0, 1, 2, 3, 5}
SizeDescW(t, len, idx) ==
    IF ~Explicit(t) THEN SizeDesc(t, len)
    ELSE CASE idx = 5 -> <<5, <<len>>>> [] idx = 6 -> <<6, U16BeSer(len)>> [] OTHER -> <<7, U32BeOfInt(len)>>
FormHolds(t, len, idx) ==
    ~Explicit(t) \/ (idx = 5 /\ len <= 255) \/ (idx = 6 /\ len <= 65535) \/ idx = 7

RECURSIVE ElemSerW(_, _)
ElemBodyW(e, w) == IF e.t \in {6, 7} THEN Flatten([i \in 1..Len(e.kids) |-> ElemSerW(e.kids[i], w.kids[i])]) ELSE LeafBody(e)
ElemSerW(e, w)  == Once({<<8 * e.t + SizeDescW(e.t, Len(body), w.idx)[1]>> \o SizeDescW(e.t, Len(body), w.idx)[2] \o body : body \in {ElemBodyW(e, w)}})

\* the width tree has the element's shape and every chosen form can hold its value
RECURSIVE WidthsOk(_, _)
WidthsOk(e, w) ==
    /\ (e.t \in {6, 7} => /\ Len(w.kids) = Len(e.kids)
                          /\ \A i \in 1..Len(e.kids) : WidthsOk(e.kids[i], w.kids[i]))
    /\ FormHolds(e.t, Len(ElemBodyW(e, w)), w.idx)

\* the minimal width tree of an element (ElemSerW(e, MinWidths(e)) = ElemSer(e))
RECURSIVE MinWidths(_)
MinWidths(e) == [idx |-> SizeDesc(e.t, Len(ElemBody(e)))[1],
                 kids |-> IF e.t \in {6, 7} THEN [i \in 1..Len(e.kids) |-> MinWidths(e.kids[i])] ELSE <<>>]

RECURSIVE ElemInRange(_)
ElemInRange(e) ==
    /\ e.t \in 0..8
    /\ (e.t \in {1, 2} => /\ e.sz \in {1, 2, 4, 8, 16}
                          /\ (e.sz = 1 => e.n \in (IF e.t = 1 THEN 0..255 ELSE (-128)..127))
                          /\ (e.sz = 2 => e.n \in (IF e.t = 1 THEN 0..65535 ELSE (-32768)..32767))
                          /\ (e.sz > 2 => Len(e.n) * 2 = e.sz /\ \A i \in 1..Len(e.n) : e.n[i] \in 0..65535))
    /\ (e.t = 3 => Len(e.v) \in {2, 4, 16} /\ IsBytes(e.v))
    /\ (e.t \in {4, 8} => IsBytes(e.v))
    /\ (e.t = 5 => e.n \in 0..1)
    /\ (e.t \in {6, 7} => \A i \in 1..Len(e.kids) : ElemInRange(e.kids[i]))

RECURSIVE ElemPar(_, _)
RECURSIVE KidsPar(_, _, _)
Leaf(t) == [t |-> t, sz |-> 0, n |-> 0, v |-> <<>>, kids |-> <<>>]

\* <<element, octets consumed>> at 0-based offset o
ElemPar(b, o) ==
    LET hdr == At(b, o + 1)
        t   == hdr \div 8
        idx == hdr % 8
        hs  == CASE idx = 5 -> 2 [] idx = 6 -> 3 [] idx = 7 -> 5 [] OTHER -> 1
        len == CASE idx = 0 -> (IF t = 0 THEN 0 ELSE 1)
                 [] idx = 1 -> 2 [] idx = 2 -> 4 [] idx = 3 -> 8 [] idx = 4 -> 16
                 [] idx = 5 -> At(b, o + 2)
                 [] idx = 6 -> U16BeAt(b, o + 1)
                 [] idx = 7 -> IF At(b, o + 2) >= 128 THEN Len(b) + 1          \* larger than any buffer here
                               ELSE ((At(b, o + 2) * 256 + At(b, o + 3)) * 256 + At(b, o + 4)) * 256 + At(b, o + 5)
        s   == o + hs                 \* 0-based offset of the value
        val == Slice(b, s + 1, s + len)
        e   == CASE t = 0 -> Leaf(0)
                 [] t \in {1, 2} ->
                      [Leaf(t) EXCEPT !.sz = len,
                                      !.n = IF len = 1 THEN (IF t = 1 THEN At(b, s + 1) ELSE UnTwoC(At(b, s + 1), 256))
                                            ELSE IF len = 2 THEN (IF t = 1 THEN U16BeAt(b, s) ELSE UnTwoC(U16BeAt(b, s), 65536))
                                            ELSE [i \in 1..(len \div 2) |-> U16BeAt(b, s + 2 * (i - 1))]]
                 [] t = 3 -> [Leaf(3) EXCEPT !.v = Rev(val)]
                 [] t = 5 -> [Leaf(5) EXCEPT !.n = IF At(b, s + 1) = 1 THEN 1 ELSE 0]
                 [] t \in {6, 7} -> [Leaf(t) EXCEPT !.kids = KidsPar(b, s, Lesser(s + len, Len(b)))]
                 [] OTHER -> [Leaf(t) EXCEPT !.v = val]
    IN <<e, hs + len>>

KidsPar(b, o, end) ==
    IF o >= end THEN <<>>
    ELSE Once({<<r[1]>> \o KidsPar(b, o + r[2], end) : r \in {ElemPar(b, o)}})

ElemWf(b) == Len(b) >= 1 /\ Once({r[2] = Len(b) /\ ElemSer(r[1]) = b : r \in {ElemPar(b, 0)}})
=============================================================================
