------------------------------- MODULE Rfcomm -------------------------------
(* C18, RFCOMM frames (RFCOMM 1.2 / TS 07.10 5.2, 5.4):
     address = dlci << 2 | c/r << 1 | EA(1) ; control = frame type | p/f << 4 ;
     length indicator: one octet  (L << 1 | 1)               for L <= 127,
                       two octets ((L & 0x7F) << 1, L >> 7)   otherwise ;
     information ; FCS.
   In a UIH frame with P/F = 1 (credit based flow control) the first information octet is the credit
   field and is NOT counted by L.  The FCS (CRC-8, polynomial x^8 + x^2 + x + 1, reflected 0xE0,
   initial value 0xFF, ones complemented) covers address and control for UIH, and address, control
   and the length indicator for every other frame type.
   A frame is a record [dlci, cr, ty, pf, info]; ty is the control octet with the P/F bit clear
   (SABM 0x2F, UA 0x63, DM 0x0F, DISC 0x43, UIH 0xEF).

   Multiplexer commands (TS 07.10 5.4.6.1): type << 2 | c/r << 1 | EA, length with the same EA forms,
   value.  PN (5.4.6.3.1) and MSC (5.4.6.3.7) value layouts as used by RFCOMM.                  *)
EXTENDS Codec, Bitwise

UIH == 239

CrcStep(x)  == IF x % 2 = 1 THEN (x \div 2) ^^ 224 ELSE x \div 2
CrcByte(c, byte) == CrcStep(CrcStep(CrcStep(CrcStep(CrcStep(CrcStep(CrcStep(CrcStep(c ^^ byte))))))))
RECURSIVE CrcFrom(_, _, _)
CrcFrom(b, i, c) == IF i > Len(b) THEN c ELSE CrcFrom(b, i + 1, CrcByte(c, b[i]))
Fcs(b) == 255 - CrcFrom(b, 1, 255)

LenEA(L) == IF L <= 127 THEN <<2 * L + 1>> ELSE <<(L % 128) * 2, L \div 128>>
\* <<L, octets used>> of a length indicator at 0-based offset o
LenEAPar(b, o) == IF At(b, o + 1) % 2 = 1 THEN <<At(b, o + 1) \div 2, 1>>
                  ELSE <<At(b, o + 1) \div 2 + 128 * At(b, o + 2), 2>>

HasCredit(r) == r.ty = UIH /\ r.pf = 1
RfSer(r) ==
    LET addr == 4 * r.dlci + 2 * r.cr + 1
        ctrl == r.ty + 16 * r.pf
        len  == LenEA(Len(r.info) - (IF HasCredit(r) THEN 1 ELSE 0))
    IN <<addr, ctrl>> \o len \o r.info \o <<Fcs(IF r.ty = UIH THEN <<addr, ctrl>> ELSE <<addr, ctrl>> \o len)>>

RfInRange(r) ==
    /\ r.dlci \in 0..63 /\ r.cr \in 0..1 /\ r.pf \in 0..1 /\ r.ty \in {47, 99, 15, 67, 239}
    /\ IsBytes(r.info) /\ Len(r.info) <= 32768
    /\ (HasCredit(r) => Len(r.info) >= 1)

RfPar(b) ==
    LET le == LenEAPar(b, 2) IN
    [dlci |-> At(b, 1) \div 4, cr |-> (At(b, 1) \div 2) % 2, ty |-> At(b, 2) - 16 * ((At(b, 2) \div 16) % 2),
     pf |-> (At(b, 2) \div 16) % 2, info |-> Slice(b, 3 + le[2], Len(b) - 1)]

RfWf(b) == Len(b) >= 4 /\ IsBytes(b) /\ RfInRange(RfPar(b)) /\ RfSer(RfPar(b)) = b

(* ------------------------------------------------------------------ multiplexer commands *)
MccSer(r) == <<(4 * r.ty + 2 * r.cr + 1) % 256>> \o LenEA(Len(r.value)) \o r.value
MccPar(b) == LET le == LenEAPar(b, 1) IN
    [ty |-> At(b, 1) \div 4, cr |-> (At(b, 1) \div 2) % 2, value |-> Slice(b, 2 + le[2], 1 + le[2] + le[1])]
MccInRange(r) == r.ty \in 0..63 /\ r.cr \in 0..1 /\ IsBytes(r.value) /\ Len(r.value) <= 32767
MccWf(b) == Len(b) >= 2 /\ IsBytes(b) /\ MccSer(MccPar(b)) = b

PnSer(r) == <<r.dlci, r.cl, r.prio, r.ack>> \o U16Ser(r.mfs) \o <<r.retx, r.k>>
PnPar(b) == [dlci |-> At(b, 1), cl |-> At(b, 2), prio |-> At(b, 3), ack |-> At(b, 4), mfs |-> U16At(b, 4), retx |-> At(b, 7), k |-> At(b, 8) % 8]
PnInRange(r) == r.dlci \in 0..63 /\ r.cl \in Byte /\ r.prio \in 0..63 /\ r.ack \in Byte /\ r.mfs \in 0..65535 /\ r.retx \in Byte /\ r.k \in 0..7
PnWf(b) == Len(b) = 8 /\ IsBytes(b) /\ PnInRange(PnPar(b)) /\ PnSer(PnPar(b)) = b

MscSer(r) == <<4 * r.dlci + 3, 1 + 2 * r.fc + 4 * r.rtc + 8 * r.rtr + 64 * r.ic + 128 * r.dv>>
MscPar(b) == [dlci |-> At(b, 1) \div 4, fc |-> (At(b, 2) \div 2) % 2, rtc |-> (At(b, 2) \div 4) % 2, rtr |-> (At(b, 2) \div 8) % 2,
              ic |-> (At(b, 2) \div 64) % 2, dv |-> At(b, 2) \div 128]
MscInRange(r) == r.dlci \in 0..63 /\ r.fc \in 0..1 /\ r.rtc \in 0..1 /\ r.rtr \in 0..1 /\ r.ic \in 0..1 /\ r.dv \in 0..1
MscWf(b) == Len(b) = 2 /\ IsBytes(b) /\ MscSer(MscPar(b)) = b
=============================================================================
