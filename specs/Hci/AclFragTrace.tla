---------------------------- MODULE AclFragTrace ----------------------------
(* Trace validation for C05 (ACL part).  One direction of one connection gives two traces, one per
   observation point (kind2 of the quiesce event says which): "tx" = the sender's side (buf, pdu_out, frag),
   "rx" = the receiver's side (pdu_out, cfrag, pdu_in).  A run of `rep` consecutive identical CONTINUATION
   packets is logged as one event.

   kind "link": two real Device+Host+Controller stacks on a LocalLink.
      buf      what the sender's controller answered to Read Buffer Size / LE Read Buffer Size (tap T2, reset sequence)
      pdu_out  the sender's Host.send_l2cap_pdu was called with PDU number id (payload L bytes)
      frag     an HCI ACL packet left the SENDER's host (tap T1), decoded by the harness' own parser:
               pb, n = data bytes present, ln = Data_Total_Length field, ok = the data are the next bytes of the PDU
      cfrag    an HCI ACL packet left the RECEIVER's controller towards its host (tap T2): pb, n, ln,
               decl = the length announced in a START fragment, ok = the data are the next bytes of the PDU
               the position in the stream says they should be
      pdu_in   the receiver's Host emitted 'l2cap_pdu': id = the sent PDU the payload is byte-identical to
               (0 if none), L, digest_ok
      quiesce  nothing left to run
   kind "host": one real Host fed by the harness (reference fragmenter with an arbitrary split + malformed
      fragments): pdu_out, cfrag, fault, pdu_in, quiesce.

   The sender side (frag) is checked against the property directly: size, marker, contiguity - the split
   itself is free.  The controller-to-host stream (cfrag, fault) is run through the assembler of
   AclFrag.tla, so Inv_Exact is evaluated on it at real sizes (any fragmentation is accepted as long as
   the length field is honest and the reassembled PDU is identical).  pdu_in is checked at the level of
   the property: byte-identical deliveries come exactly once and in order, only PDUs with a malformed
   fragment inside them may be missing, and at most one unidentifiable delivery per malformed fragment. *)
EXTENDS AclFrag, Json, IOUtils, TLC, TLCExt

Traces == JsonDeserialize(IOEnv.TRACE_FILE)

VARIABLES tid, l,
          sentL,     \* payload lengths of the PDUs handed to the sender, by id
          hcur,      \* sender-side cursor [id, off] (id = 0: between two PDUs)
          hdone,     \* PDUs completely fragmented by the sender
          lastIn,    \* id of the last byte-identical delivery at the receiver
          dirtyIn,   \* deliveries at the receiver that are no sent PDU
          bufAcl,    \* what the sender's controller answered to Read Buffer Size  [ln, n]
          bufLe      \* ... to LE Read Buffer Size (v1 / v2)

tvars == <<vars, tid, l, sentL, hcur, hdone, lastIn, dirtyIn, bufAcl, bufLe>>

T  == Traces[tid]
Ev == T[l]

IsStart(pb) == pb = 0 \/ pb = 2
\* host -> controller: 00 (first non-flushable) always; 10 (first flushable) only on BR/EDR
HostStart(pb) == pb = 0 \/ (pb = 2 /\ Ev.kind = "bredr")

(* ------------------------------------------------------------------ sender side *)
\* The fragment size the sender's host has to respect is what ITS controller announced (observed at tap T2
\* during the reset sequence, decoded by the harness): the LE buffers for an LE link if the controller has
\* dedicated ones (length and count both non-zero), the BR/EDR buffers otherwise.  The constant F of
\* AclFrag.tla is not used for traces.
Fs == IF Ev.kind = "le" /\ bufLe.ln # 0 /\ bufLe.n # 0 THEN bufLe.ln ELSE bufAcl.ln

TrBuf == /\ Ev.e = "buf"
         /\ \/ Ev.kind2 = "acl" /\ bufAcl' = [ln |-> Ev.ln, n |-> Ev.n] /\ bufLe' = bufLe
            \/ Ev.kind2 = "le"  /\ bufLe'  = [ln |-> Ev.ln, n |-> Ev.n] /\ bufAcl' = bufAcl
         /\ UNCHANGED <<vars, sentL, hcur, hdone, lastIn, dirtyIn>>

HId  == IF hcur.id = 0 THEN hdone + 1 ELSE hcur.id
HOff == hcur.off
HL   == IF HId <= Len(sentL) THEN sentL[HId] ELSE 0

FragWhy == [known    |-> HId <= Len(sentL),
            nonempty |-> Ev.n >= 1,
            geometry |-> Fs > 0,
            size     |-> Ev.n <= Fs,
            lenfield |-> Ev.ln = Ev.n,
            marker   |-> IF hcur.id = 0 THEN HostStart(Ev.pb) ELSE Ev.pb = 1,
            bytes    |-> Ev.ok,
            run      |-> Ev.rep = 1 \/ (Ev.rep > 1 /\ hcur.id # 0),
            within   |-> HOff + Ev.rep * Ev.n <= H + HL]

TrPduOut == /\ Ev.e = "pdu_out"
            /\ Ev.id = Len(sentL) + 1
            /\ sentL' = Append(sentL, Ev.L)
            /\ UNCHANGED <<vars, hcur, hdone, lastIn, dirtyIn, bufAcl, bufLe>>

TrFrag == /\ Ev.e = "frag"
          /\ \A k \in DOMAIN FragWhy : FragWhy[k]
          /\ IF HOff + Ev.rep * Ev.n = H + HL
             THEN hcur' = [id |-> 0, off |-> 0] /\ hdone' = HId
             ELSE hcur' = [id |-> HId, off |-> HOff + Ev.rep * Ev.n] /\ hdone' = hdone
          /\ UNCHANGED <<vars, sentL, lastIn, dirtyIn, bufAcl, bufLe>>

(* ------------------------------------------------------------------ controller -> host stream *)
CId == IF IsStart(Ev.pb) THEN nsent + 1 ELSE cur.id

CfragR == IF IsStart(Ev.pb)
          THEN IF Ev.n < 2 THEN FeedTinyStart(asm) ELSE FeedStart(Ev.n, IF Ev.ok THEN CId ELSE 0, Ev.decl)
          ELSE FeedContRun(asm, Ev.n, Ev.rep, IF Ev.ok /\ cur.id # 0 THEN cur.id ELSE 0, cur.off)

CfragWhy == [lenfield |-> Ev.ln = Ev.n /\ Ev.n <= 65535,
             marker   |-> Ev.pb \in {0, 1, 2} /\ (Ev.rep = 1 \/ (Ev.rep > 1 /\ Ev.pb = 1)),
             known    |-> IsStart(Ev.pb) => CId <= Len(sentL)]

TrCfrag ==
    /\ Ev.e = "cfrag"
    /\ \A k \in DOMAIN CfragWhy : CfragWhy[k]
    /\ IF IsStart(Ev.pb)
       THEN /\ nsent' = nsent + 1
            /\ cur' = IF Ev.n >= H + sentL[CId] THEN NoCur ELSE [id |-> CId, L |-> sentL[CId], off |-> Ev.n]
       ELSE /\ nsent' = nsent
            /\ cur' = IF cur.id = 0 \/ cur.off + Ev.rep * Ev.n >= H + cur.L THEN NoCur ELSE [cur EXCEPT !.off = @ + Ev.rep * Ev.n]
    /\ Commit(CfragR)
    /\ out' = NoFrag
    /\ UNCHANGED <<poisoned, faults, sentL, hcur, hdone, lastIn, dirtyIn, bufAcl, bufLe>>
    /\ Inv_Exact'

FaultR == IF Ev.kind2 = "cont" THEN FeedCont(asm, Ev.n, 0, 0)
          ELSE IF Ev.kind2 = "dup" THEN FeedStart(Ev.n, IF Ev.ok THEN cur.id ELSE 0, Ev.decl)
          ELSE IF Ev.n < 2 THEN FeedTinyStart(asm) ELSE FeedStart(Ev.n, 0, Ev.decl)

TrFault ==
    /\ Ev.e = "fault"
    /\ Ev.kind2 \in {"cont", "start", "dup"}
    /\ Ev.kind2 = "dup" => Mid
    /\ Fault(FaultR)
    /\ UNCHANGED <<sentL, hcur, hdone, lastIn, dirtyIn, bufAcl, bufLe>>
    /\ Inv_Exact'

(* ------------------------------------------------------------------ receiver's L2CAP layer *)
PduInWhy ==
    IF Ev.id = 0
    THEN [identified |-> dirtyIn < faults]        \* a delivery that is no sent PDU needs a malformed fragment to explain it
    ELSE [identified |-> TRUE,
          digest     |-> Ev.digest_ok /\ Ev.id <= Len(sentL) /\ (Ev.id <= Len(sentL) => Ev.L = sentL[Ev.id]),
          once_order |-> Ev.id > lastIn,
          complete   |-> Ev.id <= NDone,
          none_lost  |-> \A j \in (lastIn + 1)..(Ev.id - 1) : j \in poisoned]

TrPduIn == /\ Ev.e = "pdu_in"
           /\ \A k \in DOMAIN PduInWhy : PduInWhy[k]
           /\ IF Ev.id = 0 THEN dirtyIn' = dirtyIn + 1 /\ lastIn' = lastIn
                           ELSE dirtyIn' = dirtyIn /\ lastIn' = Ev.id
           /\ UNCHANGED <<vars, sentL, hcur, hdone, bufAcl, bufLe>>

QuiesceWhy == IF Ev.kind2 = "tx"
              THEN [h2c_complete |-> hcur.id = 0 /\ hdone = Len(sentL)]
              ELSE [c2h_complete |-> cur.id = 0 /\ nsent = Len(sentL),
                    none_lost    |-> \A j \in (lastIn + 1)..Len(sentL) : j \in poisoned]

TrQuiesce == /\ Ev.e = "quiesce"
             /\ \A k \in DOMAIN QuiesceWhy : QuiesceWhy[k]
             /\ UNCHANGED <<vars, sentL, hcur, hdone, lastIn, dirtyIn, bufAcl, bufLe>>

Step == /\ l <= Len(T)
        /\ (TrBuf \/ TrPduOut \/ TrFrag \/ TrCfrag \/ TrFault \/ TrPduIn \/ TrQuiesce)
        /\ l' = l + 1 /\ tid' = tid

CfragAll == \A k \in DOMAIN CfragWhy : CfragWhy[k]
\* for cfrag / fault the remaining clause is the post-condition Inv_Exact' (the stream does not reassemble
\* into the PDUs that were sent)
Why == IF Ev.e = "frag" THEN FragWhy
       ELSE IF Ev.e = "cfrag" THEN [lenfield |-> CfragWhy.lenfield, marker |-> CfragWhy.marker,
                                    known |-> CfragWhy.known, exact |-> ~CfragAll]
       ELSE IF Ev.e = "fault" THEN [exact |-> FALSE]
       ELSE IF Ev.e = "pdu_in" THEN PduInWhy
       ELSE IF Ev.e = "quiesce" THEN QuiesceWhy
       ELSE IF Ev.e = "pdu_out" THEN [numbering |-> Ev.id = Len(sentL) + 1]
       ELSE [event |-> FALSE]

Done == /\ l = Len(T) + 1
        /\ PrintT(<<"ACCEPT", tid>>)
        /\ UNCHANGED tvars

Stuck == /\ l <= Len(T)
         /\ ~ENABLED Step
         /\ PrintT(<<"REJECT", tid, l, Ev,
                     [why |-> Why, hcur |-> hcur, hdone |-> hdone, nsent |-> nsent, cur |-> cur, asm |-> asm,
                      got |-> got, poisoned |-> poisoned, faults |-> faults, lastIn |-> lastIn, dirtyIn |-> dirtyIn,
                      nout |-> Len(sentL), bufAcl |-> bufAcl, bufLe |-> bufLe]>>)
         /\ UNCHANGED tvars

TraceInit == /\ Init /\ tid \in 1..Len(Traces) /\ l = 1
             /\ sentL = <<>> /\ hcur = [id |-> 0, off |-> 0] /\ hdone = 0 /\ lastIn = 0 /\ dirtyIn = 0
             /\ bufAcl = [ln |-> 0, n |-> 0] /\ bufLe = [ln |-> 0, n |-> 0]
TraceNext == Step \/ Done \/ Stuck
TraceSpec == TraceInit /\ [][TraceNext]_tvars
=============================================================================
