SPECIFICATION Spec
CONSTANTS
  Fi = 6
  MaxS = 19
  NSdus = 4
  M = 3
  Psn0 = 1
INVARIANT Iso_Size
INVARIANT Iso_Flags
INVARIANT Iso_Header
INVARIANT Iso_Exact
CHECK_DEADLOCK FALSE
