SPECIFICATION TraceSpec
CHECK_DEADLOCK FALSE
