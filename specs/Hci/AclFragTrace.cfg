SPECIFICATION TraceSpec
CONSTANTS
  F = 27
  MaxL = 65535
  NPdus = 1000000
  MaxFaults = 1000000
  JunkLens = {0}
  Sticky = FALSE
CHECK_DEADLOCK FALSE
