------------------------- MODULE DataQueueTrace -------------------------
(* Trace validation for C04 at the HCI boundary of a real Host: every logged event is one
   action of DataQueue.tla with its arguments; the observed hand-over counts and the
   public `pending` counter must equal the spec's after every observed step.
   A batch file holds many traces; tid picks one.                                       *)
EXTENDS DataQueue, Json, IOUtils, TLC, TLCExt

Traces == JsonDeserialize(IOEnv.TRACE_FILE)

VARIABLES tid, l
tvars == <<vars, tid, l>>

T  == Traces[tid]
Ev == T[l]

Observed ==
    Ev.obs => /\ \A c \in Conns : Ev.snt[c] = Len(WaitingOf(sentLog', c))
              /\ Ev.pend = queued' - completed'

Act == \/ Ev.e = "enq"  /\ Enqueue(Ev.c)
       \/ Ev.e = "ncp"  /\ Complete(Ev.c, Ev.n)
       \/ Ev.e = "ncpu" /\ UNCHANGED vars          \* completion for a handle without a connection
       \/ Ev.e = "disc" /\ Flush(Ev.c)
       \* disconnection during whose notification the listeners submitted Ev.n packets on Ev.c
       \/ Ev.e = "discn" /\ \E j \in 0..Ev.n : FlushNotified(Ev.c, Ev.n, j)

Step == /\ l <= Len(T)
        /\ Act
        /\ Observed
        /\ l' = l + 1 /\ tid' = tid

Done == /\ l = Len(T) + 1
        /\ PrintT(<<"ACCEPT", tid>>)
        /\ UNCHANGED tvars

Stuck == /\ l <= Len(T)
         /\ ~ENABLED Step
         /\ PrintT(<<"REJECT", tid, l, Ev,
                     [waiting |-> waiting, inflight |-> inflight, sent |-> [c \in Conns |-> Len(WaitingOf(sentLog, c))],
                      pending |-> queued - completed]>>)
         /\ UNCHANGED tvars

TraceInit == Init /\ tid \in 1..Len(Traces) /\ l = 1
TraceNext == Step \/ Done \/ Stuck
TraceSpec == TraceInit /\ [][TraceNext]_tvars
=============================================================================
