SPECIFICATION Spec
CONSTANTS
  MaxWrites = 4
  HasDrain = TRUE
INVARIANT ExactlyOnceInOrder
INVARIANT NoStall
CHECK_DEADLOCK FALSE
