------------------------------- MODULE Codec -------------------------------
(* C01 (and the generic part of C18).  The wire format of bumble's generic HCI field codec
   (bumble/hci.py HCI_Object.parse_field / serialize_field / dict_and_offset_from_bytes /
   dict_to_bytes) and of the HCI packet headers, written as operators over byte sequences
   (Seq(0..255)).  Nothing here is a transcription of the Python: every operator is the
   Bluetooth Core (Vol 4 Part E 5.4) / field-kind definition stated arithmetically.

   Value domains (no TLA+ integer ever reaches 2^31):
     u8 s8 u16 u16be s16 u24   an integer in the range of the kind
     u32 u32be                 <<lo16, hi16>>: two 16-bit limbs, least significant first
     lim / limbe (width n)     n byte limbs, least significant first (enum / flag fields wider
                               than 32 bits; "be" = most significant limb first on the wire)
     arr (width n, 5..256)     a byte sequence; shorter is zero padded, longer is truncated
     v                         a byte sequence of at most 255 bytes, 1-byte length prefix
     star                      a byte sequence, takes the rest of the packet
     psm                       an integer < 2^31: L2CAP PSM, little endian, at least two octets,
                               continued while the last octet taken is odd (Vol 3 Part A 4.2);
                               in range iff every octet but the last is odd and the last is even
     opq (width n)             the bytes a custom (callable) field codec produced; opaque to
                               this spec, only its position in the layout is checked
     grp (sub = kinds)         repeated group: <<column_1, .., column_m>>, one column per
                               sub-field, 1-byte item count, items interleaved on the wire;
                               the count is the length of the first column
     mgrp (sub = kinds)        the same without a count byte: one item per bit set in the
                               integer field just before it (the per-PHY lists of LE Set Extended
                               Scan Parameters and LE Extended Create Connection)
   A kind is a record [k |-> name, n |-> width, sub |-> <<kinds>>].                       *)
EXTENDS Integers, Sequences

Byte == 0..255
IsBytes(s) == \A i \in 1..Len(s) : s[i] \in Byte

Lesser(a, b) == IF a < b THEN a ELSE b

\* total accessors: reading past the end yields 0 / a shorter slice, never a TLC error, so
\* that a malformed byte string is *judged* (not well formed) instead of crashing the run
At(b, i) == IF i >= 1 /\ i <= Len(b) THEN b[i] ELSE 0
Slice(b, lo, hi) == IF lo > Lesser(hi, Len(b)) THEN <<>> ELSE SubSeq(b, lo, Lesser(hi, Len(b)))

Zeros(n) == [i \in 1..n |-> 0]
Rev(s) == [i \in 1..Len(s) |-> s[Len(s) + 1 - i]]

\* TLC evaluates operator arguments lazily and, inside recursive operators, again at every use; binding
\* through a singleton set evaluates the expression exactly once (matters for nested SDP elements)
Once(S) == CHOOSE x \in S : TRUE

RECURSIVE FlatFrom(_, _)
FlatFrom(ss, i) == IF i > Len(ss) THEN <<>> ELSE ss[i] \o FlatFrom(ss, i + 1)
Flatten(ss) == Once({FlatFrom(v, 1) : v \in {ss}})

(* ------------------------------------------------------------------ scalars *)
U16Ser(v)   == <<v % 256, v \div 256>>
U16BeSer(v) == <<v \div 256, v % 256>>
U24Ser(v)   == <<v % 256, (v \div 256) % 256, v \div 65536>>
U32Ser(l)   == U16Ser(l[1]) \o U16Ser(l[2])
U32BeSer(l) == U16BeSer(l[2]) \o U16BeSer(l[1])
TwoC(v, m)  == IF v < 0 THEN v + m ELSE v           \* two's complement, modulus m
UnTwoC(u, m) == IF u >= m \div 2 THEN u - m ELSE u

U16At(b, o)   == At(b, o + 1) + 256 * At(b, o + 2)             \* o: 0-based offset
U16BeAt(b, o) == 256 * At(b, o + 1) + At(b, o + 2)
U24At(b, o)   == At(b, o + 1) + 256 * At(b, o + 2) + 65536 * At(b, o + 3)
U32At(b, o)   == <<U16At(b, o), U16At(b, o + 2)>>
U32BeAt(b, o) == <<U16BeAt(b, o + 2), U16BeAt(b, o)>>

\* variable-length little-endian integer (PSM): octets of x, least significant first
RECURSIVE LeOctets(_)
LeOctets(x) == IF x = 0 THEN <<>> ELSE <<x % 256>> \o LeOctets(x \div 256)
PsmSer(v) == U16Ser(v % 65536) \o LeOctets(v \div 65536)
RECURSIVE PsmLenFrom(_, _, _)
PsmLenFrom(b, o, n) == IF At(b, o + n) % 2 = 0 \/ o + n >= Len(b) \/ n >= 4 THEN n ELSE PsmLenFrom(b, o, n + 1)
PsmLen(b, o) == PsmLenFrom(b, o, 2)
RECURSIVE LeValue(_, _, _)
LeValue(b, o, n) == IF n = 0 THEN 0 ELSE At(b, o + 1) + 256 * LeValue(b, o + 1, n - 1)
PsmInRange(v) == /\ v >= 1 /\ v <= 2147483647
                 /\ LET b == PsmSer(v) IN /\ b[Len(b)] % 2 = 0
                                           /\ \A i \in 1..(Len(b) - 1) : b[i] % 2 = 1

K(name)     == [k |-> name, n |-> 0, sub |-> <<>>]
KN(name, n) == [k |-> name, n |-> n, sub |-> <<>>]
KG(sub)     == [k |-> "grp", n |-> 0, sub |-> sub]

ScalarNames == {"u8", "s8", "u16", "u16be", "s16", "u24", "u32", "u32be"}

InRange(kd, v) ==
    CASE kd.k = "u8"    -> v \in 0..255
      [] kd.k = "s8"    -> v \in (-128)..127
      [] kd.k = "u16"   -> v \in 0..65535
      [] kd.k = "u16be" -> v \in 0..65535
      [] kd.k = "s16"   -> v \in (-32768)..32767
      [] kd.k = "u24"   -> v \in 0..16777215
      [] kd.k = "u32"   -> Len(v) = 2 /\ v[1] \in 0..65535 /\ v[2] \in 0..65535
      [] kd.k = "u32be" -> Len(v) = 2 /\ v[1] \in 0..65535 /\ v[2] \in 0..65535
      [] kd.k = "lim"   -> Len(v) = kd.n /\ IsBytes(v)
      [] kd.k = "limbe" -> Len(v) = kd.n /\ IsBytes(v)
      [] kd.k = "arr"   -> IsBytes(v) /\ kd.n \in 5..256
      [] kd.k = "v"     -> IsBytes(v) /\ Len(v) <= 255
      [] kd.k = "star"  -> IsBytes(v)
      [] kd.k = "opq"   -> IsBytes(v) /\ Len(v) = kd.n
      [] kd.k = "psm"   -> PsmInRange(v)
      [] OTHER          -> FALSE

\* the value a parser hands back for what Ser wrote (identity except for array padding)
Canon(kd, v) ==
    IF kd.k = "arr"
    THEN (IF Len(v) < kd.n THEN v \o Zeros(kd.n - Len(v)) ELSE SubSeq(v, 1, kd.n))
    ELSE v

Ser(kd, v) ==
    CASE kd.k = "u8"    -> <<v>>
      [] kd.k = "s8"    -> <<TwoC(v, 256)>>
      [] kd.k = "u16"   -> U16Ser(v)
      [] kd.k = "u16be" -> U16BeSer(v)
      [] kd.k = "s16"   -> U16Ser(TwoC(v, 65536))
      [] kd.k = "u24"   -> U24Ser(v)
      [] kd.k = "u32"   -> U32Ser(v)
      [] kd.k = "u32be" -> U32BeSer(v)
      [] kd.k = "lim"   -> v
      [] kd.k = "limbe" -> Rev(v)
      [] kd.k = "arr"   -> Canon(kd, v)
      [] kd.k = "v"     -> <<Len(v)>> \o v
      [] kd.k = "star"  -> v
      [] kd.k = "opq"   -> v
      [] kd.k = "psm"   -> PsmSer(v)

\* <<value, bytes consumed>> at 0-based offset o
Par(kd, b, o) ==
    CASE kd.k = "u8"    -> <<At(b, o + 1), 1>>
      [] kd.k = "s8"    -> <<UnTwoC(At(b, o + 1), 256), 1>>
      [] kd.k = "u16"   -> <<U16At(b, o), 2>>
      [] kd.k = "u16be" -> <<U16BeAt(b, o), 2>>
      [] kd.k = "s16"   -> <<UnTwoC(U16At(b, o), 65536), 2>>
      [] kd.k = "u24"   -> <<U24At(b, o), 3>>
      [] kd.k = "u32"   -> <<U32At(b, o), 4>>
      [] kd.k = "u32be" -> <<U32BeAt(b, o), 4>>
      [] kd.k = "lim"   -> <<Slice(b, o + 1, o + kd.n), kd.n>>
      [] kd.k = "limbe" -> <<Rev(Slice(b, o + 1, o + kd.n)), kd.n>>
      [] kd.k = "arr"   -> <<Slice(b, o + 1, o + kd.n), kd.n>>
      [] kd.k = "v"     -> <<Slice(b, o + 2, o + 1 + At(b, o + 1)), 1 + At(b, o + 1)>>
      [] kd.k = "star"  -> <<Slice(b, o + 1, Len(b)), IF Len(b) > o THEN Len(b) - o ELSE 0>>
      [] kd.k = "opq"   -> <<Slice(b, o + 1, o + kd.n), kd.n>>
      [] kd.k = "psm"   -> <<LeValue(b, o, PsmLen(b, o)), PsmLen(b, o)>>

(* ------------------------------------------------------------------ repeated groups *)
GroupCount(cols) == IF Len(cols) = 0 THEN 0 ELSE Len(cols[1])

SerItem(sub, cols, i) == Flatten([j \in 1..Len(sub) |-> Ser(sub[j], cols[j][i])])
SerGroup(sub, cols) ==
    <<GroupCount(cols)>> \o Flatten([i \in 1..GroupCount(cols) |-> SerItem(sub, cols, i)])

\* one item: <<values of the sub-fields, offset after the item>>
RECURSIVE ParItemFrom(_, _, _, _)
ParItemFrom(sub, j, b, o) ==
    IF j > Len(sub) THEN <<<<>>, o>>
    ELSE LET r    == Par(sub[j], b, o)
             rest == ParItemFrom(sub, j + 1, b, o + r[2])
         IN <<<<r[1]>> \o rest[1], rest[2]>>

RECURSIVE ParItemsFrom(_, _, _, _)
ParItemsFrom(sub, left, b, o) ==
    IF left = 0 THEN <<<<>>, o>>
    ELSE LET it   == ParItemFrom(sub, 1, b, o)
             rest == ParItemsFrom(sub, left - 1, b, it[2])
         IN <<<<it[1]>> \o rest[1], rest[2]>>

\* <<columns, bytes consumed>>
ParGroup(sub, b, o) ==
    LET cnt   == At(b, o + 1)
        items == ParItemsFrom(sub, cnt, b, o + 1)
    IN <<[j \in 1..Len(sub) |-> [i \in 1..cnt |-> items[1][i][j]]], items[2] - o>>

RECURSIVE PopCount(_)
PopCount(x) == IF x = 0 THEN 0 ELSE (x % 2) + PopCount(x \div 2)

SerMGroup(sub, cols) == Flatten([i \in 1..GroupCount(cols) |-> SerItem(sub, cols, i)])
ParMGroup(sub, b, o, cnt) ==
    LET items == ParItemsFrom(sub, cnt, b, o)
    IN <<[j \in 1..Len(sub) |-> [i \in 1..cnt |-> items[1][i][j]]], items[2] - o>>

GroupInRange(sub, cols) ==
    /\ Len(cols) = Len(sub) /\ Len(sub) >= 1
    /\ GroupCount(cols) <= 255
    /\ \A j \in 1..Len(sub) : /\ Len(cols[j]) >= GroupCount(cols)
                              /\ \A i \in 1..GroupCount(cols) : InRange(sub[j], cols[j][i])
CanonGroup(sub, cols) ==
    [j \in 1..Len(sub) |-> [i \in 1..GroupCount(cols) |-> Canon(sub[j], cols[j][i])]]

(* ------------------------------------------------------------------ field lists *)
IsGroup(kd) == kd.k = "grp" \/ kd.k = "mgrp"
SerField(kd, v)     == IF kd.k = "grp" THEN SerGroup(kd.sub, v) ELSE IF kd.k = "mgrp" THEN SerMGroup(kd.sub, v) ELSE Ser(kd, v)
\* prev: the value of the field before (only an mgrp looks at it)
ParField(kd, b, o, prev) ==
    IF kd.k = "grp" THEN ParGroup(kd.sub, b, o)
    ELSE IF kd.k = "mgrp" THEN ParMGroup(kd.sub, b, o, PopCount(prev))
    ELSE Par(kd, b, o)
FieldInRange(kd, v) == IF IsGroup(kd) THEN GroupInRange(kd.sub, v) ELSE InRange(kd, v)
CanonField(kd, v)   == IF IsGroup(kd) THEN CanonGroup(kd.sub, v) ELSE Canon(kd, v)

SerFields(kinds, vals) == Flatten([i \in 1..Len(kinds) |-> SerField(kinds[i], vals[i])])
FieldsInRange(kinds, vals) ==
    /\ Len(vals) = Len(kinds)
    /\ \A i \in 1..Len(kinds) :
          /\ FieldInRange(kinds[i], vals[i])
          /\ (kinds[i].k = "mgrp" => i > 1 /\ kinds[i - 1].k = "u8" /\ GroupCount(vals[i]) = PopCount(vals[i - 1]))
CanonFields(kinds, vals) == [i \in 1..Len(kinds) |-> CanonField(kinds[i], vals[i])]

RECURSIVE ParFieldsFrom(_, _, _, _, _)
ParFieldsFrom(kinds, i, b, o, prev) ==
    IF i > Len(kinds) THEN <<<<>>, o>>
    ELSE LET r    == ParField(kinds[i], b, o, prev)
             rest == ParFieldsFrom(kinds, i + 1, b, o + r[2], IF kinds[i].k = "u8" THEN r[1] ELSE 0)
         IN <<<<r[1]>> \o rest[1], rest[2]>>

ParFields(kinds, b)  == ParFieldsFrom(kinds, 1, b, 0, 0)[1]
ParEnd(kinds, b)     == ParFieldsFrom(kinds, 1, b, 0, 0)[2]
\* a byte string is a well-formed parameter block for kinds iff the codec reproduces it
WellFormed(kinds, b) == ParEnd(kinds, b) = Len(b) /\ SerFields(kinds, ParFields(kinds, b)) = b

(* ------------------------------------------------------------------ packet framing
   frame   header h                 wire
   cmd     <<opcode>>               01 opcode(LE16) len(8) params
   evt     <<code>>                 04 code len(8) params
   ext     <<code, subcode>>        04 code len(8) subcode params      (LE meta, vendor sub-events)
   l2c     <<code, identifier>>     code id len(LE16) params           (L2CAP signalling, C18)
   sdp     <<pdu id, transaction>>  id tid(BE16) len(BE16) params      (SDP, C18)
   pfx     <<bytes..>>              h params                           (ATT / SMP opcode byte, none)  *)
FrameSer(f, h, p) ==
    CASE f = "cmd" -> <<1>> \o U16Ser(h[1]) \o <<Len(p)>> \o p
      [] f = "evt" -> <<4, h[1], Len(p)>> \o p
      [] f = "ext" -> <<4, h[1], Len(p) + 1, h[2]>> \o p
      [] f = "l2c" -> <<h[1], h[2]>> \o U16Ser(Len(p)) \o p
      [] f = "sdp" -> <<h[1]>> \o U16BeSer(h[2]) \o U16BeSer(Len(p)) \o p
      [] f = "pfx" -> h \o p

FrameHeaderLen(f, h) ==
    CASE f = "cmd" -> 4 [] f = "evt" -> 3 [] f = "ext" -> 4 [] f = "l2c" -> 4 [] f = "sdp" -> 5
      [] f = "pfx" -> Len(h)

FrameFits(f, h, p) ==
    CASE f = "cmd" -> Len(p) <= 255 /\ h[1] \in 0..65535
      [] f = "evt" -> Len(p) <= 255 /\ h[1] \in Byte
      [] f = "ext" -> Len(p) <= 254 /\ h[1] \in Byte /\ h[2] \in Byte
      [] f = "l2c" -> Len(p) <= 65535 /\ h[1] \in Byte /\ h[2] \in Byte
      [] f = "sdp" -> Len(p) <= 65535 /\ h[1] \in Byte /\ h[2] \in 0..65535
      [] f = "pfx" -> IsBytes(h)

\* parameters of a packet whose header says (f, h) ; Framed says whether b carries that header
FrameParams(f, h, b) == Slice(b, FrameHeaderLen(f, h) + 1, Len(b))
Framed(f, h, b)      == FrameSer(f, h, FrameParams(f, h, b)) = b

PacketSer(f, h, kinds, vals) == FrameSer(f, h, SerFields(kinds, vals))

(* ------------------------------------------------------------------ data packets (5.4.2, 5.4.3, 5.4.5)
   ACL  02 (handle | pb<<12 | bc<<14)(LE16) len(LE16) data
   SCO  03 (handle | status<<12)(LE16) len(8) data
   ISO  05 (handle | pb<<12 | ts<<14)(LE16) len(LE16) [timestamp(LE32) if ts]
           [psn(LE16) (sdu_len(12 bits) | rfu(2) | packet_status_flag(2) << 14)(LE16) if pb in {0, 2}] fragment
   record fields: h (12-bit handle), pb, bc / st / ts, data, and for ISO dtl (data total length as
   given), tsv <<lo, hi>>, psn, sl (SDU length, 12 bits), psf.                               *)
AclSer(r) == <<2>> \o U16Ser(r.h + 4096 * r.pb + 16384 * r.bc) \o U16Ser(Len(r.data)) \o r.data
AclPar(b) == LET w == U16At(b, 1) IN
    [h |-> w % 4096, pb |-> (w \div 4096) % 4, bc |-> w \div 16384, len |-> U16At(b, 3), data |-> Slice(b, 6, Len(b))]
AclInRange(r) == r.h \in 0..4095 /\ r.pb \in 0..3 /\ r.bc \in 0..3 /\ IsBytes(r.data) /\ Len(r.data) <= 65535

ScoSer(r) == <<3>> \o U16Ser(r.h + 4096 * r.st) \o <<Len(r.data)>> \o r.data
ScoPar(b) == LET w == U16At(b, 1) IN
    [h |-> w % 4096, st |-> (w \div 4096) % 4, len |-> At(b, 4), data |-> Slice(b, 5, Len(b))]
ScoInRange(r) == r.h \in 0..4095 /\ r.st \in 0..3 /\ IsBytes(r.data) /\ Len(r.data) <= 255

IsoHasSdu(pb) == pb = 0 \/ pb = 2
IsoSer(r) ==
    <<5>> \o U16Ser(r.h + 4096 * r.pb + 16384 * r.ts) \o U16Ser(r.dtl)
          \o (IF r.ts = 1 THEN U32Ser(r.tsv) ELSE <<>>)
          \o (IF IsoHasSdu(r.pb) THEN U16Ser(r.psn) \o U16Ser(r.sl + 16384 * r.psf) ELSE <<>>)
          \o r.data
IsoPar(b) ==
    LET w   == U16At(b, 1)
        pb  == (w \div 4096) % 4
        ts  == (w \div 16384) % 2
        o1  == 5 + (IF ts = 1 THEN 4 ELSE 0)
        o2  == o1 + (IF IsoHasSdu(pb) THEN 4 ELSE 0)
        sdu == U16At(b, o1 + 2)
    IN [h |-> w % 4096, pb |-> pb, ts |-> ts, dtl |-> U16At(b, 3),
        tsv |-> IF ts = 1 THEN U32At(b, 5) ELSE <<0, 0>>,
        psn |-> IF IsoHasSdu(pb) THEN U16At(b, o1) ELSE 0,
        sl  |-> IF IsoHasSdu(pb) THEN sdu % 4096 ELSE 0,
        psf |-> IF IsoHasSdu(pb) THEN sdu \div 16384 ELSE 0,
        data |-> Slice(b, o2 + 1, Len(b))]
IsoInRange(r) ==
    /\ r.h \in 0..4095 /\ r.pb \in 0..3 /\ r.ts \in 0..1 /\ r.dtl \in 0..16383
    /\ r.tsv[1] \in 0..65535 /\ r.tsv[2] \in 0..65535
    /\ r.psn \in 0..65535 /\ r.sl \in 0..4095 /\ r.psf \in 0..3 /\ IsBytes(r.data)
    /\ (r.ts = 0 => r.tsv = <<0, 0>>)
    /\ (~IsoHasSdu(r.pb) => r.psn = 0 /\ r.sl = 0 /\ r.psf = 0)
=============================================================================
