----------------------------- MODULE CodecMC -----------------------------
(* Model-level round-trip theorems for Codec.tla, checked by TLC over boundary value sets:
     Par(k, Ser(k, v)) = Canon(v)         for every kind k and boundary value v
     Ser(k, Par(k, b)) = b                for every kind k and boundary byte string b
   lifted to repeated groups (item counts 0..MaxCount, every sub-kind tuple of GroupSubs), field
   lists, packet framing and the ACL / SCO / ISO headers.  One state = one vector evaluated (all
   reached in one step from Init); the
   invariant RoundTrip is the theorem.  This makes the oracle used by CodecTrace.tla consistent
   with itself before it is used to judge the implementation.                              *)
EXTENDS Codec, FiniteSets, TLC

CONSTANTS MaxCount,     \* largest item count of a repeated group
          PairSubs      \* TRUE: all ordered pairs of scalar kinds as group sub-fields (thorough)

VARIABLE c              \* the vector under evaluation
vars == <<c>>

Scalars == <<K("u8"), K("s8"), K("u16"), K("u16be"), K("s16"), K("u24"), K("u32"), K("u32be")>>

Bnd(kd) ==
    CASE kd.k = "u8"    -> <<0, 1, 127, 128, 255>>
      [] kd.k = "s8"    -> <<-128, -127, -1, 0, 1, 127>>
      [] kd.k = "u16"   -> <<0, 1, 255, 256, 258, 32767, 32768, 65535>>
      [] kd.k = "u16be" -> <<0, 1, 255, 256, 258, 32767, 32768, 65535>>
      [] kd.k = "s16"   -> <<-32768, -32767, -256, -1, 0, 1, 255, 256, 32767>>
      [] kd.k = "u24"   -> <<0, 1, 255, 256, 65535, 65536, 66051, 8388607, 8388608, 16777215>>
      [] kd.k = "u32"   -> <<<<0, 0>>, <<1, 0>>, <<65535, 0>>, <<0, 1>>, <<513, 1027>>, <<65535, 32767>>, <<0, 32768>>, <<65535, 65535>>>>
      [] kd.k = "u32be" -> <<<<0, 0>>, <<1, 0>>, <<65535, 0>>, <<0, 1>>, <<513, 1027>>, <<65535, 32767>>, <<0, 32768>>, <<65535, 65535>>>>
      [] kd.k = "v"     -> <<<<>>, <<0>>, <<255, 1>>, [i \in 1..255 |-> (i * 7) % 256]>>
      [] kd.k = "star"  -> <<<<>>, <<0>>, <<255, 1, 128>>>>
      [] kd.k = "arr"   -> <<<<>>, <<7>>, [i \in 1..(kd.n - 1) |-> (i * 7) % 256], [i \in 1..kd.n |-> 255 - (i % 256)], [i \in 1..(kd.n + 1) |-> i % 256]>>
      [] kd.k = "lim"   -> <<Zeros(kd.n), [i \in 1..kd.n |-> i], [i \in 1..kd.n |-> 255]>>
      [] kd.k = "limbe" -> <<Zeros(kd.n), [i \in 1..kd.n |-> i], [i \in 1..kd.n |-> 255]>>
      [] kd.k = "opq"   -> <<[i \in 1..kd.n |-> (i * 31) % 256]>>
      [] kd.k = "psm"   -> <<1, 3, 25, 4097, 65279, 65281 + 65536 * 2, 257 + 65536 * 254, 257 + 65536 * (1 + 256 * 126)>>

BndBytes == {0, 1, 127, 128, 255}
Width(kd) == Par(kd, <<>>, 0)[2]     \* fixed-width kinds only

Others == <<KN("arr", 5), KN("arr", 6), KN("arr", 16), KN("arr", 256), K("v"), K("star"),
            KN("lim", 8), KN("limbe", 8), KN("limbe", 16), KN("opq", 0), KN("opq", 6), K("psm")>>
SeqToSet(s) == {s[i] : i \in 1..Len(s)}

GroupSubs ==
    {<<k1>> : k1 \in SeqToSet(Scalars) \cup {K("v"), KN("arr", 6), KN("opq", 6)}}
    \cup {<<K("u16"), K("u16")>>, <<K("u8"), K("opq"), K("v"), K("s8")>>, <<K("u16"), KN("arr", 6), K("u8")>>}
    \cup (IF PairSubs THEN {<<k1, k2>> : k1, k2 \in SeqToSet(Scalars) \cup {K("v")}} ELSE {})

\* opq of width 0 inside a group must not be used: K("opq") above has n = 0 on purpose (empty opaque)
ColVal(kd, s, i, j) == Bnd(kd)[((s + i + 2 * j) % Len(Bnd(kd))) + 1]
Cols(sub, cnt, s) == [j \in 1..Len(sub) |-> [i \in 1..cnt |-> ColVal(sub[j], s, i, j)]]

Pattern(n, s) == [i \in 1..n |-> (s + 37 * i) % 256]

Init == c = [t |-> "init"]

ChkValue == c.t = "init" /\ \E kd \in SeqToSet(Scalars) \cup SeqToSet(Others) : \E i \in 1..Len(Bnd(kd)) :
                 c' = [t |-> "value", kd |-> kd, v |-> Bnd(kd)[i]]
ChkBytes == c.t = "init" /\ \E kd \in SeqToSet(Scalars) : \E b \in [1..Width(kd) -> BndBytes] :
                 c' = [t |-> "bytes", kd |-> kd, b |-> b]
ChkGroup == c.t = "init" /\ \E sub \in GroupSubs : \E cnt \in 0..MaxCount : \E s \in 0..5 :
                 c' = [t |-> "group", sub |-> sub, cols |-> Cols(sub, cnt, s)]
ChkRagged == c.t = "init" /\ \E sub \in {<<K("u16"), K("u8")>>, <<K("u8"), K("v"), K("u16")>>} : \E cnt \in 0..MaxCount :
                 \* later columns longer than the first: the first column decides the count
                 c' = [t |-> "ragged", sub |-> sub,
                       cols |-> [j \in 1..Len(sub) |-> [i \in 1..(cnt + j - 1) |-> ColVal(sub[j], 0, i, j)]]]
ChkFields == c.t = "init" /\ \E tail \in {K("star"), K("u8"), KG(<<K("u16")>>)} : \E cnt \in 0..MaxCount : \E s \in 0..3 :
                 LET kinds == <<K("u8"), KG(<<K("u16"), K("s8")>>), K("u24"), K("v"), KN("arr", 5), tail>>
                     vals  == <<ColVal(K("u8"), s, 1, 1), Cols(<<K("u16"), K("s8")>>, cnt, s), ColVal(K("u24"), s, 1, 1),
                                Pattern(s, s), Pattern(5, s),
                                IF tail.k = "grp" THEN Cols(tail.sub, cnt, s + 1)
                                ELSE IF tail.k = "star" THEN Pattern(cnt, s) ELSE 255>>
                 IN c' = [t |-> "fields", kinds |-> kinds, vals |-> vals]
ChkMask == c.t = "init" /\ \E m \in {0, 1, 2, 4, 3, 5, 7, 255} :
                 LET sub == <<K("u8"), K("u16"), K("u16")>> IN
                 c' = [t |-> "mask", kinds |-> <<K("u8"), K("u8"), [k |-> "mgrp", n |-> 0, sub |-> sub]>>,
                       vals |-> <<7, m, Cols(sub, PopCount(m), m)>>]
ChkFrame == c.t = "init" /\ \E f \in {"cmd", "evt", "ext", "l2c", "sdp", "pfx"} : \E n \in {0, 1, 70} : \E code \in {0, 1, 255} :
                 c' = [t |-> "frame", f |-> f,
                       h |-> IF f \in {"ext", "l2c"} THEN <<code, 255 - code>>
                             ELSE IF f = "sdp" THEN <<code, 256 * code + 1>>
                             ELSE IF f = "cmd" THEN <<256 * code + (255 - code)>>
                             ELSE <<code>>,
                       p |-> Pattern(n, code)]
ChkAcl == c.t = "init" /\ \E h \in {0, 1, 256, 4095} : \E pb \in 0..3 : \E bc \in 0..3 : \E n \in {0, 1, 27, 70} :
                 c' = [t |-> "acl", r |-> [h |-> h, pb |-> pb, bc |-> bc, data |-> Pattern(n, h)]]
ChkSco == c.t = "init" /\ \E h \in {0, 1, 256, 4095} : \E st \in 0..3 : \E n \in {0, 1, 60} :
                 c' = [t |-> "sco", r |-> [h |-> h, st |-> st, data |-> Pattern(n, h)]]
ChkIso == c.t = "init" /\ \E h \in {0, 4095} : \E pb \in 0..3 : \E ts \in 0..1 : \E psf \in 0..3 : \E sl \in {0, 1, 4095} : \E n \in {0, 3} :
                 c' = [t |-> "iso", r |-> [h |-> h, pb |-> pb, ts |-> ts, dtl |-> n + (IF ts = 1 THEN 4 ELSE 0) + (IF IsoHasSdu(pb) THEN 4 ELSE 0),
                                           tsv |-> IF ts = 1 THEN <<513, 65535>> ELSE <<0, 0>>,
                                           psn |-> IF IsoHasSdu(pb) THEN 65534 ELSE 0,
                                           sl |-> IF IsoHasSdu(pb) THEN sl ELSE 0,
                                           psf |-> IF IsoHasSdu(pb) THEN psf ELSE 0,
                                           data |-> Pattern(n, h)]]

Next == ChkValue \/ ChkBytes \/ ChkGroup \/ ChkRagged \/ ChkFields \/ ChkMask \/ ChkFrame \/ ChkAcl \/ ChkSco \/ ChkIso
Spec == Init /\ [][Next]_vars

RoundTrip ==
    CASE c.t = "init"  -> TRUE
      [] c.t = "value" -> /\ InRange(c.kd, c.v)
                          /\ LET b == Ser(c.kd, c.v) IN
                               /\ IsBytes(b)
                               /\ Par(c.kd, b, 0) = <<Canon(c.kd, c.v), Len(b)>>
                               /\ Par(c.kd, <<9, 9>> \o b, 2)[1] = Canon(c.kd, c.v)     \* offsets
                               /\ WellFormed(<<c.kd>>, b)
      [] c.t = "bytes" -> /\ Ser(c.kd, Par(c.kd, c.b, 0)[1]) = c.b
                          /\ InRange(c.kd, Par(c.kd, c.b, 0)[1])
                          /\ Par(c.kd, c.b, 0)[2] = Len(c.b)
      [] c.t = "group" -> /\ GroupInRange(c.sub, c.cols)
                          /\ LET b == SerGroup(c.sub, c.cols) IN
                               /\ IsBytes(b) /\ b[1] = GroupCount(c.cols)
                               /\ ParGroup(c.sub, b, 0) = <<CanonGroup(c.sub, c.cols), Len(b)>>
                               /\ SerGroup(c.sub, ParGroup(c.sub, b, 0)[1]) = b
      [] c.t = "ragged" -> /\ GroupInRange(c.sub, c.cols)
                           /\ LET b == SerGroup(c.sub, c.cols) IN
                                /\ b[1] = Len(c.cols[1])
                                /\ ParGroup(c.sub, b, 0) = <<CanonGroup(c.sub, c.cols), Len(b)>>
                                /\ \A j \in 1..Len(c.sub) : Len(ParGroup(c.sub, b, 0)[1][j]) = Len(c.cols[1])
      [] c.t = "fields" -> /\ FieldsInRange(c.kinds, c.vals)
                           /\ LET b == SerFields(c.kinds, c.vals) IN
                                /\ IsBytes(b)
                                /\ ParFields(c.kinds, b) = CanonFields(c.kinds, c.vals)
                                /\ ParEnd(c.kinds, b) = Len(b)
                                /\ WellFormed(c.kinds, b)
                                \* one byte short is not well formed (except when the tail absorbs anything)
                                /\ (c.kinds[Len(c.kinds)].k # "star" /\ Len(b) > 0 => ~WellFormed(c.kinds, SubSeq(b, 1, Len(b) - 1)))
      [] c.t = "frame" -> /\ FrameFits(c.f, c.h, c.p)
                          /\ LET b == FrameSer(c.f, c.h, c.p) IN
                               /\ IsBytes(b) /\ Framed(c.f, c.h, b) /\ FrameParams(c.f, c.h, b) = c.p
                               /\ Len(b) = FrameHeaderLen(c.f, c.h) + Len(c.p)
                               /\ (c.f # "pfx" => ~Framed(c.f, c.h, b \o <<0>>))
      [] c.t = "mask"  -> /\ FieldsInRange(c.kinds, c.vals)
                          /\ LET b == SerFields(c.kinds, c.vals) IN
                               /\ ParFields(c.kinds, b) = c.vals /\ WellFormed(c.kinds, b)
                               /\ Len(b) = 2 + 5 * PopCount(c.vals[2])
      [] c.t = "acl"   -> /\ AclInRange(c.r)
                          /\ LET b == AclSer(c.r) p == AclPar(b) IN
                               /\ IsBytes(b) /\ AclSer(p) = b /\ p.len = Len(c.r.data)
                               /\ <<p.h, p.pb, p.bc, p.data>> = <<c.r.h, c.r.pb, c.r.bc, c.r.data>>
      [] c.t = "sco"   -> /\ ScoInRange(c.r)
                          /\ LET b == ScoSer(c.r) p == ScoPar(b) IN
                               /\ IsBytes(b) /\ ScoSer(p) = b /\ p.len = Len(c.r.data)
                               /\ <<p.h, p.st, p.data>> = <<c.r.h, c.r.st, c.r.data>>
      [] c.t = "iso"   -> /\ IsoInRange(c.r)
                          /\ LET b == IsoSer(c.r) IN IsBytes(b) /\ IsoPar(b) = c.r /\ IsoSer(IsoPar(b)) = b
=============================================================================
