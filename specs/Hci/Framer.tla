------------------------------- MODULE Framer -------------------------------
(* C02.  Re-framing of an HCI byte stream (H4: one type byte, a type-specific header that
   ends with a little-endian body length, then the body) that reaches the framer cut into
   arbitrary chunks - bumble/transport/common.py PacketParser.feed_data and, through the
   concrete mapping of the driver, PacketReader, AsyncPacketReader, the USB per-endpoint
   PacketSplitters and the protocol objects of the tcp / unix / ws server transports.

   Bytes are identified by their offset in the current client's well-formed stream, so a
   delivered packet is the span <<offset, length>> (sizes are abstract units in the model
   checking configurations and bytes in the trace configurations: same module, other
   constants; the driver checks that the delivered bytes ARE the bytes of that span).

   The framer is the incremental state machine of feed_data, taken chunk-wise exactly as the
   code does (consume min(need, left) bytes, then decide); what it decodes (packet type,
   body length) is read from the stream content at the offsets it has accumulated, NOT from a
   cursor that knows where packets start - that the two agree is the theorem TLC checks
   (Aligned, Exact) for every chunking, every injection point and every cut position.

   One action per entry point:
     ClientConnect(ps)   a client connects to the (server) transport and will write packets ps
     FeedChunk(n)        the next n bytes of the stream arrive in one call
     FeedBadType(n)      one call carries n well-formed bytes that end on a packet boundary,
                         followed by a byte that is no HCI packet type
     ClientDisconnect    the client goes away, wherever its stream was cut                       *)
EXTENDS Naturals, Sequences, FiniteSets

CONSTANTS Types,        \* packet types in play, subset of {"cmd", "acl", "sco", "evt", "iso"}
          MaxBody,      \* body lengths 0..MaxBody
          MaxPkts,      \* packets written by one client            (model bound)
          Budget,       \* packets written by all clients together  (model bound)
          MaxClients,   \* 1: one stream; 2: a client is cut off and another one connects; ...
          MaxBad,       \* invalid type bytes injected              (model bound)
          ResetOnConnect \* TRUE: what the property demands.  FALSE: the named deviation
                         \* "the shared parser survives the client" (used to show that the
                         \* invariants below do notice it; never used for the verdict)

\* bytes after the type byte up to and including the length field
Hdr(t)  == CASE t = "evt" -> 2 [] t \in {"cmd", "sco"} -> 3 [] OTHER -> 4
Size(p) == 1 + Hdr(p.t) + p.b
Pkt     == [t : Types, b : 0..MaxBody]
Streams == UNION {[1..k -> Pkt] : k \in 1..MaxPkts}

VARIABLES pkts,    \* Seq of [t, b]: what the current client writes
          sof,     \* sof[k] = offset of the first byte of pkts[k]; sof[Len(pkts) + 1] = stream length
          pos,     \* bytes of that stream handed to the framer so far
          up,      \* a client is connected
          client,  \* clients so far
          used,    \* packets of clients that are gone (model bound only)
          st,      \* framer: "type" | "len" | "body"   ("lost" = decoded something that is no type byte)
          need,    \*         bytes needed to leave st
          have,    \*         bytes of the packet in progress accumulated so far
          pk,      \*         which packet's type byte / length field it decoded (0: none)
          out,     \* packets delivered to the sink for the current client, <<offset, length>> each
          errs,    \* invalid-packet reports so far
          bad,     \* invalid type bytes injected so far
          cut      \* history: framer position at which the previous client was cut off

fvars == <<st, need, have, pk>>
vars  == <<pkts, sof, pos, up, client, used, st, need, have, pk, out, errs, bad, cut>>

RECURSIVE Off(_, _)
Off(ps, k)  == IF k = 1 THEN 0 ELSE Off(ps, k - 1) + Size(ps[k - 1])
Offsets(ps) == [k \in 1..Len(ps) + 1 |-> Off(ps, k)]
Total       == sof[Len(pkts) + 1]

\* ---- stream content, as a framer sees it ------------------------------------------------
StartsAt(o)  == {k \in 1..Len(pkts) : sof[k] = o}          \* the byte at o is the type byte of ...
IsBoundary(o) == \E k \in 1..Len(pkts) + 1 : sof[k] = o

\* ---- the state machine of feed_data -----------------------------------------------------
Emit(m) == [m EXCEPT !.s = "type", !.nd = 1, !.hv = 0, !.k = 0,
                     !.dl = Append(@, <<m.o - m.hv, m.hv>>)]

RECURSIVE Run(_, _)
\* m = [s: state, nd: bytes needed, hv: bytes accumulated, k: packet decoded, dl: delivered, o: offset of the
\* next byte to consume]; left = bytes left in this call
Run(m, left) ==
    IF left = 0 \/ m.s = "lost" THEN m
    ELSE LET c  == IF m.nd < left THEN m.nd ELSE left
             m1 == [m EXCEPT !.nd = @ - c, !.hv = @ + c, !.o = @ + c]
         IN IF m1.nd > 0 THEN m1
            ELSE CASE m.s = "type" ->
                        IF StartsAt(m.o) = {} THEN [m1 EXCEPT !.s = "lost"]
                        ELSE LET k == CHOOSE x \in StartsAt(m.o) : TRUE
                             IN Run([m1 EXCEPT !.s = "len", !.k = k, !.nd = Hdr(pkts[k].t)], left - c)
                   [] m.s = "len" ->
                        IF m.k = 0 THEN [m1 EXCEPT !.s = "lost"]    \* (only with ResetOnConnect = FALSE)
                        ELSE IF pkts[m.k].b = 0 THEN Run(Emit(m1), left - c)
                        ELSE Run([m1 EXCEPT !.s = "body", !.nd = pkts[m.k].b], left - c)
                   [] OTHER -> Run(Emit(m1), left - c)

Cur == [s |-> st, nd |-> need, hv |-> have, k |-> pk, dl |-> out, o |-> pos]

Set(m) == /\ st' = m.s /\ need' = m.nd /\ have' = m.hv /\ pk' = m.k /\ out' = m.dl

\* ---- actions ---------------------------------------------------------------------------
Init == /\ pkts = <<>> /\ sof = <<0>> /\ pos = 0 /\ up = FALSE /\ client = 0 /\ used = 0
        /\ st = "type" /\ need = 1 /\ have = 0 /\ pk = 0
        /\ out = <<>> /\ errs = 0 /\ bad = 0 /\ cut = <<"none", 0, "-">>

ClientConnect(ps) ==
    /\ ~up /\ client < MaxClients
    /\ Len(ps) \in 1..MaxPkts /\ used + Len(ps) <= Budget
    /\ \A i \in 1..Len(ps) : ps[i].t \in Types /\ ps[i].b \in 0..MaxBody
    /\ pkts' = ps /\ sof' = Offsets(ps) /\ pos' = 0 /\ up' = TRUE /\ client' = client + 1
    /\ out' = <<>>
    /\ IF ResetOnConnect
       THEN st' = "type" /\ need' = 1 /\ have' = 0 /\ pk' = 0     \* framed from its first byte
       ELSE /\ UNCHANGED <<st, need, have>>
            /\ pk' = 0      \* (the stale length it still waits for belongs to no packet of ps)
    /\ UNCHANGED <<used, errs, bad, cut>>

FeedChunk(n) ==
    /\ up /\ n \in 1..(Total - pos)
    /\ Set(Run(Cur, n))
    /\ pos' = pos + n
    /\ UNCHANGED <<pkts, sof, up, client, used, errs, bad, cut>>

\* the n well-formed bytes are framed (packets they complete are delivered), then the bad
\* byte is reported and the framer starts over; nothing else is in that call
FeedBadType(n) ==
    /\ up /\ bad < MaxBad
    /\ n \in 0..(Total - pos) /\ IsBoundary(pos + n)
    /\ LET m == Run(Cur, n) IN
       /\ m.s = "type"
       /\ out' = m.dl
       /\ st' = "type" /\ need' = 1 /\ have' = 0 /\ pk' = 0
    /\ pos' = pos + n
    /\ errs' = errs + 1 /\ bad' = bad + 1
    /\ UNCHANGED <<pkts, sof, up, client, used, cut>>

ClientDisconnect ==
    /\ up /\ up' = FALSE
    /\ used' = used + Len(pkts)
    /\ cut' = IF st = "type" THEN <<"type", 1, "-">> ELSE <<st, need, pkts[pk].t>>
    /\ UNCHANGED <<pkts, sof, pos, client, st, need, have, pk, out, errs, bad>>

Next == \/ \E ps \in Streams : ClientConnect(ps)
        \/ \E n \in 1..(MaxPkts * (5 + MaxBody)) : FeedChunk(n)
        \/ \E n \in 0..(MaxPkts * (5 + MaxBody)) : FeedBadType(n)
        \/ ClientDisconnect

Spec == Init /\ [][Next]_vars

-----------------------------------------------------------------------------
\* number of packets whose last byte has been fed
Complete(p) == Cardinality({k \in 1..Len(pkts) : sof[k + 1] <= p})

TypeOK == /\ st \in {"type", "len", "body"} /\ need \in 1..(4 + MaxBody) /\ have \in 0..(4 + MaxBody)
          /\ pos \in 0..Total /\ errs \in 0..MaxBad /\ client \in 0..MaxClients

\* same packets, same bytes, same order; none early, merged, duplicated, lost - or late
Exact == up => out = [j \in 1..Complete(pos) |-> <<sof[j], Size(pkts[j])>>]

\* the framer's position is the stream's position
Aligned == up => /\ have = pos - sof[Complete(pos) + 1]
                 /\ (st = "type") = (have = 0)
                 /\ st # "type" => /\ pk = Complete(pos) + 1
                                   /\ have + need = (IF st = "len" THEN 1 + Hdr(pkts[pk].t) ELSE Size(pkts[pk]))

\* a new client's stream is framed from its first byte
FreshClient == (up /\ out # <<>>) => out[1] = <<0, Size(pkts[1])>>

\* every invalid type byte is reported, once
Reported == errs = bad

\* a packet is delivered in the step that feeds its last byte
NoEarlyStep == \A j \in (Len(out) + 1)..Len(out') :
                   (up /\ up') => /\ out'[j][1] + out'[j][2] > pos
                                  /\ out'[j][1] + out'[j][2] <= pos'
NoEarly == [][NoEarlyStep]_vars
=============================================================================
