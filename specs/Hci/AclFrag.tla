------------------------------ MODULE AclFrag ------------------------------
(* C05.  One hop of the ACL data path: a sender that splits L2CAP PDUs (4-byte basic header +
   L payload bytes) into HCI ACL fragments of at most F data bytes (bumble/host.py
   Host.send_acl_sdu; bumble/controller.py Controller.on_link_acl_data does the same towards the
   host), a FIFO boundary on which a faulty peer can insert malformed fragments, and the
   receiving assembler (bumble/hci.py HCI_AclDataPacketAssembler.feed_packet, used by the
   host's and by the controller's Connection).

   All quantities are BYTES (the header is 4 bytes whatever F is, so nothing can be scaled);
   the model is explored for small F and replayed byte for byte into the real assembler,
   which does not know F.  Emission and reception of a fragment are one step (the boundary is
   a FIFO: interleaving emission and reception adds nothing), so the "wire" of DESIGN A.4 is
   represented by `out`, the fragment that crossed the boundary in this step.

   Byte identity is carried by tags: a genuine fragment is (id, off, len) = bytes off..off+len
   of PDU id (header included); fault data has id 0.  The assembler state remembers whether
   what it holds is exactly bytes 0..have of one PDU (`ok`); a delivered PDU is recorded with
   the PDU's id if it is byte-identical and with 0 ("dirty") otherwise.                      *)
EXTENDS Naturals, Sequences, FiniteSets

CONSTANTS F,          \* largest data length of one ACL fragment (controller's ACL data packet length), >= 2
          MaxL,       \* largest payload length explored
          NPdus,      \* number of PDUs sent
          MaxFaults,  \* number of malformed fragments the peer inserts
          JunkLens,   \* lengths a malformed START fragment may announce
          Sticky      \* FALSE.  TRUE = negative control: a START fragment does not start over while a PDU is
                      \* in progress (it is appended) - TLC must then find Inv_Exact / Inv_Recover violated

ASSUME F \in Nat /\ F >= 2   \* a START fragment carries at least the 2-byte length field

H == 4                        \* L2CAP basic header: length (2) + channel id (2)

VARIABLES nsent,      \* number of PDUs whose transmission has begun (ids 1..nsent)
          cur,        \* the PDU being transmitted [id, L, off]  (id = 0: none)
          asm,        \* the assembler [on, want, have, id, ok]
          got,        \* Seq of delivered PDUs: the id if byte-identical, 0 if dirty
          poisoned,   \* ids of PDUs that had a malformed fragment between their first and last fragment
          faults,     \* number of malformed fragments inserted so far
          out,        \* the genuine fragment emitted in this step [id, off, len, pb] (id = 0: none)
          dl          \* the delivery made in this step: <<>> or <<[id, L]>>

vars == <<nsent, cur, asm, got, poisoned, faults, out, dl>>

NoCur  == [id |-> 0, L |-> 0, off |-> 0]
NoAsm  == [on |-> FALSE, want |-> 0, have |-> 0, id |-> 0, ok |-> FALSE]
NoFrag == [id |-> 0, off |-> 0, len |-> 0, pb |-> "-"]

Min2(a, b) == IF a <= b THEN a ELSE b

(* ---------------------------------------------------------------- the assembler (feed_packet) *)
\* tail of feed_packet: complete -> callback and reset; more than announced -> reset (PDU lost)
After(a) ==
    IF a.have = a.want + H
    THEN [asm |-> NoAsm, dl |-> <<[id |-> IF a.ok THEN a.id ELSE 0, L |-> a.want]>>]
    ELSE IF a.have > a.want + H
    THEN [asm |-> NoAsm, dl |-> <<>>]
    ELSE [asm |-> a, dl |-> <<>>]

\* a START fragment of n >= 2 data bytes announcing payload length decl; id # 0: bytes 0..n of PDU id
FeedStart(n, id, decl) ==
    After([on |-> TRUE, want |-> decl, have |-> n, id |-> id, ok |-> id # 0])

\* what the assembler does with a START fragment (the negative control appends it to a PDU in progress)
OnStart(a, n, id, decl) ==
    IF Sticky /\ a.on
    THEN After([a EXCEPT !.have = @ + n, !.ok = FALSE])
    ELSE FeedStart(n, id, decl)

\* a START fragment too short to hold the length field: refused, nothing changes
FeedTinyStart(a) == [asm |-> a, dl |-> <<>>]

\* a CONTINUATION fragment of n data bytes (id # 0: bytes off..off+n of PDU id)
FeedCont(a, n, id, off) ==
    IF ~a.on
    THEN [asm |-> a, dl |-> <<>>]                                 \* continuation without start: dropped
    ELSE After([a EXCEPT !.have = @ + n,
                         !.ok = @ /\ id # 0 /\ id = a.id /\ off = a.have])

\* k >= 1 consecutive CONTINUATION fragments of n >= 1 data bytes each (bytes off.. of PDU id, contiguous):
\* the same as k times FeedCont - the run is cut where the announced length is reached or passed, what
\* follows in the run is then "continuation without start".  (Used by trace validation, where runs of
\* equal fragments are logged as one event.)
FeedContRun(a, n, k, id, off) ==
    IF k = 1 \/ ~a.on \/ n = 0
    THEN FeedCont(a, n, id, off)
    ELSE LET room == a.want + H - a.have
             j    == (room + n - 1) \div n
             b    == [a EXCEPT !.ok = @ /\ id # 0 /\ id = a.id /\ off = a.have]
         IN IF j > k THEN [asm |-> [b EXCEPT !.have = @ + k * n], dl |-> <<>>]
                     ELSE After([b EXCEPT !.have = @ + j * n])

(* ---------------------------------------------------------------- state *)
Mid == cur.id # 0 /\ cur.off > 0           \* between the first and the last fragment of a PDU
Between == cur.id = 0                      \* between two PDUs
NDone == IF cur.id = 0 THEN nsent ELSE nsent - 1

Ids(d) == IF d = <<>> THEN <<>> ELSE <<d[1].id>>

Commit(r) == /\ asm' = r.asm /\ dl' = r.dl /\ got' = got \o Ids(r.dl)

Init == /\ nsent = 0 /\ cur = NoCur /\ asm = NoAsm /\ got = <<>> /\ poisoned = {}
        /\ faults = 0 /\ out = NoFrag /\ dl = <<>>

(* ---------------------------------------------------------------- the sender *)
SendPdu(L) ==                                \* send_l2cap_pdu(cid, payload of L bytes)
    /\ cur.id = 0 /\ nsent < NPdus /\ L \in 0..MaxL
    /\ nsent' = nsent + 1
    /\ cur' = [id |-> nsent + 1, L |-> L, off |-> 0]
    /\ out' = NoFrag /\ dl' = <<>>
    /\ UNCHANGED <<asm, got, poisoned, faults>>

EmitFrag ==                                  \* one iteration of the loop in send_acl_sdu + its reception
    /\ cur.id # 0
    /\ LET n == Min2(F, H + cur.L - cur.off)
           r == IF cur.off = 0 THEN OnStart(asm, n, cur.id, cur.L) ELSE FeedCont(asm, n, cur.id, cur.off)
       IN /\ out' = [id |-> cur.id, off |-> cur.off, len |-> n, pb |-> IF cur.off = 0 THEN "S" ELSE "C"]
          /\ Commit(r)
          /\ cur' = IF cur.off + n = H + cur.L THEN NoCur ELSE [cur EXCEPT !.off = @ + n]
    /\ UNCHANGED <<nsent, poisoned, faults>>

(* ---------------------------------------------------------------- malformed fragments from the peer.
   They come between two PDUs or in the middle of one (not between SendPdu and its first fragment,
   which is the same place as "between two PDUs").                                             *)
Fault(r) ==
    /\ faults < MaxFaults /\ (Between \/ Mid)
    /\ faults' = faults + 1
    /\ poisoned' = IF Mid THEN poisoned \cup {cur.id} ELSE poisoned
    /\ out' = NoFrag
    /\ Commit(r)
    /\ UNCHANGED <<nsent, cur>>

InsertCont(n) ==                             \* continuation without start
    /\ ~asm.on /\ n \in 1..F
    /\ Fault(FeedCont(asm, n, 0, 0))

InsertJunk(n) ==                             \* foreign continuation data inside a PDU, within the announced length
    /\ asm.on /\ n \in 1..F /\ asm.have + n <= asm.want + H
    /\ Fault(FeedCont(asm, n, 0, 0))

InsertExcess(n) ==                           \* data beyond the announced length
    /\ asm.on /\ n \in 1..F /\ asm.have + n > asm.want + H
    /\ Fault(FeedCont(asm, n, 0, 0))

InsertTinyStart(n) ==                        \* START without room for the length field
    /\ n \in 0..1
    /\ Fault(FeedTinyStart(asm))

InsertShortStart(n, J) ==                    \* START shorter than the basic header
    /\ n \in 2..(H - 1) /\ J \in JunkLens
    /\ Fault(OnStart(asm, n, 0, J))

InsertStart(n, J) ==                         \* foreign START (dangling, complete or longer than it announces)
    /\ n \in H..F /\ J \in JunkLens
    /\ Fault(OnStart(asm, n, 0, J))

DuplicateStart ==                            \* the first fragment of the PDU in progress once more
    /\ Mid
    /\ Fault(OnStart(asm, Min2(F, H + cur.L), cur.id, cur.L))

Next == \/ \E L \in 0..MaxL : SendPdu(L)
        \/ EmitFrag
        \/ \E n \in 1..F : InsertCont(n) \/ InsertJunk(n) \/ InsertExcess(n)
        \/ \E n \in 0..1 : InsertTinyStart(n)
        \/ \E n \in 2..(H - 1), J \in JunkLens : InsertShortStart(n, J)
        \/ \E n \in H..F, J \in JunkLens : InsertStart(n, J)
        \/ DuplicateStart

Spec == Init /\ [][Next]_vars

(* ---------------------------------------------------------------- properties *)
TypeOK == /\ nsent \in 0..NPdus /\ faults \in 0..MaxFaults
          /\ cur.id \in 0..NPdus /\ cur.L \in 0..MaxL /\ cur.off \in 0..(MaxL + H)
          /\ asm.on \in BOOLEAN /\ asm.ok \in BOOLEAN /\ asm.id \in 0..NPdus
          /\ poisoned \subseteq 1..NPdus
          /\ Len(got) <= NPdus + MaxFaults

\* every fragment the sender emits fits the controller's data length and is not empty
Inv_Size == out.id # 0 => out.len >= 1 /\ out.len <= F

\* the first fragment of a PDU is flagged START, every other one CONTINUATION
Inv_Flags == out.id # 0 => (out.pb = "S") = (out.off = 0)

Healthy(i) == i # 0 /\ i \notin poisoned
RECURSIVE UpTo(_)
UpTo(n) == IF n = 0 THEN <<>> ELSE Append(UpTo(n - 1), n)

\* exactly once, in order, byte-identical, for every PDU that had no malformed fragment inside it:
\* whatever else was delivered, the byte-identical deliveries of healthy PDUs are exactly the healthy
\* PDUs transmitted so far, in order
Inv_Exact == SelectSeq(got, Healthy) = SelectSeq(UpTo(NDone), Healthy)

\* without faults nothing else is delivered either
Inv_NoFault == faults = 0 => got = UpTo(NDone)

\* a malformed sequence never corrupts the next PDU: while a healthy PDU is in transmission the assembler
\* holds exactly its first bytes
Inv_Recover == (Mid /\ cur.id \notin poisoned) =>
                   (asm.on /\ asm.ok /\ asm.id = cur.id /\ asm.have = cur.off /\ asm.want = cur.L)

\* a fault costs at most one spurious (dirty) delivery
Dirty == Len(SelectSeq(got, LAMBDA i : i = 0))
Inv_DirtyBound == Dirty <= faults

\* the run operator used by trace validation is k-fold FeedCont (checked on every reachable assembler state)
RECURSIVE Iter(_, _, _, _, _)
Iter(a, n, k, id, off) ==
    LET r == FeedCont(a, n, id, off) IN
    IF k = 1 THEN r ELSE LET r2 == Iter(r.asm, n, k - 1, id, off + n) IN [asm |-> r2.asm, dl |-> r.dl \o r2.dl]
Inv_Run == \A n \in 1..F, k \in 1..4, id \in {0, asm.id} :
               FeedContRun(asm, n, k, id, asm.have) = Iter(asm, n, k, id, asm.have)

\* between two PDUs a healthy history leaves the assembler idle
Inv_Idle == (Between /\ faults = 0) => ~asm.on
=============================================================================
