SPECIFICATION Spec
CONSTANTS
  MaxWrites = 4
  HasDrain = FALSE
INVARIANT ExactlyOnceInOrder
INVARIANT NoStall
CHECK_DEADLOCK FALSE
