SPECIFICATION Spec
CONSTANTS
  Conns = {1, 2}
  Ghost = 9
  Bufs = 2
  MaxPkts = 4
  MaxReport = 3
INVARIANT TypeOK
INVARIANT CreditBound
INVARIANT NoStall
INVARIANT Ledger
INVARIANT Fifo
INVARIANT DrainNotLate
INVARIANT SentOnce
CHECK_DEADLOCK FALSE
