---------------------------- MODULE CodecTrace ----------------------------
(* Code -> spec validation for C01 (and for every C18 class that uses the generic field codec).
   The driver logs what the real bumble objects did; a logged event is accepted iff it is what
   Codec.tla says:

     ser  [f, h, kinds, vals, bytes]          object built from field values, bytes(obj) logged
          accepted iff vals are in range and  bytes = FrameSer(f, h, SerFields(kinds, vals))
     par  [f, h, kinds, vals, bytes, again]   packet parsed from bytes, field values and the
          re-serialisation of a fresh object built from those values logged
          accepted iff bytes carry header (f, h), vals = ParFields(kinds, params), and
          (params well formed for kinds  =>  again = bytes)
     acl / sco / iso  [dir, r, bytes, again]  the three data-packet headers, both directions

   wf is the driver's claim that the parameter block is well formed ("y" / "n" / "any" = no
   claim); a disagreement is a harness
   error (the REJECT carries "wf-claim" and the driver raises instead of reporting a violation).
   Every trace of the batch is a short list of events; tid picks one (see DataQueueTrace.tla). *)
EXTENDS Codec, Json, IOUtils, TLC, TLCExt

Traces == JsonDeserialize(IOEnv.TRACE_FILE)

VARIABLES tid, l
tvars == <<tid, l>>

T  == Traces[tid]
Ev == T[l]

Params(ev) == FrameParams(ev.f, ev.h, ev.bytes)

\* Command Complete with return parameters that start with a status (sc): a non-zero status ends the
\* interpretation, whatever follows is carried uninterpreted (7.7.14, and the note in 4.4 that
\* return parameters other than status are not valid on error)
EffKinds(ev) == IF ev.sc /\ At(Params(ev), 4) # 0 /\ Len(ev.kinds) >= 3
                THEN SubSeq(ev.kinds, 1, 3) \o <<K("star")>> ELSE ev.kinds

\* set of violated clauses (empty = accepted)
WhySer(ev) ==
    (IF FieldsInRange(ev.kinds, ev.vals) THEN {} ELSE {"harness:value-out-of-range"})
    \cup (IF ~FieldsInRange(ev.kinds, ev.vals) \/ FrameFits(ev.f, ev.h, SerFields(ev.kinds, ev.vals)) THEN {} ELSE {"harness:does-not-fit-frame"})
    \cup (IF FieldsInRange(ev.kinds, ev.vals) /\ ev.bytes # PacketSer(ev.f, ev.h, ev.kinds, ev.vals) THEN {"bytes"} ELSE {})

WhyPar(ev) ==
    IF ~Framed(ev.f, ev.h, ev.bytes) THEN {"harness:header"}
    ELSE LET p  == Params(ev)
             kinds == EffKinds(ev)
             wf == WellFormed(kinds, p)
         IN (IF (ev.wf = "y" /\ ~wf) \/ (ev.wf = "n" /\ wf) THEN {"harness:wf-claim"} ELSE {})
            \cup (IF wf /\ ParFields(kinds, p) # ev.vals THEN {"values"} ELSE {})
            \cup (IF wf /\ ev.again # ev.bytes THEN {"reserialised"} ELSE {})

DataSer(ev) == CASE ev.e = "acl" -> AclSer(ev.r) [] ev.e = "sco" -> ScoSer(ev.r) [] ev.e = "iso" -> IsoSer(ev.r)
DataOk(ev)  == CASE ev.e = "acl" -> AclInRange(ev.r) [] ev.e = "sco" -> ScoInRange(ev.r) [] ev.e = "iso" -> IsoInRange(ev.r)
DataSame(ev) ==   \* the logged field values are what the bytes say
    CASE ev.e = "acl" -> LET p == AclPar(ev.bytes) IN <<p.h, p.pb, p.bc, p.len, p.data>> = <<ev.r.h, ev.r.pb, ev.r.bc, ev.r.len, ev.r.data>>
      [] ev.e = "sco" -> LET p == ScoPar(ev.bytes) IN <<p.h, p.st, p.len, p.data>> = <<ev.r.h, ev.r.st, ev.r.len, ev.r.data>>
      [] ev.e = "iso" -> IsoPar(ev.bytes) = ev.r
DataWf(ev) ==     \* the byte string is a well-formed packet of that type
    CASE ev.e = "acl" -> Len(ev.bytes) >= 5 /\ ev.bytes[1] = 2 /\ AclSer(AclPar(ev.bytes)) = ev.bytes
      [] ev.e = "sco" -> Len(ev.bytes) >= 4 /\ ev.bytes[1] = 3 /\ ScoSer(ScoPar(ev.bytes)) = ev.bytes
      [] ev.e = "iso" -> Len(ev.bytes) >= 5 /\ ev.bytes[1] = 5 /\ IsoSer(IsoPar(ev.bytes)) = ev.bytes
WhyData(ev) ==
    IF ev.dir = "ser"
    THEN (IF DataOk(ev) THEN {} ELSE {"harness:value-out-of-range"})
         \cup (IF DataOk(ev) /\ ev.bytes # DataSer(ev) THEN {"bytes"} ELSE {})
    ELSE (IF (ev.wf = "y" /\ ~DataWf(ev)) \/ (ev.wf = "n" /\ DataWf(ev)) THEN {"harness:wf-claim"} ELSE {})
         \cup (IF DataWf(ev) /\ ~DataSame(ev) THEN {"values"} ELSE {})
         \cup (IF DataWf(ev) /\ ev.again # ev.bytes THEN {"reserialised"} ELSE {})

Why(ev) == CASE ev.e = "ser" -> WhySer(ev)
             [] ev.e = "par" -> WhyPar(ev)
             [] ev.e \in {"acl", "sco", "iso"} -> WhyData(ev)
             [] OTHER -> {"harness:unknown-event"}

\* what the spec expected, for the diagnostic of a rejected event
Want(ev) == CASE ev.e = "ser" -> [bytes |-> IF FieldsInRange(ev.kinds, ev.vals) THEN PacketSer(ev.f, ev.h, ev.kinds, ev.vals) ELSE <<>>]
              [] ev.e = "par" -> [vals |-> ParFields(EffKinds(ev), Params(ev))]
              [] ev.e \in {"acl", "sco", "iso"} /\ ev.dir = "ser" -> [bytes |-> IF DataOk(ev) THEN DataSer(ev) ELSE <<>>]
              [] ev.e = "acl" -> [r |-> AclPar(ev.bytes)]
              [] ev.e = "sco" -> [r |-> ScoPar(ev.bytes)]
              [] ev.e = "iso" -> [r |-> IsoPar(ev.bytes)]
              [] OTHER -> [none |-> 0]

Step == /\ l <= Len(T)
        /\ Why(Ev) = {}
        /\ l' = l + 1 /\ tid' = tid

Done == /\ l = Len(T) + 1
        /\ PrintT(<<"ACCEPT", tid>>)
        /\ UNCHANGED tvars

Stuck == /\ l <= Len(T)
         /\ Why(Ev) # {}
         /\ PrintT(<<"REJECT", tid, l, Why(Ev), Want(Ev)>>)
         /\ UNCHANGED tvars

TraceInit == tid \in 1..Len(Traces) /\ l = 1
TraceNext == Step \/ Done \/ Stuck
TraceSpec == TraceInit /\ [][TraceNext]_tvars
=============================================================================
