--------------------------- MODULE FramerTrace ---------------------------
(* Trace validation for C02: executions of the real framers on long seeded streams with real
   sizes (bytes, not units).  Every logged event is one action of Framer.tla with its argument:
     conn(pkts)        ClientConnect(pkts)   pkts = [t, b] per packet the client will write
     feed(n, em)       FeedChunk(n)          em = the packets the framer handed to its sink during
     bad(n, em, err)   FeedBadType(n)             that call, each <<offset, length>> where the harness
     disc              ClientDisconnect           found those very bytes in the client's stream
   and the observed deliveries must be exactly the ones the specification makes in that step
   (out' = out \o em), so a packet that comes early, late, merged, twice or with other bytes
   leaves no enabled step.  All invariants of Framer.tla are evaluated at every state.
   A batch file holds many traces; tid picks one.                                          *)
EXTENDS Framer, Json, IOUtils, TLC, TLCExt

Traces == JsonDeserialize(IOEnv.TRACE_FILE)

VARIABLES tid, l
tvars == <<vars, tid, l>>

T  == Traces[tid]
Ev == T[l]

Emitted == out' = out \o Ev.em

Act == \/ Ev.e = "conn" /\ ClientConnect(Ev.pkts)
       \/ Ev.e = "feed" /\ FeedChunk(Ev.n) /\ Emitted
       \/ Ev.e = "bad"  /\ FeedBadType(Ev.n) /\ Emitted /\ Ev.err     \* reported
       \/ Ev.e = "disc" /\ ClientDisconnect

Step == /\ l <= Len(T)
        /\ Act
        /\ l' = l + 1 /\ tid' = tid

Done == /\ l = Len(T) + 1
        /\ PrintT(<<"ACCEPT", tid>>)
        /\ UNCHANGED tvars

Stuck == /\ l <= Len(T)
         /\ ~ENABLED Step
         /\ PrintT(<<"REJECT", tid, l, [e |-> Ev.e, n |-> Ev.n, em |-> Ev.em, err |-> Ev.err],
                     [st |-> st, need |-> need, have |-> have, pos |-> pos, delivered |-> Len(out),
                      complete |-> IF up THEN Complete(pos) ELSE 0, client |-> client]>>)
         /\ UNCHANGED tvars

TraceInit == Init /\ tid \in 1..Len(Traces) /\ l = 1
TraceNext == Step \/ Done \/ Stuck
TraceSpec == TraceInit /\ [][TraceNext]_tvars
=============================================================================
