--------------------------- MODULE DataQueue ---------------------------
(* C04.  The host's outbound data-packet queue in front of one controller buffer pool
   (bumble/host.py DataPacketQueue).  One action per public entry point; the
   send-while-credit loop (_check_queue) is the operator Pump, applied at the end of every
   action: that is what the property demands ("never leaves a packet waiting while the
   controller has a free buffer"), whatever the code does.

   Packets are identified per connection: [c |-> connection, k |-> k-th packet enqueued for c].
   Ghost is a connection handle that never had traffic (completions / flushes / drains for
   unknown handles).                                                                    *)
EXTENDS Naturals, Sequences, FiniteSets

CONSTANTS Conns,      \* connection handles with traffic, e.g. {1, 2}
          Ghost,      \* a handle the queue has never seen
          Bufs,        \* controller buffer count
          MaxPkts,    \* bound on the number of Enqueue steps (model bound only)
          MaxReport   \* largest completion count in one report (> Bufs explores over-reports)

VARIABLES waiting,    \* Seq of packets queued and not yet handed to the controller
          inflight,   \* [Conns -> Nat] handed over and not completed
          sentLog,    \* Seq of packets handed to the controller so far (history)
          enq,        \* [Conns -> Nat] number enqueued per connection
          queued,     \* total enqueued  (public counter)
          completed,  \* total completed or discarded (public counter)
          drain       \* [Conns \cup {Ghost} -> {"none", "waiting", "done"}] state of a drain() call

vars == <<waiting, inflight, sentLog, enq, queued, completed, drain>>

All == Conns \cup {Ghost}

RECURSIVE SumOver(_, _)
SumOver(f, S) == IF S = {} THEN 0 ELSE LET x == CHOOSE y \in S : TRUE IN f[x] + SumOver(f, S \ {x})
Total(inf) == SumOver(inf, Conns)

WaitingOf(w, c) == SelectSeq(w, LAMBDA p : p.c = c)
PendingOf(w, inf, c) == IF c \in Conns THEN Len(WaitingOf(w, c)) + inf[c] ELSE 0

\* the send-while-credit loop: <<waiting, inflight, sentLog>> after sending all that fits
RECURSIVE Pump(_, _, _)
Pump(w, inf, s) ==
    IF w # <<>> /\ Total(inf) < Bufs
    THEN Pump(Tail(w), [inf EXCEPT ![Head(w).c] = @ + 1], Append(s, Head(w)))
    ELSE <<w, inf, s>>

\* a drain() that is waiting is released in the very step in which nothing of c is pending
Release(w, inf) == [c \in All |-> IF drain[c] = "waiting" /\ PendingOf(w, inf, c) = 0 THEN "done" ELSE drain[c]]

Commit(w, inf, s) ==
    LET r == Pump(w, inf, s) IN
    /\ waiting' = r[1] /\ inflight' = r[2] /\ sentLog' = r[3]
    /\ drain' = Release(r[1], r[2])

Init == /\ waiting = <<>> /\ inflight = [c \in Conns |-> 0] /\ sentLog = <<>>
        /\ enq = [c \in Conns |-> 0] /\ queued = 0 /\ completed = 0
        /\ drain = [c \in All |-> "none"]

Enqueue(c) ==
    /\ queued < MaxPkts
    /\ enq' = [enq EXCEPT ![c] = @ + 1]
    /\ queued' = queued + 1
    /\ UNCHANGED completed
    /\ Commit(Append(waiting, [c |-> c, k |-> enq[c] + 1]), inflight, sentLog)

\* Number Of Completed Packets for handle c reporting n.  A controller cannot have completed
\* more packets of c than the host handed over for c: an over-report releases c's buffers and
\* nothing else (it must not eat other connections' credits).
Complete(c, n) ==
    /\ c \in Conns /\ n \in 0..MaxReport
    /\ LET m == IF n <= inflight[c] THEN n ELSE inflight[c] IN
       /\ completed' = completed + m
       /\ Commit(waiting, [inflight EXCEPT ![c] = @ - m], sentLog)
    /\ UNCHANGED <<enq, queued>>

CompleteUnknown(n) ==      \* a report for a handle without traffic changes nothing
    /\ n \in 1..MaxReport
    /\ UNCHANGED vars

\* disconnection of c: everything of c waiting or in flight is discarded
Flush(c) ==
    /\ c \in Conns
    /\ completed' = completed + Len(WaitingOf(waiting, c)) + inflight[c]
    /\ Commit(SelectSeq(waiting, LAMBDA p : p.c # c), [inflight EXCEPT ![c] = 0], sentLog)
    /\ UNCHANGED <<enq, queued>>

FlushUnknown == UNCHANGED vars

\* disconnection of c whose listeners, while they are being notified of it, submit n more
\* packets on c (a last response, a notification that was being prepared).  c is going away:
\* whether such a packet is still handed to the controller is left free (j of the n are, and
\* only into buffers that are free - c's own buffers are being released), but when the
\* disconnection has been processed NOTHING of c is waiting or in flight any more: the
\* controller never reports a completion for a handle that is gone, so a buffer still
\* accounted to c would be lost to the other connections for good.
FlushNotified(c, n, j) ==
    /\ c \in Conns /\ n >= 1 /\ queued + n <= MaxPkts
    /\ j \in 0..n /\ j + Total(inflight) - inflight[c] <= Bufs
    /\ enq' = [enq EXCEPT ![c] = @ + n]
    /\ queued' = queued + n
    /\ completed' = completed + Len(WaitingOf(waiting, c)) + inflight[c] + n
    /\ Commit(SelectSeq(waiting, LAMBDA p : p.c # c), [inflight EXCEPT ![c] = 0],
              sentLog \o [i \in 1..j |-> [c |-> c, k |-> enq[c] + i]])

DrainCall(c) ==
    /\ c \in All /\ drain[c] = "none"
    /\ drain' = [drain EXCEPT ![c] = IF PendingOf(waiting, inflight, c) = 0 THEN "done" ELSE "waiting"]
    /\ UNCHANGED <<waiting, inflight, sentLog, enq, queued, completed>>

DrainCollect(c) ==         \* the caller observed the result
    /\ c \in All /\ drain[c] = "done"
    /\ drain' = [drain EXCEPT ![c] = "none"]
    /\ UNCHANGED <<waiting, inflight, sentLog, enq, queued, completed>>

Next == \/ \E c \in Conns : Enqueue(c) \/ Flush(c) \/ (\E n \in 0..MaxReport : Complete(c, n))
        \/ \E c \in All : DrainCall(c) \/ DrainCollect(c)

Spec == Init /\ [][Next]_vars

\* the same with disconnections whose listeners still submit packets (at most 2 per disconnection)
NextN == Next \/ \E c \in Conns, n \in 1..2 : \E j \in 0..n : FlushNotified(c, n, j)
SpecN == Init /\ [][NextN]_vars

-----------------------------------------------------------------------------
TypeOK == /\ inflight \in [Conns -> 0..Bufs]
          /\ queued \in 0..MaxPkts /\ completed \in 0..MaxPkts
          /\ \A c \in All : drain[c] \in {"none", "waiting", "done"}

CreditBound == Total(inflight) <= Bufs                       \* never more in flight than buffers
NoStall     == waiting # <<>> => Total(inflight) = Bufs      \* no packet waits next to a free buffer
Ledger      == queued - completed = Len(waiting) + Total(inflight)   \* pending is exact and >= 0
\* handed over exactly once, in per-connection submission order
Fifo == \A c \in Conns :
           LET s == WaitingOf(sentLog, c) w == WaitingOf(waiting, c) IN
           /\ \A i, j \in 1..Len(s) : i < j => s[i].k < s[j].k
           /\ \A i \in 1..Len(s), j \in 1..Len(w) : s[i].k < w[j].k
           /\ \A i, j \in 1..Len(w) : i < j => w[i].k < w[j].k
\* a drain neither returns early nor stays blocked
DrainNotLate == \A c \in All : drain[c] = "waiting" => PendingOf(waiting, inflight, c) > 0
SentOnce == \A i, j \in 1..Len(sentLog) : i # j => sentLog[i] # sentLog[j]
=============================================================================
