SPECIFICATION Spec
CONSTANTS
  F = 5
  MaxL = 16
  NPdus = 3
  MaxFaults = 1
  JunkLens = {0, 3}
  Sticky = FALSE
INVARIANT TypeOK
INVARIANT Inv_Size
INVARIANT Inv_Flags
INVARIANT Inv_Exact
INVARIANT Inv_NoFault
INVARIANT Inv_Recover
INVARIANT Inv_DirtyBound
INVARIANT Inv_Idle
INVARIANT Inv_Run
CHECK_DEADLOCK FALSE
