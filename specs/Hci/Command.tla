----------------------------- MODULE Command -----------------------------
(* C03.  HCI command flow control between one host and its controller.

   Host side (bumble/host.py): K caller tasks funnel into Host._send_command, which takes the
   command semaphore, records the pending command, puts the command packet on the transport and
   waits for the response future; Host.on_command_processed resolves that future with the next
   Command Complete / Command Status that arrives; the caller's resumption clears the pending
   command and gives the semaphore back if the reply carried a command credit
   (Num_HCI_Command_Packets > 0); a reply without credit keeps the semaphore until a credit
   event (Command Complete for opcode 0) arrives.  One action per critical section:
       Call(t, o)   a task enters send_command
       Send(t)      semaphore taken + pending set + packet handed to the transport (no await between)
       HostRecv     Host.on_packet for the packet at the head of the controller->host FIFO
       Return(t)    the caller resumes: pending cleared, semaphore released (if credit), result returned
       SendFail(t)  handing the command over fails (a parameter value that does not fit its field: the packet
                    cannot be serialised; the transport sink raises): the call ends with an exception, the
                    command never crosses to the controller, and the command slot is free afterwards
   The two transports are FIFOs: order-preserving delay is exactly FIFO non-determinism.

   Controller side: NOT a model of bumble/controller.py but of what the property demands of any
   controller: it takes one command packet at a time (CtrlRecv) and answers it with exactly one
   Command Complete or Command Status carrying that opcode (CtrlReply; which of the two, and the
   status, are free).  A Command Status with status 0 for a procedure command accepts the
   procedure as pending: it is entered into ctrlProc and has to be concluded later by the
   procedure's completion event (CtrlConclude).  Procedures whose conclusion depends on the
   environment (LE create connection towards a peer that never advertises) are `weak`: they may
   stay open for ever, until a cancel command is accepted; from then on they have to be concluded.

   Procedure keys, opcodes and task ids are opaque values; the actions take everything that the
   trace specification (CommandTrace.tla) binds from a logged event as parameters.            *)
EXTENDS Naturals, Sequences, FiniteSets, TLC

CONSTANTS Tasks,        \* caller task ids (positive integers)
          Ops,          \* command opcodes used by the model's callers (positive integers)
          ProcOps,      \* subset of Ops: commands that start a procedure when accepted as pending
          WeakOps,      \* subset of ProcOps: procedures that may legitimately stay pending (until cancelled)
          CancelOp,     \* opcode of the cancel command (0: none)
          CancelTarget, \* the ProcOp whose procedure CancelOp cancels
          AliasOp,      \* a second command that starts the SAME procedure as AliasTarget (0: none), as LE Extended
          AliasTarget,  \*   Create Connection and LE Create Connection do: one connection creation per controller
          FailOps,      \* subset of Ops: commands whose hand-over to the transport may fail (exception to the caller)
          MaxCalls,     \* calls per task (bounds the model)
          CreditGames,  \* TRUE: the controller may answer with Num_HCI_Command_Packets = 0 and grant the credit later
          HostBug,      \* "none" | "early_release" | "keep_slot"   (negative controls, used by the self-test only)
          CtrlBug       \* "none" | "silent" | "forget"

VARIABLES task,      \* [Tasks -> "idle" | "waitsem" | "waitrsp" | "ready"]
          op,        \* [Tasks -> opcode of the current / last call]
          got,       \* [Tasks -> the reply handed to the task's last call]
          calls,     \* [Tasks -> number of completed calls]
          sem,       \* 0..1   free permits of Host.command_semaphore
          pending,   \* Host.pending_command: NoCmd or [t, op]
          h2c,       \* FIFO host -> controller (opcodes)
          c2h,       \* FIFO controller -> host (messages)
          cur,       \* the command the controller is processing (NoOp: none)
          ctrlProc,  \* set of procedure keys accepted as pending and not concluded
          weak,      \* subset of ctrlProc that may stay open for ever
          owed       \* the controller withheld the command credit and has not granted it yet

vars == <<task, op, got, calls, sem, pending, h2c, c2h, cur, ctrlProc, weak, owed>>

NoOp  == 0
NoKey == ""
NoCmd == [t |-> 0, op |-> NoOp]
NoRep == [ty |-> "none", k |-> "", op |-> NoOp, st |-> "", n |-> 0]

Rep(k, o, st, n) == [ty |-> "rep", k |-> k, op |-> o, st |-> st, n |-> n]
EvtMsg           == [ty |-> "evt", k |-> "", op |-> NoOp, st |-> "", n |-> 0]
NopMsg           == [ty |-> "nop", k |-> "cc", op |-> NoOp, st |-> "ok", n |-> 1]

Init == /\ task = [t \in Tasks |-> "idle"] /\ op = [t \in Tasks |-> NoOp]
        /\ got = [t \in Tasks |-> NoRep] /\ calls = [t \in Tasks |-> 0]
        /\ sem = 1 /\ pending = NoCmd /\ h2c = <<>> /\ c2h = <<>> /\ cur = NoOp
        /\ ctrlProc = {} /\ weak = {} /\ owed = FALSE

-----------------------------------------------------------------------------
\* ---- host
Call(t, o) ==
    /\ task[t] = "idle" /\ o # NoOp /\ calls[t] < MaxCalls
    /\ task' = [task EXCEPT ![t] = "waitsem"] /\ op' = [op EXCEPT ![t] = o]
    /\ UNCHANGED <<got, calls, sem, pending, h2c, c2h, cur, ctrlProc, weak, owed>>

\* Host._send_command from the return of semaphore.acquire() up to the await of the response
Send(t) ==
    /\ task[t] = "waitsem" /\ sem = 1
    /\ HostBug = "none" => pending = NoCmd          \* `assert self.pending_command is None`
    /\ sem' = IF HostBug = "early_release" THEN 1 ELSE 0
    /\ pending' = [t |-> t, op |-> op[t]]
    /\ h2c' = Append(h2c, op[t])
    /\ task' = [task EXCEPT ![t] = "waitrsp"]
    /\ UNCHANGED <<op, got, calls, c2h, cur, ctrlProc, weak, owed>>

\* Host._send_command when handing the packet over raises (serialisation of a value that does not fit its field,
\* or the sink's on_packet): nothing crosses to the controller, the caller gets the exception, and the command
\* slot (semaphore, pending command) is as free afterwards as it was before.  The property does not say at which
\* point of its wait the caller learns this (today: once it holds the semaphore), hence no guard on sem.
SendFail(t) ==
    /\ task[t] = "waitsem"
    /\ HostBug = "keep_slot" => sem = 1 /\ pending = NoCmd
    /\ sem' = IF HostBug = "keep_slot" THEN 0 ELSE sem                                  \* negative control: the slot is
    /\ pending' = IF HostBug = "keep_slot" THEN [t |-> t, op |-> op[t]] ELSE pending     \* never given back
    /\ task' = [task EXCEPT ![t] = "idle"]
    /\ calls' = [calls EXCEPT ![t] = @ + 1]
    /\ op' = [op EXCEPT ![t] = NoOp]
    /\ UNCHANGED <<got, h2c, c2h, cur, ctrlProc, weak, owed>>

\* Host.on_packet for the head of the controller->host FIFO
HostRecv ==
    /\ c2h # <<>>
    /\ LET m == Head(c2h) IN
       /\ c2h' = Tail(c2h)
       /\ CASE m.ty = "rep" /\ pending # NoCmd /\ task[pending.t] = "waitrsp" ->
                    \* on_command_processed: the pending future gets this event whatever its opcode
                    /\ task' = [task EXCEPT ![pending.t] = "ready"]
                    /\ got' = [got EXCEPT ![pending.t] = m]
                    /\ UNCHANGED sem
            [] m.ty = "rep" /\ ~(pending # NoCmd /\ task[pending.t] = "waitrsp") ->
                    \* nobody waits: only the credit counts
                    /\ sem' = IF m.n > 0 THEN 1 ELSE sem
                    /\ UNCHANGED <<task, got>>
            [] m.ty = "nop" ->
                    /\ sem' = IF m.n > 0 THEN 1 ELSE sem
                    /\ UNCHANGED <<task, got>>
            [] OTHER -> UNCHANGED <<task, got, sem>>       \* any other event: not command flow control
    /\ UNCHANGED <<op, calls, pending, h2c, cur, ctrlProc, weak, owed>>

\* the caller resumes in _send_command: finally-block, then the reply is returned
Return(t) ==
    /\ task[t] = "ready"
    /\ task' = [task EXCEPT ![t] = "idle"]
    /\ calls' = [calls EXCEPT ![t] = @ + 1]
    /\ pending' = IF pending.t = t THEN NoCmd ELSE pending
    /\ sem' = IF got[t].n > 0 THEN 1 ELSE sem
    /\ op' = [op EXCEPT ![t] = NoOp] /\ got' = [got EXCEPT ![t] = NoRep]   \* (history not needed any more)
    /\ UNCHANGED <<h2c, c2h, cur, ctrlProc, weak, owed>>

-----------------------------------------------------------------------------
\* ---- controller (as the property demands it)
CtrlRecv ==
    /\ h2c # <<>> /\ cur = NoOp
    /\ cur' = Head(h2c) /\ h2c' = Tail(h2c)
    /\ UNCHANGED <<task, op, got, calls, sem, pending, c2h, ctrlProc, weak, owed>>

\* exactly one reply for the command in hand.  k: "cc" | "cs";  st: "ok" | "err";  n: command credit;
\* keys: procedures started by this command if accepted ({}: not a procedure command; LE Create CIS starts several);
\* ckey: procedure this command cancels (NoKey: not a cancel);  wk: the procedures would be weak
CtrlReply(k, st, n, keys, ckey, wk) ==
    /\ cur # NoOp
    /\ k \in {"cc", "cs"} /\ st \in {"ok", "err"} /\ n \in 0..1
    /\ n = 0 => ~owed
    /\ LET accept == k = "cs" /\ st = "ok" /\ keys # {}
           cancel == st = "ok" /\ ckey # NoKey /\ ckey \in ctrlProc
           \* a procedure that is already open (and owed) does not become weak again
           w1 == IF accept /\ wk THEN weak \cup (keys \ ctrlProc)
                 ELSE IF accept /\ ~wk THEN weak \ keys ELSE weak
       IN /\ ctrlProc' = IF accept THEN ctrlProc \cup keys ELSE ctrlProc
          /\ weak' = IF cancel THEN w1 \ {ckey} ELSE w1
    /\ c2h' = Append(c2h, Rep(k, cur, st, n))
    /\ cur' = NoOp
    /\ owed' = (owed \/ n = 0)
    /\ UNCHANGED <<task, op, got, calls, sem, pending, h2c>>

\* a completion event that concludes the procedures in keys (others: no effect)
CtrlConclude(keys) ==
    /\ CtrlBug # "forget"
    /\ ctrlProc' = ctrlProc \ keys /\ weak' = weak \ keys
    /\ c2h' = Append(c2h, EvtMsg)
    /\ UNCHANGED <<task, op, got, calls, sem, pending, h2c, cur, owed>>

\* Command Complete for opcode 0: grants the withheld command credit
CtrlCredit ==
    /\ owed /\ owed' = FALSE
    /\ c2h' = Append(c2h, NopMsg)
    /\ UNCHANGED <<task, op, got, calls, sem, pending, h2c, cur, ctrlProc, weak>>

\* negative control: a controller that swallows a command
CtrlDrop ==
    /\ CtrlBug = "silent" /\ cur # NoOp /\ cur' = NoOp
    /\ UNCHANGED <<task, op, got, calls, sem, pending, h2c, c2h, ctrlProc, weak, owed>>

-----------------------------------------------------------------------------
\* ---- the bounded model
KeyName     == <<"p1", "p2", "p3", "p4", "p5", "p6", "p7", "p8", "p9">>        \* model opcodes are 1..9
KeysOf(o)   == IF o = AliasOp /\ AliasOp # NoOp THEN {KeyName[AliasTarget]}
               ELSE IF o \in ProcOps THEN {KeyName[o]} ELSE {}
CancelOf(o) == IF o = CancelOp /\ CancelOp # NoOp THEN KeyName[CancelTarget] ELSE NoKey
AllKeys     == {KeyName[o] : o \in ProcOps}
Credits     == IF CreditGames THEN 0..1 ELSE {1}

ConcludeOne(p) == p \in ctrlProc /\ CtrlConclude({p})
FailOne(t)     == op[t] \in FailOps /\ SendFail(t)

WeakOp(o)   == o \in WeakOps \/ (o = AliasOp /\ AliasOp # NoOp /\ AliasTarget \in WeakOps)

CtrlAnswer == \E k \in {"cc", "cs"}, st \in {"ok", "err"}, n \in Credits :
                 CtrlReply(k, st, n, KeysOf(cur), CancelOf(cur), WeakOp(cur))

Next == \/ \E t \in Tasks, o \in Ops : Call(t, o)
        \/ \E t \in Tasks : Send(t) \/ Return(t)
        \/ \E t \in Tasks : FailOne(t)
        \/ HostRecv
        \/ CtrlRecv \/ CtrlAnswer \/ CtrlCredit \/ CtrlDrop
        \/ \E p \in AllKeys : ConcludeOne(p)

\* fairness: transports deliver, the controller works, resumed callers run.  Callers need not call.
\* A weak procedure is concluded only if the environment happens to (no fairness).
Fair == /\ \A t \in Tasks : WF_vars(Send(t)) /\ WF_vars(Return(t))
        /\ WF_vars(HostRecv) /\ WF_vars(CtrlRecv) /\ WF_vars(CtrlAnswer) /\ WF_vars(CtrlCredit)
        /\ \A p \in AllKeys : WF_vars(p \notin weak /\ ConcludeOne(p))

Spec == Init /\ [][Next]_vars /\ Fair

-----------------------------------------------------------------------------
\* ---- properties
TypeOK == /\ \A t \in Tasks : task[t] \in {"idle", "waitsem", "waitrsp", "ready"}
          /\ sem \in 0..1 /\ weak \subseteq ctrlProc
          /\ Len(h2c) <= Cardinality(Tasks) /\ cur \in Ops \cup {NoOp}

Replies(q) == Len(SelectSeq(q, LAMBDA m : m.ty = "rep"))

\* at most one command outstanding at the controller ...
Inv_OneOutstanding == Len(h2c) + (IF cur # NoOp THEN 1 ELSE 0) <= 1
\* ... and, as the host sees it, at most one command sent whose reply has not been consumed
Inv_OneInFlight ==
    Len(h2c) + (IF cur # NoOp THEN 1 ELSE 0) + Replies(c2h)
      + Cardinality({t \in Tasks : task[t] = "ready"}) <= 1
\* every caller gets a reply that carries its own command's opcode
Inv_OwnOpcode == \A t \in Tasks : task[t] = "ready" => got[t].ty = "rep" /\ got[t].op = op[t]
\* the host never sends while the controller withholds the command credit
Inv_Credit == owed => (h2c = <<>> /\ cur = NoOp)
\* a waiting caller is the one recorded as pending
Inv_Pending == \A t \in Tasks : task[t] \in {"waitrsp", "ready"} => pending = [t |-> t, op |-> op[t]]
\* the command slot is held only on behalf of a command that did cross to the controller (or of a withheld
\* credit): with nothing in flight, nobody waiting for a reply and no credit owed, the slot is free
Inv_SlotFree ==
    (/\ h2c = <<>> /\ cur = NoOp /\ ~owed
     /\ \A i \in DOMAIN c2h : c2h[i].ty = "evt"
     /\ \A t \in Tasks : task[t] \notin {"waitrsp", "ready"})
    => (sem = 1 /\ pending = NoCmd)

\* no caller waits for ever, later commands are not blocked
Live_Answered  == \A t \in Tasks : (task[t] = "waitsem") ~> (task[t] = "idle")
\* every procedure accepted as pending (and not legitimately open-ended) is concluded
Live_Concluded == \A p \in AllKeys : (p \in ctrlProc /\ p \notin weak) ~> (p \notin ctrlProc)
\* a withheld credit is granted and reaches the host
Live_Credit    == owed ~> ~owed
=============================================================================
