------------------------------ MODULE IsoFrag ------------------------------
(* C05, isochronous part.  Host.send_iso_sdu (bumble/host.py) splits an SDU of S bytes into HCI ISO data
   packets whose Data_Total_Length is at most Fi (the controller's ISO data packet length).  The first
   packet of an SDU carries a 4-byte header (Packet_Sequence_Number, ISO_SDU_Length) that counts in the
   length; PB_Flag is 10 complete / 00 first / 01 continuation / 11 last; the sequence number grows by
   one per SDU modulo M (65536 on the wire).  A reference receiver (written from Core Vol 4 Part E 5.4.5,
   bumble has none) reassembles the stream: the flags, the SDU length and the sequence number must make
   that unambiguous.  All quantities are bytes.  SDUs of length 0 are not modelled (send_iso_sdu emits no
   packet for them; the property speaks about fragments).                                            *)
EXTENDS Naturals, Sequences

CONSTANTS Fi,      \* ISO data packet length, > HI
          MaxS,    \* largest SDU length explored
          NSdus,   \* number of SDUs
          M,       \* sequence number modulus
          Psn0     \* sequence number of the first SDU

HI == 4
ASSUME Fi > HI /\ Psn0 < M

VARIABLES nsdu,    \* SDUs begun
          cur,     \* SDU in transmission [id, S, off] (id = 0: none)
          psn,     \* the link's next sequence number
          out,     \* the packet emitted in this step [id, pb, len, d, sdulen, psn] (id = 0: none)
          rx,      \* reference reassembler [on, id, have, want, ok]
          got      \* Seq of [id, psn] reassembled SDUs

vars == <<nsdu, cur, psn, out, rx, got>>

NoCur == [id |-> 0, S |-> 0, off |-> 0]
NoOut == [id |-> 0, pb |-> "--", len |-> 0, d |-> 0, sdulen |-> 0, psn |-> 0]
NoRx  == [on |-> FALSE, id |-> 0, have |-> 0, want |-> 0, psn |-> 0, ok |-> FALSE]
Min2(a, b) == IF a <= b THEN a ELSE b

Pb(first, last) == IF first THEN (IF last THEN "10" ELSE "00") ELSE (IF last THEN "11" ELSE "01")

Init == nsdu = 0 /\ cur = NoCur /\ psn = Psn0 /\ out = NoOut /\ rx = NoRx /\ got = <<>>

SendSdu(S) ==
    /\ cur.id = 0 /\ nsdu < NSdus /\ S \in 1..MaxS
    /\ nsdu' = nsdu + 1 /\ cur' = [id |-> nsdu + 1, S |-> S, off |-> 0]
    /\ out' = NoOut
    /\ UNCHANGED <<psn, rx, got>>

\* reference receiver
Rx(r, pb, id, off, d, sdulen, sn) ==
    LET started == IF pb \in {"10", "00"}
                   THEN [on |-> TRUE, id |-> id, have |-> d, want |-> sdulen, psn |-> sn, ok |-> off = 0]
                   ELSE IF r.on THEN [r EXCEPT !.have = @ + d, !.ok = @ /\ id = r.id /\ off = r.have]
                   ELSE r
        ends == pb \in {"10", "11"}
    IN IF ends /\ started.on
       THEN [rx |-> NoRx,
             dl |-> IF started.ok /\ started.have = started.want THEN <<[id |-> started.id, psn |-> started.psn]>> ELSE <<>>]
       ELSE [rx |-> started, dl |-> <<>>]

EmitIso ==                                        \* one iteration of the loop in send_iso_sdu
    /\ cur.id # 0
    /\ LET first == cur.off = 0
           hdr   == IF first THEN HI ELSE 0
           d     == Min2(cur.S - cur.off, Fi - hdr)
           last  == cur.off + d = cur.S
           pb    == Pb(first, last)
           r     == Rx(rx, pb, cur.id, cur.off, d, cur.S, psn)
       IN /\ out' = [id |-> cur.id, pb |-> pb, len |-> hdr + d, d |-> d,
                     sdulen |-> IF first THEN cur.S ELSE 0, psn |-> IF first THEN psn ELSE 0]
          /\ rx' = r.rx /\ got' = got \o r.dl
          /\ cur' = IF last THEN NoCur ELSE [cur EXCEPT !.off = @ + d]
          /\ psn' = IF last THEN (psn + 1) % M ELSE psn
    /\ UNCHANGED nsdu

Next == (\E S \in 1..MaxS : SendSdu(S)) \/ EmitIso
Spec == Init /\ [][Next]_vars

NDone == IF cur.id = 0 THEN nsdu ELSE nsdu - 1
Expected(i) == (Psn0 + i - 1) % M

Iso_Size   == out.id # 0 => out.len <= Fi /\ out.d >= 1
Iso_Flags  == out.id # 0 => /\ (out.pb \in {"10", "00"}) = (out.len = out.d + HI)      \* header exactly on first packets
                            /\ (out.pb \in {"10", "11"}) = (cur.id = 0)                 \* end marker exactly on the last one
Iso_Header == (out.id # 0 /\ out.pb \in {"10", "00"}) => (out.psn = Expected(out.id))
Iso_Exact  == /\ Len(got) = NDone
              /\ \A i \in 1..Len(got) : got[i].id = i /\ got[i].psn = Expected(i)
=============================================================================
