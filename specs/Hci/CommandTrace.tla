--------------------------- MODULE CommandTrace ---------------------------
(* Trace validation for C03.  A trace is what was recorded on a real bumble Host wired to a real
   bumble Controller (or to a scripted controller) through a tap with order-preserving delay lines;
   every logged event is one action of Command.tla with its arguments:

     call(t, op)                         a task enters Host.send_command / send_sync_command_raw / send_async_command
     h2c(op)                             a command packet leaves the host                      -> Send(t) for a waiting t with that opcode
     rcv(op)                             the delay line hands it to the controller             -> CtrlRecv
     c2h(k, op, st, n, keys, ckey, wk)   the controller emits Command Complete / Status        -> CtrlReply
     evt(keys)                           the controller emits a procedure completion event      -> CtrlConclude(keys)
     nop                                 Command Complete for opcode 0 (credit only)            -> CtrlCredit
     dlv(ty, op)                         the delay line hands a packet to the host              -> HostRecv
     ret(t, out, rop, k)                 the caller's await returns (reply opcode rop, kind k)  -> Return(t)
     ret(t, out = exc.., hf = TRUE)      the call ends with an exception because handing the command over failed
                                         (the driver saw no packet cross for this call and knows why: the command
                                         object cannot be serialised, or the sink raised)        -> SendFail(t)
     quiesce(pend)                       the event loop has nothing left to do (virtual time is past every time-out)

   The controller-side actions are those of Command.tla, i.e. what the property allows, not what
   bumble's controller implements: a command that is never answered leaves `cur` set (or a caller
   in "waitrsp") at `quiesce`, a second reply or a reply with a foreign opcode finds CtrlReply
   disabled, a second command before the reply finds Send disabled (semaphore), an accepted
   procedure without completion event leaves its key in ctrlProc at `quiesce`; a host that keeps
   the command slot after a failed hand-over leaves the later callers in "waitsem" at `quiesce`.
   Any other exception out of a call (hf = FALSE) has no action.
   A batch file holds many traces; tid picks one.                                              *)
EXTENDS Command, Json, IOUtils, TLCExt

Traces == JsonDeserialize(IOEnv.TRACE_FILE)

VARIABLES tid,    \* which trace of the batch
          l,      \* position of the next event (for the verdict)
          rest    \* the events not consumed yet (kept in the state: the batch file is read once, in TraceInit)
tvars == <<vars, tid, l, rest>>

Ev == Head(rest)

KeySet(s) == {s[i] : i \in DOMAIN s}

Quiet == /\ \A t \in Tasks : task[t] = "idle"
         /\ h2c = <<>> /\ c2h = <<>> /\ cur = NoOp
         /\ ctrlProc \subseteq weak
         /\ ~owed

Act == \/ Ev.e = "call" /\ Call(Ev.t, Ev.op)
       \/ Ev.e = "h2c"  /\ \E t \in Tasks : op[t] = Ev.op /\ Send(t)
       \/ Ev.e = "rcv"  /\ CtrlRecv /\ cur' = Ev.op
       \/ Ev.e = "c2h"  /\ cur = Ev.op /\ CtrlReply(Ev.k, Ev.st, Ev.n, KeySet(Ev.keys), Ev.ckey, Ev.wk)
       \/ Ev.e = "evt"  /\ CtrlConclude(KeySet(Ev.keys))
       \/ Ev.e = "nop"  /\ CtrlCredit
       \/ Ev.e = "dlv"  /\ HostRecv /\ Head(c2h).ty = Ev.ty /\ Head(c2h).op = Ev.op
       \/ /\ Ev.e = "ret" /\ Ev.out = "ok" /\ Return(Ev.t)
          \* rop = 0: the entry point used does not hand the reply event to its caller
          /\ (Ev.rop # 0) => /\ got[Ev.t].op = Ev.rop /\ got[Ev.t].k = Ev.k   \* handed over = delivered
                              /\ Ev.rop = op[Ev.t]                            \* and carries the caller's own opcode
       \/ Ev.e = "ret" /\ Ev.out # "ok" /\ Ev.hf /\ SendFail(Ev.t)
       \/ Ev.e = "quiesce" /\ Quiet /\ Ev.pend = <<>> /\ UNCHANGED vars

Step == /\ rest # <<>>
        /\ Act
        /\ l' = l + 1 /\ tid' = tid /\ rest' = Tail(rest)

Done == /\ rest = <<>>
        /\ PrintT(<<"ACCEPT", tid>>)
        /\ UNCHANGED tvars

Stuck == /\ rest # <<>>
         /\ ~ENABLED Step
         /\ PrintT(<<"REJECT", tid, l, Ev.e,
                     [task |-> task, op |-> op, sem |-> sem, pending |-> pending, cur |-> cur,
                      h2c |-> h2c, nc2h |-> Len(c2h), ctrlProc |-> ctrlProc, weak |-> weak, owed |-> owed]>>)
         /\ UNCHANGED tvars

TraceInit == /\ Init /\ l = 1
             /\ LET ts == Traces IN \E i \in 1..Len(ts) : tid = i /\ rest = ts[i]
TraceNext == Step \/ Done \/ Stuck
TraceSpec == TraceInit /\ [][TraceNext]_tvars
=============================================================================
