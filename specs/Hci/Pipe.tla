------------------------------ MODULE Pipe ------------------------------
(* C04, last clause.  The flow-controlled pipe of the bridging tools
   (bumble/utils.py FlowControlAsyncPipe): packets written are delivered to the sink exactly
   once, in the order written; delivery stops while the pipe is paused or the sink is busy
   (its drain call has not returned) and resumes afterwards.

   Settle is the pump task running until it blocks; it is applied at the end of every action,
   which is what an observer sees once the event loop is idle.                           *)
EXTENDS Naturals, Sequences

CONSTANTS MaxWrites,   \* bound on Write steps
          HasDrain     \* TRUE: the sink has a drain coroutine (one packet per SinkDone)

VARIABLES queue,       \* Seq of packet ids written and not yet delivered
          sunk,        \* Seq of packet ids delivered to the sink (history)
          written,     \* number of packets written
          paused,      \* pipe paused by the consumer side
          busy         \* sink's drain() is outstanding

vars == <<queue, sunk, written, paused, busy>>

RECURSIVE Settle(_, _, _, _)
Settle(q, s, p, b) ==
    IF q # <<>> /\ ~p /\ ~b
    THEN Settle(Tail(q), Append(s, Head(q)), p, HasDrain)
    ELSE <<q, s, b>>

Commit(q, s, p, b) ==
    LET r == Settle(q, s, p, b) IN queue' = r[1] /\ sunk' = r[2] /\ busy' = r[3] /\ paused' = p

Init == queue = <<>> /\ sunk = <<>> /\ written = 0 /\ paused = FALSE /\ busy = FALSE

Write    == written < MaxWrites /\ written' = written + 1 /\ Commit(Append(queue, written + 1), sunk, paused, busy)
Pause    == ~paused /\ UNCHANGED written /\ Commit(queue, sunk, TRUE, busy)
Resume   == paused /\ UNCHANGED written /\ Commit(queue, sunk, FALSE, busy)
PauseAgain  == paused /\ UNCHANGED vars          \* idempotent calls
ResumeAgain == ~paused /\ UNCHANGED vars
SinkDone == busy /\ UNCHANGED written /\ Commit(queue, sunk, paused, FALSE)

Next == Write \/ Pause \/ Resume \/ SinkDone \/ PauseAgain \/ ResumeAgain
Spec == Init /\ [][Next]_vars

-----------------------------------------------------------------------------
Iota(n) == [i \in 1..n |-> i]
\* exactly once, in the order written: what reached the sink followed by what is queued is 1..written
ExactlyOnceInOrder == sunk \o queue = Iota(written)
\* nothing waits while the pipe is open and the sink idle
NoStall == (queue # <<>>) => (paused \/ busy)
=============================================================================
