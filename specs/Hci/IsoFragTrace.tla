---------------------------- MODULE IsoFragTrace ----------------------------
(* Trace validation for the isochronous part of C05: a real Host with a CIS / BIS link, SDUs handed to
   Host.send_iso_sdu, HCI ISO data packets observed at the host -> controller boundary and decoded by the
   harness' own parser (lib/c05_wire.py).

     buf(ln, n)                             the controller's answer to LE Read Buffer Size [v2]: ISO data packet length, count
     sdu_out(id, S)                         send_iso_sdu called with SDU number id of S bytes
     iso(pb, ln, n, d, sdulen, psn, ok)     one ISO packet: PB_Flag (0 first, 1 continuation, 2 complete, 3 last),
                                            Data_Total_Length field, bytes present, SDU bytes in it, and for
                                            pb 0/2 the ISO_SDU_Length and Packet_Sequence_Number fields;
                                            ok = the SDU bytes are the next bytes of the SDU
     quiesce
   A run of `rep` consecutive identical continuation packets (pb 1) is logged as one event.

   The split is free (any d >= 1 that fits); size, markers, SDU length and sequence number are not.
   The first sequence number is free, then +1 modulo 65536 per SDU.  An SDU of length 0 may be sent as one
   complete packet without data or not at all, and may or may not consume a sequence number.          *)
EXTENDS Naturals, Sequences, FiniteSets, Json, IOUtils, TLC, TLCExt

MM == 65536
HI == 4

Traces == JsonDeserialize(IOEnv.TRACE_FILE)

VARIABLES tid, l,
          sentS,    \* SDU lengths by id
          icur,     \* [id, off]: SDU in transmission (id = 0: none)
          idone,    \* last SDU completely transmitted (or skipped)
          lastId,   \* last SDU whose first packet was seen (0: none yet)
          lastPsn,  \* its sequence number
          fi        \* ISO data packet length the controller announced (LE Read Buffer Size v2 reply seen at the tap)

tvars == <<tid, l, sentS, icur, idone, lastId, lastPsn, fi>>

T  == Traces[tid]
Ev == T[l]

First(pb) == pb = 0 \/ pb = 2
Last(pb)  == pb = 2 \/ pb = 3

\* the SDU a first packet can belong to: i, when every SDU between the last transmitted one and i is empty
Skippable(i) == \A j \in (idone + 1)..(i - 1) : sentS[j] = 0
SeqOk(i) == lastId = 0 \/ \E k \in 0..(i - lastId - 1) : Ev.psn = (lastPsn + 1 + k) % MM

FirstWhy(i) == [known       |-> i <= Len(sentS),
                in_sequence |-> icur.id = 0,
                size        |-> fi > 0 /\ Ev.ln <= fi,
                lenfield    |-> Ev.ln = Ev.n,
                header      |-> Ev.n = Ev.d + HI,
                nonempty    |-> i <= Len(sentS) => (Ev.d >= 1 \/ sentS[i] = 0),
                within      |-> i <= Len(sentS) => Ev.d <= sentS[i],
                last_marker |-> i <= Len(sentS) => Last(Ev.pb) = (Ev.d = sentS[i]),
                sdu_length  |-> i <= Len(sentS) => Ev.sdulen = sentS[i],
                seq_number  |-> i <= Len(sentS) => SeqOk(i),
                bytes       |-> Ev.ok]

ContWhy == [in_sequence |-> icur.id # 0,
            size        |-> fi > 0 /\ Ev.ln <= fi,
            lenfield    |-> Ev.ln = Ev.n,
            header      |-> Ev.n = Ev.d,
            nonempty    |-> Ev.d >= 1,
            run         |-> Ev.rep = 1 \/ (Ev.rep > 1 /\ Ev.pb = 1),
            within      |-> icur.id # 0 => icur.off + Ev.rep * Ev.d <= sentS[icur.id],
            last_marker |-> icur.id # 0 => Last(Ev.pb) = (icur.off + Ev.rep * Ev.d = sentS[icur.id]),
            bytes       |-> Ev.ok]

TrBuf == /\ Ev.e = "buf"
         /\ fi' = Ev.ln
         /\ UNCHANGED <<sentS, icur, idone, lastId, lastPsn>>

TrSduOut == /\ Ev.e = "sdu_out"
            /\ Ev.id = Len(sentS) + 1
            /\ sentS' = Append(sentS, Ev.S)
            /\ UNCHANGED <<icur, idone, lastId, lastPsn, fi>>

TrIsoFirst ==
    /\ Ev.e = "iso" /\ First(Ev.pb)
    /\ \E i \in (idone + 1)..Len(sentS) :
          /\ Skippable(i)
          /\ \A k \in DOMAIN FirstWhy(i) : FirstWhy(i)[k]
          /\ lastId' = i /\ lastPsn' = Ev.psn
          /\ IF Last(Ev.pb) THEN icur' = [id |-> 0, off |-> 0] /\ idone' = i
                            ELSE icur' = [id |-> i, off |-> Ev.d] /\ idone' = i - 1
    /\ UNCHANGED <<sentS, fi>>

TrIsoCont ==
    /\ Ev.e = "iso" /\ ~First(Ev.pb)
    /\ \A k \in DOMAIN ContWhy : ContWhy[k]
    /\ IF Last(Ev.pb) THEN icur' = [id |-> 0, off |-> 0] /\ idone' = icur.id
                      ELSE icur' = [icur EXCEPT !.off = @ + Ev.rep * Ev.d] /\ idone' = idone
    /\ UNCHANGED <<sentS, lastId, lastPsn, fi>>

QuiesceWhy == [complete |-> icur.id = 0,
               all_sent |-> \A j \in (idone + 1)..Len(sentS) : sentS[j] = 0]

TrQuiesce == /\ Ev.e = "quiesce"
             /\ \A k \in DOMAIN QuiesceWhy : QuiesceWhy[k]
             /\ UNCHANGED <<sentS, icur, idone, lastId, lastPsn, fi>>

Step == /\ l <= Len(T)
        /\ (TrBuf \/ TrSduOut \/ TrIsoFirst \/ TrIsoCont \/ TrQuiesce)
        /\ l' = l + 1 /\ tid' = tid

\* diagnostics: the clauses for the next SDU that has data (or the very next one)
NextData == IF \E i \in (idone + 1)..Len(sentS) : Skippable(i) /\ sentS[i] = Ev.sdulen
            THEN CHOOSE i \in (idone + 1)..Len(sentS) : Skippable(i) /\ sentS[i] = Ev.sdulen
            ELSE idone + 1
Why == IF Ev.e = "iso" THEN (IF First(Ev.pb) THEN FirstWhy(NextData) ELSE ContWhy)
       ELSE IF Ev.e = "quiesce" THEN QuiesceWhy
       ELSE [event |-> FALSE]

Done == /\ l = Len(T) + 1
        /\ PrintT(<<"ACCEPT", tid>>)
        /\ UNCHANGED tvars

Stuck == /\ l <= Len(T)
         /\ ~ENABLED Step
         /\ PrintT(<<"REJECT", tid, l, Ev, [why |-> Why, icur |-> icur, idone |-> idone, lastId |-> lastId, lastPsn |-> lastPsn, nout |-> Len(sentS), fi |-> fi]>>)
         /\ UNCHANGED tvars

TraceInit == /\ tid \in 1..Len(Traces) /\ l = 1
             /\ sentS = <<>> /\ icur = [id |-> 0, off |-> 0] /\ idone = 0 /\ lastId = 0 /\ lastPsn = 0 /\ fi = 0
TraceNext == Step \/ Done \/ Stuck
TraceSpec == TraceInit /\ [][TraceNext]_tvars
=============================================================================
