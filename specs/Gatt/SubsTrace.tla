--------------------------- MODULE SubsTrace ---------------------------
(* Trace validation for the notification clause of C12: one real bumble GATT server, two real
   bumble clients (three devices on one link), each with its unenhanced ATT bearer and
   (optionally) one EATT bearer.  Events (every record carries every field):
     bearer(b, m)                      ATT_MTU of bearer b
     cccd(b, c, v)                     the client on bearer b wrote v to the CCCD of characteristic c
     api(id, kind, c, force, vlen, targets)
                                       server API call number id: notify / indicate, value of vlen
                                       bytes, the bearers the call addresses
     pdu(b, kind, c, len)              a Handle Value Notification ("ntf", opcode 0x1B) / Indication
                                       ("ind", 0x1D) for characteristic c with len value bytes arrived
                                       on bearer b (observed on the client side of the link)
     cb(b, kind, c, len)               the client's notification / indication subscriber was called
     sub(b, c, kind)                   the client on bearer b registers a callback of that kind in its own table (Client.subscribe called)
     unsub(b, c) / unsubd(b, c)        Client.unsubscribe of every callback called / returned: the callbacks are dropped
                                       somewhere in between, before the CCCD write of 0 reaches the server
     nocb(b, kind, c, len)             the client's ATT layer finished with the PDU that arrived and called nobody
     cfm(b)                            a Handle Value Confirmation arrived at the server on bearer b
     lost(b)                           the harness swallowed the Handle Value Confirmation of the indication
                                       outstanding on bearer b (the server will give up after its time-out)
     ret(id, ok)                       API call id returned (ok = 1) or raised (ok = 0; only a call one of whose
                                       indications was never confirmed may raise)
     quiesce(p)                        nothing left to run; p = number of API calls still pending   *)
EXTENDS Subs, Json, IOUtils, TLC, TLCExt

Traces == JsonDeserialize(IOEnv.TRACE_FILE)

VARIABLES tid, l
tvars == <<vars, tid, l>>

T  == Traces[tid]
Ev == T[l]
Is(e) == Ev.e = e

EvPdu == [kind |-> Ev.kind, c |-> Ev.c, len |-> Ev.len]
Queued(b, c) == {t \in tasks : t.b = b /\ t.c = c /\ t.st = "queued"}

\* ---- named conjuncts (reported when a step is refused)
GOwed  == Is("pdu") => Queued(Ev.b, Ev.c) # {}                                \* somebody asked for a PDU to this bearer
GKind  == Is("pdu") => \E t \in Queued(Ev.b, Ev.c) : t.kind = Ev.kind        \* ... of this kind
GLen   == Is("pdu") => \E t \in Queued(Ev.b, Ev.c) : t.kind = Ev.kind /\ t.len = Ev.len
GSlot  == Is("pdu") /\ Ev.kind = "ind" => slot[Ev.b] = 0                     \* previous indication confirmed
GCb    == Is("cb")  => air[Ev.b] # <<>> /\ Head(air[Ev.b]) = EvPdu /\ Solicited(Ev.b)
GNoCb  == Is("nocb") => air[Ev.b] # <<>> /\ Head(air[Ev.b]) = EvPdu /\ Unsolicited(Ev.b)   \* a registered subscriber is called
GCfm   == Is("cfm") => cfmdue[Ev.b] /\ slot[Ev.b] # 0
GRet   == Is("ret") => /\ Ev.id \in 1..Len(calls) /\ Finished(Ev.id)
                       /\ (Ev.ok = 1 \/ \E t \in tasks : t.call = Ev.id /\ t.st = "failed")
GLost  == Is("lost") => slot[Ev.b] # 0
GQuiet == Is("quiesce") => /\ Ev.p = 0
                           /\ \A k \in 1..Len(calls) : calls[k].st = "returned"
                           /\ \A t \in tasks : t.st \in {"done", "failed"}
                           /\ \A b \in Bearers : air[b] = <<>> /\ ~cfmdue[b]

Act == \/ Is("bearer") /\ SetMtu(Ev.b, Ev.m)
       \/ Is("cccd") /\ WriteCccd(Ev.b, Ev.c, Ev.v)
       \/ /\ Is("api") /\ Ev.id = Len(calls) + 1
          /\ Api(Ev.kind, Ev.c, Ev.force = 1, Ev.vlen, {Ev.targets[i] : i \in 1..Len(Ev.targets)})
       \/ /\ Is("pdu")
          /\ \E k \in 1..Len(calls) : IF Ev.kind = "ntf" THEN SendNtf(k, Ev.b) ELSE SendInd(k, Ev.b)
          /\ air'[Ev.b][Len(air'[Ev.b])] = EvPdu
       \/ Is("cb") /\ GCb /\ Callback(Ev.b)
       \/ Is("nocb") /\ GNoCb /\ Discard(Ev.b)
       \/ Is("sub") /\ LocalSub(Ev.b, Ev.c, Ev.kind)
       \/ Is("unsub") /\ LocalUnsub(Ev.b, Ev.c)
       \/ Is("unsubd") /\ LocalGone(Ev.b, Ev.c)
       \/ Is("cfm") /\ Confirm(Ev.b)
       \/ Is("lost") /\ Expire(Ev.b)
       \/ Is("ret") /\ GRet /\ Return(Ev.id)
       \/ Is("quiesce") /\ GQuiet /\ UNCHANGED vars

Step == /\ l <= Len(T)
        /\ Act
        /\ l' = l + 1 /\ tid' = tid

Done == /\ l = Len(T) + 1
        /\ PrintT(<<"ACCEPT", tid>>)
        /\ UNCHANGED tvars

Stuck == /\ l <= Len(T)
         /\ ~ENABLED Step
         /\ PrintT(<<"REJECT", tid, l, Ev,
                     [owed |-> GOwed, kind |-> GKind, len |-> GLen, slot |-> GSlot, cb |-> GCb, nocb |-> GNoCb,
                      cfm |-> GCfm, lost |-> GLost, ret |-> GRet, quiet |-> GQuiet,
                      cccd |-> cccd, slots |-> slot,
                      open |-> {t \in tasks : t.st \in {"queued", "awaiting"}}]>>)
         /\ UNCHANGED tvars

TraceInit == Init /\ tid \in 1..Len(Traces) /\ l = 1
TraceNext == Step \/ Done \/ Stuck
TraceSpec == TraceInit /\ [][TraceNext]_tvars
=============================================================================
