------------------------- MODULE DiscoveryTrace -------------------------
(* Trace validation for the termination clause of C12.  A trace is one call of a discovery
   procedure of the real bumble gatt_client.Client against a scripted raw ATT peer that replays
   an adversarial response sequence of Discovery.tla (Strict = TRUE state graph).  Events:
     req(s, t, want)  the client put a request with starting handle s / ending handle t on the
                      wire; want = the starting handle the reference client of Part G sends at
                      this point (0 when the real client has left the reference behaviour)
     rsp(k)           the peer answered (k = kind, free)
     ret(o)           the API call returned / raised
     end(p, b)        the loop went quiescent; p = 1 if the call is still pending, b = the bound
                      on requests for the handles the peer named in this run
   The monitor is the property's client (Strict = FALSE) at the real handle space N = 65535:
   each request must start strictly after the previous one, the call must have ended, within
   the bound.                                                                              *)
EXTENDS Discovery, Json, IOUtils, TLC, TLCExt

Traces == JsonDeserialize(IOEnv.TRACE_FILE)

VARIABLES tid, l
tvars == <<vars, tid, l>>

T  == Traces[tid]
Ev == T[l]

\* named conjuncts, reported when a step is refused
GProgress == Ev.e = "req" => Ev.s > lastStart
GRange    == Ev.e = "req" => Ev.s \in 1..N /\ Ev.t \in 1..N
GGatt     == Ev.e = "req" => Ev.want = 0 \/ Ev.s = Ev.want
GEnded    == Ev.e = "end" => pc = "done" /\ Ev.p = 0
GBound    == Ev.e = "end" => nreq <= Ev.b

Act == \/ Ev.e = "req" /\ GGatt /\ Request(Ev.s)
       \/ Ev.e = "rsp" /\ (RespondNotFound \/ RespondError \/ RespondEmpty \/ RespondNothing)
       \/ Ev.e = "ret" /\ Finish("complete")
       \/ Ev.e = "end" /\ GEnded /\ GBound /\ UNCHANGED vars

Step == /\ l <= Len(T)
        /\ Act
        /\ l' = l + 1 /\ tid' = tid

Done == /\ l = Len(T) + 1
        /\ PrintT(<<"ACCEPT", tid>>)
        /\ UNCHANGED tvars

Stuck == /\ l <= Len(T)
         /\ ~ENABLED Step
         /\ PrintT(<<"REJECT", tid, l, Ev,
                     [pc |-> pc, lastStart |-> lastStart, nreq |-> nreq,
                      progress |-> GProgress, range |-> GRange, gatt |-> GGatt,
                      ended |-> GEnded, bound |-> GBound]>>)
         /\ UNCHANGED tvars

TraceInit == Init /\ tid \in 1..Len(Traces) /\ l = 1
TraceNext == Step \/ Done \/ Stuck
TraceSpec == TraceInit /\ [][TraceNext]_tvars
=============================================================================
