--------------------------- MODULE Discovery ---------------------------
(* C12, termination clause: "every discovery procedure terminates whatever sequence of
   responses the peer produces".

   One GATT client discovery loop (bumble/gatt_client.py Client.discover_services,
   discover_service, discover_included_services, discover_characteristics,
   discover_descriptors, discover_attributes) against an ADVERSARIAL responder over the
   handle space 1..N (N stands for 0xFFFF).  One action per step of the loop body:
   Request (send_request), Respond* (what the peer puts on the wire, freely chosen),
   Finish (the procedure returns or raises).

   Two clients are modelled by the constant Strict:
     Strict = FALSE  the property's client (DESIGN Appendix D): any client, as long as every
                     request starts strictly after the previous one, else the procedure ends.
                     TLC shows that this alone bounds the number of requests by the size of the
                     handle space and makes the procedure terminate (Bound, Terminates).  This
                     is also the monitor the recorded runs of the real client are validated
                     against (DiscoveryTrace.tla).
     Strict = TRUE   the reference client of Core Vol 3 Part G 4.4.1, 4.4.2, 4.5.1, 4.6.1, 4.7.1:
                     the next request starts one after the last End Group Handle (service
                     procedures) / the last Attribute Handle (the others); entries naming a
                     handle below the requested range end the procedure.  TLC shows it refines
                     the property's client (Progress) and its state graph enumerates the
                     adversarial response sequences that are replayed against the real client. *)
EXTENDS Naturals, Sequences, FiniteSets

CONSTANTS NG, NN,   \* handle space 1..N: N = NG for the service procedures, NN for the others
          Procs,    \* subset of {"services", "service", "included", "chars", "descs", "attrs"}
          Ranges,   \* ranges given to the ranged procedures (included, chars, descs), each coded
                    \* as the number 100 * Lo + Hi (configuration files cannot hold tuples)
          MaxList,  \* longest handle list in one response
          Strict

ASSUME /\ NG \in Nat \ {0} /\ NN \in Nat \ {0} /\ MaxList \in 1..3
       /\ Procs \subseteq {"services", "service", "included", "chars", "descs", "attrs"}
       /\ \A r \in Ranges : (r \div 100) \in 1..NN /\ (r % 100) \in (r \div 100)..NN
       /\ Strict \in BOOLEAN

VARIABLES Proc,      \* the procedure called           } chosen in Init,
          Lo, Hi,    \* the range it was called with   } constant afterwards
          pc,        \* "idle" (between requests) | "wait" (request outstanding) | "done"
          start,     \* Strict: starting handle of the next request
          lastStart, \* starting handle of the previous request (0: none yet)
          nreq,      \* requests sent
          out        \* how the procedure ended ("" while running)

call == <<Proc, Lo, Hi>>
vars == <<Proc, Lo, Hi, pc, start, lastStart, nreq, out>>

Group  == Proc \in {"services", "service"}          \* entries carry an End Group Handle
Ranged == Proc \in {"included", "chars", "descs"}
N      == IF Group THEN NG ELSE NN
First  == IF Ranged THEN Lo ELSE 1
Last   == IF Ranged THEN Hi ELSE N

\* what one entry of a response names: <<attribute handle, end group handle>>
Entry   == IF Group THEN (1..N) \X (1..N) ELSE {<<h, h>> : h \in 1..N}
Lists   == UNION {[1..n -> Entry] : n \in 1..MaxList}

Init == /\ Proc \in Procs
        /\ IF Proc \in {"included", "chars", "descs"}
           THEN \E r \in Ranges : Lo = r \div 100 /\ Hi = r % 100
           ELSE Lo = 1 /\ Hi = IF Proc \in {"services", "service"} THEN NG ELSE NN
        /\ pc = "idle" /\ start = First /\ lastStart = 0 /\ nreq = 0 /\ out = ""

\* ---- client: send the next request (the loop condition is part of Respond / Init below)
Request(s) ==
    /\ pc = "idle"
    /\ s \in 1..N
    /\ IF Strict THEN s = start /\ start <= Last
                 ELSE s > lastStart                     \* the property: strictly after the previous one
    /\ pc' = "wait" /\ lastStart' = s /\ nreq' = nreq + 1
    /\ UNCHANGED <<call, start, out>>

\* ---- client: the procedure ends (returns a result or raises); always allowed between requests,
\*      and while waiting when the request times out
Finish(o) ==
    /\ pc \in {"idle", "wait"}
    /\ ~Strict \/ (pc = "idle" /\ start > Last /\ o = "complete")
    /\ pc' = "done" /\ out' = o
    /\ UNCHANGED <<call, start, lastStart, nreq>>

End(o) == /\ pc' = "done" /\ out' = o /\ UNCHANGED <<call, start, lastStart, nreq>>
Cont(s) == /\ pc' = "idle" /\ start' = s /\ UNCHANGED <<call, lastStart, nreq, out>>

\* ---- adversary: Error Response, Attribute Not Found
RespondNotFound ==
    /\ pc = "wait"
    /\ IF Strict THEN End("complete") ELSE Cont(start)

\* ---- adversary: Error Response with any other code
RespondError ==
    /\ pc = "wait"
    /\ IF Strict THEN End("error") ELSE Cont(start)

\* ---- adversary: a well-formed response whose list is empty
RespondEmpty ==
    /\ pc = "wait"
    /\ IF Strict THEN End("complete") ELSE Cont(start)

\* ---- adversary: stays silent; the request times out (30 s)
RespondNothing ==
    /\ pc = "wait"
    /\ IF Strict THEN End("timeout") ELSE Cont(start)

Bogus(es) == \E i \in 1..Len(es) : es[i][1] < lastStart \/ es[i][2] < es[i][1]
NextStart(es) == (IF Group THEN es[Len(es)][2] ELSE es[Len(es)][1]) + 1

\* ---- adversary: a list of entries, any handles of the handle space in any order
RespondList(es) ==
    /\ pc = "wait"
    /\ es \in Lists
    /\ IF ~Strict THEN Cont(start)
       ELSE IF Bogus(es) THEN End("bogus")
       ELSE Cont(NextStart(es))

MaxN == IF NG >= NN THEN NG ELSE NN
AllLists == UNION {[1..n -> (1..MaxN) \X (1..MaxN)] : n \in 1..MaxList}

Next == \/ \E s \in 1..MaxN : Request(s)
        \/ \E o \in {"complete", "error"} : Finish(o)
        \/ RespondNotFound \/ RespondError \/ RespondEmpty \/ RespondNothing
        \/ \E es \in AllLists : RespondList(es)

Spec == Init /\ [][Next]_vars /\ WF_vars(Next)

\* ----------------------------------------------------------------------------- properties
TypeOK == /\ Proc \in Procs /\ Lo \in 1..N /\ Hi \in Lo..N
          /\ pc \in {"idle", "wait", "done"} /\ start \in 1..(N + 1) /\ lastStart \in 0..N
          /\ nreq \in 0..N /\ out \in {"", "complete", "error", "bogus", "timeout"}

\* the number of requests is bounded by the handles the peer can still name
Bound == /\ nreq <= N
         /\ Ranged /\ Strict => nreq <= Hi - Lo + 1

\* every request starts strictly after the previous one (Strict refines the property's client)
Progress == [][pc = "idle" /\ pc' = "wait" => lastStart' > lastStart]_vars

\* the variant of the loop: it decreases with every request
Variant == N - lastStart
Decreases == [][nreq' > nreq => (N - lastStart') < (N - lastStart)]_vars

Terminates == <>(pc = "done")
=============================================================================
