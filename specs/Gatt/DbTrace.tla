---------------------------- MODULE DbTrace ----------------------------
(* Trace validation for the structure / value clauses of C12: a real bumble GATT client against
   a real bumble GATT server over a real LE connection.  Events (every record carries every
   field; unused ones are 0 / "" / <<>>):
     mtu(cm, sm, gc, gs)   client / server MTU preferences; ATT_MTU the client (gc) and the
                           server (gs) use after the exchange
     db(rows)              the attribute table the server exposes (see Db.tla)
     layout(wsvc, winc, wchr, wdsc, wcccd)
                           the database the application registered, with the handles the server
                           gave to the registered objects: the table must be a well-formed
                           layout of it (logged in a trace of its own, so that a server-side
                           layout error and a client-side discovery error are both reported)
     disc(dsvc, dinc, dchr, ddsc)
                           the proxies returned by discover_services, discover_included_services,
                           discover_characteristics, discover_descriptors, flattened
     disc1(u, items)       discover_service(u)
     discf(s, f, items, ddsc)
                           discover_characteristics(f, service s) with a non-empty UUID filter f, and the
                           descriptors then discovered for the returned proxies
     attrs(items)          discover_attributes()
     read(h, n, ver)       client read_value(h) returned n bytes equal to version ver of the
                           value (ver = 99 when the bytes equal no version the driver knows)
     write(h, n, ver)      client write_value(h) of n bytes (version ver), completed
     srv(h, n, ver)        the server-side value of h, observed after a write
   The spec recomputes the expected tree and the current value of every attribute.           *)
EXTENDS Db, Json, IOUtils, TLC, TLCExt

Traces == JsonDeserialize(IOEnv.TRACE_FILE)

VARIABLES rows, cur, mtu, tid, l
vars  == <<rows, cur, mtu>>
tvars == <<vars, tid, l>>

T  == Traces[tid]
Ev == T[l]

Is(e) == Ev.e = e

\* ---- named conjuncts (reported when a step is refused)
GMtu     == Is("mtu") => Ev.gc = Min2(Ev.cm, Ev.sm) /\ Ev.gs = Min2(Ev.cm, Ev.sm)
GOrdered == Is("db") => Ordered(Ev.rows)
GLaySvc  == Is("layout") => LSvc(rows, Ev.wsvc)
GLayInc  == Is("layout") => LInc(rows, Ev.winc)
GLayChr  == Is("layout") => LChr(rows, Ev.wchr)
GLayDsc  == Is("layout") => LDsc(rows, Ev.wdsc, Ev.wcccd)

Explored == {x.h : x \in ToSet(Ev.dsvc)} \cup {x.sh : x \in ToSet(Ev.dinc)}
GSvc == Is("disc") => ToSet(Ev.dsvc) = XSvc(rows) /\ NoDup(Ev.dsvc)
GInc == Is("disc") => ToSet(Ev.dinc) = XInc(rows, Explored) /\ NoDup(Ev.dinc)
GChr == Is("disc") => ToSet(Ev.dchr) = XChr(rows, Explored) /\ NoDup(Ev.dchr)
GDsc == Is("disc") => ToSet(Ev.ddsc) = XDsc(rows, Explored) /\ NoDup(Ev.ddsc)
GOne == Is("disc1") => ToSet(Ev.items) = XSvcByUuid(rows, Ev.u) /\ NoDup(Ev.items)
\* a filter selects among the characteristics of the service; it must not change their handle ranges
FChr == {x \in TChr(rows) : x.s = Ev.s /\ x.u \in ToSet(Ev.f)}
GFil == Is("discf") => /\ ToSet(Ev.items) = FChr /\ NoDup(Ev.items)
                       /\ ToSet(Ev.ddsc) = {d \in TDsc(rows) : \E x \in FChr : x.h = d.c} /\ NoDup(Ev.ddsc)
GAll == Is("attrs") => ToSet(Ev.items) = TAttr(rows) /\ NoDup(Ev.items)
GVal == (Is("read") \/ Is("srv")) =>
            /\ Ev.h \in DOMAIN cur
            /\ cur[Ev.h].n = Ev.n /\ cur[Ev.h].ver = Ev.ver

Act == \/ /\ Is("mtu") /\ GMtu
          /\ mtu' = Ev.gc /\ UNCHANGED <<rows, cur>>
       \/ /\ Is("layout") /\ GLaySvc /\ GLayInc /\ GLayChr /\ GLayDsc /\ UNCHANGED vars
       \/ /\ Is("db") /\ GOrdered
          /\ rows' = Ev.rows
          /\ cur' = [h \in {Ev.rows[i].h : i \in 1..Len(Ev.rows)} |->
                        [n |-> Ev.rows[RowOf(Ev.rows, h)].n, ver |-> 0]]
          /\ UNCHANGED mtu
       \/ /\ Is("disc") /\ GSvc /\ GInc /\ GChr /\ GDsc /\ UNCHANGED vars
       \/ /\ Is("disc1") /\ GOne /\ UNCHANGED vars
       \/ /\ Is("discf") /\ GFil /\ UNCHANGED vars
       \/ /\ Is("attrs") /\ GAll /\ UNCHANGED vars
       \/ /\ (Is("read") \/ Is("srv")) /\ GVal /\ UNCHANGED vars
       \/ /\ Is("write") /\ Ev.h \in DOMAIN cur
          /\ cur' = [cur EXCEPT ![Ev.h] = [n |-> Ev.n, ver |-> Ev.ver]]
          /\ UNCHANGED <<rows, mtu>>

Step == /\ l <= Len(T)
        /\ Act
        /\ l' = l + 1 /\ tid' = tid

Done == /\ l = Len(T) + 1
        /\ PrintT(<<"ACCEPT", tid>>)
        /\ UNCHANGED tvars

Stuck == /\ l <= Len(T)
         /\ ~ENABLED Step
         /\ PrintT(<<"REJECT", tid, l, Ev.e,
                     [mtu |-> GMtu, ordered |-> GOrdered,
                      laysvc |-> GLaySvc, layinc |-> GLayInc, laychr |-> GLayChr, laydsc |-> GLayDsc,
                      svc |-> GSvc, inc |-> GInc, chr |-> GChr, dsc |-> GDsc,
                      one |-> GOne, fil |-> GFil, all |-> GAll, val |-> GVal]>>)
         /\ UNCHANGED tvars

TraceInit == /\ rows = <<>> /\ cur = <<>> /\ mtu = 23
             /\ tid \in 1..Len(Traces) /\ l = 1
TraceNext == Step \/ Done \/ Stuck
TraceSpec == TraceInit /\ [][TraceNext]_tvars
=============================================================================
