------------------------------ MODULE Db ------------------------------
(* C12, structure clause.  Operators (no state) that recompute, from the attribute table a
   GATT server exposes, the service / included-service / characteristic / descriptor tree with
   its handle ranges as Core Vol 3 Part G 3.1-3.3 defines it:

     a service definition  = a service declaration and every attribute up to (not including)
                             the next service declaration;
     a characteristic def. = a characteristic declaration and every attribute up to the next
                             characteristic declaration or the end of the service;
     descriptors           = the attributes of a characteristic definition after the value.

   `rows` is the table in handle order; a row is what the attribute exposes on the wire, parsed
   by the harness (never by bumble):
     h  handle          k  "svc" | "sec" | "inc" | "chd" | "val" | "dsc"
     ty attribute type  u  UUID carried in the value (service UUID, characteristic UUID,
                           included-service UUID or "" when the declaration carries none)
     e  End Group Handle the server reports for a service declaration
     p, vh  properties and value handle of a characteristic declaration
     sh, se included service handle range of an include declaration
     n  length of the attribute value
   UUIDs are 32-hex-digit strings (128-bit form).                                          *)
EXTENDS Naturals, Sequences, FiniteSets

CccdType == "0000290200001000800000805f9b34fb"

ToSet(s) == {s[i] : i \in 1..Len(s)}
NoDup(s) == Cardinality(ToSet(s)) = Len(s)
MinOf(S) == CHOOSE x \in S : \A y \in S : x <= y
MaxOf(S) == CHOOSE x \in S : \A y \in S : x >= y
Min2(a, b) == IF a <= b THEN a ELSE b

Idx(rows)    == 1..Len(rows)
SvcIdx(rows) == {i \in Idx(rows) : rows[i].k \in {"svc", "sec"}}

\* last row of the service definition that starts at row i
GroupEndIdx(rows, i) ==
    LET nx == {j \in SvcIdx(rows) : j > i} IN IF nx = {} THEN Len(rows) ELSE MinOf(nx) - 1
GroupEnd(rows, i) == rows[GroupEndIdx(rows, i)].h

\* the service definition row j lies in
SvcIdxOf(rows, j) == MaxOf({i \in SvcIdx(rows) : i <= j})

ChdIdx(rows, i) == {j \in (i + 1)..GroupEndIdx(rows, i) : rows[j].k = "chd"}
IncIdx(rows, i) == {j \in (i + 1)..GroupEndIdx(rows, i) : rows[j].k = "inc"}
CharEndIdx(rows, i, j) ==
    LET nx == {m \in ChdIdx(rows, i) : m > j} IN IF nx = {} THEN GroupEndIdx(rows, i) ELSE MinOf(nx) - 1
DscIdx(rows, i, j) == {m \in (j + 1)..CharEndIdx(rows, i, j) : rows[m].k = "dsc"}

RowOf(rows, h) == CHOOSE i \in Idx(rows) : rows[i].h = h
HasRow(rows, h) == \E i \in Idx(rows) : rows[i].h = h

\* UUID of an included service: carried by the declaration (16-bit UUIDs) or else read from the
\* service declaration the include points at (Part G 3.2, 4.5.1)
IncUuid(rows, j) ==
    IF rows[j].u # "" THEN rows[j].u
    ELSE IF HasRow(rows, rows[j].sh) /\ RowOf(rows, rows[j].sh) \in SvcIdx(rows)
         THEN rows[RowOf(rows, rows[j].sh)].u ELSE "?"

\* ---- the tree, as flat sets
TSvc(rows) == {[h |-> rows[i].h, e |-> GroupEnd(rows, i), u |-> rows[i].u,
                prim |-> IF rows[i].k = "svc" THEN 1 ELSE 0] : i \in SvcIdx(rows)}
TInc(rows) == UNION {{[s |-> rows[i].h, sh |-> rows[j].sh, se |-> rows[j].se, u |-> IncUuid(rows, j)]
                        : j \in IncIdx(rows, i)} : i \in SvcIdx(rows)}
TChr(rows) == UNION {{[s |-> rows[i].h, h |-> rows[j].vh, e |-> rows[CharEndIdx(rows, i, j)].h,
                        u |-> rows[j].u, p |-> rows[j].p] : j \in ChdIdx(rows, i)} : i \in SvcIdx(rows)}
TDsc(rows) == UNION {UNION {{[c |-> rows[j].vh, h |-> rows[m].h, u |-> rows[m].ty]
                                : m \in DscIdx(rows, i, j)} : j \in ChdIdx(rows, i)} : i \in SvcIdx(rows)}
TAttr(rows) == {[h |-> rows[i].h, u |-> rows[i].ty] : i \in Idx(rows)}

\* ---- the table is a well-formed layout of the database the application registered
\* (w* = what was registered, with the handles the server assigned to the registered objects)
Ordered(rows) == /\ \A i \in Idx(rows) : rows[i].h >= 1 /\ (i > 1 => rows[i - 1].h < rows[i].h)
                 /\ Len(rows) > 0 => 1 \in SvcIdx(rows)

LSvc(rows, wsvc) ==
    /\ {[h |-> x.h, u |-> x.u, prim |-> x.prim] : x \in TSvc(rows)} = ToSet(wsvc)
    /\ Cardinality(SvcIdx(rows)) = Len(wsvc)
    /\ \A i \in SvcIdx(rows) : rows[i].e = GroupEnd(rows, i)      \* what Read By Group Type reports

LInc(rows, winc) ==
    /\ {[s |-> x.s, sh |-> x.sh, u |-> x.u] : x \in TInc(rows)} = ToSet(winc)
    /\ Cardinality(TInc(rows)) = Len(winc)
    /\ \A x \in TInc(rows) : \E y \in TSvc(rows) : y.h = x.sh /\ y.e = x.se

LChr(rows, wchr) ==
    /\ {[s |-> x.s, h |-> x.h, u |-> x.u, p |-> x.p] : x \in TChr(rows)}
         = {[s |-> w.s, h |-> w.h, u |-> w.u, p |-> w.p] : w \in ToSet(wchr)}
    /\ Cardinality(TChr(rows)) = Len(wchr)
    /\ \A w \in ToSet(wchr) : /\ HasRow(rows, w.h)
                              /\ rows[RowOf(rows, w.h)].k = "val"
                              /\ rows[RowOf(rows, w.h)].ty = w.u
                              /\ rows[RowOf(rows, w.h)].n = w.n
    /\ \A x \in TChr(rows) : x.h <= x.e

LDsc(rows, wdsc, wcccd) ==
    LET D == TDsc(rows)
        W == {[c |-> w.c, h |-> w.h, u |-> w.u] : w \in ToSet(wdsc)}
    IN /\ W \subseteq D
       /\ \A d \in D \ W : d.u = CccdType /\ d.c \in ToSet(wcccd)      \* the CCCD the server adds
       /\ \A c \in ToSet(wcccd) : Cardinality({d \in D \ W : d.c = c}) = 1
       /\ \A w \in ToSet(wdsc) : rows[RowOf(rows, w.h)].n = w.n
       /\ Cardinality({i \in Idx(rows) : rows[i].k = "dsc"}) = Cardinality(D)   \* no descriptor outside a characteristic

\* ---- what a client must reconstruct
XSvc(rows)      == {[h |-> x.h, e |-> x.e, u |-> x.u] : x \in {y \in TSvc(rows) : y.prim = 1}}
XSvcByUuid(rows, u) == {x \in XSvc(rows) : x.u = u}
XInc(rows, S)   == {x \in TInc(rows) : x.s \in S}
XChr(rows, S)   == {x \in TChr(rows) : x.s \in S}
XDsc(rows, S)   == {d \in TDsc(rows) : \E x \in XChr(rows, S) : x.h = d.c}
=============================================================================
