------------------------------ MODULE Subs ------------------------------
(* C12, notification clause: "A notification or indication reaches exactly the bearers
   subscribed to that characteristic, as the kind of PDU requested (an indication is sent as an
   indication and awaits its confirmation), truncated only to ATT_MTU-3".

   Server side of bumble/gatt_server.py (write_cccd, notify_subscriber(s), indicate_subscriber(s),
   _notify_single_subscriber, _indicate_single_bearer, on_att_handle_value_confirmation) and the
   client side that fires the subscriber callbacks and confirms.  One action per critical
   section:
     WriteCccd   a client's write of the Client Characteristic Configuration of (bearer, char)
     Api         one server API call: kind "ntf" | "ind", characteristic, value length, the
                 bearers it addresses (all / the bearers of one connection / one bearer) and
                 force.  It owes one PDU of its kind to every addressed bearer that is
                 subscribed for that kind (bit 0 / bit 1) - or to every addressed bearer when
                 forced - and to nobody else.
     SendNtf     a notification PDU goes out
     SendInd     an indication PDU goes out; needs the bearer's indication slot
     Callback    the PDU reaches the client, the subscriber of that kind is called
     LocalSub / LocalUnsub / LocalGone
                 the client's OWN subscriber table (Client.subscribe registers the callback before it
                 writes the CCCD, Client.unsubscribe drops it before it writes 0; a CCCD written with
                 a plain write never touches it).  It is independent of the server's CCCD value.
     Discard     the PDU reaches a client that has no subscriber of that kind for the characteristic
                 (CCCD written raw, forced indication, unsubscribe racing the PDU): nobody is called,
                 but an indication is an indication - its confirmation is owed all the same
     Confirm     the client's Handle Value Confirmation reaches the server: slot released
     Expire      no confirmation within 30 s: the indication fails, slot released
     Return      the API call returns: an indication call only when every indication it owed
                 is out and confirmed (or failed); a notification call may return as soon as its
                 PDUs are handed to the bearer (they are observed when they arrive at the client) *)
EXTENDS Naturals, Sequences, FiniteSets

CONSTANTS Bearers, Chars,
          MaxCalls,     \* bound on API calls (model bound only)
          Lens,         \* value lengths offered to the API
          Mtu0,         \* ATT_MTU of every bearer initially
          MaxWrites,    \* bound on CCCD writes during a behaviour (model bound only)
          InitVals,     \* initial CCCD values: every combination of these over (bearer, char)
          Lossy,        \* TRUE: a confirmation may never arrive
          InitLocal     \* initial content of the clients' own subscriber tables: one of these sets of kinds everywhere

VARIABLES cccd,    \* [Bearers -> [Chars -> 0..3]]
          mtu,     \* [Bearers -> Nat]
          calls,   \* Seq of [kind, c, force, vlen, targets, owed, st]
          tasks,   \* set of [call, b, kind, c, len, st]   st: "queued" | "awaiting" | "done" | "failed"
          slot,    \* [Bearers -> Nat]  call whose indication awaits confirmation on the bearer (0: free)
          air,     \* [Bearers -> Seq of [kind, c, len]]  PDUs sent, not yet handed to the client's subscriber
          cfmdue,  \* [Bearers -> BOOLEAN]  the client received an indication and has not confirmed yet
          sent,    \* history: set of [call, b, kind, c, len]
          nwr,     \* CCCD writes / local table changes so far
          local    \* [Bearers -> [Chars -> SUBSET {"ntf", "ind", "?"}]]  kinds the client on the bearer has a callback for

vars == <<cccd, mtu, calls, tasks, slot, air, cfmdue, sent, nwr, local>>

Bit(kind, v) == IF kind = "ntf" THEN v % 2 = 1 ELSE (v \div 2) % 2 = 1
Min2(a, b) == IF a <= b THEN a ELSE b
Trunc(n, m) == IF m >= 3 THEN Min2(n, m - 3) ELSE 0

Init == /\ cccd \in [Bearers -> [Chars -> InitVals]]
        /\ nwr = 0
        /\ mtu = [b \in Bearers |-> Mtu0]
        /\ calls = <<>> /\ tasks = {}
        /\ slot = [b \in Bearers |-> 0]
        /\ air = [b \in Bearers |-> <<>>]
        /\ cfmdue = [b \in Bearers |-> FALSE]
        /\ sent = {}
        /\ \E L \in InitLocal : local = [b \in Bearers |-> [c \in Chars |-> L]]

SetMtu(b, m) == /\ mtu' = [mtu EXCEPT ![b] = m]
                /\ UNCHANGED <<cccd, calls, tasks, slot, air, cfmdue, sent, nwr, local>>

WriteCccd(b, c, v) ==
    /\ v \in 0..3 /\ nwr < MaxWrites
    /\ cccd' = [cccd EXCEPT ![b][c] = v] /\ nwr' = nwr + 1
    /\ UNCHANGED <<mtu, calls, tasks, slot, air, cfmdue, sent, local>>

\* the client's own table: registering / dropping a callback is not a CCCD write
LocalSub(b, c, kind) ==
    /\ nwr < MaxWrites /\ kind \in {"ntf", "ind"}
    /\ local' = [local EXCEPT ![b][c] = @ \cup {kind}] /\ nwr' = nwr + 1
    /\ UNCHANGED <<cccd, mtu, calls, tasks, slot, air, cfmdue, sent>>

\* Client.unsubscribe begins: from now until it is done ("?") a PDU may or may not still find the callback
LocalUnsub(b, c) ==
    /\ nwr < MaxWrites /\ "?" \notin local[b][c]
    /\ local' = [local EXCEPT ![b][c] = @ \cup {"?"}] /\ nwr' = nwr + 1
    /\ UNCHANGED <<cccd, mtu, calls, tasks, slot, air, cfmdue, sent>>

LocalGone(b, c) ==
    /\ "?" \in local[b][c]
    /\ local' = [local EXCEPT ![b][c] = {}]
    /\ UNCHANGED <<cccd, mtu, calls, tasks, slot, air, cfmdue, sent, nwr>>

\* the bearers an API call owes a PDU to
Owed(kind, c, force, targets) == {b \in targets : force \/ Bit(kind, cccd[b][c])}

Api(kind, c, force, vlen, targets) ==
    /\ Len(calls) < MaxCalls
    /\ kind \in {"ntf", "ind"} /\ targets \subseteq Bearers
    /\ LET k == Len(calls) + 1
           owed == Owed(kind, c, force, targets) IN
       /\ calls' = Append(calls, [kind |-> kind, c |-> c, force |-> force, vlen |-> vlen,
                                  targets |-> targets, owed |-> owed, st |-> "running"])
       /\ tasks' = tasks \cup {[call |-> k, b |-> b, kind |-> kind, c |-> c,
                                len |-> Trunc(vlen, mtu[b]), st |-> "queued"] : b \in owed}
    /\ UNCHANGED <<cccd, mtu, slot, air, cfmdue, sent, nwr, local>>

Move(t, st) == tasks' = (tasks \ {t}) \cup {[t EXCEPT !.st = st]}
Pdu(t) == [kind |-> t.kind, c |-> t.c, len |-> t.len]
Log(t) == sent' = sent \cup {[call |-> t.call, b |-> t.b, kind |-> t.kind, c |-> t.c, len |-> t.len]}

\* a call has at most one task per bearer
SendNtf(k, b) == \E t \in tasks :
    /\ t.call = k /\ t.b = b /\ t.kind = "ntf" /\ t.st = "queued"
    /\ Move(t, "done") /\ Log(t)
    /\ air' = [air EXCEPT ![t.b] = Append(@, Pdu(t))]
    /\ UNCHANGED <<cccd, mtu, calls, slot, cfmdue, nwr, local>>

SendInd(k, b) == \E t \in tasks :
    /\ t.call = k /\ t.b = b /\ t.kind = "ind" /\ t.st = "queued"
    /\ slot[t.b] = 0                                   \* one outstanding indication per bearer
    /\ slot' = [slot EXCEPT ![t.b] = t.call]
    /\ Move(t, "awaiting") /\ Log(t)
    /\ air' = [air EXCEPT ![t.b] = Append(@, Pdu(t))]
    /\ UNCHANGED <<cccd, mtu, calls, cfmdue, nwr, local>>

Solicited(b)   == air[b] # <<>> /\ Head(air[b]).kind \in local[b][Head(air[b]).c]
Unsolicited(b) == air[b] # <<>> /\ (Head(air[b]).kind \notin local[b][Head(air[b]).c] \/ "?" \in local[b][Head(air[b]).c])

Callback(b) ==
    /\ air[b] # <<>> /\ Solicited(b)
    /\ air' = [air EXCEPT ![b] = Tail(@)]
    /\ cfmdue' = [cfmdue EXCEPT ![b] = @ \/ Head(air[b]).kind = "ind"]
    /\ UNCHANGED <<cccd, mtu, calls, tasks, slot, sent, nwr, local>>

\* nobody to call on this client: the value is dropped, the confirmation of an indication is still owed
Discard(b) ==
    /\ air[b] # <<>> /\ Unsolicited(b)
    /\ air' = [air EXCEPT ![b] = Tail(@)]
    /\ cfmdue' = [cfmdue EXCEPT ![b] = @ \/ Head(air[b]).kind = "ind"]
    /\ UNCHANGED <<cccd, mtu, calls, tasks, slot, sent, nwr, local>>

Awaiting(b) == {t \in tasks : t.b = b /\ t.st = "awaiting"}

Confirm(b) ==
    /\ cfmdue[b] /\ slot[b] # 0
    /\ \E t \in Awaiting(b) : Move(t, "done")
    /\ slot' = [slot EXCEPT ![b] = 0]
    /\ cfmdue' = [cfmdue EXCEPT ![b] = FALSE]
    /\ UNCHANGED <<cccd, mtu, calls, air, sent, nwr, local>>

\* the peer never confirms (the client swallowed the indication): time-out after 30 s
Expire(b) ==
    /\ Lossy /\ slot[b] # 0
    /\ \E t \in Awaiting(b) : Move(t, "failed")
    /\ slot' = [slot EXCEPT ![b] = 0]
    /\ air' = [air EXCEPT ![b] = SelectSeq(@, LAMBDA p : p.kind # "ind")]
    /\ cfmdue' = [cfmdue EXCEPT ![b] = FALSE]
    /\ UNCHANGED <<cccd, mtu, calls, sent, nwr, local>>

Finished(k) == \A t \in tasks : t.call = k /\ t.kind = "ind" => t.st \in {"done", "failed"}

Return(k) ==
    /\ k \in 1..Len(calls) /\ calls[k].st = "running"
    /\ Finished(k)
    /\ calls' = [calls EXCEPT ![k].st = "returned"]
    /\ UNCHANGED <<cccd, mtu, tasks, slot, air, cfmdue, sent, nwr, local>>

Targets == {Bearers} \cup {{b} : b \in Bearers}

Next == \/ \E b \in Bearers, c \in Chars, v \in 0..3 : WriteCccd(b, c, v)
        \/ \E kind \in {"ntf", "ind"}, c \in Chars, force \in BOOLEAN, n \in Lens, tg \in Targets :
               Api(kind, c, force, n, tg)
        \/ \E k \in 1..MaxCalls, b \in Bearers : SendNtf(k, b)
        \/ \E k \in 1..MaxCalls, b \in Bearers : SendInd(k, b)
        \/ \E b \in Bearers, c \in Chars, kind \in {"ntf", "ind"} : LocalSub(b, c, kind)
        \/ \E b \in Bearers, c \in Chars : LocalUnsub(b, c) \/ LocalGone(b, c)
        \/ \E b \in Bearers : Callback(b)
        \/ \E b \in Bearers : Discard(b)
        \/ \E b \in Bearers : Confirm(b)
        \/ \E b \in Bearers : Expire(b)
        \/ \E k \in 1..MaxCalls : Return(k)

\* every action but the (bounded) environment actions WriteCccd / LocalSub / LocalUnsub / Api is a step of the system
\* or of a client that keeps its side of the protocol, so weak fairness of Next is enough
Spec == Init /\ [][Next]_vars /\ WF_vars(Next)

\* ----------------------------------------------------------------------------- properties
TypeOK == /\ \A b \in Bearers : slot[b] \in 0..MaxCalls /\ cfmdue[b] \in BOOLEAN
          /\ \A t \in tasks : t.st \in {"queued", "awaiting", "done", "failed"}

\* at most one indication awaits confirmation per bearer, and the slot says which
OneOutstanding ==
    \A b \in Bearers : /\ Cardinality(Awaiting(b)) <= 1
                       /\ (slot[b] = 0) = (Awaiting(b) = {})
                       /\ Cardinality({i \in 1..Len(air[b]) : air[b][i].kind = "ind"})
                            + (IF cfmdue[b] THEN 1 ELSE 0) <= Cardinality(Awaiting(b))

\* whatever went out was owed: right bearer, right kind, subscribed (or forced), right length
OnlyOwed ==
    \A s \in sent : LET k == calls[s.call] IN
        /\ s.kind = k.kind /\ s.c = k.c
        /\ s.b \in k.targets /\ s.b \in k.owed
        /\ s.len <= k.vlen /\ (s.len < k.vlen => s.len = mtu[s.b] - 3)

\* an indication call that returned delivered to every bearer it owed, and all were confirmed or failed
AllReached ==
    \A k \in 1..Len(calls) : calls[k].st = "returned" /\ calls[k].kind = "ind" =>
        /\ \A b \in calls[k].owed : \E s \in sent : s.call = k /\ s.b = b
        /\ Finished(k)

\* every call returns (given that clients confirm or the time-out fires)
\* every owed PDU eventually goes out and is settled
AllDelivered == <>[](\A t \in tasks : t.st \in {"done", "failed"})

Returns == \A k \in 1..MaxCalls : (k <= Len(calls)) ~> (k <= Len(calls) /\ calls[k].st = "returned")
=============================================================================
