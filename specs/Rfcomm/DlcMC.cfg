SPECIFICATION Spec
CONSTANTS
  Sizes = {2, 3}
  L2s = {3, 9}
  Inits = {1, 2, 3}
  Hdr = 1
  MaxCredits = 4
  MaxWritten = 6
  MaxWrite = 4
INVARIANT TypeOK
INVARIANT Inv_Ledger
INVARIANT Inv_NoOverrun
INVARIANT Inv_Size
INVARIANT Inv_Stream
CHECK_DEADLOCK FALSE
