-------------------------------- MODULE Dlc --------------------------------
(* C20.  ONE DIRECTION of an RFCOMM data link connection (DLC) with credit based flow control
   (RFCOMM 1.2 section 6.5, TS 07.10 5.2 / 5.4; bumble/rfcomm.py DLC.process_tx / on_uih_frame /
   rx_credits_needed).  A data link is two independent instances of this module: the credits for
   direction S -> R are granted by R and travel R -> S piggy-backed on R's own UIH frames (first
   information octet of a frame with P/F = 1) - nothing else couples the two directions.

        sender S  --- UIH frames with user data (FIFO) --->  receiver R
        sender S  <-- credit octets in R's UIH frames (FIFO) ---  receiver R

   The module is a MONITOR OF THE PROPERTY, not of today's implementation:
     * what the sender must respect is in the guards of SendUih: a frame that carries user data
       costs one credit and needs one (a frame that carries only the credit octet is free), the
       user data plus the credit octet fit the maximum frame size the receiver announced in its PN,
       the whole frame fits the L2CAP MTU the receiver announced, only bytes that were written
       are sent;
     * everything the property leaves free is a parameter: how writes are cut into frames (n), when a
       frame carries a credit octet (pf), when and how many credits the receiver returns (Grant(k):
       DESIGN Appendix D, the return policy and its threshold are free), in what pieces the
       receiver hands bytes to its sink.
   Byte identity is decided outside (Python compares the bytes at the logged stream offsets and logs
   ok); here the stream is byte counters: written >= sent >= rbytes >= delivered.

   n1 / l2 / initial credits are what the RECEIVER announced when the link was set up; they are
   variables fixed by Init so that one TLC run covers a set of values (MC) and one batch of traces
   carries its own values per trace (InitWith).                                              *)
EXTENDS Naturals, Sequences

CONSTANTS Sizes,       \* maximum frame sizes explored by Init            (real: 23..32767)
          L2s,         \* L2CAP MTUs of the receiver explored by Init     (real: 48..65535)
          Inits,       \* initial credits explored by Init                (real: 1..7)
          Hdr,         \* octets of a frame around its information field  (real: 4 or 5; MC: 1)
          MaxCredits,  \* model bound on the credits outstanding (the protocol has none)
          MaxWritten,  \* model bound: total bytes written
          MaxWrite     \* model bound: largest single write (MC only)

VARIABLES n1,          \* maximum frame size announced by the receiver
          l2,          \* L2CAP MTU announced by the receiver
          written,     \* S: bytes written by the application
          sent,        \* S: bytes already put into frames
          txc,         \* S: credits held
          flight,      \* wire S->R: Seq of frames [n |-> user data octets, pf |-> 0/1]   (data frames only)
          grants,      \* wire R->S: Seq of credit counts on their way
          ledger,      \* R: credits granted and not yet seen consumed
          rbytes,      \* R: user data octets received
          delivered    \* R: bytes handed to the sink

vars == <<n1, l2, written, sent, txc, flight, grants, ledger, rbytes, delivered>>

RECURSIVE SeqSum(_)
SeqSum(s) == IF s = <<>> THEN 0 ELSE Head(s) + SeqSum(Tail(s))
RECURSIVE FlightBytes(_)
FlightBytes(s) == IF s = <<>> THEN 0 ELSE Head(s).n + FlightBytes(Tail(s))

InitWith(size, mtu, c) ==
    /\ n1 = size /\ l2 = mtu
    /\ written = 0 /\ sent = 0 /\ txc = c
    /\ flight = <<>> /\ grants = <<>>
    /\ ledger = c /\ rbytes = 0 /\ delivered = 0

Init == \E size \in Sizes, mtu \in L2s, c \in Inits : InitWith(size, mtu, c)

----------------------------------------------------------------------------
(* sender *)

Write(n) ==                                  \* dlc.write(data), len(data) = n
    /\ written + n <= MaxWritten
    /\ written' = written + n
    /\ UNCHANGED <<n1, l2, sent, txc, flight, grants, ledger, rbytes, delivered>>

\* named clauses (the trace spec prints them when an event is refused)
HasCredit(n)    == n > 0 => txc > 0          \* a frame that carries only the credit octet costs nothing
FitsN1(n, pf)   == n + pf <= n1              \* the credit octet counts against the maximum frame size
FitsL2(flen)    == flen <= l2                \* the receiver's L2CAP MTU
WasWritten(n)   == n <= written - sent

SendUih(n, pf, flen) ==                      \* a UIH frame with n octets of user data leaves the sender
    /\ pf \in {0, 1}
    /\ HasCredit(n)
    /\ FitsN1(n, pf)
    /\ FitsL2(flen)
    /\ WasWritten(n)
    /\ sent' = sent + n
    /\ txc' = IF n > 0 THEN txc - 1 ELSE txc
    /\ flight' = IF n > 0 THEN Append(flight, [n |-> n, pf |-> pf]) ELSE flight
    /\ UNCHANGED <<n1, l2, written, grants, ledger, rbytes, delivered>>

RecvCredits(k) ==                            \* a credit octet reaches the sender
    /\ grants # <<>> /\ Head(grants) = k
    /\ grants' = Tail(grants)
    /\ txc' = txc + k
    /\ UNCHANGED <<n1, l2, written, sent, flight, ledger, rbytes, delivered>>

----------------------------------------------------------------------------
(* receiver *)

RecvUih(n) ==                                \* the oldest data frame in flight reaches the receiver
    /\ flight # <<>> /\ Head(flight).n = n
    /\ flight' = Tail(flight)
    /\ rbytes' = rbytes + n
    /\ ledger' = ledger - 1
    /\ UNCHANGED <<n1, l2, written, sent, txc, grants, delivered>>

CapOk(k) == ledger + k <= MaxCredits

Grant(k) ==                                  \* a credit octet k leaves the receiver: any k >= 1 at any time (policy free)
    /\ k >= 1 /\ k <= 255
    /\ CapOk(k)
    /\ ledger' = ledger + k
    /\ grants' = Append(grants, k)
    /\ UNCHANGED <<n1, l2, written, sent, txc, flight, rbytes, delivered>>

Sink(n) ==                                   \* n more bytes of the stream handed to the application
    /\ delivered + n <= rbytes
    /\ delivered' = delivered + n
    /\ UNCHANGED <<n1, l2, written, sent, txc, flight, grants, ledger, rbytes>>

\* nothing is runnable any more: everything written must have been delivered
AllDelivered == delivered = written /\ flight = <<>>
Quiesce == AllDelivered /\ UNCHANGED vars

----------------------------------------------------------------------------
(* model-checking next-state relation: every choice the property leaves free is explored *)

MaxSize == CHOOSE m \in Sizes : \A x \in Sizes : x <= m

WriteAny    == \E n \in 1..MaxWrite : Write(n)
SendData    == \E n \in 1..MaxSize, pf \in {0, 1} : SendUih(n, pf, n + pf + Hdr)
SendEmpty   == txc = 0 /\ sent < written /\ SendUih(0, 1, 1 + Hdr)   \* a credit-only frame while data waits for a credit
RecvAny     == flight # <<>> /\ RecvUih(Head(flight).n)
GrantAny    == \E k \in 1..MaxCredits : Grant(k)
CreditsAny  == grants # <<>> /\ RecvCredits(Head(grants))
SinkAll     == rbytes > delivered /\ Sink(rbytes - delivered)

Next == WriteAny \/ SendData \/ SendEmpty \/ RecvAny \/ GrantAny \/ CreditsAny \/ SinkAll

Spec == Init /\ [][Next]_vars
        /\ WF_vars(SendData) /\ WF_vars(RecvAny) /\ WF_vars(GrantAny) /\ WF_vars(CreditsAny) /\ WF_vars(SinkAll)

\* negative control for the liveness check: a receiver that is not obliged to return credits
SpecNoGrantFairness == Init /\ [][Next]_vars
        /\ WF_vars(SendData) /\ WF_vars(RecvAny) /\ WF_vars(CreditsAny) /\ WF_vars(SinkAll)

----------------------------------------------------------------------------
(* properties *)

TypeOK ==
    /\ n1 \in Sizes /\ l2 \in L2s
    /\ written \in 0..MaxWritten /\ sent \in 0..written
    /\ txc \in 0..MaxCredits /\ ledger \in 0..MaxCredits
    /\ rbytes \in Nat /\ delivered \in Nat

\* credits are conserved: what the receiver believes is outstanding is held, in use, or on its way
Inv_Ledger    == ledger = txc + Len(flight) + SeqSum(grants)
\* the receiver never has more frames outstanding than it granted
Inv_NoOverrun == Len(flight) <= ledger
\* no frame carries more than the negotiated maximum payload (credit octet included)
Inv_Size      == \A i \in 1..Len(flight) : flight[i].n + flight[i].pf <= n1
\* the stream: nothing is invented, lost or overtaken between the counters
Inv_Stream    == /\ delivered <= rbytes /\ rbytes <= sent /\ sent <= written
                 /\ sent = rbytes + FlightBytes(flight)

\* progress: while the receiver keeps consuming and returning credits, everything written is delivered
Live == \A w \in 1..MaxWritten : (written >= w) ~> (delivered >= w)
=============================================================================
