SPECIFICATION Spec
CONSTANTS
  Dlcis = {2, 4}
  Listen = {2, 4}
  K = 1
  MaxCr = 2
  Started = TRUE
  MaxOps = 4
  MaxData = 1
INVARIANT TypeOK
INVARIANT Inv_Match
INVARIANT Inv_Ledgers
INVARIANT Inv_NoOverrun
CHECK_DEADLOCK FALSE
