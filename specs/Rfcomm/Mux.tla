-------------------------------- MODULE Mux --------------------------------
(* C20.  The RFCOMM multiplexer session and its data links (DLCs) on BOTH ends of one L2CAP channel
   (TS 07.10 5.4.1-5.4.4, 5.4.6.3.1 PN, 5.4.6.3.7 MSC; RFCOMM 1.2 section 5; bumble/rfcomm.py
   Multiplexer / DLC state machines).  Side 0 is the initiator of the session (it opens data links),
   side 1 the responder (it accepts them on the DLCIs in Listen and answers DM on the others).
   Either side may close a data link or the session.

   One action per frame event, as the observers see them:
        Tx(s, f)   frame f leaves side s.  Either an INITIATIVE (the synchronous part of an API call:
                   SABM 0 = Client.start, PNC d = open_dlc, DISC d = DLC.disconnect, DISC 0 =
                   Multiplexer.disconnect) - guarded by the state the API requires - or a frame side
                   s OWES (due[s]) because of a frame it received.
        Rx(s, f)   the oldest frame in flight towards s is handed to s: state change + what s owes.
   Frames travel in FIFO order per direction (one L2CAP channel).  What TS 07.10 demands of the
   passive end is what the property demands: after DISC / UA the data link is gone on BOTH ends.

   "Several data links on one multiplexer do not interfere": every data link has its own credit
   ledger (txc / led, indexed by DLCI) although all links share the two FIFOs; data frames (UIH)
   are modelled with one unit of payload and an optional credit octet; Inv_Ledgers states the
   conservation law per data link under arbitrary interleaving with the traffic, set-up and
   teardown of the other links.  (The full ledger discipline of one link is Dlc.tla.)          *)
EXTENDS Naturals, Sequences, FiniteSets

CONSTANTS Dlcis,     \* DLCIs the initiator may try to open          (real: 2, 4, .. 60)
          Listen,    \* subset of Dlcis the responder accepts
          K,         \* initial credits of every link, both ways      (real: 1..7 per side)
          MaxCr,     \* model bound on outstanding credits of a link
          Started,   \* TRUE: the session is already up in the initial state (saves one initiative)
          MaxOps,    \* model bound: API initiatives
          MaxData    \* model bound: data / credit frames

VARIABLES mux,       \* [0..1 -> {"init", "connecting", "open", "closing", "closed"}]
          dlc,       \* [0..1 -> [Dlcis -> {"none", "connecting", "open", "closing"}]]   none = not in the table
          opening,   \* DLCI the initiator is opening (0 = none): one open_dlc at a time
          wire,      \* [0..1 -> Seq(frame)] frames sent by s, not yet handed to 1-s
          due,       \* [0..1 -> Seq(frame)] frames s owes in reaction to what it received
          txc,       \* [0..1 -> [Dlcis -> Nat]] credits s holds for sending on d
          led,       \* [0..1 -> [Dlcis -> Nat]] credits s has granted on d and not yet seen consumed
          lis,       \* the DLCIs the responder accepts (fixed by Init: Listen in MC, the scenario's own set per trace)
          nops, ndata

vars == <<mux, dlc, opening, wire, due, txc, led, lis, nops, ndata>>

Sides == {0, 1}
F(k, d)        == [k |-> k, d |-> d, n |-> 0, c |-> 0]
Uih(d, n, c)   == [k |-> "UIH", d |-> d, n |-> n, c |-> c]
Kinds == {"SABM", "UA", "DM", "DISC", "PNC", "PNR", "MSCC", "MSCR"}

InitWith(L) ==
    /\ lis = L
    /\ mux = [s \in Sides |-> IF Started THEN "open" ELSE "init"]
    /\ dlc = [s \in Sides |-> [d \in Dlcis |-> "none"]]
    /\ opening = 0
    /\ wire = [s \in Sides |-> <<>>] /\ due = [s \in Sides |-> <<>>]
    /\ txc = [s \in Sides |-> [d \in Dlcis |-> 0]] /\ led = [s \in Sides |-> [d \in Dlcis |-> 0]]
    /\ nops = 0 /\ ndata = 0

Init == InitWith(Listen)

RemoveAt(q, i) == SubSeq(q, 1, i - 1) \o SubSeq(q, i + 1, Len(q))
Owes(s, f)     == \E i \in 1..Len(due[s]) : due[s][i] = f
FirstIdx(q, f) == CHOOSE i \in 1..Len(q) : q[i] = f /\ \A j \in 1..(i - 1) : q[j] # f

Fresh(s, d) == /\ txc' = [txc EXCEPT ![s][d] = K]
               /\ led' = [led EXCEPT ![s][d] = K]

----------------------------------------------------------------------------
(* frames leaving a side *)

\* named clauses of an initiative (the trace spec prints them when a frame is refused)
MayStart       == mux[0] = "init"
MayOpen(d)     == mux[0] = "open" /\ opening = 0 /\ d \in Dlcis /\ dlc[0][d] = "none"
MayClose(s, d) == d \in Dlcis /\ dlc[s][d] = "open"
MayCloseMux(s) == mux[s] = "open" /\ (s = 0 => opening = 0)   \* Multiplexer.disconnect is a no-op while an open is in progress

Initiative(s, f) ==
    /\ wire' = [wire EXCEPT ![s] = Append(@, f)]
    /\ nops' = nops + 1
    /\ \/ /\ s = 0 /\ f = F("SABM", 0) /\ MayStart
          /\ mux' = [mux EXCEPT ![0] = "connecting"]
          /\ UNCHANGED <<dlc, opening>>
       \/ /\ s = 0 /\ f.k = "PNC" /\ MayOpen(f.d)
          /\ opening' = f.d
          /\ UNCHANGED <<mux, dlc>>
       \/ /\ f.k = "DISC" /\ f.d # 0 /\ MayClose(s, f.d)
          /\ dlc' = [dlc EXCEPT ![s][f.d] = "closing"]
          /\ UNCHANGED <<mux, opening>>
       \/ /\ f = F("DISC", 0) /\ MayCloseMux(s)
          /\ mux' = [mux EXCEPT ![s] = "closing"]
          /\ UNCHANGED <<dlc, opening>>
    /\ UNCHANGED <<due, txc, led, lis, ndata>>

Reaction(s, f) ==
    /\ Owes(s, f)
    /\ due' = [due EXCEPT ![s] = RemoveAt(@, FirstIdx(@, f))]
    /\ wire' = [wire EXCEPT ![s] = Append(@, f)]
    /\ UNCHANGED <<mux, dlc, opening, txc, led, lis, nops, ndata>>

Tx(s, f) == IF Owes(s, f) THEN Reaction(s, f) ELSE Initiative(s, f)

----------------------------------------------------------------------------
(* a frame is handed to side s *)

Owe(s, fs) == due' = [due EXCEPT ![s] = @ \o fs]

RxCtl(s, f) ==
    LET d == f.d IN
    /\ UNCHANGED <<lis, nops, ndata>>
    /\ CASE f.k = "SABM" /\ d = 0 ->
              IF s = 1 /\ mux[1] = "init"
              THEN mux' = [mux EXCEPT ![1] = "open"] /\ Owe(1, <<F("UA", 0)>>) /\ UNCHANGED <<dlc, opening, txc, led>>
              ELSE UNCHANGED <<mux, dlc, opening, due, txc, led>>
         [] f.k = "UA" /\ d = 0 ->
              /\ mux' = [mux EXCEPT ![s] = IF @ = "connecting" THEN "open" ELSE IF @ = "closing" THEN "closed" ELSE @]
              /\ UNCHANGED <<dlc, opening, due, txc, led>>
         [] f.k = "DISC" /\ d = 0 ->
              /\ mux' = [mux EXCEPT ![s] = "closed"]
              /\ Owe(s, <<F("UA", 0)>>)
              /\ UNCHANGED <<dlc, opening, txc, led>>
         [] f.k = "PNC" ->
              IF s = 1 /\ mux[1] = "open" /\ d \in lis
              THEN /\ dlc' = [dlc EXCEPT ![1][d] = "connecting"] /\ Fresh(1, d)
                   /\ Owe(1, <<F("PNR", d)>>) /\ UNCHANGED <<mux, opening>>
              ELSE Owe(s, <<F("DM", d)>>) /\ UNCHANGED <<mux, dlc, opening, txc, led>>
         [] f.k = "PNR" ->
              IF s = 0 /\ opening = d /\ d \in Dlcis
              THEN /\ dlc' = [dlc EXCEPT ![0][d] = "connecting"] /\ Fresh(0, d)
                   /\ Owe(0, <<F("SABM", d)>>) /\ UNCHANGED <<mux, opening>>
              ELSE UNCHANGED <<mux, dlc, opening, due, txc, led>>
         [] f.k = "DM" ->
              /\ opening' = IF s = 0 /\ opening = d THEN 0 ELSE opening
              /\ dlc' = IF d \in Dlcis /\ dlc[s][d] \in {"connecting", "closing"} THEN [dlc EXCEPT ![s][d] = "none"] ELSE dlc
              /\ UNCHANGED <<mux, due, txc, led>>
         [] f.k = "SABM" /\ d # 0 ->
              IF d \in Dlcis /\ dlc[s][d] = "connecting" /\ s = 1
              THEN dlc' = [dlc EXCEPT ![s][d] = "open"] /\ Owe(s, <<F("UA", d), F("MSCC", d)>>) /\ UNCHANGED <<mux, opening, txc, led>>
              ELSE UNCHANGED <<mux, dlc, opening, due, txc, led>>
         [] f.k = "UA" /\ d # 0 ->
              IF d \in Dlcis /\ dlc[s][d] = "connecting"
              THEN /\ dlc' = [dlc EXCEPT ![s][d] = "open"] /\ Owe(s, <<F("MSCC", d)>>)
                   /\ opening' = IF s = 0 /\ opening = d THEN 0 ELSE opening
                   /\ UNCHANGED <<mux, txc, led>>
              ELSE IF d \in Dlcis /\ dlc[s][d] = "closing"
              THEN dlc' = [dlc EXCEPT ![s][d] = "none"] /\ UNCHANGED <<mux, opening, due, txc, led>>
              ELSE UNCHANGED <<mux, dlc, opening, due, txc, led>>
         [] f.k = "DISC" /\ d # 0 ->
              \* the passive end of a disconnection: acknowledge AND forget the data link
              IF d \in Dlcis /\ dlc[s][d] # "none"
              THEN dlc' = [dlc EXCEPT ![s][d] = "none"] /\ Owe(s, <<F("UA", d)>>) /\ UNCHANGED <<mux, opening, txc, led>>
              ELSE UNCHANGED <<mux, dlc, opening, due, txc, led>>
         [] f.k = "MSCC" ->
              IF d \in Dlcis /\ dlc[s][d] # "none"
              THEN Owe(s, <<F("MSCR", d)>>) /\ UNCHANGED <<mux, dlc, opening, txc, led>>
              ELSE UNCHANGED <<mux, dlc, opening, due, txc, led>>
         [] OTHER -> UNCHANGED <<mux, dlc, opening, due, txc, led>>       \* MSCR, unknown multiplexer commands

RxData(s, f) ==
    /\ IF f.d \in Dlcis /\ dlc[s][f.d] = "open"
       THEN /\ txc' = [txc EXCEPT ![s][f.d] = @ + f.c]
            /\ led' = [led EXCEPT ![s][f.d] = @ - f.n]
       ELSE UNCHANGED <<txc, led>>                                       \* no such data link (any more): dropped
    /\ UNCHANGED <<mux, dlc, opening, due, lis, nops, ndata>>

Rx(s, f) ==
    /\ wire[1 - s] # <<>> /\ Head(wire[1 - s]) = f
    /\ wire' = [wire EXCEPT ![1 - s] = Tail(@)]
    /\ IF f.k = "UIH" THEN RxData(s, f) ELSE RxCtl(s, f)

----------------------------------------------------------------------------
(* data and credit frames of one data link (the ledger of link d, nothing else) *)

SendData(s, d, c) ==
    /\ dlc[s][d] = "open" /\ txc[s][d] > 0 /\ ndata < MaxData
    /\ led[s][d] + c <= MaxCr
    /\ txc' = [txc EXCEPT ![s][d] = @ - 1]
    /\ led' = [led EXCEPT ![s][d] = @ + c]
    /\ wire' = [wire EXCEPT ![s] = Append(@, Uih(d, 1, c))]
    /\ ndata' = ndata + 1
    /\ UNCHANGED <<mux, dlc, opening, due, lis, nops>>

SendCredit(s, d, c) ==                       \* a frame that carries only the credit octet costs no credit
    /\ dlc[s][d] = "open" /\ c >= 1 /\ ndata < MaxData
    /\ led[s][d] + c <= MaxCr
    /\ led' = [led EXCEPT ![s][d] = @ + c]
    /\ wire' = [wire EXCEPT ![s] = Append(@, Uih(d, 0, c))]
    /\ ndata' = ndata + 1
    /\ UNCHANGED <<mux, dlc, opening, due, txc, lis, nops>>

----------------------------------------------------------------------------
(* model checking: every order of the API initiatives of both sides, frames delivered at any time *)

\* (a side sends what it owes in the same call stack that received the cause: before anything else it sends)
InitiativeAny == /\ nops < MaxOps
                 /\ \E s \in Sides : /\ due[s] = <<>>
                                     /\ \/ Initiative(s, F("SABM", 0)) \/ Initiative(s, F("DISC", 0))
                                        \/ \E d \in Dlcis : Initiative(s, F("PNC", d)) \/ Initiative(s, F("DISC", d))
ReactionAny   == \E s \in Sides : due[s] # <<>> /\ Reaction(s, Head(due[s]))
RxAny         == \E s \in Sides : wire[1 - s] # <<>> /\ Rx(s, Head(wire[1 - s]))
DataAny       == \E s \in Sides, d \in Dlcis : /\ due[s] = <<>>
                                               /\ \/ \E c \in 0..1 : SendData(s, d, c)
                                                  \/ SendCredit(s, d, 1)

\* run to completion: a host that owes frames sends them before anything else happens (the implementation reacts in
\* the call stack of the receive path); this also keeps the interleavings explored to the meaningful ones
NoDue == \A s \in Sides : due[s] = <<>>
InitiativeStep == NoDue /\ InitiativeAny
RxStep         == NoDue /\ RxAny
DataStep       == NoDue /\ DataAny
Next == ReactionAny \/ InitiativeStep \/ RxStep \/ DataStep
Spec == Init /\ [][Next]_vars /\ WF_vars(ReactionAny) /\ WF_vars(RxAny)

----------------------------------------------------------------------------
(* properties *)

States == {"none", "connecting", "open", "closing"}
TypeOK ==
    /\ mux \in [Sides -> {"init", "connecting", "open", "closing", "closed"}]
    /\ dlc \in [Sides -> [Dlcis -> States]]
    /\ opening \in Dlcis \cup {0}

Quiescent == \A s \in Sides : wire[s] = <<>> /\ due[s] = <<>>
Busy(s)   == {d \in Dlcis : dlc[s][d] \in {"connecting", "closing"}}
OpenSet(s) == {d \in Dlcis : dlc[s][d] = "open"}
Cls(m)    == IF m \in {"connecting", "closing"} THEN "busy" ELSE m

\* set-up and teardown complete and leave both ends in matching states with matching tables
Inv_Match ==
    Quiescent => /\ mux[0] = mux[1] \/ (mux[0] = "init" /\ mux[1] = "init")
                 /\ mux[0] \notin {"connecting", "closing"}
                 /\ \A d \in Dlcis : dlc[0][d] = dlc[1][d]
                 /\ Busy(0) = {} /\ Busy(1) = {} /\ opening = 0

\* per data link: the credits the receiver believes outstanding are held by the sender, in use, or on their way
DataOn(q, d) == Cardinality({i \in 1..Len(q) : q[i].k = "UIH" /\ q[i].d = d /\ q[i].n = 1})
RECURSIVE CreditsOn(_, _)
CreditsOn(q, d) == IF q = <<>> THEN 0
                   ELSE (IF Head(q).k = "UIH" /\ Head(q).d = d THEN Head(q).c ELSE 0) + CreditsOn(Tail(q), d)
Inv_Ledgers ==
    \A d \in Dlcis : (dlc[0][d] = "open" /\ dlc[1][d] = "open") =>
        \A s \in Sides : led[1 - s][d] = txc[s][d] + DataOn(wire[s], d) + CreditsOn(wire[1 - s], d)
\* a sender never has more data frames of a link in flight than that link's receiver granted
Inv_NoOverrun ==
    \A d \in Dlcis : (dlc[0][d] = "open" /\ dlc[1][d] = "open") =>
        \A s \in Sides : DataOn(wire[s], d) <= led[1 - s][d]

\* whatever was started is concluded: the session and every link come to rest
Settles == []<>Quiescent
=============================================================================
