SPECIFICATION Spec
CONSTANTS
  Dlcis = {2, 4}
  Listen = {2}
  K = 1
  MaxCr = 2
  Started = FALSE
  MaxOps = 5
  MaxData = 0
INVARIANT TypeOK
INVARIANT Inv_Match
INVARIANT Inv_Ledgers
INVARIANT Inv_NoOverrun
PROPERTY Settles
CHECK_DEADLOCK FALSE
