SPECIFICATION SpecNoGrantFairness
CONSTANTS
  Sizes = {2}
  L2s = {9}
  Inits = {1}
  Hdr = 1
  MaxCredits = 2
  MaxWritten = 2
  MaxWrite = 2
PROPERTY Live
CHECK_DEADLOCK FALSE
