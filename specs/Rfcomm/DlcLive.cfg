SPECIFICATION Spec
CONSTANTS
  Sizes = {1, 2}
  L2s = {9}
  Inits = {1, 2}
  Hdr = 1
  MaxCredits = 3
  MaxWritten = 3
  MaxWrite = 2
PROPERTY Live
CHECK_DEADLOCK FALSE
