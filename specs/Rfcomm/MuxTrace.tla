----------------------------- MODULE MuxTrace -----------------------------
(* Trace validation for C20 (multiplexer session and data link set-up / teardown).  One trace = one
   scenario on two real devices: every RFCOMM control frame (SABM, UA, DM, DISC and the multiplexer
   commands PN, MSC) as it leaves the sender's host (at = "tx") and as it is about to be handed to the
   receiver's host (at = "rx"), the outcome of every awaited API call, and - each time nothing moves
   any more - the states of both ends read from their public attributes:

     ctl    side at kind dlci      side = the SENDER of the frame
     api    side kind dlci what    kind in start / open / close / mux_close / shutdown; what = ok / refused / <other>
     state  mux open listed busy   per side: class of the multiplexer state, DLCIs whose DLC is CONNECTED, DLCIs in
                                   the DLC table, DLCIs whose DLC is in a transient state
     quiesce n                     end of the scenario; n = API calls that never returned

   The first record carries the DLCIs the responder listens on.  A frame must be one the sender owes
   (a reaction Mux.tla derives from what it received) or an initiative the API allows in the current
   state; frames arrive in FIFO order; at rest nothing is owed, nothing is transient, both ends are in
   the state the specification reached and their tables match.                                   *)
EXTENDS Mux, Json, IOUtils, TLC, TLCExt

Traces == JsonDeserialize(IOEnv.TRACE_FILE)

VARIABLES tid, l
tvars == <<vars, tid, l>>

T  == Traces[tid]
Ev == T[l]

SetOf(q) == {q[i] : i \in 1..Len(q)}
Fr == F(Ev.kind, Ev.dlci)
Known == Ev.kind \in Kinds /\ (Ev.dlci = 0 \/ Ev.dlci \in Dlcis)

(* clauses of the `state` event; sequences from JSON are 1-based: index 1 = side 0 *)
AtRest    == Quiescent
MuxOk     == Ev.mux[1] = Cls(mux[0]) /\ Ev.mux[2] = Cls(mux[1])
DlcOk     == (mux[0] = "open" /\ mux[1] = "open") => (SetOf(Ev.open[1]) = OpenSet(0) /\ SetOf(Ev.open[2]) = OpenSet(1))
MatchOk   == SetOf(Ev.open[1]) = SetOf(Ev.open[2])
Listed(s) == {d \in Dlcis : dlc[s][d] # "none"}
TablesOk  == /\ SetOf(Ev.listed[1]) = SetOf(Ev.listed[2])
             \* while the session is up the table holds exactly the links that exist: a link that was torn down is gone
             /\ (mux[0] = "open" /\ mux[1] = "open") => (SetOf(Ev.listed[1]) = Listed(0) /\ SetOf(Ev.listed[2]) = Listed(1))
NoBusy    == Len(Ev.busy[1]) = 0 /\ Len(Ev.busy[2]) = 0

ApiOk ==
    CASE Ev.kind = "start"     -> Ev.what = "ok" /\ mux[0] = "open"
      [] Ev.kind = "open"      -> \/ Ev.what = "ok" /\ Ev.dlci \in Dlcis /\ dlc[0][Ev.dlci] = "open" /\ opening = 0
                                  \/ Ev.what = "refused" /\ Ev.dlci \in Dlcis /\ Ev.dlci \notin lis /\ dlc[0][Ev.dlci] = "none" /\ opening = 0
      [] Ev.kind = "close"     -> Ev.what = "ok" /\ Ev.dlci \in Dlcis /\ dlc[Ev.side][Ev.dlci] = "none"
      [] Ev.kind = "mux_close" -> Ev.what = "ok" /\ mux[Ev.side] = "closed"
      [] Ev.kind = "shutdown"  -> Ev.what = "ok" /\ mux[0] = "closed"
      [] OTHER -> FALSE

Act == \/ Ev.e = "ctl" /\ ~Known /\ UNCHANGED vars                 \* a multiplexer command this model does not follow
       \/ Ev.e = "ctl" /\ Known /\ Ev.at = "tx" /\ Tx(Ev.side, Fr)
       \/ Ev.e = "ctl" /\ Known /\ Ev.at = "rx" /\ Rx(1 - Ev.side, Fr)
       \/ Ev.e = "api" /\ ApiOk /\ UNCHANGED vars
       \/ Ev.e = "state" /\ AtRest /\ MuxOk /\ DlcOk /\ MatchOk /\ TablesOk /\ NoBusy /\ UNCHANGED vars
       \/ Ev.e = "quiesce" /\ Ev.n = 0 /\ AtRest /\ UNCHANGED vars

Step == /\ l <= Len(T)
        /\ Act
        /\ l' = l + 1 /\ tid' = tid

Done == /\ l = Len(T) + 1
        /\ PrintT(<<"ACCEPT", tid>>)
        /\ UNCHANGED tvars

IsTx == Ev.e = "ctl" /\ Known /\ Ev.at = "tx"
Why ==
    [tx      |-> IsTx => \/ Owes(Ev.side, Fr)
                         \/ Ev.side = 0 /\ Fr = F("SABM", 0) /\ MayStart
                         \/ Ev.side = 0 /\ Ev.kind = "PNC" /\ MayOpen(Ev.dlci)
                         \/ Ev.kind = "DISC" /\ Ev.dlci # 0 /\ MayClose(Ev.side, Ev.dlci)
                         \/ Fr = F("DISC", 0) /\ MayCloseMux(Ev.side),
     fifo    |-> (Ev.e = "ctl" /\ Known /\ Ev.at = "rx") => (wire[Ev.side] # <<>> /\ Head(wire[Ev.side]) = Fr),
     api     |-> (Ev.e = "api") => ApiOk,
     owed    |-> (Ev.e \in {"state", "quiesce"}) => AtRest,
     muxstate |-> (Ev.e = "state") => MuxOk,
     dlcstate |-> (Ev.e = "state") => DlcOk,
     match   |-> (Ev.e = "state") => MatchOk,
     tables  |-> (Ev.e = "state") => TablesOk,
     busy    |-> (Ev.e = "state") => NoBusy,
     returned |-> (Ev.e = "quiesce") => Ev.n = 0,
     known   |-> Ev.e \in {"ctl", "api", "state", "quiesce"}]

Stuck == /\ l <= Len(T)
         /\ ~ENABLED Step
         /\ PrintT(<<"REJECT", tid, l, Ev,
                     [why |-> Why,
                      st |-> [mux |-> mux, open |-> <<OpenSet(0), OpenSet(1)>>, busy |-> <<Busy(0), Busy(1)>>, opening |-> opening,
                              due |-> due, inflight |-> <<Len(wire[0]), Len(wire[1])>>]]>>)
         /\ UNCHANGED tvars

TraceInit == /\ tid \in 1..Len(Traces)
             /\ l = 2
             /\ InitWith(SetOf(Traces[tid][1].listed[2]))
TraceNext == Step \/ Done \/ Stuck
TraceSpec == TraceInit /\ [][TraceNext]_tvars
=============================================================================
