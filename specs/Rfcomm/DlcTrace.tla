----------------------------- MODULE DlcTrace -----------------------------
(* Trace validation for C20 (data links).  One trace = ONE DIRECTION (sender S -> receiver R) of one
   RFCOMM data link between two real devices.  The first record is the `open` event: S, and what R
   announced (maximum frame size and initial credits in its PN, its L2CAP MTU); every further record
   is one event of that data link as seen at the HCI boundary of the two hosts / at the public API,
   in causal order.  The same event list is validated twice, once per direction:

     write  side n                 application of `side` calls dlc.write (n bytes)
     uih    side at n pf credits flen
                                   a UIH frame of `side` (n octets of user data, credit octet present iff pf = 1,
                                   flen = octets of the whole frame) leaves its host (at = "tx") /
                                   is about to be handed to the peer's host (at = "rx")
     sink   side n ok              `side` hands n bytes to its sink; ok = they are the next n bytes the peer wrote
     quiesce                       nothing moves any more on either host

   For direction S -> R a frame of S is SendUih / RecvUih, the credit octet of a frame of R is Grant /
   RecvCredits; the other half of each event belongs to the opposite direction and is skipped here.
   Anything else the observers log (stray: a UIH frame on a DLCI with no open data link, raise: the
   stack raised out of a public call, malformed: octets that are not an RFCOMM frame) has no action.
   The module adds no semantics of its own: a refused event is a violated clause of Dlc.tla; Stuck
   prints which.                                                                              *)
EXTENDS Dlc, Json, IOUtils, TLC, TLCExt

Traces == JsonDeserialize(IOEnv.TRACE_FILE)

VARIABLES tid, l
tvars == <<vars, tid, l>>

T  == Traces[tid]
Ev == T[l]
S  == T[1].side
R  == 1 - S

Skip == UNCHANGED vars
Credits(e) == IF e.pf = 1 THEN e.credits ELSE 0

Act == \/ Ev.e = "write" /\ Ev.side = S /\ Write(Ev.n)
       \/ Ev.e = "write" /\ Ev.side = R /\ Skip
       \/ Ev.e = "uih" /\ Ev.side = S /\ Ev.at = "tx" /\ SendUih(Ev.n, Ev.pf, Ev.flen)
       \/ Ev.e = "uih" /\ Ev.side = S /\ Ev.at = "rx" /\ IF Ev.n > 0 THEN RecvUih(Ev.n) ELSE Skip
       \/ Ev.e = "uih" /\ Ev.side = R /\ Ev.at = "tx" /\ IF Credits(Ev) > 0 THEN Grant(Credits(Ev)) ELSE Skip
       \/ Ev.e = "uih" /\ Ev.side = R /\ Ev.at = "rx" /\ IF Credits(Ev) > 0 THEN RecvCredits(Credits(Ev)) ELSE Skip
       \/ Ev.e = "sink" /\ Ev.side = R /\ Ev.ok /\ Sink(Ev.n)
       \/ Ev.e = "sink" /\ Ev.side = S /\ Skip
       \/ Ev.e = "quiesce" /\ Quiesce

Step == /\ l <= Len(T)
        /\ Act
        /\ l' = l + 1 /\ tid' = tid

Done == /\ l = Len(T) + 1
        /\ PrintT(<<"ACCEPT", tid>>)
        /\ UNCHANGED tvars

Mine(k, at) == Ev.e = k /\ Ev.side = S /\ Ev.at = at

\* the clauses of the refused action, evaluated in the state before the event (TRUE = satisfied / not applicable)
Why ==
    [credit   |-> Mine("uih", "tx") => HasCredit(Ev.n),
     size     |-> Mine("uih", "tx") => FitsN1(Ev.n, Ev.pf),
     l2mtu    |-> Mine("uih", "tx") => FitsL2(Ev.flen),
     written  |-> Mine("uih", "tx") => WasWritten(Ev.n),
     fifo     |-> /\ (Mine("uih", "rx") /\ Ev.n > 0) => (flight # <<>> /\ Head(flight).n = Ev.n)
                  /\ (Ev.e = "uih" /\ Ev.side = R /\ Ev.at = "rx" /\ Credits(Ev) > 0) => (grants # <<>> /\ Head(grants) = Credits(Ev)),
     bytes    |-> (Ev.e = "sink" /\ Ev.side = R) => Ev.ok,
     have     |-> (Ev.e = "sink" /\ Ev.side = R) => delivered + Ev.n <= rbytes,
     alldelivered |-> (Ev.e = "quiesce") => AllDelivered,
     known    |-> Ev.e \in {"write", "uih", "sink", "quiesce"}]

Stuck == /\ l <= Len(T)
         /\ ~ENABLED Step
         /\ PrintT(<<"REJECT", tid, l, Ev,
                     [why |-> Why,
                      st |-> [n1 |-> n1, l2 |-> l2, written |-> written, sent |-> sent, txc |-> txc, inflight |-> Len(flight),
                              grants |-> Len(grants), ledger |-> ledger, rbytes |-> rbytes, delivered |-> delivered]]>>)
         /\ UNCHANGED tvars

TraceInit == /\ tid \in 1..Len(Traces)
             /\ l = 2
             /\ InitWith(Traces[tid][1].size, Traces[tid][1].flen, Traces[tid][1].credits)
TraceNext == Step \/ Done \/ Stuck
TraceSpec == TraceInit /\ [][TraceNext]_tvars
=============================================================================
