SPECIFICATION Spec
CONSTANTS
  Backends = {"cryptography", "builtin"}
  Vectors <- AbsVectors
  Funcs = {"e", "ah", "pub", "dh", "rpa", "resolve"}
  MaxCalls = 3
  Fault = "none"
  Bad = "builtin"
INVARIANT AgreementInv
INVARIANT DeterministicInv
INVARIANT VectorsInv
INVARIANT TotalInv
INVARIANT InvalidPointInv
INVARIANT DHSymmetryInv
INVARIANT RPAInv
CHECK_DEADLOCK FALSE
