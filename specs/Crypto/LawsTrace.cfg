SPECIFICATION TraceSpec
CONSTANTS
  Backends = {"cryptography", "builtin"}
  Vectors <- CoreVectors
  Funcs = {}
  MaxCalls = 0
  Fault = "none"
  Bad = "builtin"
INVARIANT AgreementInv
INVARIANT DeterministicInv
INVARIANT VectorsInv
INVARIANT TotalInv
INVARIANT InvalidPointInv
INVARIANT DHSymmetryInv
INVARIANT RPAInv
CHECK_DEADLOCK FALSE
