-------------------------------- MODULE Laws --------------------------------
(* C14  "Both crypto back ends agree with each other and with the specification".

   A HISTORY specification.  TLC never computes AES or P-256: arguments and results are
   opaque strings (hex, in the Core specification's MSB-first notation).  The state is the
   memo of every call made so far,

        memo[<<backend, f, args>>] = [out |-> "ok" | "rejected", r |-> result, valid |-> BOOLEAN]

   `valid` is the environment's classification of the INPUT (for "dh": the peer point is a
   pair of field elements satisfying the curve equation; TRUE for every other function), it is
   not something the back end reports.  Two actions: Call(b, f, args, r, valid) - the back
   end returned r - and Reject(b, f, args, valid) - it raised.  The laws are relations between
   memo entries; each is an operator over a memo value so that it can be used as an
   invariant (model checking, below) and as the acceptance condition of a logged event
   (LawsTrace.tla, code -> spec validation of the calls recorded from both real back ends).

   Functions (f) and their arguments, all strings:
     "e"(key, block)  "cmac"(m, k)  "ah"(k, r)  "c1"(k, r, preq, pres, iat, rat, ia, ra)
     "s1"(k, r1, r2)  "f4"(u, v, x, z)  "f5"(w, n1, n2, a1, a2) = MacKey \o LTK
     "f6"(w, n1, n2, r, iocap, a1, a2)  "g2"(u, v, x, y)  "h6"(w, keyid)  "h7"(salt, w)
     "pub"(d) = X \o Y          "dh"(d, X \o Y) = DHKey
     "rpa"(irk, prand) = resolvable private address built from ah(irk, prand) and prand
     "resolve"(irk, address) = "T" / "F"
   The second half of the module is a tiny abstract world (a cyclic group of order 5 inside
   Z_11^*, a 1-bit "cipher") with an optionally faulty back end; TLC explores every history of
   at most MaxCalls calls in it, so every law is exercised, and one configuration per
   Fault shows that the law meant to catch it does (driver: law_model_checks).             *)
EXTENDS Naturals, Sequences, FiniteSets, TLC

CONSTANTS Backends,     \* names of the back ends, e.g. {"cryptography", "builtin"}
          Vectors,      \* specification sample data: set of [f, args, r]   (<- CoreVectors / AbsVectors)
          Funcs,        \* abstract world only: functions the environment may call
          MaxCalls,     \* abstract world only: bound on the history length
          Fault,        \* abstract world only: which deviation is injected ("none" = none)
          Bad           \* abstract world only: the back end that carries a back-end fault

VARIABLES memo,         \* the history, a function from <<b, f, args>> to an entry
          clash         \* keys that were observed with two different outcomes
vars == <<memo, clash>>

Ok(r, valid)  == [out |-> "ok", r |-> r, valid |-> valid]
Rej(valid)    == [out |-> "rejected", r |-> "", valid |-> valid]

NextMemo(m, k, e)     == IF k \in DOMAIN m THEN m ELSE [x \in (DOMAIN m) \cup {k} |-> IF x = k THEN e ELSE m[x]]
NextClash(m, c, k, e) == IF k \in DOMAIN m /\ m[k] # e THEN c \cup {k} ELSE c

Log(b, f, args, e) ==
    LET k == <<b, f, args>> IN
    /\ memo'  = NextMemo(memo, k, e)
    /\ clash' = NextClash(memo, clash, k, e)

Call(b, f, args, r, valid) == Log(b, f, args, Ok(r, valid))
Reject(b, f, args, valid)  == Log(b, f, args, Rej(valid))

Init == memo = << >> /\ clash = {}

-----------------------------------------------------------------------------
(* The laws.  m is a memo value, c a clash set.                                         *)

\* both back ends: same outcome and same result for the same (f, args)
Agreement(m) ==
    \A k \in DOMAIN m : \A b \in Backends :
        LET k2 == <<b, k[2], k[3]>> IN
        k2 \in DOMAIN m => (m[k2].out = m[k].out /\ m[k2].r = m[k].r)

\* a back end is a function: the same call never has two outcomes
Deterministic(c) == c = {}

\* the specification's sample data is reproduced by every back end that was asked
VectorsOK(m) ==
    \A v \in Vectors : \A b \in Backends :
        LET k == <<b, v.f, v.args>> IN
        k \in DOMAIN m => (m[k].out = "ok" /\ m[k].r = v.r)

\* every back end was asked for every vector (an obligation of the driver, checked by the
\* "covered" event of LawsTrace)
VectorsCovered(m) == \A v \in Vectors : \A b \in Backends : <<b, v.f, v.args>> \in DOMAIN m

\* valid inputs are answered
Total(m) == \A k \in DOMAIN m : m[k].valid => m[k].out = "ok"

\* a peer public key that is not a point of the curve is refused, never turned into a secret
InvalidPoint(m) ==
    \A k \in DOMAIN m : (k[2] = "dh" /\ ~m[k].valid) => m[k].out = "rejected"

PubIs(m, d, P) ==
    \E b \in Backends :
        LET k == <<b, "pub", <<d>>>> IN k \in DOMAIN m /\ m[k].out = "ok" /\ m[k].r = P

\* dh(a, pub(c)) = dh(c, pub(a)), whichever back ends produced the four entries
DHSymmetry(m) ==
    \A k1, k2 \in DOMAIN m :
        (k1[2] = "dh" /\ k2[2] = "dh" /\ m[k1].out = "ok" /\ m[k2].out = "ok") =>
            ((PubIs(m, k2[3][1], k1[3][2]) /\ PubIs(m, k1[3][1], k2[3][2])) => m[k1].r = m[k2].r)

\* an address generated from irk resolves under irk and under no other key
RPA(m) ==
    \A k1, k2 \in DOMAIN m :
        (k1[2] = "rpa" /\ k2[2] = "resolve" /\ m[k1].out = "ok" /\ k2[3][2] = m[k1].r) =>
            /\ m[k2].out = "ok"
            /\ m[k2].r = (IF k2[3][1] = k1[3][1] THEN "T" ELSE "F")

LawNames == {"Agreement", "Deterministic", "Vectors", "Total", "InvalidPoint", "DHSymmetry", "RPA"}
Law(n, m, c) ==
    CASE n = "Agreement"     -> Agreement(m)
      [] n = "Deterministic" -> Deterministic(c)
      [] n = "Vectors"       -> VectorsOK(m)
      [] n = "Total"         -> Total(m)
      [] n = "InvalidPoint"  -> InvalidPoint(m)
      [] n = "DHSymmetry"    -> DHSymmetry(m)
      [] n = "RPA"           -> RPA(m)
AllLaws(m, c)    == \A n \in LawNames : Law(n, m, c)
FailedLaws(m, c) == {n \in LawNames : ~Law(n, m, c)}

AgreementInv     == Agreement(memo)
DeterministicInv == Deterministic(clash)
VectorsInv       == VectorsOK(memo)
TotalInv         == Total(memo)
InvalidPointInv  == InvalidPoint(memo)
DHSymmetryInv    == DHSymmetry(memo)
RPAInv           == RPA(memo)

-----------------------------------------------------------------------------
(* Specification sample data (Core specification Vol 3 Part H Appendix D and 2.3.5.6.1,
   Vol 2 Part G 7.1.2; RFC 4493 section 4; FIPS-197 Appendix C.1 / SP 800-38A F.1.1 for "e").
   MSB-first hex exactly as printed there.                                              *)
KA   == "3f49f6d4a3c55f3874c9b3e3d2103f504aff607beb40b7995899b8a6cd3c1abd"
KB   == "55188b3d32f6bb9a900afcfbeed4e72a59cb9ac2f19d7cfb6b4fdd49f47fc5fd"
PAX  == "20b003d2f297be2c5e2c83a7e9f9a5b9eff49111acf4fddbcc0301480e359de6"
PAY  == "dc809c49652aeb6d63329abf5a52155c766345c28fed3024741c8ed01589d28b"
PBX  == "1ea1f0f01faf1d9609592284f19e4c0047b58afd8615a69f559077b22faaa190"
PBY  == "4c55f33e429dad377356703a9ab85160472d1130e28e36765f89aff915b1214a"
DHK  == "ec0234a357c8ad05341010a60a397d9b99796b13b4f866f1868d34f373bfa698"
KA2  == "06a516693c9aa31a6084545d0c5db641b48572b97203ddffb7ac73f7d0457663"
KB2  == "529aa0670d72cd6497502ed473502b037e8803b5c60829a5a3caa219505530ba"
PA2X == "2c31a47b5779809ef44cb5eaaf5c3e43d5f8faad4a8794cb987e9b03745c78dd"
PA2Y == "919512183898dfbecd52e2408e43871fd021109117bd3ed4eaf8437743715d4f"
PB2X == "f465e43ff23d3f1b9dc7dfc04da8758184dbc966204796eccf0d6cf5e16500cc"
PB2Y == "0201d048bcbbd899eeefc424164e33c201c2b010ca6b4d43a8a155cad8ecb279"
DHK2 == "ab85843a2f6d883f62e5684b38e307335fe6e1945ecd19604105c6f23221eb69"
N1   == "d5cb8454d177733effffb2ec712baeab"
N2   == "a6e8e7cc25a75f6e216583f7ff3dc4cf"
MACK == "2965f176a1084a02fd3f6a20ce636e20"
A1   == "0056123737bfce"
A2   == "00a713702dcfc1"
K128 == "ec0234a357c8ad05341010a60a397d9b"
RFCK == "2b7e151628aed2a6abf7158809cf4f3c"
M16  == "6bc1bee22e409f96e93d7e117393172a"
M40  == M16 \o "ae2d8a571e03ac9c9eb76fac45af8e51" \o "30c81c46a35ce411"
M64  == M16 \o "ae2d8a571e03ac9c9eb76fac45af8e51" \o "30c81c46a35ce411e5fbc1191a0a52ef"
            \o "f69f2445df4f9b17ad2b417be66c3710"
ZERO == "00000000000000000000000000000000"

V(f, args, r) == [f |-> f, args |-> args, r |-> r]

CoreVectors == {
    V("e",    <<"000102030405060708090a0b0c0d0e0f", "00112233445566778899aabbccddeeff">>,
              "69c4e0d86a7b0430d8cdb78070b4c55a"),
    V("e",    <<RFCK, M16>>, "3ad77bb40d7a3660a89ecaf32466ef97"),
    V("cmac", <<"", RFCK>>,  "bb1d6929e95937287fa37d129b756746"),
    V("cmac", <<M16, RFCK>>, "070a16b46b4d4144f79bdd9dd04a287c"),
    V("cmac", <<M40, RFCK>>, "dfa66747de9ae63030ca32611497c827"),
    V("cmac", <<M64, RFCK>>, "51f0bebf7e3b9d92fc49741779363cfe"),
    V("ah",   <<K128, "708194">>, "0dfbaa"),
    V("c1",   <<ZERO, "5783d52156ad6f0e6388274ec6702ee0", "07071000000101", "05000800000302",
                "01", "00", "a1a2a3a4a5a6", "b1b2b3b4b5b6">>, "1e1e3fef878988ead2a74dc5bef13b86"),
    V("s1",   <<ZERO, "000f0e0d0c0b0a091122334455667788", "010203040506070899aabbccddeeff00">>,
              "9a1fe1f0e8b0f49b5b4216ae796da062"),
    V("f4",   <<PAX, KB, N1, "00">>, "f2c916f107a9bd1cf1eda1bea974872d"),
    V("f5",   <<DHK, N1, N2, A1, A2>>, MACK \o "6986791169d7cd23980522b594750a38"),
    V("f6",   <<MACK, N1, N2, "12a3343bb453bb5408da42d20c2d0fc8", "010102", A1, A2>>,
              "e3c473989cd0e8c5d26c0b09da958f61"),
    V("g2",   <<PAX, KB, N1, N2>>, "2f9ed5ba"),
    V("h6",   <<K128, "6c656272">>, "2d9ae102e76dc91ce8d3a9e280b16399"),
    V("h7",   <<"000000000000000000000000746d7031", K128>>, "fb173597c6a3c0ecd2998c2a75a57011"),
    V("pub",  <<KA>>, PAX \o PAY),              \* the SMP debug key pair
    V("pub",  <<KB>>, PBX \o PBY),
    V("dh",   <<KA, PBX \o PBY>>, DHK),
    V("dh",   <<KB, PAX \o PAY>>, DHK),
    V("pub",  <<KA2>>, PA2X \o PA2Y),
    V("pub",  <<KB2>>, PB2X \o PB2Y),
    V("dh",   <<KA2, PB2X \o PB2Y>>, DHK2),
    V("dh",   <<KB2, PA2X \o PA2Y>>, DHK2) }

-----------------------------------------------------------------------------
(* Abstract world for model checking.  Group: <4> = {4, 5, 9, 3, 1} in Z_11^* (order 5);
   "points" outside it (0, 2) play the part of off-curve points.  Cipher: e(k, d) = k + d mod 2,
   injective in k, so a hash of one key never matches under the other.                     *)
Keys    == {0, 1}
Blocks  == {0, 1}
Scalars == {1, 2, 4}
Modulus == 11
Gen     == 4
OffPts  == {0, 2}

RECURSIVE Pow(_, _)
Pow(x, n) == IF n = 0 THEN 1 ELSE (x * Pow(x, n - 1)) % Modulus
OnPts   == {Pow(Gen, d) : d \in 1..4}
S(n)    == ToString(n)
Addr(h, p) == S(h) \o ":" \o S(p)

\* fault of one back end (b = Bad) unless stated "toolbox" (shared code: both back ends)
AbsE(b, k, d) ==
    IF Fault = "sbox" /\ b = Bad /\ k = 1 /\ d = 1 THEN 1 ELSE (k + d) % 2
AbsAH(b, k, r) ==
    IF Fault = "ahpad" THEN (AbsE(b, k, r) + 1) % 2            \* toolbox
    ELSE AbsE(b, k, r)
AbsPub(b, a) ==
    IF Fault = "double" /\ b = Bad /\ a = 2 THEN 9 ELSE Pow(Gen, a)
AbsDHr(b, a, P) ==
    IF Fault = "asym" /\ b = Bad /\ a = 4 THEN Pow(P, 3) ELSE Pow(P, a)
AbsDH(b, a, P) ==
    IF P \in OnPts
      THEN IF Fault = "overreject" /\ b = Bad /\ P = 5 THEN Rej(TRUE) ELSE Ok(S(AbsDHr(b, a, P)), TRUE)
      ELSE IF Fault = "nocheck" /\ b = Bad THEN Ok(S(AbsDHr(b, a, P)), FALSE) ELSE Rej(FALSE)
AbsResolve(b, k, h, p) ==
    IF Fault = "resolveall" THEN "T"                           \* toolbox
    ELSE IF AbsAH(b, k, p) = h THEN "T" ELSE "F"

O(f, args, e) == [f |-> f, args |-> args, e |-> e]
Outcomes(b) ==
    {O("e", <<S(k), S(d)>>, Ok(S(AbsE(b, k, d)), TRUE)) : k \in Keys, d \in Blocks}
    \cup (IF Fault = "flaky" /\ b = Bad THEN {O("e", <<"0", "0">>, Ok("1", TRUE))} ELSE {})
    \cup {O("ah", <<S(k), S(r)>>, Ok(S(AbsAH(b, k, r)), TRUE)) : k \in Keys, r \in Blocks}
    \cup {O("pub", <<S(a)>>, Ok(S(AbsPub(b, a)), TRUE)) : a \in Scalars}
    \cup {O("dh", <<S(a), S(P)>>, AbsDH(b, a, P)) : a \in Scalars, P \in {Pow(Gen, d) : d \in Scalars} \cup OffPts}
    \cup {O("rpa", <<S(k), S(p)>>, Ok(Addr(AbsAH(b, k, p), p), TRUE)) : k \in Keys, p \in Blocks}
    \cup {O("resolve", <<S(k), Addr(h, p)>>, Ok(AbsResolve(b, k, h, p), TRUE)) : k \in Keys, h \in {0, 1}, p \in Blocks}

OutcomeTable == [b \in Backends |-> Outcomes(b)]      \* constant: evaluated once by TLC

AbsVectors == {
    V("e",   <<"1", "0">>, "1"),
    V("ah",  <<"0", "1">>, "1"),
    V("pub", <<"2">>, "5"),
    V("dh",  <<"2", "3">>, "9") }

Bounded == Cardinality(DOMAIN memo) < MaxCalls

AbsCall ==
    /\ Bounded
    /\ \E b \in Backends : \E o \in OutcomeTable[b] :
        /\ o.f \in Funcs /\ o.e.out = "ok"
        /\ Call(b, o.f, o.args, o.e.r, o.e.valid)

AbsReject ==
    /\ Bounded
    /\ \E b \in Backends : \E o \in OutcomeTable[b] :
        /\ o.f \in Funcs /\ o.e.out = "rejected"
        /\ Reject(b, o.f, o.args, o.e.valid)

Next == AbsCall \/ AbsReject
Spec == Init /\ [][Next]_vars
=============================================================================
