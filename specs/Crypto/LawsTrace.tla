------------------------------ MODULE LawsTrace ------------------------------
(* Code -> spec validation for C14: every call the driver made on a real back end is one
   event, and one action of Laws.tla with its arguments:

      [e |-> "call",    b, f, args, r, valid]     Call(b, f, args, r, valid)
      [e |-> "reject",  b, f, args, r |-> "", valid]   Reject(b, f, args, valid)
      [e |-> "covered", ...]                      every vector of the specification was asked
                                                  of every back end (driver obligation)

   An event is accepted only if ALL laws hold of the history extended by it; otherwise it is
   rejected: the names of the broken laws are printed, the event is NOT recorded and
   validation goes on with the next one (so that one run reports every offending call, each
   judged against the history of accepted calls).  A batch file holds many traces
   (histories are independent: each starts from the empty memo); every trace ends with DONE. *)
EXTENDS Laws, Json, IOUtils, TLCExt, FiniteSetsExt, SequencesExt

Traces == JsonDeserialize(IOEnv.TRACE_FILE)

VARIABLES tid, l
tvars == <<vars, tid, l>>

T  == Traces[tid]
Ev == T[l]

EvKey   == <<Ev.b, Ev.f, Ev.args>>
EvEntry == IF Ev.e = "call" THEN Ok(Ev.r, Ev.valid) ELSE Rej(Ev.valid)

\* the history as it would be with this event recorded
CandMemo  == NextMemo(memo, EvKey, EvEntry)
CandClash == NextClash(memo, clash, EvKey, EvEntry)

Accepts == IF Ev.e = "covered" THEN VectorsCovered(memo) ELSE AllLaws(CandMemo, CandClash)
Broken  == IF Ev.e = "covered" THEN {"Covered"} ELSE FailedLaws(CandMemo, CandClash)

Act == \/ Ev.e = "call"    /\ Call(Ev.b, Ev.f, Ev.args, Ev.r, Ev.valid)
       \/ Ev.e = "reject"  /\ Reject(Ev.b, Ev.f, Ev.args, Ev.valid)
       \/ Ev.e = "covered" /\ UNCHANGED vars

\* (one action rather than Step / Skip with ~ENABLED Step: the laws are evaluated once per
\*  event, and TLC's ENABLED recursion overflows the Java stack on quantifiers over the memo)
Step == /\ l <= Len(T)
        /\ IF Accepts
             THEN Act
             ELSE /\ PrintT(<<"REJECT", tid, l, [e |-> Ev.e, b |-> Ev.b, f |-> Ev.f], Broken>>)
                  /\ UNCHANGED vars
        /\ l' = l + 1 /\ tid' = tid

Done == /\ l = Len(T) + 1
        /\ PrintT(<<"DONE", tid, l>>)
        /\ UNCHANGED tvars

TraceInit == Init /\ tid \in 1..Len(Traces) /\ l = 1
TraceNext == Step \/ Done
TraceSpec == TraceInit /\ [][TraceNext]_tvars

(* The driver asks the specification for its sample data (inputs to call), so that the
   vectors exist in one place only.                                                       *)
DumpInit == /\ Init /\ tid = 0 /\ l = 0
            /\ JsonSerialize(IOEnv.VECTOR_FILE, SetToSeq(CoreVectors))
DumpSpec == DumpInit /\ [][UNCHANGED tvars]_tvars
=============================================================================
