---------------------------- MODULE RobustTrace ----------------------------
(* Trace validation for C17: every event logged by drivers/c17_robust.py while real bytes are
   injected on a real connection is one action of Robust.tla with its arguments.  A trace is
   rejected at the first event that is not a behaviour of the specification:
     done      with outcome recursion / busy / timeout, or more steps than StepBudget
     alive     FALSE although no injected unit was a valid disconnect of the link
     reopen    FALSE (the ordinary procedure to open the channel again failed); a reopen of a channel the victim left
               open after units that all ended on a unit boundary (the reference request is owed on the same channel)
     probe     while a transaction the peer started (inject with txn = TRUE) has not been abandoned
     probe_ok  FALSE (reference request unanswered or answered wrongly)
   A batch file holds many traces; tid picks one.  Every record has all fields.          *)
EXTENDS Robust, Json, IOUtils, TLC, TLCExt

Traces == JsonDeserialize(IOEnv.TRACE_FILE)

VARIABLES tid, l
tvars == <<vars, tid, l>>

T  == Traces[tid]
Ev == T[l]

Act == \/ Ev.e = "inject"   /\ Ev.ch = ch /\ Ev.len >= 0 /\ Inject(Ev.cls, Ev.disc, Ev.txn)
       \/ Ev.e = "done"     /\ Done(Ev.outcome, Ev.steps)
       \/ Ev.e = "alive"    /\ Alive(Ev.conn, Ev.open)
       \/ Ev.e = "reopen"   /\ Reopen(Ev.ok)
       \/ Ev.e = "abandon"  /\ Abandon
       \/ Ev.e = "probe"    /\ Ev.ch = ch /\ Probe
       \/ Ev.e = "probe_ok" /\ ProbeReply(Ev.ok)

Step == /\ l <= Len(T)
        /\ Act
        /\ l' = l + 1 /\ tid' = tid

\* a complete trace ends with the probe answered, or with the link gone after a valid disconnect
Done_ == /\ l = Len(T) + 1
         /\ phase = "end"
         /\ PrintT(<<"ACCEPT", tid>>)
         /\ UNCHANGED tvars

Stuck == /\ \/ l <= Len(T) /\ ~ENABLED Step
            \/ l = Len(T) + 1 /\ phase # "end"
         /\ PrintT(<<"REJECT", tid, l, IF l <= Len(T) THEN Ev ELSE [e |-> "incomplete"],
                     [phase |-> phase, hist |-> hist, cur |-> cur, connUp |-> connUp, chanUp |-> chanUp, discs |-> discs, txn |-> txn]>>)
         /\ UNCHANGED tvars

TraceInit == /\ tid \in 1..Len(Traces)
             /\ l = 1
             /\ ch = Traces[tid][1].ch
             /\ ch \in Channels
             /\ hist = <<>> /\ phase = "idle" /\ cur = [cls |-> "", disc |-> "none"]
             /\ connUp = TRUE /\ chanUp = TRUE /\ mid = FALSE /\ lost = FALSE /\ discs = {} /\ txn = FALSE /\ moved = FALSE
TraceNext == Step \/ Done_ \/ Stuck
TraceSpec == TraceInit /\ [][TraceNext]_tvars
=============================================================================
