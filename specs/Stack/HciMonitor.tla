--------------------------- MODULE HciMonitor ---------------------------
(* A monitor for the HCI boundary of one Host (role "host") or one virtual Controller
   (role "ctrl"), fed with one event per HCI packet (lib/hcimon.py).  It composes the
   boundary-visible parts of three properties:

   C03  at most one command outstanding; every reply (Command Complete / Command Status)
        names the outstanding command; the virtual controller answers every command
        before it is given the next one, and has answered all of them at the end;
   C04  never more ACL packets in flight per buffer pool than the controller advertised
        (LE and BR/EDR pools, or one shared pool when the LE pool is absent);
   C05  every ACL fragment fits the pool's data length and carries the right
        start / continuation marker with respect to the announced L2CAP length.

   It is a monitor of the properties, not of the implementation: anything the properties do
   not determine (which handles exist, when completions arrive, NOP replies) is accepted.  *)
EXTENDS Naturals, Sequences, FiniteSets, TLC, Json, IOUtils, TLCExt

Traces == JsonDeserialize(IOEnv.TRACE_FILE)

VARIABLES tid, l,
          out,     \* opcode of the outstanding command, 0 = none
          bufN,    \* [pool -> buffer count], 0 = not advertised (yet)
          bufL,    \* [pool -> max data length]
          pool,    \* [live handle -> "acl" | "le"]
          infl,    \* [live handle -> packets in flight]
          rem      \* [live handle -> bytes still missing of the L2CAP PDU being sent]
vars == <<tid, l, out, bufN, bufL, pool, infl, rem>>

T    == Traces[tid]
Role == T.role
Ev   == T.events[l]
Len_ == Len(T.events)

Pools == {"acl", "le"}
\* the LE pool is the BR/EDR pool when the controller advertises no LE buffers
PoolOf(k) == IF k = "le" /\ (bufN["le"] = 0 \/ bufL["le"] = 0) THEN "acl" ELSE k

RECURSIVE SumF(_, _)
SumF(f, S) == IF S = {} THEN 0 ELSE LET x == CHOOSE y \in S : TRUE IN f[x] + SumF(f, S \ {x})
InFlight(p) == SumF(infl, {h \in DOMAIN pool : PoolOf(pool[h]) = p})

Known  == Ev.h \in DOMAIN pool
P      == PoolOf(pool[Ev.h])
IsAcl  == Ev.e = "acl" /\ Known /\ Role = "host"
Start  == Ev.pb \in {0, 2}

\* ---- the clauses; each is TRUE when it does not apply to the current event
\* (command flow control is only judged when the peer is the real virtual controller: T.real)
C03_OneOutstanding == Ev.e = "cmd" /\ T.real => out = 0
C03_ReplyMatches   == Ev.e \in {"cc", "cs"} /\ T.real => (Ev.op = 0 \/ Ev.op = out)
C04_Credit         == IsAcl /\ bufN[P] > 0 => InFlight(P) < bufN[P]
C05_FragSize       == IsAcl /\ bufL[P] > 0 => Ev.ln <= bufL[P] /\ Ev.n = Ev.ln
C05_FragFlags      == IsAcl => IF Start THEN rem[Ev.h] = 0 /\ Ev.ln >= 2 /\ Ev.ln <= Ev.l2 + 4
                                        ELSE Ev.pb = 1 /\ Ev.ln > 0 /\ Ev.ln <= rem[Ev.h]
Clauses == [C03_OneOutstanding |-> C03_OneOutstanding, C03_ReplyMatches |-> C03_ReplyMatches,
            C04_Credit |-> C04_Credit, C05_FragSize |-> C05_FragSize, C05_FragFlags |-> C05_FragFlags]
AllHold == \A k \in DOMAIN Clauses : Clauses[k]

Drop(f, h) == [x \in DOMAIN f \ {h} |-> f[x]]
Put(f, h, v) == [x \in DOMAIN f \cup {h} |-> IF x = h THEN v ELSE f[x]]
Minus(a, b) == IF a >= b THEN a - b ELSE 0

Effect ==
    CASE Ev.e = "cmd" -> out' = Ev.op /\ UNCHANGED <<bufN, bufL, pool, infl, rem>>
      [] Ev.e \in {"cc", "cs"} ->
            /\ out' = IF Ev.op = 0 THEN out ELSE 0
            /\ UNCHANGED <<bufN, bufL, pool, infl, rem>>
      [] Ev.e = "buf" ->
            /\ bufN' = [bufN EXCEPT ![Ev.kind] = Ev.n] /\ bufL' = [bufL EXCEPT ![Ev.kind] = Ev.ln]
            /\ UNCHANGED <<out, pool, infl, rem>>
      [] Ev.e = "conn" ->
            /\ pool' = Put(pool, Ev.h, Ev.kind) /\ infl' = Put(infl, Ev.h, 0) /\ rem' = Put(rem, Ev.h, 0)
            /\ UNCHANGED <<out, bufN, bufL>>
      [] Ev.e = "disc" ->
            /\ pool' = Drop(pool, Ev.h) /\ infl' = Drop(infl, Ev.h) /\ rem' = Drop(rem, Ev.h)
            /\ UNCHANGED <<out, bufN, bufL>>
      [] Ev.e = "ncp" ->
            /\ infl' = IF Known THEN [infl EXCEPT ![Ev.h] = Minus(@, Ev.n)] ELSE infl
            /\ UNCHANGED <<out, bufN, bufL, pool, rem>>
      [] Ev.e = "acl" ->
            /\ infl' = IF Known THEN [infl EXCEPT ![Ev.h] = @ + 1] ELSE infl
            /\ rem' = IF Known THEN [rem EXCEPT ![Ev.h] = IF Start THEN Minus(Ev.l2 + 4, Ev.ln) ELSE Minus(@, Ev.ln)] ELSE rem
            /\ UNCHANGED <<out, bufN, bufL, pool>>
      [] OTHER -> UNCHANGED <<out, bufN, bufL, pool, infl, rem>>

Step == /\ l <= Len_ /\ AllHold /\ Effect /\ l' = l + 1 /\ tid' = tid

\* the virtual controller has answered every command it was given
EndOk == Role = "ctrl" => out = 0

Done == /\ l = Len_ + 1 /\ EndOk /\ PrintT(<<"ACCEPT", tid>>) /\ UNCHANGED vars

Stuck == /\ \/ (l <= Len_ /\ ~AllHold)
            \/ (l = Len_ + 1 /\ ~EndOk)
         /\ PrintT(<<"REJECT", tid, l,
                     IF l <= Len_ THEN Ev ELSE [e |-> "end"],
                     [failed |-> IF l <= Len_ THEN {k \in DOMAIN Clauses : ~Clauses[k]} ELSE {"C03_AnsweredAtEnd"},
                      out |-> out, bufN |-> bufN, bufL |-> bufL, infl |-> infl, rem |-> rem]>>)
         /\ UNCHANGED vars

Init == /\ tid \in 1..Len(Traces) /\ l = 1 /\ out = 0
        /\ bufN = [p \in Pools |-> 0] /\ bufL = [p \in Pools |-> 0]
        /\ pool = <<>> /\ infl = <<>> /\ rem = <<>>
Next == Step \/ Done \/ Stuck
Spec == Init /\ [][Next]_vars
=============================================================================
