------------------------------- MODULE Robust -------------------------------
(* C17.  Hostile peer or controller input cannot wedge or derail the stack.

   One behaviour = one channel of one link under attack:  up to MaxFaults injected units, each an
   instance of an abstract FAULT CLASS of that channel, then the reference request of the
   channel (the probe).  The specification is a monitor of the property, not a model of bumble:

     Inject(c, d)    the attacking side sends one unit of class c; d says whether the bytes are a
                     valid disconnect ("none" / "chan": of the channel under test / "conn": of
                     the link) as read from the bytes by the harness' own classifier
     Done(o, s)      the stack has finished processing the unit: outcome o after s event-loop
                     steps.  Only o \in {"ok", "exc"} (nothing raised / an ordinary exception that
                     was raised and contained) and s <= StepBudget are behaviours of the
                     specification; "recursion" (RecursionError), "busy" (step budget exhausted)
                     and "timeout" (2 s budget) are not.
     Alive(b, o)     observation: the link is (not) in Device.connections, the channel is (not)
                     open as seen by the peer.  The link may only go away after a unit that was
                     a valid disconnect of the link.  The implementation is free to close the
                     channel under test after garbage (a disconnect the peer is told about).
     Reopen(ok)      the peer opens the channel again with the ordinary procedure; must succeed.
     Probe           the reference request is sent (ATT Read Request, Pairing Request, L2CAP Echo
                     Request, LE credit based connection request for an unknown SPSM, SDP service
                     search, data on the open RFCOMM DLC, AT+CIND?, AVDTP Discover, AV/C PASS
                     THROUGH, an SDU on the LE credit based channel, ATT Read Request in ACL data
                     plus an HCI command).  It starts with the unit delimiter of the channel
                     (START / SINGLE fragment, line terminator), so a partial unit left behind
                     by the garbage is over: mid' = FALSE.
     ProbeReply(ok)  the answer observed; must be the correct one.

   TLC enumerates, per channel, every sequence of <= MaxFaults classes followed by the probe
   (hist is part of the state); the driver replays each with concrete bytes (seeded
   mutations of valid PDUs built with bumble's own classes) on real connections and logs
   inject / done / alive / reopen / probe / probe_ok, validated by RobustTrace.tla.            *)
EXTENDS Naturals, Sequences, FiniteSets, TLC

CONSTANTS Channels,     \* subset of AllChannels explored by this run
          MaxFaults,    \* faults per behaviour: 3 (quick) / 4 (thorough)
          StepBudget,   \* event-loop iterations allowed per injected unit
          Skeleton      \* TRUE: one observation per step (used to enumerate the class sequences to replay);
                        \* FALSE: every observation the property allows

AllChannels == {"att", "smp", "le_sig", "classic_sig", "sdp", "rfcomm", "hfp_ag", "hfp_hf",
                "avdtp", "avctp", "le_coc", "hci"}

\* valid PDU as is / zero bytes / cut short / bytes appended / bits flipped / a length field that
\* disagrees with the payload / random bytes
Generic == {"valid", "empty", "trunc", "extend", "bitflip", "badlen", "random"}

AtClasses == {"valid", "trunc", "extend", "bitflip", "random", "at_quote", "at_empty",
              "at_unknown", "at_arity", "at_nonutf8", "at_paren", "at_multi", "chan_disc"}

\* (zero-arity constant definitions: TLC evaluates them once)
AttC    == Generic \cup {"att_unknown_op", "att_server_pdu"}
SmpC    == Generic \cup {"smp_unknown_code", "smp_out_of_order"}
SigC    == Generic \cup {"sig_unknown_code", "sig_multi", "sig_unsolicited_rsp"}
SdpC    == Generic \cup {"sdp_nest_deep", "sdp_size_lie", "sdp_bad_continuation", "chan_disc"}
RfcommC == Generic \cup {"rfc_len_ea", "rfc_bad_fcs", "rfc_unknown_dlci", "rfc_mcc", "rfc_disc", "chan_disc"}
AvdtpC  == Generic \cup {"frag_drop", "frag_dup", "frag_mislabel", "chan_disc"}
AvctpC  == Generic \cup {"frag_drop", "frag_dup", "frag_mislabel", "avctp_bad_pid", "chan_disc"}
CocC    == Generic \cup {"coc_sdu_len_lie", "coc_oversize", "coc_zero_credit_flood", "chan_disc"}
HciC    == {"evt_valid", "evt_trunc", "evt_extend", "evt_bitflip", "evt_badlen", "evt_unknown", "random",
            "acl_cont_orphan", "acl_start_short", "acl_excess", "acl_start_start", "acl_bad_handle",
            "acl_bad_l2cap_len", "acl_pb_reserved", "iso_bad", "sco_bad", "pkt_unknown_type", "evt_disconnect"}

ClassesOf(c) ==
    CASE c = "att"         -> AttC
      [] c = "smp"         -> SmpC
      [] c = "le_sig"      -> SigC
      [] c = "classic_sig" -> SigC
      [] c = "sdp"         -> SdpC
      [] c = "rfcomm"      -> RfcommC
      [] c = "hfp_ag"      -> AtClasses
      [] c = "hfp_hf"      -> AtClasses
      [] c = "avdtp"       -> AvdtpC
      [] c = "avctp"       -> AvctpC
      [] c = "le_coc"      -> CocC
      [] c = "hci"         -> HciC

AllClasses == AttC \cup SmpC \cup SigC \cup SdpC \cup RfcommC \cup AtClasses \cup AvdtpC \cup AvctpC \cup CocC \cup HciC

\* channels that cannot be closed (fixed CIDs, the HCI transport)
Fixed == {"att", "smp", "le_sig", "classic_sig", "hci"}

\* classes that are a valid disconnect by construction (the model explores these; in a recorded
\* trace d is whatever the bytes are, a mutation may hit a valid disconnect by accident)
DiscOf(ch, c) == IF c = "evt_disconnect" THEN {"conn"}
                 ELSE IF c \in {"chan_disc", "rfc_disc"} THEN {"chan"}
                 ELSE {"none"}

\* channels whose framing has no delimiter a receiver could resynchronise on: the K-frames of an LE
\* credit based channel (an SDU is "the next SDU-length bytes", whatever they are).  Whoever sent a
\* partial SDU has desynchronised his own channel; the reference request is then made on a fresh
\* channel of the same protocol (Reopen), opened by the ordinary procedure.
NoDelimiter == {"le_coc"}

\* classes that can leave a partial unit behind (assembler mid-message, unterminated line)
CocPartial == CocC \ {"chan_disc", "coc_zero_credit_flood"}
AnyPartial == {"trunc", "frag_drop", "frag_mislabel", "acl_start_short", "acl_start_start", "at_quote", "random",
               "bitflip", "extend", "badlen"}
Partial(c) == IF c \in NoDelimiter THEN CocPartial ELSE AnyPartial

Outcomes == {"ok", "exc"}                       \* allowed by the property
BadOutcomes == {"recursion", "busy", "timeout"}  \* not behaviours of this specification

VARIABLES ch,       \* the channel under attack
          hist,     \* fault classes injected so far
          phase,    \* "idle", "busy", "checked", "probing", "end"
          cur,      \* [cls, disc] of the unit being processed
          connUp,   \* the link is in Device.connections
          chanUp,   \* the channel under test is open
          mid,      \* a partial unit may be pending in an assembler / line buffer
          lost,     \* the link went away
          discs     \* kinds of valid disconnect injected so far (history)

vars == <<ch, hist, phase, cur, connUp, chanUp, mid, lost, discs>>

TypeOK == /\ ch \in AllChannels
          /\ hist \in Seq(ClassesOf(ch)) /\ Len(hist) <= MaxFaults
          /\ phase \in {"idle", "busy", "checked", "probing", "end"}
          /\ cur \in [cls : ClassesOf(ch) \cup {""}, disc : {"none", "chan", "conn"}]
          /\ connUp \in BOOLEAN /\ chanUp \in BOOLEAN /\ mid \in BOOLEAN /\ lost \in BOOLEAN
          /\ discs \subseteq {"chan", "conn"}

Init == /\ ch \in Channels
        /\ hist = <<>> /\ phase = "idle" /\ cur = [cls |-> "", disc |-> "none"]
        /\ connUp = TRUE /\ chanUp = TRUE /\ mid = FALSE /\ lost = FALSE /\ discs = {}

Inject(c, d) ==
    /\ phase = "idle" /\ connUp /\ chanUp
    /\ Len(hist) < MaxFaults
    /\ c \in ClassesOf(ch)
    /\ d \in {"none", "chan", "conn"}
    /\ (d = "chan") => ch \notin Fixed
    /\ hist' = Append(hist, c)
    /\ cur' = [cls |-> c, disc |-> d]
    /\ mid' = (mid \/ c \in Partial(ch))
    /\ phase' = "busy"
    /\ discs' = IF d = "none" THEN discs ELSE discs \cup {d}
    /\ UNCHANGED <<ch, connUp, chanUp, lost>>

Done(o, s) ==
    /\ phase = "busy"
    /\ o \in Outcomes
    /\ s \in 0..StepBudget
    /\ phase' = "checked"
    /\ UNCHANGED <<ch, hist, cur, connUp, chanUp, mid, lost, discs>>

Alive(b, o) ==
    /\ phase = "checked"
    /\ b \in BOOLEAN /\ o \in BOOLEAN
    /\ (cur.disc # "conn") => b          \* the link persists unless the unit was a valid disconnect of it
    /\ (~b) => ~o
    /\ (ch \in Fixed) => (o = b)         \* a fixed channel lives exactly as long as the link
    /\ connUp' = b /\ chanUp' = o
    /\ lost' = (lost \/ ~b)
    /\ mid' = (mid /\ o)
    /\ phase' = IF b THEN "idle" ELSE "end"
    /\ UNCHANGED <<ch, hist, cur, discs>>

Reopen(ok) ==
    /\ phase = "idle" /\ connUp
    /\ ~chanUp \/ (ch \in NoDelimiter /\ mid)
    /\ ok = TRUE
    /\ chanUp' = TRUE /\ mid' = FALSE
    /\ UNCHANGED <<ch, hist, phase, cur, connUp, lost, discs>>

Probe ==
    /\ phase = "idle" /\ connUp /\ chanUp
    /\ (ch \in NoDelimiter) => ~mid
    /\ phase' = "probing"
    /\ mid' = FALSE
    /\ UNCHANGED <<ch, hist, cur, connUp, chanUp, lost, discs>>

ProbeReply(ok) ==
    /\ phase = "probing"
    /\ ok = TRUE
    /\ phase' = "end"
    /\ UNCHANGED <<ch, hist, cur, connUp, chanUp, mid, lost, discs>>

\* what the model explores: every class of the channel, with the disconnect kind it has by construction
InjectClass(c, d) == c \in ClassesOf(ch) /\ d \in DiscOf(ch, c) /\ Inject(c, d)

DoneObs(o, s) == (Skeleton => (o = "ok" /\ s = 0)) /\ Done(o, s)
AliveObs(b, o) == (Skeleton => (b = (cur.disc # "conn") /\ o = (b /\ cur.disc # "chan"))) /\ Alive(b, o)

Next == \/ \E c \in AllClasses : \E d \in {"none", "chan", "conn"} : InjectClass(c, d)
        \/ \E o \in Outcomes : \E s \in {0, StepBudget} : DoneObs(o, s)
        \/ \E b \in BOOLEAN : \E o \in BOOLEAN : AliveObs(b, o)
        \/ Reopen(TRUE)
        \/ Probe
        \/ ProbeReply(TRUE)

Spec == Init /\ [][Next]_vars

----------------------------------------------------------------------------
\* the link is only ever lost to a valid disconnect of the link
AliveUnlessDisconnected == lost => ("conn" \in discs)

\* nothing is injected into, and no probe is sent on, a dead link or a closed channel
OnlyOnOpenChannel == (phase \in {"busy", "probing"}) => (connUp /\ chanUp)

\* the probe is never glued to a partial unit: the reference request starts a new unit
ProbeStartsClean == (phase = "probing") => ~mid

\* a behaviour that ends with the link up has had its reference request answered
EndsAnswered == (phase = "end" /\ connUp) => (chanUp /\ ~mid)

\* Not a property: prints every class sequence that reaches the probe or loses the link.  Checked as
\* an "invariant" of the Skeleton = TRUE run, it hands TLC's enumeration to the driver.
EmitSequences == (phase = "probing" \/ (phase = "end" /\ lost)) => PrintT(<<"SEQ", ch, hist>>)
=============================================================================
