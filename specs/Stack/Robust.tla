------------------------------- MODULE Robust -------------------------------
(* C17.  Hostile peer or controller input cannot wedge or derail the stack.

   One behaviour = one channel of one link under attack:  up to MaxFaults injected units, each an
   instance of an abstract FAULT CLASS of that channel, then the reference request of the
   channel (the probe).  The specification is a monitor of the property, not a model of bumble:

     Inject(c, d, t) the attacking side sends one unit of class c; d says whether the bytes are a
                     valid disconnect ("none" / "chan": of the channel under test / "conn": of
                     the link), t whether they are a well-formed step of the channel's reference
                     transaction (Pairing Request, Prepare Write, PN / SABM for a new DLC, L2CAP
                     Connection Request, AVDTP Set Configuration ...: from then on a transaction
                     of the peer is in progress), both as read from the bytes by the harness' own
                     classifier
     Done(o, s)      the stack has finished processing the unit: outcome o after s event-loop
                     steps.  Only o \in {"ok", "exc"} (nothing raised / an ordinary exception that
                     was raised and contained) and s <= StepBudget are behaviours of the
                     specification; "recursion" (RecursionError), "busy" (step budget exhausted)
                     and "timeout" (2 s budget) are not.
     Alive(b, o)     observation: the link is (not) in Device.connections, the channel is (not)
                     open as seen by the peer.  The link may only go away after a unit that was
                     a valid disconnect of the link.  The implementation is free to close the
                     channel under test after garbage (a disconnect the peer is told about).
     Reopen(ok)      the peer opens the channel again with the ordinary procedure; must succeed.
     Abandon         the peer abandons the transaction it has in progress in the ordinary way of
                     the protocol (Pairing Failed, Execute Write "cancel", AVDTP Abort, L2CAP
                     Disconnection Request for the half-open channel, RFCOMM DISC); the reference
                     request is only made when no transaction of the peer is in progress.
     Probe           the reference request is sent (ATT Read Request, Pairing Request, L2CAP Echo
                     Request, LE credit based connection request for an unknown SPSM, SDP service
                     search, data on the open RFCOMM DLC, AT+CIND?, AVDTP Discover, AV/C PASS
                     THROUGH, an SDU on the LE credit based channel, ATT Read Request in ACL data
                     plus an HCI command).  It starts with the unit delimiter of the channel
                     (START / SINGLE fragment, line terminator), so a partial unit left behind
                     by the garbage is over: mid' = FALSE.
     ProbeReply(ok)  the answer observed; must be the correct one.  The reference request is the
                     COMPLETE transaction a user relies on, run to its end on the same connection
                     (a pairing, legacy and Secure Connections, that ends with keys on both sides;
                     a read AND a write AND a notification; a new DLC / L2CAP channel opened and
                     data exchanged both ways; a full AT exchange; ...).

   Fault classes: the generic mutations of valid PDUs, structured faults per protocol, and three
   classes made of WELL-FORMED PDUs only:
     "extreme"       a well-formed PDU one numeric field of which takes a boundary value (0, 1,
                     max), enumerated from the field layout of the protocol's PDUs (RFCOMM PN frame
                     size / credits / priority, L2CAP MTU / MPS / credits, ATT MTU, key sizes, SDP
                     counts, AVDTP SEIDs and lengths ...), followed inside the same unit by NORMAL
                     USE of the thing negotiated (the DLC is opened and written on both ways, the
                     channel is used), so that a busy loop there is a busy loop of that unit;
     "out_of_phase"  a well-formed PDU of the protocol sent when no transaction is in progress or
                     in the wrong phase (every SMP command code, every response without a request,
                     unsolicited UA / DM, AVDTP commands in the wrong stream state ...);
     "advance"       (channels with a multi-step reference transaction, Phased) the next in-order
                     step of that transaction, so that Stage = the number of "advance" units so
                     far is the phase in which the following fault arrives: none / after the
                     request / after the second step.

   TLC enumerates, per channel, every sequence of <= MaxFaults classes followed by the probe
   (hist is part of the state); the driver replays each with concrete bytes (seeded
   mutations of valid PDUs built with bumble's own classes) on real connections and logs
   inject / done / alive / reopen / probe / probe_ok, validated by RobustTrace.tla.            *)
EXTENDS Naturals, Sequences, FiniteSets, TLC

CONSTANTS Channels,     \* subset of AllChannels explored by this run
          MaxFaults,    \* faults per behaviour: 3 (quick) / 4 (thorough)
          StepBudget,   \* event-loop iterations allowed per injected unit
          Skeleton      \* TRUE: one observation per step (used to enumerate the class sequences to replay);
                        \* FALSE: every observation the property allows

AllChannels == {"att", "smp", "le_sig", "classic_sig", "sdp", "rfcomm", "hfp_ag", "hfp_hf",
                "avdtp", "avctp", "le_coc", "hci"}

\* valid PDU as is / zero bytes / cut short / bytes appended / bits flipped / a length field that
\* disagrees with the payload / random bytes
Generic == {"valid", "empty", "trunc", "extend", "bitflip", "badlen", "random"}

AtClasses == {"valid", "trunc", "extend", "bitflip", "random", "at_quote", "at_empty",
              "at_unknown", "at_arity", "at_nonutf8", "at_paren", "at_multi", "chan_disc"}

\* (zero-arity constant definitions: TLC evaluates them once)
AttC    == Generic \cup {"att_unknown_op", "att_server_pdu"}
SmpC    == Generic \cup {"smp_unknown_code", "smp_out_of_order"}  \* (Base sets; Structured / "advance" are added below)
SigC    == Generic \cup {"sig_unknown_code", "sig_multi", "sig_unsolicited_rsp"}
\* "sdp_nest_siblings": containers (SEQUENCE and ALTERNATIVE, mixed) nested far beyond any depth a guard allows in
\* which every level holds further elements before and / or after the nested container (a depth count is only a bound
\* on the recursion if it is kept per container, whatever else the container holds); "sdp_nest_deep": plain chains
SdpC    == Generic \cup {"sdp_nest_deep", "sdp_nest_siblings", "sdp_size_lie", "sdp_bad_continuation", "chan_disc"}
RfcommC == Generic \cup {"rfc_len_ea", "rfc_bad_fcs", "rfc_unknown_dlci", "rfc_mcc", "rfc_disc", "chan_disc"}
AvdtpC  == Generic \cup {"frag_drop", "frag_dup", "frag_mislabel", "chan_disc"}
AvctpC  == Generic \cup {"frag_drop", "frag_dup", "frag_mislabel", "avctp_bad_pid", "chan_disc"}
\* "coc_sdu_over_mtu": COMPLETE, correctly framed SDUs (K-frames within the MPS and the credits, exactly SDU-length
\* bytes) whose SDU length exceeds the MTU the receiver announced.  The receiver may deliver, drop or refuse them (and
\* may close the channel, which its peer is told about), but the sender has NOT desynchronised the channel: the unit
\* ends on an SDU boundary, it is not in CocPartial, and the reference request is owed on the SAME channel if that is
\* still open.  ("coc_sdu_len_lie": SDU length that disagrees with the bytes that follow, partial.)
CocC    == Generic \cup {"coc_sdu_len_lie", "coc_sdu_over_mtu", "coc_oversize", "coc_zero_credit_flood", "chan_disc"}
HciC    == {"evt_valid", "evt_trunc", "evt_extend", "evt_bitflip", "evt_badlen", "evt_unknown", "random",
            "acl_cont_orphan", "acl_start_short", "acl_excess", "acl_start_start", "acl_bad_handle",
            "acl_bad_l2cap_len", "acl_pb_reserved", "iso_bad", "sco_bad", "pkt_unknown_type", "evt_disconnect"}

\* well-formed PDUs only: boundary values of numeric fields (then normal use of what was negotiated) /
\* valid PDUs outside any transaction or in the wrong phase.  Every channel has both.
Structured == {"extreme", "out_of_phase"}

\* channels whose reference transaction has several steps: "advance" = its next in-order step
Phased == {"att", "smp", "classic_sig", "rfcomm", "avdtp"}
StructP == Structured \cup {"advance"}

AttX    == AttC \cup StructP
SmpX    == SmpC \cup StructP
LeSigX  == SigC \cup Structured
ClSigX  == SigC \cup StructP
SdpX    == SdpC \cup Structured
RfcommX == RfcommC \cup StructP
AtX     == AtClasses \cup Structured
AvdtpX  == AvdtpC \cup StructP
AvctpX  == AvctpC \cup Structured
CocX    == CocC \cup Structured
HciX    == HciC \cup Structured

ClassesOf(c) ==
    CASE c = "att"         -> AttX
      [] c = "smp"         -> SmpX
      [] c = "le_sig"      -> LeSigX
      [] c = "classic_sig" -> ClSigX
      [] c = "sdp"         -> SdpX
      [] c = "rfcomm"      -> RfcommX
      [] c = "hfp_ag"      -> AtX
      [] c = "hfp_hf"      -> AtX
      [] c = "avdtp"       -> AvdtpX
      [] c = "avctp"       -> AvctpX
      [] c = "le_coc"      -> CocX
      [] c = "hci"         -> HciX

AllClasses == AttX \cup SmpX \cup LeSigX \cup ClSigX \cup SdpX \cup RfcommX \cup AtX \cup AvdtpX \cup AvctpX \cup CocX \cup HciX

\* channels that cannot be closed (fixed CIDs, the HCI transport)
Fixed == {"att", "smp", "le_sig", "classic_sig", "hci"}

\* classes that are a valid disconnect by construction (the model explores these; in a recorded
\* trace d is whatever the bytes are, a mutation may hit a valid disconnect by accident)
DiscOf(ch, c) == IF c = "evt_disconnect" THEN {"conn"}
                 ELSE IF c \in {"chan_disc", "rfc_disc"} THEN {"chan"}
                 ELSE {"none"}

\* channels whose framing has no delimiter a receiver could resynchronise on: the K-frames of an LE
\* credit based channel (an SDU is "the next SDU-length bytes", whatever they are).  Whoever sent a
\* partial SDU has desynchronised his own channel; the reference request is then made on a fresh
\* channel of the same protocol (Reopen), opened by the ordinary procedure.
NoDelimiter == {"le_coc"}

\* classes that can leave a partial unit behind (assembler mid-message, unterminated line)
\* (an "extreme" unit on an LE credit based channel contains K-frames; "out_of_phase" is signalling only)
\* ("coc_sdu_over_mtu" is made of complete SDUs only: nothing of it can be pending in a conforming assembler)
CocPartial == CocX \ {"chan_disc", "coc_zero_credit_flood", "out_of_phase", "coc_sdu_over_mtu"}
AnyPartial == {"trunc", "frag_drop", "frag_mislabel", "acl_start_short", "acl_start_start", "at_quote", "random",
               "bitflip", "extend", "badlen"}
Partial(c) == IF c \in NoDelimiter THEN CocPartial ELSE AnyPartial

Outcomes == {"ok", "exc"}                       \* allowed by the property
BadOutcomes == {"recursion", "busy", "timeout"}  \* not behaviours of this specification

VARIABLES ch,       \* the channel under attack
          hist,     \* fault classes injected so far
          phase,    \* "idle", "busy", "checked", "probing", "end"
          cur,      \* [cls, disc] of the unit being processed
          connUp,   \* the link is in Device.connections
          chanUp,   \* the channel under test is open
          mid,      \* a partial unit may be pending in an assembler / line buffer
          lost,     \* the link went away
          discs,    \* kinds of valid disconnect injected so far (history)
          txn,      \* a reference transaction started by the peer is in progress (not abandoned)
          moved     \* the peer went over to a fresh channel although the victim had left the old one open (history)

vars == <<ch, hist, phase, cur, connUp, chanUp, mid, lost, discs, txn, moved>>

\* the phase in which the next fault arrives: how many in-order steps of the reference transaction
\* have been made (0 = no transaction, 1 = after the request, 2 = after the second step ...)
Stage == Cardinality({i \in DOMAIN hist : hist[i] = "advance"})

TypeOK == /\ ch \in AllChannels
          /\ hist \in Seq(ClassesOf(ch)) /\ Len(hist) <= MaxFaults
          /\ phase \in {"idle", "busy", "checked", "probing", "end"}
          /\ cur \in [cls : ClassesOf(ch) \cup {""}, disc : {"none", "chan", "conn"}]
          /\ connUp \in BOOLEAN /\ chanUp \in BOOLEAN /\ mid \in BOOLEAN /\ lost \in BOOLEAN
          /\ discs \subseteq {"chan", "conn"}
          /\ txn \in BOOLEAN /\ moved \in BOOLEAN

Init == /\ ch \in Channels
        /\ hist = <<>> /\ phase = "idle" /\ cur = [cls |-> "", disc |-> "none"]
        /\ connUp = TRUE /\ chanUp = TRUE /\ mid = FALSE /\ lost = FALSE /\ discs = {} /\ txn = FALSE /\ moved = FALSE

Inject(c, d, t) ==
    /\ phase = "idle" /\ connUp /\ chanUp
    /\ Len(hist) < MaxFaults
    /\ c \in ClassesOf(ch)
    /\ d \in {"none", "chan", "conn"}
    /\ (d = "chan") => ch \notin Fixed
    /\ t \in BOOLEAN
    /\ (c = "advance") => t             \* an in-order step of the reference transaction is one by construction
    /\ txn' = (txn \/ t)
    /\ hist' = Append(hist, c)
    /\ cur' = [cls |-> c, disc |-> d]
    /\ mid' = (mid \/ c \in Partial(ch))
    /\ phase' = "busy"
    /\ discs' = IF d = "none" THEN discs ELSE discs \cup {d}
    /\ UNCHANGED <<ch, connUp, chanUp, lost, moved>>

Done(o, s) ==
    /\ phase = "busy"
    /\ o \in Outcomes
    /\ s \in 0..StepBudget
    /\ phase' = "checked"
    /\ UNCHANGED <<ch, hist, cur, connUp, chanUp, mid, lost, discs, txn, moved>>

Alive(b, o) ==
    /\ phase = "checked"
    /\ b \in BOOLEAN /\ o \in BOOLEAN
    /\ (cur.disc # "conn") => b          \* the link persists unless the unit was a valid disconnect of it
    /\ (~b) => ~o
    /\ (ch \in Fixed) => (o = b)         \* a fixed channel lives exactly as long as the link
    /\ connUp' = b /\ chanUp' = o
    /\ lost' = (lost \/ ~b)
    /\ mid' = (mid /\ o)
    /\ txn' = (txn /\ o)                \* a transaction does not outlive the channel it runs on
    /\ phase' = IF b THEN "idle" ELSE "end"
    /\ UNCHANGED <<ch, hist, cur, discs, moved>>

Reopen(ok) ==
    /\ phase = "idle" /\ connUp
    /\ ~chanUp \/ (ch \in NoDelimiter /\ mid)
    /\ ok = TRUE
    /\ chanUp' = TRUE /\ mid' = FALSE /\ txn' = FALSE
    /\ moved' = (moved \/ chanUp)
    /\ UNCHANGED <<ch, hist, phase, cur, connUp, lost, discs>>

\* the peer gives up the transaction it has in progress, by the ordinary procedure of the protocol
Abandon ==
    /\ phase = "idle" /\ connUp /\ chanUp /\ txn
    /\ Len(hist) > 0
    /\ txn' = FALSE
    /\ UNCHANGED <<ch, hist, phase, cur, connUp, chanUp, mid, lost, discs, moved>>

Probe ==
    /\ phase = "idle" /\ connUp /\ chanUp
    /\ (ch \in NoDelimiter) => ~mid
    /\ ~txn
    /\ phase' = "probing"
    /\ mid' = FALSE
    /\ UNCHANGED <<ch, hist, cur, connUp, chanUp, lost, discs, txn, moved>>

ProbeReply(ok) ==
    /\ phase = "probing"
    /\ ok = TRUE
    /\ phase' = "end"
    /\ UNCHANGED <<ch, hist, cur, connUp, chanUp, mid, lost, discs, txn, moved>>

\* what the model explores: every class of the channel, with the disconnect kind it has by construction
\* (a unit of another class is a step of the reference transaction only by accident: explored as FALSE, and as
\* TRUE too for the classes made of well-formed PDUs when all observations are explored)
StartsTxn(c) == IF c = "advance" THEN {TRUE}
                ELSE IF ~Skeleton /\ ch \in Phased /\ c \in {"valid", "extreme", "out_of_phase"} THEN BOOLEAN
                ELSE {FALSE}
InjectClass(c, d) == c \in ClassesOf(ch) /\ d \in DiscOf(ch, c) /\ \E t \in StartsTxn(c) : Inject(c, d, t)

DoneObs(o, s) == (Skeleton => (o = "ok" /\ s = 0)) /\ Done(o, s)
AliveObs(b, o) == (Skeleton => (b = (cur.disc # "conn") /\ o = (b /\ cur.disc # "chan"))) /\ Alive(b, o)

\* (quantifying over the classes of the channel only, and over the disconnect kind the class has: the same behaviours as
\* over AllClasses x all kinds, InjectClass keeps only those, but TLC does not evaluate ~250 disabled disjuncts per state)
InjectAny == \E c \in ClassesOf(ch) : \E d \in DiscOf(ch, c) : InjectClass(c, d)

Next == \/ InjectAny
        \/ \E o \in Outcomes : \E s \in {0, StepBudget} : DoneObs(o, s)
        \/ \E b \in BOOLEAN : \E o \in BOOLEAN : AliveObs(b, o)
        \/ Reopen(TRUE)
        \/ Abandon
        \/ Probe
        \/ ProbeReply(TRUE)

Spec == Init /\ [][Next]_vars

----------------------------------------------------------------------------
\* the link is only ever lost to a valid disconnect of the link
AliveUnlessDisconnected == lost => ("conn" \in discs)

\* nothing is injected into, and no probe is sent on, a dead link or a closed channel
OnlyOnOpenChannel == (phase \in {"busy", "probing"}) => (connUp /\ chanUp)

\* the probe is never glued to a partial unit, nor made inside a transaction the peer left open: the
\* reference request starts a new unit and a new transaction
ProbeStartsClean == (phase = "probing") => (~mid /\ ~txn)

\* on a channel without delimiter the reference request moves to a fresh channel only because of a partial unit: after
\* units that all end on an SDU boundary it is made on the channel the units were sent on (if the victim left it open)
SameChannelUnlessPartial ==
    (phase = "probing" /\ \A i \in DOMAIN hist : hist[i] \notin Partial(ch)) => ~moved

\* a behaviour that ends with the link up has had its reference request answered
EndsAnswered == (phase = "end" /\ connUp) => (chanUp /\ ~mid)

\* Not a property: prints every class sequence that reaches the probe or loses the link.  Checked as
\* an "invariant" of the Skeleton = TRUE run, it hands TLC's enumeration to the driver.
EmitSequences == (phase = "probing" \/ (phase = "end" /\ lost)) => PrintT(<<"SEQ", ch, hist>>)
=============================================================================
