--------------------------- MODULE TeardownTrace ---------------------------
(* Trace validation for C16.  One trace = one run of three real bumble stacks: a procedure of
   the catalogue (one that completes or one that ends in failure), a cut at message boundary k,
   120 virtual seconds, then the measured tables and registries; after a disconnection cut the
   link is established again (second incarnation, same handle), the same kind of procedure runs
   on it and tables and registries are measured a second time.
   Logged events (all fields always present):

     est(c)                          -> CtrlEstablish(c)     (again: the next incarnation of c)
     call(o, d, c, x)                -> Call(o, d, c, "none"); x = "result": the harness' peer is
                                        willing and the link is fresh - the operation has to complete.
                                        o is an API call of the harness OR a task the stack started for
                                        connection c on stack d (a pairing delegate's prompt: the call is
                                        logged when the delegate is entered, the ret when it is left)
     cut(kind = "disc", d, c)        -> RequestDisconnect(d, c)
     cut(kind = "loss", d)           -> TransportLoss(d)     (Host.on_transport_lost() called directly,
                                        or a real transport source told that the transport died)
     ret(o, out)                     -> Ret(o, out)          out = "result" | "error"
     quiesce(S = still pending ops)  -> Quiesce, with the pending list judged by PendingOk / Stalled
     tables(d, layer, S)             -> judged by TableOk
     registry(d, R)                  -> all registries of stack d, R = <<[r |-> name, S |-> entries]>>, each
                                        judged by RegOk; entries = pairs <<connection, incarnation>>

   What the controllers and hosts do between the logged events (Disconnect, RefuseRequest, PeerTerm,
   HostEvt) is not logged: the spec takes those steps on its own, every interleaving of them
   is tried, and a `quiesce` / `tables` / `registry` event can only be matched once everything
   is propagated.  The judgement of the observations is accumulated in `bad` instead of
   blocking the trace, so that one verdict names every clause that fails:
       <<"pending", o>>                 operation o has not ended and may not wait any more
       <<"stalled", o>>                 operation o has not ended although its link is up end to end
       <<"outcome", o>>                 operation o had to complete (x = "result") and ended in error
       <<"tables", d, layer, how>>      how = "stale" (lists a closed connection) | "missing"
       <<"registry", d, r, X>>          registry r of stack d names a closed connection (or a closed
                                        incarnation of a connection whose handle is live again): X = those entries
   A trace is accepted iff some interleaving of the unlogged steps reaches its end with
   bad = {}.  Unknown handles are logged as 9, which is never a live connection.           *)
EXTENDS Teardown, Json, IOUtils, TLCExt

Traces == JsonDeserialize(IOEnv.TRACE_FILE)

VARIABLES tid, l, bad, expect
tvars == <<vars, tid, l, bad, expect>>

T  == Traces[tid]
Ev == T[l]

SetOf(s) == {s[i] : i \in 1..Len(s)}

Internal ==
    /\ \/ \E d \in Devs : HostEvt(d)
       \/ \E d \in Devs, c \in Conns : Disconnect(d, c) \/ RefuseRequest(d, c) \/ PeerTerm(d, c)
    /\ UNCHANGED <<tid, l, bad, expect>>

TrQuiesce ==
    /\ Propagated
    /\ quiesced' = TRUE
    /\ UNCHANGED <<live, inc, reg, ops, evq, term, want, lost, nest, ncut>>
    /\ bad' = bad \cup {<<"pending", ToString(o)>> : o \in {p \in OpIds : ops[p].st \in {"waiting", "released"} /\ ~PendingOk(p)}}
                  \cup {<<"stalled", ToString(o)>> : o \in {p \in OpIds : Stalled(p)}}
    \* the harness lists exactly the calls that have not returned
    /\ SetOf(Ev.S) = {p \in OpIds : ops[p].st \in {"waiting", "released"}}

TrTables ==
    /\ Propagated
    /\ UNCHANGED vars
    /\ LET S == SetOf(Ev.S)
           want_ == live[Ev.layer][Ev.d]
       IN bad' = IF TableOk(Ev.d, Ev.layer, S) THEN bad
                 ELSE bad \cup (IF S \ want_ # {} THEN {<<"tables", Ev.d, Ev.layer, "stale">>} ELSE {})
                          \cup (IF want_ \ S # {} THEN {<<"tables", Ev.d, Ev.layer, "missing">>} ELSE {})

TrRegistry ==
    /\ Propagated
    /\ UNCHANGED vars
    /\ bad' = bad \cup {<<"registry", Ev.d, Ev.R[i].r, {x \in SetOf(Ev.R[i].S) : ~EntryOk(Ev.d, x)}>> :
                           i \in {j \in 1..Len(Ev.R) : ~RegOk(Ev.d, SetOf(Ev.R[j].S))}}

Logged ==
    /\ l <= Len(T)
    /\ \/ Ev.e = "est"  /\ CtrlEstablish(Ev.c) /\ bad' = bad
       \/ Ev.e = "call" /\ Call(Ev.o, Ev.d, Ev.c, NoReg) /\ bad' = bad
       \/ Ev.e = "cut" /\ Ev.k = "disc" /\ RequestDisconnect(Ev.d, Ev.c) /\ bad' = bad
       \/ Ev.e = "cut" /\ Ev.k = "loss" /\ TransportLoss(Ev.d) /\ bad' = bad
       \/ /\ Ev.e = "ret"
          /\ Ret(Ev.o, Ev.out)
          /\ Ev.out \in {"result", "error"}
          /\ quiesced' = FALSE
          /\ UNCHANGED <<live, inc, reg, evq, term, want, lost, nest, ncut>>
          /\ bad' = IF Ev.o \in expect /\ Ev.out # "result" THEN bad \cup {<<"outcome", ToString(Ev.o)>>} ELSE bad
       \/ Ev.e = "quiesce" /\ TrQuiesce
       \/ Ev.e = "tables" /\ TrTables
       \/ Ev.e = "registry" /\ TrRegistry
    /\ expect' = IF Ev.e = "call" /\ Ev.x = "result" THEN expect \cup {Ev.o} ELSE expect
    /\ l' = l + 1
    /\ tid' = tid

Step == Logged \/ (l <= Len(T) /\ Internal)

Done ==
    /\ l = Len(T) + 1
    /\ IF bad = {} THEN PrintT(<<"ACCEPT", tid>>)
       ELSE PrintT(<<"REJECT", tid, l, "end", bad>>)
    /\ UNCHANGED tvars

Stuck ==
    /\ l <= Len(T)
    /\ ~ENABLED Step
    /\ PrintT(<<"REJECT", tid, l, Ev,
                [live |-> live, inc |-> inc, lost |-> lost, evq |-> evq, term |-> term, want |-> want,
                 ops |-> [o \in OpIds |-> ops[o].st], bad |-> bad]>>)
    /\ UNCHANGED tvars

TraceInit == Init /\ tid \in 1..Len(Traces) /\ l = 1 /\ bad = {} /\ expect = {}
TraceNext == Step \/ Done \/ Stuck
TraceSpec == TraceInit /\ [][TraceNext]_tvars
=============================================================================
