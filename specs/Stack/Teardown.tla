------------------------------ MODULE Teardown ------------------------------
(* C16  Teardown is complete: no stale connection state, no waiter left hanging.

   Three stacks A, B, C (controller / host / device layer each).  Link 1 joins A and B (the
   link a procedure runs on), link 2 joins A and C (a bystander that must survive the loss of
   link 1 and must die with A's transport).  One action per critical section of the code:

     CtrlEstablish(c)        both controllers create the connection, one Connection Complete
                             event is queued to each host              (controller.py)
     HostEvt(d)              the host of d takes the oldest HCI event: a connection event adds
                             the handle to Host.connections and Device.connections; a
                             Disconnection Complete is the *fan-out* - one synchronous call
                             chain Host.on_hci_disconnection_complete_event -> 'disconnection'
                             -> Device.on_disconnection / ChannelManager.on_disconnection /
                             Connection 'disconnection' listeners (SMP session, GATT client,
                             cancel_on_disconnection) and the data-queue flush
     RequestDisconnect(d,c)  Connection.disconnect() called on d (HCI_Disconnect on its way)
     Disconnect(d,c)         d's controller executes it: drops the link, LL_TERMINATE / LMP_detach
                             towards the peer, Disconnection Complete queued to its own host
     RefuseRequest(d,c)      the request is not executed (command failed / transport gone)
     PeerTerm(d,c)           the peer's controller learns of the termination
     TransportLoss(d)        the HCI transport of d is gone: its source (transport BaseSource
                             .on_transport_lost) tells the host, Host.on_transport_lost(); nothing
                             queued in either direction is delivered any more; fan-out for
                             every connection of d, pending HCI command released
     Call / OpSend / ProcStep / RegDrop / Complete
                             an awaited multi-step procedure (GATT request, indication, pairing,
                             channel connect / disconnect, drain, RFCOMM / SDP / AVDTP transaction,
                             HCI command) of `Steps` messages; it creates per-connection
                             registry state (subscriber, pending indication, SMP session,
                             channel, queued data) at either end while it runs
     Fail(o)                 the procedure ENDS IN FAILURE while the link is up (pairing rejected /
                             confirm value failed, connection refused, ATT / SDP error response):
                             the waiter ends with an error, whatever registry state the procedure
                             created (the failed SMP session, the channel the failed request ran
                             on) stays until somebody removes it
     Release(o)              a waiter that the fan-out cancelled resumes and ends with an error
     Timeout(o)              a protocol time-out ends a waiter with an error (DESIGN App. D)
     Quiesce                 nothing is in flight and nothing can move any more

   Disconnect and TransportLoss are enabled at every message boundary (between any two
   ProcStep), on either side, before and after a procedure has ended (with a result or in failure).

   Incarnations.  A closed link may be established again (MaxEst) and the controller re-uses the
   connection handle, so "connection c" alone does not say which connection is meant.  Every
   establishment of c is a new incarnation g = 1, 2, ...; the Connection Complete event carries it,
   inc[d][c] is the incarnation the host / device layer of d holds, an operation belongs to the
   incarnation it was called on and a registry entry is a pair <<c, g>>.  "No registry names a
   closed connection" therefore also covers an entry that survived the teardown of incarnation 1
   and now sits under the handle of incarnation 2.  Registries are keyed by the handle in the code
   (smp.Manager.sessions, ChannelManager.channels ...): such a left-over *captures* the traffic of
   the new incarnation (Captured), the procedure on the new connection cannot advance, and the
   liveness-at-quiescence clause LiveCompletes fails: an operation may be found waiting at
   quiescence only if its link is not up end to end (peer silent); on a link that is up at both ends
   the same kind of procedure that failed or was cut on the old incarnation completes.

   Roles.  Central(c) is the stack that initiated link c (A for both).  The design is symmetric in the
   role: procedures are called at either end, registry state is created at either end.

   Bugs is empty in the design that is checked.  The named deviations are what the code was
   seen (or could be changed) to do; the driver's self-test turns each on and requires TLC to
   report the invariant it breaks, so the invariants are known not to be vacuous:
     "flush_keeps_host"   transport loss clears Device.connections only        -> LayersAgree
     "flush_keeps_regs"   transport loss leaves registries alone               -> RegClean
     "disc_keeps_regs"    disconnection fan-out forgets the registries         -> RegClean
     "no_release"         fan-out does not cancel the waiters                  -> WaitersEnded
     "late_readd"         a released waiter re-creates its registry entry      -> RegClean
     "no_peer_event"      the peer's controller drops the link silently        -> LayersAgree
     "failed_keeps_regs"  the fan-out skips the registry entries of a procedure that ended in
                          failure (it detached itself from the connection)     -> RegClean, and on
                          the next incarnation RegAlways / LiveCompletes
     "central_keeps_regs" the fan-out clears registries only where the stack is the peripheral
                                                                               -> RegClean
     "loss_not_forwarded" the transport source does not tell the host that the transport is gone
                          (no fan-out at all)                                  -> LayersAgree, WaitersEnded
     "idle_not_released"  the fan-out releases only the waiters whose procedure has something under way
                          (step > 0); a waiter that has not moved yet - a drain of data that is queued in
                          the host with nothing of it in flight, a prompt the stack opened for the
                          connection and the user has not answered - is passed over  -> WaitersEnded

   Waiters.  An operation (ops) is anything that awaits on behalf of a connection: the API call of the
   application, and equally a task the STACK started for the connection while the procedure runs (the
   delegate prompt of a pairing: confirmation, numeric comparison, passkey input on the keyboard side) and a
   task that waits for the connection's outbound data to drain (DataPacketQueue.drain / Connection
   .data_packet_queue.drain / CisLink.drain) in whichever state that data is: in flight in the controller, or
   queued in the host with NOTHING in flight because other links hold all controller buffers.  The fan-out
   releases every one of them (FanOps does not look at step, reg or at who made the call); the harness
   registers each as a `call` and the trace spec's clause <<"pending", o>> judges it.
*)
EXTENDS Naturals, FiniteSets, Sequences, TLC

CONSTANTS
    Conns,      \* subset of {1, 2}
    Regs,       \* names of the per-connection registries
    OpIds,      \* identities of awaited operations
    Steps,      \* message steps of a procedure
    MaxEst,     \* establishments per link (2 = a closed link is established again)
    MaxCuts,    \* disconnect requests + transport losses per behaviour
    Bugs

Devs   == {"A", "B", "C"}
Layers == {"ctrl", "host", "device"}
Ends(c)   == IF c = 1 THEN {"A", "B"} ELSE {"A", "C"}
PeerOf(d, c) == CHOOSE e \in Ends(c) : e # d
NoReg == "none"

VARIABLES
    live,      \* [Layers -> [Devs -> SUBSET Conns]]   connection tables
    inc,       \* [Devs -> [Conns -> 0..MaxEst]]       incarnation of c held by host / device of d (0: none)
    reg,       \* [Devs -> [Regs -> SUBSET (Conns \X 1..MaxEst)]]   per-connection registries: entries <<c, g>>
    ops,       \* [OpIds -> [st, dev, conn, gen, reg, step, out]]
    evq,       \* [Devs -> Seq(<<kind, c, g>>)]        HCI events in flight controller -> host (FIFO)
    term,      \* [Devs -> SUBSET Conns]               link terminations in flight to d's controller
    want,      \* [Devs -> SUBSET Conns]               disconnect requested by d, not yet executed
    lost,      \* SUBSET Devs                          stacks whose HCI transport is gone
    nest,      \* [Conns -> Nat]
    ncut,
    quiesced

vars == <<live, inc, reg, ops, evq, term, want, lost, nest, ncut, quiesced>>

IdleOp == [st |-> "idle", dev |-> "A", conn |-> 0, gen |-> 0, reg |-> NoReg, step |-> 0, out |-> "none"]
Central(c) == "A"
Entries == Conns \X (1..MaxEst)

Init ==
    /\ live = [l \in Layers |-> [d \in Devs |-> {}]]
    /\ inc  = [d \in Devs |-> [c \in Conns |-> 0]]
    /\ reg  = [d \in Devs |-> [r \in Regs |-> {}]]
    /\ ops  = [o \in OpIds |-> IdleOp]
    /\ evq  = [d \in Devs |-> <<>>]
    /\ term = [d \in Devs |-> {}]
    /\ want = [d \in Devs |-> {}]
    /\ lost = {}
    /\ nest = [c \in Conns |-> 0]
    /\ ncut = 0
    /\ quiesced = FALSE

TypeOK ==
    /\ live \in [Layers -> [Devs -> SUBSET Conns]]
    /\ inc \in [Devs -> [Conns -> 0..MaxEst]]
    /\ reg \in [Devs -> [Regs -> SUBSET Entries]]
    /\ \A o \in OpIds : /\ ops[o].st \in {"idle", "waiting", "released", "done"}
                        /\ ops[o].dev \in Devs
                        /\ ops[o].out \in {"none", "result", "error"}
                        /\ ops[o].step \in 0..Steps
                        /\ ops[o].gen \in 0..MaxEst
    /\ lost \subseteq Devs
    /\ \A d \in Devs : term[d] \subseteq Conns /\ want[d] \subseteq Conns
    /\ quiesced \in BOOLEAN

-----------------------------------------------------------------------------
(* helpers *)

Enq(q, d, e) == IF d \in lost THEN q ELSE [q EXCEPT ![d] = Append(@, e)]

\* the disconnection fan-out on stack d for the set of connections cs
FanTables(d, cs, keepHost) ==
    [live EXCEPT !["device"][d] = @ \ cs,
                 !["host"][d] = IF keepHost THEN @ ELSE @ \ cs]
FanInc(d, cs, keepHost) ==
    IF keepHost THEN inc ELSE [inc EXCEPT ![d] = [c \in Conns |-> IF c \in cs THEN 0 ELSE @[c]]]

\* deviations: registry entries the fan-out on d passes over
FailedEntry(r, e) == \E o \in OpIds : /\ ops[o].st = "done" /\ ops[o].out = "error"
                                      /\ ops[o].reg = r /\ ops[o].conn = e[1] /\ ops[o].gen = e[2]
Skipped(d, r, e) == \/ "failed_keeps_regs" \in Bugs /\ FailedEntry(r, e)
                    \/ "central_keeps_regs" \in Bugs /\ d = Central(e[1])
FanRegs(d, cs, keep) ==
    IF keep THEN reg
    ELSE [reg EXCEPT ![d] = [r \in Regs |-> {e \in @[r] : e[1] \notin cs \/ Skipped(d, r, e)}]]
PassedOver(o) == "idle_not_released" \in Bugs /\ ops[o].step = 0
FanOps(d, cs, all) ==
    IF "no_release" \in Bugs THEN ops
    ELSE [o \in OpIds |->
            IF ops[o].st = "waiting" /\ ops[o].dev = d /\ (all \/ ops[o].conn \in cs) /\ ~PassedOver(o)
            THEN [ops[o] EXCEPT !.st = "released"] ELSE ops[o]]

LinkUp(c) == \A e \in Ends(c) : /\ c \in live["ctrl"][e] /\ c \notin term[e]
                                /\ e \notin lost /\ c \in live["device"][e]
\* incarnation g of link c is up end to end
LinkUpG(c, g) == /\ c \in Conns
                 /\ LinkUp(c)
                 /\ g = nest[c]
                 /\ \A e \in Ends(c) : inc[e][c] = g

-----------------------------------------------------------------------------
(* connection establishment *)

CtrlEstablish(c) ==
    /\ nest[c] < MaxEst
    /\ \A e \in Ends(c) : c \notin live["ctrl"][e] /\ c \notin term[e]
    /\ live' = [live EXCEPT !["ctrl"] = [d \in Devs |-> IF d \in Ends(c) THEN @[d] \cup {c} ELSE @[d]]]
    /\ evq' = [d \in Devs |-> IF d \in Ends(c) /\ d \notin lost THEN Append(evq[d], <<"conn", c, nest[c] + 1>>) ELSE evq[d]]
    /\ nest' = [nest EXCEPT ![c] = @ + 1]
    /\ quiesced' = FALSE
    /\ UNCHANGED <<inc, reg, ops, term, want, lost, ncut>>

HostEvt(d) ==
    /\ d \notin lost
    /\ evq[d] # <<>>
    /\ LET e == Head(evq[d]) c == e[2] IN
         IF e[1] = "conn"
         THEN /\ live' = [live EXCEPT !["host"][d] = @ \cup {c}, !["device"][d] = @ \cup {c}]
              /\ inc' = [inc EXCEPT ![d][c] = e[3]]
              /\ UNCHANGED <<reg, ops>>
         ELSE /\ live' = FanTables(d, {c}, FALSE)
              /\ inc' = FanInc(d, {c}, FALSE)
              /\ reg' = FanRegs(d, {c}, "disc_keeps_regs" \in Bugs)
              /\ ops' = FanOps(d, {c}, FALSE)
    /\ evq' = [evq EXCEPT ![d] = Tail(@)]
    /\ quiesced' = FALSE
    /\ UNCHANGED <<term, want, lost, nest, ncut>>

-----------------------------------------------------------------------------
(* the cuts *)

RequestDisconnect(d, c) ==
    /\ ncut < MaxCuts
    /\ d \in Ends(c)
    /\ d \notin lost
    /\ c \in live["device"][d]
    /\ c \notin want[d]
    /\ want' = [want EXCEPT ![d] = @ \cup {c}]
    /\ ncut' = ncut + 1
    /\ quiesced' = FALSE
    /\ UNCHANGED <<live, inc, reg, ops, evq, term, lost, nest>>

Disconnect(d, c) ==
    /\ c \in want[d]
    /\ c \in live["ctrl"][d]
    /\ want' = [want EXCEPT ![d] = @ \ {c}]
    /\ live' = [live EXCEPT !["ctrl"][d] = @ \ {c}]
    /\ term' = [term EXCEPT ![PeerOf(d, c)] = @ \cup {c}]
    /\ evq' = Enq(evq, d, <<"disc", c, 0>>)
    /\ quiesced' = FALSE
    /\ UNCHANGED <<inc, reg, ops, lost, nest, ncut>>

RefuseRequest(d, c) ==
    /\ c \in want[d]
    /\ want' = [want EXCEPT ![d] = @ \ {c}]
    /\ quiesced' = FALSE
    /\ UNCHANGED <<live, inc, reg, ops, evq, term, lost, nest, ncut>>

PeerTerm(d, c) ==
    /\ c \in term[d]
    /\ term' = [term EXCEPT ![d] = @ \ {c}]
    /\ IF c \in live["ctrl"][d]
       THEN /\ live' = [live EXCEPT !["ctrl"][d] = @ \ {c}]
            /\ evq' = IF "no_peer_event" \in Bugs THEN evq ELSE Enq(evq, d, <<"disc", c, 0>>)
       ELSE UNCHANGED <<live, evq>>
    /\ quiesced' = FALSE
    /\ UNCHANGED <<inc, reg, ops, want, lost, nest, ncut>>

\* the transport of d dies: the source (bumble.transport BaseSource.on_transport_lost) tells the host,
\* Host.on_transport_lost() is the fan-out for every connection
TransportLoss(d) ==
    /\ ncut < MaxCuts
    /\ d \notin lost
    /\ lost' = lost \cup {d}
    /\ IF "loss_not_forwarded" \in Bugs
       THEN UNCHANGED <<live, inc, reg, ops>>
       ELSE LET cs == live["device"][d] \cup live["host"][d] IN
              /\ live' = FanTables(d, cs, "flush_keeps_host" \in Bugs)
              /\ inc' = FanInc(d, cs, "flush_keeps_host" \in Bugs)
              /\ reg' = FanRegs(d, Conns, "flush_keeps_regs" \in Bugs)
              /\ ops' = FanOps(d, cs, TRUE)
    /\ evq' = [evq EXCEPT ![d] = <<>>]
    /\ want' = [want EXCEPT ![d] = {}]
    /\ ncut' = ncut + 1
    /\ quiesced' = FALSE
    /\ UNCHANGED <<term, nest>>

-----------------------------------------------------------------------------
(* awaited procedures *)

Call(o, d, c, r) ==
    /\ ops[o].st = "idle"
    /\ d \notin lost
    /\ c \in live["device"][d]
    /\ d \in Ends(c)
    /\ ops' = [ops EXCEPT ![o] = [st |-> "waiting", dev |-> d, conn |-> c, gen |-> inc[d][c], reg |-> r, step |-> 0, out |-> "none"]]
    /\ quiesced' = FALSE
    /\ UNCHANGED <<live, inc, reg, evq, term, want, lost, nest, ncut>>

\* end e of the procedure creates per-connection state (only ever for the incarnation it holds live)
OpSend(o, e) ==
    /\ ops[o].st = "waiting"
    /\ ops[o].reg # NoReg
    /\ e \in Ends(ops[o].conn)
    /\ e \notin lost
    /\ ops[o].conn \in live["device"][e]
    /\ inc[e][ops[o].conn] = ops[o].gen
    /\ <<ops[o].conn, ops[o].gen>> \notin reg[e][ops[o].reg]
    /\ reg' = [reg EXCEPT ![e][ops[o].reg] = @ \cup {<<ops[o].conn, ops[o].gen>>}]
    /\ quiesced' = FALSE
    /\ UNCHANGED <<live, inc, ops, evq, term, want, lost, nest, ncut>>

RegDrop(o, e) ==
    /\ ops[o].st # "idle"
    /\ ops[o].reg # NoReg
    /\ e \in Ends(ops[o].conn)
    /\ <<ops[o].conn, ops[o].gen>> \in reg[e][ops[o].reg]
    /\ reg' = [reg EXCEPT ![e][ops[o].reg] = @ \ {<<ops[o].conn, ops[o].gen>>}]
    /\ quiesced' = FALSE
    /\ UNCHANGED <<live, inc, ops, evq, term, want, lost, nest, ncut>>

\* the registries are keyed by the connection handle, which the controller re-uses: an entry of an
\* older incarnation of the operation's connection (in the registry its procedure works with, at either
\* end) is handed the messages of the new one
Captured(o) == /\ ops[o].reg \in Regs
               /\ \E e \in Ends(ops[o].conn) : \E x \in reg[e][ops[o].reg] :
                      x[1] = ops[o].conn /\ x[2] # ops[o].gen

StepPossible(o) == /\ ops[o].st = "waiting" /\ ops[o].step < Steps
                   /\ LinkUpG(ops[o].conn, ops[o].gen) /\ ~Captured(o)

ProcStep(o) ==
    /\ StepPossible(o)
    /\ ops' = [ops EXCEPT ![o].step = @ + 1]
    /\ quiesced' = FALSE
    /\ UNCHANGED <<live, inc, reg, evq, term, want, lost, nest, ncut>>

\* the only way an operation ends
Ret(o, out) ==
    /\ ops[o].st \in {"waiting", "released"}
    /\ ops' = [ops EXCEPT ![o].st = "done", ![o].out = out]

CompletePossible(o) == ops[o].st = "waiting" /\ ops[o].step = Steps

Complete(o) ==
    /\ CompletePossible(o)
    /\ Ret(o, "result")
    /\ quiesced' = FALSE
    /\ UNCHANGED <<live, inc, reg, evq, term, want, lost, nest, ncut>>

\* the peer answers with a refusal / an error response / Pairing Failed, or the local check of what it
\* sent fails: at least one message was exchanged, the link is up, the waiter ends with an error.
\* What the procedure created in the registries is untouched (RegDrop may or may not follow).
Fail(o) ==
    /\ ops[o].st = "waiting"
    /\ ops[o].step >= 1
    /\ LinkUpG(ops[o].conn, ops[o].gen)
    /\ Ret(o, "error")
    /\ quiesced' = FALSE
    /\ UNCHANGED <<live, inc, reg, evq, term, want, lost, nest, ncut>>

Release(o) ==
    /\ ops[o].st = "released"
    /\ Ret(o, "error")
    /\ reg' = IF "late_readd" \in Bugs /\ ops[o].reg # NoReg
              THEN [reg EXCEPT ![ops[o].dev][ops[o].reg] = @ \cup {<<ops[o].conn, ops[o].gen>>}] ELSE reg
    /\ quiesced' = FALSE
    /\ UNCHANGED <<live, inc, evq, term, want, lost, nest, ncut>>

Timeout(o) ==
    /\ ops[o].st = "waiting"
    /\ Ret(o, "error")
    /\ quiesced' = FALSE
    /\ UNCHANGED <<live, inc, reg, evq, term, want, lost, nest, ncut>>

-----------------------------------------------------------------------------
(* quiescence *)

Propagated == \A d \in Devs : evq[d] = <<>> /\ term[d] = {} /\ want[d] = {}

OpsSettled == \A o \in OpIds : /\ ops[o].st # "released"
                               /\ ~StepPossible(o)
                               /\ ~CompletePossible(o)

Quiesce ==
    /\ ~quiesced
    /\ Propagated
    /\ OpsSettled
    /\ quiesced' = TRUE
    /\ UNCHANGED <<live, inc, reg, ops, evq, term, want, lost, nest, ncut>>

Next ==
    \/ \E c \in Conns : CtrlEstablish(c)
    \/ \E d \in Devs : HostEvt(d) \/ TransportLoss(d)
    \/ \E d \in Devs, c \in Conns : \/ RequestDisconnect(d, c) \/ Disconnect(d, c)
                                   \/ RefuseRequest(d, c) \/ PeerTerm(d, c)
    \/ \E o \in OpIds, d \in Devs, c \in Conns, r \in Regs \cup {NoReg} : Call(o, d, c, r)
    \/ \E o \in OpIds, e \in Devs : OpSend(o, e) \/ RegDrop(o, e)
    \/ \E o \in OpIds : ProcStep(o) \/ Complete(o) \/ Fail(o) \/ Release(o) \/ Timeout(o)
    \/ Quiesce

Spec == Init /\ [][Next]_vars

-----------------------------------------------------------------------------
(* the property *)

\* what each table must be when nothing is in flight (used by the trace spec as well)
TableOk(d, layer, S) ==
    CASE layer = "ctrl"   -> d \in lost \/ S = live["ctrl"][d]
      [] layer = "host"   -> S = live["host"][d]
      [] layer = "device" -> S = live["device"][d]

\* a registry may only name the incarnation of a connection that the device layer holds
EntryOk(d, x) == x[1] \in live["device"][d] /\ x[2] = inc[d][x[1]]
RegOk(d, S) == \A x \in S : EntryOk(d, x)

\* an operation may still be waiting at quiescence only on the incarnation of a connection that is
\* still live on its own stack (its peer is silent); never on a closed connection or a lost transport
PendingOk(o) == /\ ops[o].st = "waiting"
                /\ ops[o].dev \notin lost
                /\ ops[o].conn \in live["device"][ops[o].dev]
                /\ inc[ops[o].dev][ops[o].conn] = ops[o].gen

\* ... and not on a link that is up end to end: there the peer answers and the procedure completes
Stalled(o) == ops[o].st = "waiting" /\ LinkUpG(ops[o].conn, ops[o].gen)

LayersAgree ==
    quiesced =>
        /\ \A d \in Devs : /\ live["host"][d] = live["device"][d]
                           /\ d \notin lost => live["ctrl"][d] = live["host"][d]
                           /\ d \in lost => live["host"][d] = {}
        /\ \A c \in Conns : (\A e \in Ends(c) : e \notin lost) =>
               \A e \in Ends(c) : (c \in live["device"][e]) <=> (c \in live["device"][PeerOf(e, c)])

RegClean == quiesced => \A d \in Devs, r \in Regs : RegOk(d, reg[d][r])

WaitersEnded == quiesced => \A o \in OpIds : ops[o].st \in {"idle", "done"} \/ PendingOk(o)

\* liveness at quiescence: whatever happened to earlier incarnations (procedure failed, link cut in the
\* middle of it), a procedure on a link that is up end to end is not found waiting when nothing moves
LiveCompletes == quiesced => \A o \in OpIds : ~Stalled(o)

\* every waiter ended with an exception / cancellation, or with a result obtained from a complete exchange
Outcomes == \A o \in OpIds : /\ (ops[o].st = "done") <=> (ops[o].out # "none")
                             /\ ops[o].out = "result" => ops[o].step = Steps

\* holds at every instant, not only at quiescence: registries never name a connection (incarnation) the
\* device layer does not hold, the device and host tables change together
RegAlways    == \A d \in Devs, r \in Regs : RegOk(d, reg[d][r])
TablesAlways == \A d \in Devs : /\ live["device"][d] = live["host"][d]
                                /\ \A c \in Conns : (inc[d][c] # 0) <=> (c \in live["device"][d])

\* a waiter ends exactly once
EndsOnce == [][\A o \in OpIds : ops[o].st = "done" => ops'[o] = ops[o]]_vars
=============================================================================
