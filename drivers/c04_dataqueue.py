"""C04: outbound data obeys controller buffer credits, stays FIFO and never stalls; drain; pipe.

(M) specs/Hci/DataQueue.tla, Pipe.tla model-checked by TLC.
(A) every edge of the bounded state graph replayed on a real DataPacketQueue /
    FlowControlAsyncPipe; abstract state compared after every action.
(B) a real Host (connections made by injected HCI events, completions injected as
    Number Of Completed Packets) traced at the HCI boundary, validated by DataQueueTrace.tla.
"""
from __future__ import annotations

import asyncio
import os

from lib import tlc, tour, vt

LEVEL = "model_checking"
HANDLE = {1: 0x0040, 2: 0x0041, 3: 0x0042, 9: 0x0EEE}


def _cfg_text(conns, bufs, maxpkts, maxreport):
    return f"""SPECIFICATION Spec
CONSTANTS
  Conns = {{{', '.join(map(str, conns))}}}
  Ghost = 9
  Bufs = {bufs}
  MaxPkts = {maxpkts}
  MaxReport = {maxreport}
INVARIANT TypeOK
INVARIANT CreditBound
INVARIANT NoStall
INVARIANT Ledger
INVARIANT Fifo
INVARIANT DrainNotLate
INVARIANT SentOnce
CHECK_DEADLOCK FALSE
"""


def _write_cfg(ctx, name, text):
    p = os.path.join(ctx.out, name)
    with open(p, "w") as f:
        f.write(text)
    return p


# ----------------------------------------------------------------------------- (A) queue replay
class QueueReplayer:
    def __init__(self, bufs, conns, queue_factory=None):
        from bumble import hci
        from bumble.host import DataPacketQueue

        self.hci = hci
        self.loop = vt.new_loop()
        self.sent = []
        self.bufs = bufs
        self.conns = conns
        factory = queue_factory or DataPacketQueue
        self.q = factory(27, bufs, self._send)
        self.drains = {}
        self.enq = {c: 0 for c in conns}

    def _send(self, packet):
        self.sent.append((packet.connection_handle, packet.data[0]))

    def close(self):
        vt.close_loop(self.loop)

    def apply(self, name, args):
        hci = self.hci
        if name == "Enqueue":
            c = args[0]
            self.enq[c] += 1
            pkt = hci.HCI_AclDataPacket(HANDLE[c], 0, 0, 1, bytes([self.enq[c]]))
            self.q.enqueue(pkt, HANDLE[c])
        elif name == "Complete":
            self.q.on_packets_completed(args[1], HANDLE[args[0]])
        elif name == "CompleteUnknown":
            self.q.on_packets_completed(args[0], HANDLE[9])
        elif name == "Flush":
            self.q.flush(HANDLE[args[0]])
        elif name == "FlushUnknown":
            self.q.flush(HANDLE[9])
        elif name == "DrainCall":
            self.drains[args[0]] = self.loop.create_task(self.q.drain(HANDLE[args[0]]))
        elif name == "DrainCollect":
            self.drains.pop(args[0], None)
        else:
            raise ValueError(name)
        self.loop.settle()

    def compare(self, st):
        """Return list of (clause, detail) mismatches against spec state st."""
        bad = []
        inv = {h: c for c, h in HANDLE.items()}
        for c in self.conns:
            want = [p["k"] for p in st["sentLog"] if p["c"] == c]
            got = [k for (h, k) in self.sent if inv.get(h) == c]
            if got != want:
                if len(got) < len(want) and got == want[: len(got)]:
                    bad.append(("stall", f"conn {c}: handed over {got}, spec {want}"))
                elif len(got) > len(want) and want == got[: len(want)]:
                    bad.append(("overrun", f"conn {c}: handed over {got}, spec {want} (more in flight than buffers)"))
                else:
                    bad.append(("order", f"conn {c}: handed over {got}, spec {want}"))
        pending = len(st["waiting"]) + sum(st["inflight"].values()) if isinstance(st["inflight"], dict) else None
        if not bad:
            if self.q.pending != pending:
                bad.append(("pending", f"pending={self.q.pending}, spec {pending}"))
            elif self.q.queued != st["queued"] or self.q.completed != st["completed"]:
                bad.append(("counters", f"queued/completed={self.q.queued}/{self.q.completed}, spec {st['queued']}/{st['completed']}"))
        for c, task in self.drains.items():
            want = st["drain"][c]
            if want == "waiting" and task.done():
                how = "raised " + type(task.exception()).__name__ if task.exception() else "returned"
                bad.append(("drain-early", f"drain({c}) {how} while packets of {c} are pending"))
            if want == "done" and not task.done():
                bad.append(("drain-late", f"drain({c}) still blocked with nothing pending"))
        return bad


def _as_int_keys(d):
    return {int(k): v for k, v in d.items()} if isinstance(d, dict) else d


def _norm_state(st):
    st = dict(st)
    st["waiting"] = tlcseq(st["waiting"])
    st["sentLog"] = tlcseq(st["sentLog"])
    st["inflight"] = _as_int_keys(fn(st["inflight"]))
    st["drain"] = _as_int_keys(fn(st["drain"]))
    return st


def fn(v):
    """TLC prints a function with domain 1..n as a tuple."""
    if isinstance(v, tuple):
        return {i + 1: x for i, x in enumerate(v)}
    return v


def tlcseq(v):
    if isinstance(v, dict):
        return tuple(v[k] for k in sorted(v))
    return tuple(v)


def replay_queue(ctx, rep, conns, bufs, maxpkts, maxreport, queue_factory=None, mode="edges", limit=None):
    cfg = _write_cfg(ctx, f"dq_{len(conns)}_{bufs}_{maxpkts}.cfg", _cfg_text(conns, bufs, maxpkts, maxreport))
    res = tlc.mc(ctx.spec("Hci", "DataQueue.tla"), cfg, workers=8)
    if res["violation"]:
        raise tlc.TlcError(f"DataQueue.tla violates {res['violation']} in the model itself")
    tlc.require_actions(res, ["Enqueue", "Complete", "Flush", "DrainCall", "DrainCollect"], "DataQueue")
    rep.add_mc("Hci/DataQueue.tla", res, {"Conns": conns, "Bufs": bufs, "MaxPkts": maxpkts, "MaxReport": maxreport})
    g, _ = tlc.dump_graph(ctx.spec("Hci", "DataQueue.tla"), cfg)
    states = {n: _norm_state(s) for n, s in g.nodes.items()}
    paths = list(tour.edge_paths(g)) if mode == "edges" else tour.greedy_tours(g, max_len=60)
    if limit and len(paths) > limit:
        ctx.rng.shuffle(paths)
        paths = paths[:limit]
    covered = set()
    for path in paths:
        r = QueueReplayer(bufs, conns, queue_factory)
        ops = []
        try:
            for ei in path:
                s, d, name, args = g.edges[ei]
                ops.append([name, list(args)])
                try:
                    r.apply(name, args)
                    bad = r.compare(states[d])
                except Exception as e:  # the public API raised
                    bad = [("raise", f"{name}{args} raised {type(e).__name__}: {e}")]
                covered.add(ei)
                if bad:
                    clause, detail = bad[0]
                    rep.violation(
                        f"queue:{name}:{clause}",
                        f"DataPacketQueue(max_in_flight={bufs}) after {ops}: {detail}",
                        {"part": "queue", "bufs": bufs, "conns": conns, "ops": ops, "spec_state": repr(states[d])},
                    )
                    break
        finally:
            r.close()
        rep.traces += 1
        rep.case(("queue", bufs, tuple(map(tuple, map(lambda o: (o[0], tuple(o[1])), ops)))), nontrivial=len(ops) > 1, sample={"queue_ops": ops})
    return len(covered), len(g.edges)


def mc_notified(ctx, rep, conns, bufs, maxpkts, maxreport):
    """(M) DataQueue.tla with FlushNotified (a disconnection whose listeners still submit packets on the
    closing handle): the invariants hold in every reachable state.  The action is bound to the code by the
    host traces ('discn' events), not by the queue replay: a DataPacketQueue alone notifies nobody."""
    cfg = _write_cfg(ctx, f"dqn_{len(conns)}_{bufs}_{maxpkts}.cfg",
                     _cfg_text(conns, bufs, maxpkts, maxreport).replace("SPECIFICATION Spec", "SPECIFICATION SpecN"))
    res = tlc.mc(ctx.spec("Hci", "DataQueue.tla"), cfg, workers=8)
    if res["violation"]:
        raise tlc.TlcError(f"DataQueue.tla (SpecN) violates {res['violation']} in the model itself")
    tlc.require_actions(res, ["Enqueue", "Complete", "Flush", "FlushNotified"], "DataQueue/SpecN")
    rep.add_mc("Hci/DataQueue.tla (SpecN)", res, {"Conns": conns, "Bufs": bufs, "MaxPkts": maxpkts, "MaxReport": maxreport})


# ----------------------------------------------------------------------------- (A) pipe replay
class PipeReplayer:
    def __init__(self, has_drain, pipe_factory=None):
        from bumble.utils import FlowControlAsyncPipe

        self.loop = vt.new_loop()
        self.sunk = []
        self.calls = []
        self.fut = None
        self.has_drain = has_drain
        factory = pipe_factory or FlowControlAsyncPipe
        self.n = 0

        async def mk():
            self.pipe = factory(
                lambda: self.calls.append("pause"),
                lambda: self.calls.append("resume"),
                write_to_sink=lambda p: self.sunk.append(p[0]),
                drain_sink=self._drain if has_drain else None,
                threshold=2,
            )
            self.pipe.start()

        self.loop.run_until_complete(mk())
        self.loop.settle()

    async def _drain(self):
        self.fut = self.loop.create_future()
        await self.fut

    def close(self):
        try:
            self.pipe.stop()
        finally:
            vt.close_loop(self.loop)

    def apply(self, name):
        if name == "Write":
            self.n += 1
            self.pipe.write(bytes([self.n]) * (1 + self.n % 3))
        elif name in ("Pause", "PauseAgain"):
            self.pipe.pause()
        elif name in ("Resume", "ResumeAgain"):
            self.pipe.resume()
        elif name == "SinkDone":
            if self.fut is None or self.fut.done():
                raise AssertionError("sink not busy")
            self.fut.set_result(None)
        self.loop.settle()


def replay_pipe(ctx, rep, maxwrites, pipe_factory=None):
    total = 0
    for has_drain in (True, False):
        cfg = _write_cfg(
            ctx,
            f"pipe_{maxwrites}_{int(has_drain)}.cfg",
            f"SPECIFICATION Spec\nCONSTANTS\n  MaxWrites = {maxwrites}\n  HasDrain = {'TRUE' if has_drain else 'FALSE'}\n"
            "INVARIANT ExactlyOnceInOrder\nINVARIANT NoStall\nCHECK_DEADLOCK FALSE\n",
        )
        res = tlc.mc(ctx.spec("Hci", "Pipe.tla"), cfg, workers=4)
        if res["violation"]:
            raise tlc.TlcError(f"Pipe.tla violates {res['violation']}")
        tlc.require_actions(res, ["Write", "Pause", "Resume"] + (["SinkDone"] if has_drain else []), "Pipe")
        rep.add_mc("Hci/Pipe.tla", res, {"MaxWrites": maxwrites, "HasDrain": has_drain})
        g, _ = tlc.dump_graph(ctx.spec("Hci", "Pipe.tla"), cfg, workers=2)
        for path in tour.edge_paths(g):
            r = PipeReplayer(has_drain, pipe_factory)
            ops = []
            try:
                for ei in path:
                    s, d, name, args = g.edges[ei]
                    ops.append(name)
                    st = g.nodes[d]
                    try:
                        r.apply(name)
                    except Exception as e:
                        rep.violation(f"pipe:{name}:raise", f"pipe after {ops}: {type(e).__name__}: {e}", {"part": "pipe", "has_drain": has_drain, "ops": ops})
                        break
                    want = list(tlcseq(st["sunk"]))
                    if r.sunk != want:
                        clause = "order" if sorted(r.sunk) == sorted(want) else ("stall" if len(r.sunk) < len(want) else "early")
                        rep.violation(
                            f"pipe:{clause}",
                            f"FlowControlAsyncPipe(drain_sink={'yes' if has_drain else 'None'}) after {ops}: sink got {r.sunk}, spec {want}",
                            {"part": "pipe", "has_drain": has_drain, "ops": ops},
                        )
                        break
                    # source flow control: pause/resume callbacks strictly alternate
                    for i, c in enumerate(r.calls):
                        if c != ("pause" if i % 2 == 0 else "resume"):
                            rep.violation("pipe:source-callbacks", f"pipe after {ops}: source callbacks {r.calls} do not alternate", {"part": "pipe", "has_drain": has_drain, "ops": ops})
                            break
            finally:
                r.close()
            total += 1
            rep.traces += 1
            rep.case(("pipe", has_drain, tuple(ops)), nontrivial=len(ops) > 1, sample={"pipe_ops": ops, "has_drain": has_drain})
    return total


# ----------------------------------------------------------------------------- (B) host wiring
def host_traces(ctx, rep, n_traces, host_patch=None):
    """Real Host; connections injected; T1 recorded; completions injected."""
    from bumble import hci
    from bumble.core import PhysicalTransport
    from lib import rig

    groups = {}
    rng = ctx.rng
    for t in range(n_traces):
        # geometry: classic/LE queue sharing and buffer counts
        shared = rng.random() < 0.3
        bufs_c = rng.choice([1, 2, 3])
        bufs_le = rng.choice([1, 2, 3])
        nconn = rng.choice([1, 2, 3])
        kinds = [rng.choice(["le", "classic"]) for _ in range(nconn)]
        nops = rng.randint(6, 14)
        events = []

        async def scenario():
            from bumble.controller import Controller
            from bumble.host import Host

            controller = Controller("C", public_address=rig.addr(0))
            controller.total_num_acl_data_packets = bufs_c
            controller.total_num_le_acl_data_packets = 0 if shared else bufs_le
            controller.le_acl_data_packet_length = 0 if shared else 27
            host = Host()
            st = type("S", (), {})()
            st.tap = rig.HciTap(host, controller)
            await host.reset()
            if host_patch:
                host_patch(host)
            sent = []

            def filt(pkt):
                if pkt[0] == hci.HCI_ACL_DATA_PACKET:
                    p = hci.HCI_Packet.from_bytes(pkt)
                    sent.append(p.connection_handle)
                    return True
                return False

            st.tap.filter_h2c = filt
            handles = {}
            for i, kind in enumerate(kinds, start=1):
                h = 0x40 + i
                handles[i] = h
                if kind == "le":
                    ev = hci.HCI_LE_Connection_Complete_Event(
                        status=0, connection_handle=h, role=0, peer_address_type=0,
                        peer_address=hci.Address(rig.addr(i + 1)), connection_interval=6, peripheral_latency=0,
                        supervision_timeout=100, central_clock_accuracy=0)
                else:
                    ev = hci.HCI_Connection_Complete_Event(
                        status=0, connection_handle=h, bd_addr=hci.Address(rig.addr(i + 1)), link_type=1, encryption_enabled=0)
                host.on_packet(bytes(ev))
            await asyncio.sleep(0.01)
            assert set(host.connections) == set(handles.values()), (host.connections, handles)
            pool = {i: ("acl" if (shared or kinds[i - 1] == "classic") else "le") for i in handles}
            alive = set(handles)
            cnt = {i: 0 for i in handles}
            # a listener of the host's 'disconnection' event that still uses the link it is being told
            # about (a last response / notification): plan = fragments per PDU to submit on that handle
            notify = {"h": None, "plan": [], "ran": False}

            def on_disconnection(handle, reason):
                if handle != notify["h"]:
                    return
                notify["ran"] = True
                for nfrag in notify["plan"]:
                    try:
                        host.send_l2cap_pdu(handle, 0x40, bytes(27 * nfrag - 4))
                    except Exception:
                        # refusing data for a link that is going away is the implementation's right
                        pass

            host.on("disconnection", on_disconnection)

            def snap(e):
                e["snt"] = [sum(1 for h in sent if h == handles[i]) for i in sorted(handles)]
                q1 = host.acl_packet_queue
                q2 = host.le_acl_packet_queue
                e["pend_acl"] = q1.pending
                e["pend_le"] = q2.pending if q2 is not q1 else -1
                events.append(e)

            for _ in range(nops):
                r = rng.random()
                if r < 0.5 and alive:
                    i = rng.choice(sorted(alive))
                    nfrag = rng.choice([1, 1, 1, 2, 3])
                    # L2CAP PDU = 4-byte header + payload; max_packet_size 27
                    payload = bytes(27 * nfrag - 4 - rng.randint(0, 20))
                    host.send_l2cap_pdu(handles[i], 0x40, payload)
                    await asyncio.sleep(0.01)
                    for k in range(nfrag):
                        e = {"e": "enq", "c": i, "obs": k == nfrag - 1}
                        if k == nfrag - 1:
                            snap(e)
                        else:
                            e.update({"snt": [], "pend_acl": 0, "pend_le": 0})
                            events.append(e)
                elif r < 0.85:
                    # one Number Of Completed Packets event may report several handles, known or not
                    entries = []
                    for _k in range(rng.choice([1, 1, 2, 3])):
                        i = rng.choice(sorted(handles))
                        n = rng.choice([0, 1, 1, 1, 2, 2, 3, 4])
                        unknown = rng.random() < 0.25
                        entries.append((i, n, unknown))
                    ev = hci.HCI_Number_Of_Completed_Packets_Event(
                        connection_handles=[(0x0EEE if u else handles[i]) for (i, n, u) in entries],
                        num_completed_packets=[n for (i, n, u) in entries])
                    host.on_packet(bytes(ev))
                    await asyncio.sleep(0.01)
                    for k, (i, n, unknown) in enumerate(entries):
                        # a completion for a closed connection is a completion for an unknown handle
                        e = {"e": "ncpu" if (unknown or i not in alive) else "ncp", "c": i, "n": n, "obs": k == len(entries) - 1}
                        if e["obs"]:
                            snap(e)
                        else:
                            e.update({"snt": [], "pend_acl": 0, "pend_le": 0})
                            events.append(e)
                elif alive:
                    i = rng.choice(sorted(alive))
                    plan = [rng.choice([1, 1, 2]) for _ in range(rng.choice([1, 1, 2]))] if rng.random() < 0.5 else []
                    notify.update(h=handles[i], plan=plan, ran=False)
                    ev = hci.HCI_Disconnection_Complete_Event(status=0, connection_handle=handles[i], reason=0x13)
                    host.on_packet(bytes(ev))
                    await asyncio.sleep(0.01)
                    notify["h"] = None
                    alive.discard(i)
                    if plan and notify["ran"]:
                        snap({"e": "discn", "c": i, "n": sum(plan), "obs": True})
                    else:
                        snap({"e": "disc", "c": i, "obs": True})
            return pool

        try:
            pool = vt.run(scenario())
        except Exception as e:
            rep.violation(f"host:scenario-raise:{type(e).__name__}", f"host wiring scenario raised {type(e).__name__}: {e}", {"part": "host", "trace": events})
            continue
        # project onto the two independent buffer pools
        pools = {"acl": bufs_c} if shared else {"acl": bufs_c, "le": bufs_le}
        for pname, bufs in pools.items():
            tr = []
            for e in events:
                if e["e"] != "ncpu" and pool[e["c"]] != pname:
                    continue
                snt = [(x if pool.get(i + 1) == pname else 0) for i, x in enumerate(e["snt"])] if e["obs"] else []
                snt = (snt + [0, 0, 0])[:3]
                tr.append({"e": e["e"], "c": e["c"], "n": e.get("n", 0), "obs": e["obs"], "snt": snt,
                           "pend": (e["pend_acl"] if pname == "acl" else e["pend_le"])})
            if tr:
                groups.setdefault(bufs, []).append(tr)
    n_notified = sum(1 for trs in groups.values() for tr in trs for e in tr if e["e"] == "discn")
    rep.extra["host_disconnections_with_listener_traffic"] = rep.extra.get("host_disconnections_with_listener_traffic", 0) + n_notified
    if n_traces >= 60 and n_notified == 0:
        raise RuntimeError("host_traces: no disconnection whose listener submitted data was generated (vacuous)")
    for bufs, traces in sorted(groups.items()):
        cfg = _write_cfg(ctx, f"dqtrace_{bufs}.cfg",
                         f"SPECIFICATION TraceSpec\nCONSTANTS\n  Conns = {{1, 2, 3}}\n  Ghost = 9\n  Bufs = {bufs}\n  MaxPkts = 100000\n  MaxReport = 16\n"
                         "INVARIANT CreditBound\nINVARIANT NoStall\nINVARIANT Ledger\nCHECK_DEADLOCK FALSE\n")
        res = tlc.trace_batch(ctx.spec("Hci", "DataQueueTrace.tla"), cfg, traces)
        rep.extra["trace_states"] = rep.extra.get("trace_states", 0) + res["states"]
        for tid, v in res["verdicts"].items():
            tr = traces[tid - 1]
            rep.traces += 1
            rep.case(("host", bufs, tuple((e["e"], e["c"], e["n"]) for e in tr)), nontrivial=len(tr) > 2,
                     sample={"host_trace_bufs": bufs, "events": tr[:5]} if tid == 1 else None)
            if v[0] == "REJECT":
                l = v[1]
                ev = tr[l - 1] if 0 < l <= len(tr) else None
                rep.violation(
                    f"host:{ev['e'] if ev else 'none'}:rejected",
                    f"host wiring trace (buffers={bufs}) rejected at event {l}: {ev}; spec state before it: {v[3] if len(v) > 3 else ''}",
                    {"part": "host", "bufs": bufs, "trace": tr, "line": l},
                )


# ----------------------------------------------------------------------------- entry points
def run(ctx, rep):
    rep.rule = ("(A) one replay per edge of the TLC state graph of DataQueue.tla / Pipe.tla (shortest path from Init + the edge) on the real "
                "DataPacketQueue / FlowControlAsyncPipe; (B) seeded Host scenarios validated by DataQueueTrace.tla; distinct = distinct operation sequences of length > 1")
    rep.assumptions = ["over-reported completions release only the reported connection's buffers (DESIGN Appendix D)",
                       "virtual-time event loop preserves asyncio callback order"]
    if ctx.quick:
        replay_queue(ctx, rep, [1, 2], 2, 4, 3, mode="edges", limit=12000)
        replay_queue(ctx, rep, [1, 2], 1, 3, 2, mode="edges")
        mc_notified(ctx, rep, [1, 2], 2, 4, 3)
        replay_pipe(ctx, rep, 4)
        host_traces(ctx, rep, 300)
    else:
        replay_queue(ctx, rep, [1, 2], 2, 5, 3, mode="edges")
        replay_queue(ctx, rep, [1, 2, 3], 3, 5, 4, mode="edges", limit=150000)
        replay_queue(ctx, rep, [1, 2], 1, 4, 2, mode="edges")
        mc_notified(ctx, rep, [1, 2, 3], 2, 5, 3)
        replay_pipe(ctx, rep, 6)
        host_traces(ctx, rep, 4000)
    # (B') the repository's own tests, traced at the HCI boundary, against specs/Stack/HciMonitor.tla
    from lib import repotests

    repotests.report(ctx, rep, "C04_")
    rep.exhaustive = not ctx.quick


def replay(ctx, rep):
    r = ctx.replay["replay"]
    if r["part"] == "queue":
        q = QueueReplayer(r["bufs"], r["conns"])
        try:
            for name, args in r["ops"]:
                q.apply(name, tuple(args))
                print(name, args, "-> sent", q.sent, "pending", q.q.pending, {c: t.done() for c, t in q.drains.items()})
        finally:
            q.close()
        print("expected spec state:", r.get("spec_state"))
    elif r["part"] == "pipe":
        p = PipeReplayer(r["has_drain"])
        try:
            for name in r["ops"]:
                p.apply(name)
                print(name, "-> sunk", p.sunk)
        finally:
            p.close()
    else:
        print(r)
    rep.violation(ctx.replay["sig"], ctx.replay["summary"], r)


def selftest(ctx, rep):
    """Binding self-test: mutant shims must be caught; corrupted traces must be rejected."""
    import collections

    from bumble.host import DataPacketQueue
    from bumble.utils import FlowControlAsyncPipe

    class LifoQueue(DataPacketQueue):
        def enqueue(self, packet, connection_handle):
            self._packets.append((packet, connection_handle))
            self._queued += 1
            self._check_queue()

    class GreedyQueue(DataPacketQueue):
        def _check_queue(self):
            self.max_in_flight += 1
            try:
                super()._check_queue()
            finally:
                self.max_in_flight -= 1

    results = {}
    for name, fac in (("lifo", LifoQueue), ("greedy", GreedyQueue)):
        r2 = type(rep)(rep.prop, rep.level)
        replay_queue(ctx, r2, [1, 2], 2, 4, 3, queue_factory=fac, limit=3000)
        results[name] = len(r2.violations)

    class LifoPipe(FlowControlAsyncPipe):
        def write(self, packet):
            self.queued_bytes += len(packet)
            self.queue.appendleft(packet)
            self.check_pump()

    r3 = type(rep)(rep.prop, rep.level)
    replay_pipe(ctx, r3, 3, pipe_factory=LifoPipe)
    results["lifo_pipe"] = len(r3.violations)

    def patch(host):
        q = host.acl_packet_queue
        q.max_in_flight += 1

    r4 = type(rep)(rep.prop, rep.level)
    host_traces(ctx, r4, 60, host_patch=patch)
    results["host_extra_credit"] = len(r4.violations)

    def patch_flush_first(host):
        # the queues of a closing link are flushed BEFORE its listeners are told about it (and not after)
        orig = host.on_hci_disconnection_complete_event

        def on_hci_disconnection_complete_event(event):
            queues = list({id(q): q for q in (host.acl_packet_queue, host.le_acl_packet_queue) if q}.values())
            if event.connection_handle in host.connections:
                for q in queues:
                    q.flush(event.connection_handle)
            for q in queues:
                q.flush = lambda handle: None
            try:
                return orig(event)
            finally:
                for q in queues:
                    del q.flush

        host.on_hci_disconnection_complete_event = on_hci_disconnection_complete_event

    r5 = type(rep)(rep.prop, rep.level)
    host_traces(ctx, r5, 60, host_patch=patch_flush_first)
    results["host_flush_before_notify"] = len([v for v in r5.violations if v.sig == "host:discn:rejected"])
    print("selftest:", results)
    for k, v in results.items():
        if v == 0:
            rep.violation(f"selftest:{k}", f"binding self-test: mutant shim {k} was not detected")
