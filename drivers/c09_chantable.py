"""C09: L2CAP channel tables stay exact; closed identifiers are reusable; waiters are released.

(M) specs/L2cap/ChanTable.tla model-checked by TLC: per side and connection the channels (own CID, peer CID, state), the
    bookkeeping tables the code consults (channels / le_coc_channels / pending requests), waiters; actions OpenReq (LE credit
    based, enhanced credit based with several channels, classic), RecvCreq (accept / refuse), RecvCrsp, CancelConnect, CloseReq by
    either side (both at once = simultaneous close), RecvDreq, RecvDrsp, Abort, Drain, LinkDown at every step, LinkUp;
    invariants Inv_Exact, Inv_Agree, Inv_Unique, Inv_Reusable, Inv_Released, action property Frame_Indep.  Named deviations of
    the model (the defects the property was written for) are negative controls: each must break its invariant.
(A) the bounded state graphs are dumped; one history per transition (shortest path from Init + the transition, projected on
    the user operations; operations with no handler step between them are issued in the same event loop iteration) is
    executed on a real 3-device network: one central holding two links on ONE ChannelManager, two peripherals that are real
    bumble stacks or scripted raw L2CAP peers choosing their own CIDs (lib.c09_puppet), LE and classic links.
(B) after every batch the virtual-time loop runs to quiescence and the projection of ChannelManager.channels /
    le_coc_channels / le_coc_requests / pending_credit_based_connections / identifiers of both ends of both links, the outcomes
    of the awaited calls and the calls still blocked are logged; specs/L2cap/ChanTableTrace.tla (TLC) gives the verdict.
"""
from __future__ import annotations

import json
import multiprocessing
import os
import random
import time
from concurrent.futures import ThreadPoolExecutor

from lib import c09_tours as T
from lib import tlc

LEVEL = "model_checking"

MC_ACTIONS = ["OpenReq", "RecvCreqP", "RecvCrsp", "CancelConnect", "CloseReq", "RecvDreq", "RecvDrsp", "Abort", "Drain", "LinkDown", "LinkUp"]
# named deviation of the model -> properties one of which TLC must report as violated
CONTROLS = {
    "le_elif": {"invariant Inv_Exact", "invariant Inv_Reusable"},
    "req_by_ident": {"invariant Inv_Exact", "invariant Inv_Reusable", "action property Frame_Indep"},
    "no_release": {"invariant Inv_Released"},
    "local_cid_key": {"invariant Inv_Exact", "invariant Inv_Reusable"},
    "keep_le_on_down": {"invariant Inv_Exact"},
}
LINKS = [["le", "le"], ["le", "classic"], ["classic", "le"], ["classic", "classic"]]
PEERS = [["bumble", "bumble"], ["puppet", "puppet"], ["bumble", "puppet"], ["puppet", "bumble"]]
PUPPET_CIDS = ["high", "reuse", "rotate", "same"]


def _tick(rep, key, dt):
    t = rep.extra.setdefault("timing", {})
    t[key] = round(t.get(key, 0) + dt, 1)


# ----------------------------------------------------------------------------- (M) model checking
def mc_plan(quick):
    if quick:
        return [
            ("1 link, 6 operations at quiescence", dict(conns=[1], le=[1], cids=[1, 2], maxops=6, kinds=["le"], atomic=True), False),
            ("1 link, 4 operations, every interleaving", dict(conns=[1], le=[1], cids=[1, 2], maxops=4, kinds=["le"], atomic=False), False),
            ("1 link, 3 operations, every interleaving, enhanced requests", dict(conns=[1], le=[1], cids=[1, 2], maxops=3, kinds=["le", "ecred"], atomic=False), True),
            ("2 links, 3 operations, every interleaving", dict(conns=[1, 2], le=[1, 2], cids=[1, 2], maxops=3, kinds=["le"], atomic=False), False),
            ("2 links (LE + classic), 3 operations at quiescence", dict(conns=[1, 2], le=[1], cids=[1, 2], maxops=3, kinds=["le", "classic"], atomic=True), True),
        ]
    return [
        ("1 link, all history lengths, operations at quiescence", dict(conns=[1], le=[1], cids=[1, 2], maxops=0, kinds=["le", "ecred"], atomic=True), False),
        ("1 classic link, all history lengths, operations at quiescence", dict(conns=[1], le=[], cids=[1, 2], maxops=0, kinds=["classic"], atomic=True), False),
        ("1 link, 5 operations, every interleaving", dict(conns=[1], le=[1], cids=[1, 2], maxops=5, kinds=["le"], atomic=False), False),
        ("1 link, 3 operations, every interleaving, enhanced requests", dict(conns=[1], le=[1], cids=[1, 2], maxops=3, kinds=["le", "ecred"], atomic=False), True),
        ("1 link, 4 operations, every interleaving, enhanced requests", dict(conns=[1], le=[1], cids=[1, 2], maxops=4, kinds=["le", "ecred"], atomic=False), False),
        ("2 links, 3 operations, every interleaving", dict(conns=[1, 2], le=[1, 2], cids=[1, 2], maxops=3, kinds=["le"], atomic=False), True),
        ("2 links, 4 operations, every interleaving", dict(conns=[1, 2], le=[1, 2], cids=[1, 2], maxops=4, kinds=["le"], atomic=False), False),
        ("2 links (LE + classic), 4 operations at quiescence", dict(conns=[1, 2], le=[1], cids=[1, 2], maxops=4, kinds=["le", "classic"], atomic=True), True),
        ("2 links (LE + classic), 5 operations at quiescence", dict(conns=[1, 2], le=[1], cids=[1, 2], maxops=5, kinds=["le", "classic"], atomic=True), False),
    ]


def _mc_one(ctx, idx, name, kw, want_graph):
    spec = ctx.spec("L2cap", "ChanTable.tla")
    cfg = T.write_cfg(ctx, f"chantable_mc_{idx}.cfg", T.cfg_text(**kw))
    if want_graph:
        d = tlc._scratch("c09graph")
        dot = os.path.join(d, "g.dot")
        try:
            res = tlc.mc(spec, cfg, workers=4, coverage=True, dump=dot, timeout=3000)
            graph = T.read_edges(dot) if not res["violation"] else None
        finally:
            import shutil

            shutil.rmtree(d, ignore_errors=True)
    else:
        res = tlc.mc(spec, cfg, workers=4, coverage=True, timeout=3000)
        graph = None
    return name, kw, res, graph


def _control_one(ctx, bug):
    spec = ctx.spec("L2cap", "ChanTable.tla")
    kw = dict(conns=[1, 2], le=[1, 2], cids=[1, 2], maxops=5, kinds=["le", "ecred"], atomic=True, bugs=[bug])
    cfg = T.write_cfg(ctx, f"chantable_control_{bug}.cfg", T.cfg_text(**kw))
    res = tlc.mc(spec, cfg, workers=2, coverage=False, timeout=1500)
    return bug, res


def start_model_checking(ctx, pool):
    futs = [pool.submit(_mc_one, ctx, i, name, kw, g) for i, (name, kw, g) in enumerate(mc_plan(ctx.quick))]
    ctl = [pool.submit(_control_one, ctx, bug) for bug in CONTROLS]
    return futs, ctl


def collect_controls(rep, ctl):
    caught = {}
    for f in ctl:
        bug, res = f.result()
        if res["violation"] not in CONTROLS[bug]:
            raise tlc.TlcError(f"negative control: the deviation '{bug}' of ChanTable.tla does not break {sorted(CONTROLS[bug])} "
                               f"(TLC: {res['violation']}); the invariants are vacuous")
        caught[bug] = res["violation"]
    rep.extra["negative_controls"] = caught


def collect_mc(rep, futs):
    graphs = []
    for f in futs:
        name, kw, res, graph = f.result()
        if res["violation"]:
            raise tlc.TlcError(f"ChanTable.tla [{name}] violates {res['violation']} in the model itself:\n{res['out'][-2500:]}")
        tlc.require_actions(res, [a for a in MC_ACTIONS if a != "Drain" or set(kw["kinds"]) & {"le", "ecred"}], f"ChanTable [{name}]")
        rep.add_mc(f"L2cap/ChanTable.tla [{name}]", res, kw)
        _tick(rep, "model_checking_cpu_s", res["wall_s"])
        if graph is not None:
            graphs.append((name, kw, graph))
    return graphs


# ----------------------------------------------------------------------------- scenarios
def _decorate(steps, i, rng, links=None, peers=None):
    """make an executable scenario of a history: link kinds, peers, delays, who drops the link and when"""
    links = links or LINKS[i % len(LINKS)]
    peers = peers or PEERS[(i // len(LINKS)) % len(PEERS)]
    alt = rng.randrange(2)
    out = []
    for batch in steps:
        b = []
        for op in batch:
            op = dict(op)
            if op["k"] == "open":
                op["alt"] = alt  # the same PSM again after a close
            if op["k"] == "down":
                op["s"] = rng.choice("cp")
                op["at"] = rng.choice([0, 0, 1, 2, 3, 4, 5, 6, 8]) if len(batch) > 1 else 0
            b.append(op)
        out.append(b)
    return {"seed": rng.randrange(1 << 30), "hci_delay": rng.choice([0.0, 0.0, 0.002, 0.02]), "links": list(links), "peers": list(peers),
            "puppet": {"cids": PUPPET_CIDS[i % len(PUPPET_CIDS)], "refuse": rng.choice([2, 2, 4, 5])}, "steps": out}


def canonical(rng):
    """the histories the property names, for every kind, peer and closing side: open / close / open with the same PSM (a peer
    re-using its CID), two links at once, simultaneous close, refusals, link drops with operations outstanding"""
    out = []
    i = 0
    for links in LINKS:
        for peers in PEERS:
            k1, k2 = ("le" if links[0] == "le" else "classic"), ("le" if links[1] == "le" else "classic")
            e1 = "ecred" if links[0] == "le" else "classic"
            for opener, closer in (("c", "c"), ("c", "p"), ("p", "c"), ("p", "p")):
                steps = [
                    [{"k": "open", "s": opener, "c": 1, "kind": k1, "psm": "srv"}, {"k": "open", "s": opener, "c": 2, "kind": k2, "psm": "srv"}],
                    [{"k": "close", "s": closer, "c": 1, "i": 0}],
                    [{"k": "open", "s": opener, "c": 1, "kind": k1, "psm": "srv"}, {"k": "open", "s": "c", "c": 2, "kind": k2, "psm": "none"}],
                    [{"k": "open", "s": opener, "c": 1, "kind": e1, "n": 2, "psm": "srv"}],
                    [{"k": "close", "s": "c", "c": 1, "i": 1}, {"k": "close", "s": "p", "c": 1, "i": 1}, {"k": "close", "s": closer, "c": 2, "i": 0}],
                    [{"k": "open", "s": closer, "c": 1, "kind": e1, "n": 2, "psm": "srv"}, {"k": "open", "s": closer, "c": 2, "kind": k2, "psm": "srv"}],
                    [{"k": "drain", "s": "c", "c": 1, "i": 0}, {"k": "close", "s": opener, "c": 2, "i": 0}, {"k": "down", "c": 2}],
                    [{"k": "close", "s": closer, "c": 1, "i": 0}],
                    [{"k": "open", "s": opener, "c": 1, "kind": k1, "psm": "srv"}, {"k": "down", "c": 1}, {"k": "up", "c": 2}],
                    [{"k": "up", "c": 1}],
                    [{"k": "open", "s": "c", "c": 1, "kind": k1, "psm": "srv"}, {"k": "open", "s": "c", "c": 2, "kind": k2, "psm": "srv"}],
                    [{"k": "drain", "s": "c", "c": 1, "i": 0}, {"k": "drain", "s": "p", "c": 1, "i": 0}],
                    [{"k": "abort", "s": closer, "c": 1, "i": 0}, {"k": "cancel", "s": "c", "c": 2}],
                    [{"k": "down", "c": 1}, {"k": "close", "s": opener, "c": 2, "i": 0}],
                ]
                out.append(_decorate(steps, i, rng, links, peers))
                i += 1
    out += special(rng)
    # "identifiers of closed channels can be used again": one channel stays open while another is closed and opened again, more
    # often than the dynamic CID range is long (an allocator that never goes back runs out although one or two channels are open)
    # the peer closes its end of a channel this side no longer has (aborted, or its connect given up) while this side opens a new
    # channel; then the link drops: whatever the two ends made of it, every call has ended
    for side, other in (("c", "p"), ("p", "c")):
        for first in ([{"k": "open", "s": side, "c": 1, "kind": "le", "psm": "srv"}],
                      [{"k": "open", "s": side, "c": 1, "kind": "le", "psm": "srv"}, {"k": "cancel", "s": side, "c": 1}]):
            steps = [first]
            if len(first) == 1:
                steps.append([{"k": "abort", "s": side, "c": 1, "i": 0}])
            steps += [[{"k": "close", "s": other, "c": 1, "i": 0}, {"k": "open", "s": side, "c": 1, "kind": "le", "psm": "srv"}],
                      [{"k": "down", "c": 1}], [{"k": "up", "c": 1}], [{"k": "open", "s": side, "c": 1, "kind": "le", "psm": "srv"}]]
            out.append(_decorate(steps, 0, rng, ["le", "le"], ["bumble", "bumble"]))
    for peers in (["bumble", "bumble"], ["puppet", "puppet"]):
        steps = [[{"k": "open", "s": "c", "c": 1, "kind": "le", "psm": "srv"}], [{"k": "open", "s": "c", "c": 1, "kind": "le", "psm": "srv"}]]
        for _ in range(66):
            steps.append([{"k": "close", "s": "c", "c": 1, "i": 0}, {"k": "open", "s": "c", "c": 1, "kind": "le", "psm": "srv"}])
        out.append(_decorate(steps, 0, rng, ["le", "le"], peers))
    return out


def special(rng):
    """refusals only a raw peer can produce; tagged, so that their signatures name the input class"""
    out = []
    for k, cids in enumerate(PUPPET_CIDS[:2]):
        # a peer that does not know the request at all answers with Command Reject (e.g. enhanced credit based requests to an older stack)
        steps = [
            [{"k": "open", "s": "c", "c": 1, "kind": "le", "psm": "none"}, {"k": "open", "s": "c", "c": 2, "kind": "ecred", "n": 2, "psm": "none"}],
            [{"k": "open", "s": "c", "c": 1, "kind": "ecred", "n": 2, "psm": "srv"}, {"k": "open", "s": "c", "c": 2, "kind": "le", "psm": "srv"}],
            [{"k": "close", "s": "c", "c": 1, "i": 0}, {"k": "open", "s": "c", "c": 2, "kind": "le", "psm": "none"}],
            [{"k": "open", "s": "c", "c": 1, "kind": "le", "psm": "srv"}],
        ]
        sc = _decorate(steps, k, rng, ["le", "le"], ["puppet", "puppet"])
        sc["puppet"] = {"cids": cids, "refuse": "reject"}
        sc["tag"] = "command-reject"
        out.append(sc)
        # an enhanced credit based request accepted in part
        steps = [
            [{"k": "open", "s": "c", "c": 1, "kind": "ecred", "n": 2, "psm": "srv"}],
            [{"k": "open", "s": "c", "c": 1, "kind": "ecred", "n": 2, "psm": "srv"}, {"k": "open", "s": "c", "c": 2, "kind": "ecred", "n": 3, "psm": "srv"}],
            [{"k": "open", "s": "c", "c": 1, "kind": "le", "psm": "srv"}],
        ]
        sc = _decorate(steps, k, rng, ["le", "le"], ["puppet", "puppet"])
        sc["puppet"] = {"cids": cids, "refuse": 2, "partial": 1}
        sc["tag"] = "ecred-partial"
        out.append(sc)
    return out


def generated(rng, n, nsteps):
    out = []
    for i in range(n):
        links = LINKS[i % len(LINKS)]
        steps = []
        for _ in range(nsteps):
            batch = []
            for _ in range(rng.choice([1, 1, 2, 2, 3])):
                c = rng.choice([1, 2])
                s = rng.choice("cp")
                r = rng.random()
                kind = "classic" if links[c - 1] == "classic" else rng.choice(["le", "le", "ecred"])
                if r < 0.38:
                    batch.append({"k": "open", "s": s, "c": c, "kind": kind, "n": rng.choice([1, 2, 3]), "psm": rng.choice(["srv", "srv", "srv", "none"])})
                elif r < 0.68:
                    batch.append({"k": "close", "s": s, "c": c, "i": rng.randrange(3)})
                elif r < 0.76:
                    batch.append({"k": "drain", "s": s, "c": c, "i": rng.randrange(3)})
                elif r < 0.82:
                    batch.append({"k": "abort", "s": s, "c": c, "i": rng.randrange(3)})
                elif r < 0.87:
                    batch.append({"k": "cancel", "s": s, "c": c})
                elif r < 0.94:
                    batch.append({"k": "down", "c": c})
                else:
                    batch.append({"k": "up", "c": c})
            steps.append(batch)
            if rng.random() < 0.15:
                steps.append([{"k": "up", "c": 1}, {"k": "up", "c": 2}])
        out.append(_decorate(steps, i, rng, links))
    return out


def tour_scenarios(ctx, rep, graphs, budget):
    out = []
    info = {}
    for name, kw, (init, edges) in graphs:
        hs, covered = T.histories(init, edges)
        if len(kw["conns"]) == 1:
            hs = [T.merge(h, T.relabel(hs[(j * 7 + 3) % len(hs)], 2)) for j, h in enumerate(hs)]
        total = len(hs)
        if len(hs) > budget:
            ctx.rng.shuffle(hs)
            hs = hs[:budget]
        info[name] = {"graph_edges": len(edges), "edges_on_a_path": covered, "distinct_histories": total, "executed": len(hs)}
        for i, h in enumerate(hs):
            out.append(_decorate(h, i, ctx.rng))
    rep.extra["tours"] = info
    return out


# ----------------------------------------------------------------------------- execution and validation
def _run_one(sc):
    import logging

    logging.disable(logging.CRITICAL)
    from lib import c09_rig as R

    try:
        return R.run_scenario(sc)
    except Exception as e:
        import traceback

        return {"error": f"{type(e).__name__}: {e}\n{traceback.format_exc()[-1800:]}"}


def execute(scenarios, procs):
    """procs: a multiprocessing pool (forked before any thread was started), or None = in this process"""
    if procs is None or len(scenarios) < 8:
        return [_run_one(sc) for sc in scenarios]
    return procs.map(_run_one, scenarios, chunksize=4)


def trace_cfg(ctx, le, ncids):
    text = T.cfg_text(conns=[1, 2], le=le, cids=list(range(1, ncids + 1)), maxops=0, maxreq=8, maxn=4, record=True, spec="TraceSpec", ops=T.ALL_OPS_PARTIAL,
                      invariants=[], frame=False)
    return T.write_cfg(ctx, f"chantable_trace_{'_'.join(map(str, le)) or 'none'}_{ncids}.cfg", text)


def _after(trace, l, c):
    """the user operations of the batch before event l that concern connection c (all if c == 0)"""
    ks = set()
    j = l - 2
    while j >= 0 and trace[j]["e"] in ("res", "tables", "quiesce"):
        j -= 1
    while j >= 0 and trace[j]["e"] in ("op", "linkdown", "linkup"):
        e = trace[j]
        if c == 0 or e["c"] == c:
            ks.add(e["k"] if e["e"] == "op" else e["e"])
        j -= 1
    return "+".join(sorted(ks)) or "none"


def signature(sc, result, verdict):
    sig, what = _signature(sc, result, verdict)
    if sc.get("tag"):
        sig = sig.replace("chantable:", f"chantable[{sc['tag']}]:", 1)
    return sig, what


def _signature(sc, result, verdict):
    trace = result["trace"]
    l = verdict[1]
    if not (0 < l <= len(trace)):
        return "chantable:no-verdict", "TLC printed no verdict for the trace"
    e = trace[l - 1]
    info = verdict[3] if len(verdict) > 3 and isinstance(verdict[3], dict) else {}
    why = info.get("why", {}) if isinstance(info.get("why", {}), dict) else {}
    failed = sorted(k for k, v in why.items() if v is False)
    details = result.get("details", {})
    if e["e"] == "tables":
        link = sc["links"][e["c"] - 1]
        peer = sc["peers"][e["c"] - 1] if e["s"] == "p" else "bumble"
        sig = f"chantable:{link}:tables:{e['s']}-{peer}:{'+'.join(failed) or 'state'}:after-{_after(trace, l, e['c'])}"
        what = (f"{peer} end '{e['s']}' of link {e['c']} ({link}) at quiescence: channels={result['raw'][l - 1]['S']} le_coc_channels={result['raw'][l - 1]['L']} "
                f"pending={e['R']} stale-entries={e['g']}; clauses refused: {failed}")
    elif e["e"] == "res":
        d = details.get(str(e["o"]), [["?", "?"], e["out"], ""])
        opk = "-".join(d[0])
        c = next((x["c"] for x in trace if x["e"] == "op" and x["o"] == e["o"]), 0)
        link = sc["links"][c - 1] if c else "?"
        sig = f"chantable:{link}:res:{opk}:{e['out']}:after-{_after(trace, l, c)}"
        what = f"operation {e['o']} ({opk}) on link {c} ended '{e['out']}' ({d[2]}); the specification allows no such outcome here ({failed})"
    elif e["e"] == "quiesce":
        st = info.get("st", {})
        spec_waiters = {w["o"] if isinstance(w, dict) else dict(w).get("o") for w in st.get("waiters", [])} if st else set()
        hung = [o for o in e["W"] if o not in spec_waiters]
        def kind_of(o):
            d = details.get(str(o))
            return "-".join(d[0]) if d else "-".join(result.get("hangs", {}).get(str(o), ["?", "?"]))

        kinds = sorted({kind_of(o) for o in hung})
        sig = f"chantable:quiesce:{'hang:' + '+'.join(kinds) if hung else '+'.join(failed) or 'state'}:after-{_after(trace, l, 0)}"
        what = f"at quiescence the awaited calls {e['W']} have not ended; not allowed to wait any more: {hung} ({kinds}); clauses refused: {failed}"
    elif e["e"] == "op" and e["k"] == "open" and not e["S"]:
        link = sc["links"][e["c"] - 1]
        d = details.get(str(e["o"]), [["open", e["kind"]], "pending", ""])
        exc = (d[2].split(":")[0] or d[1]) if d[1] != "ok" else "ok"
        sig = f"chantable:{link}:op:open-{e['kind']}:no-channel-allocated:{exc}:after-{_after(trace, l, e['c'])}"
        what = (f"operation {e['o']} (open-{e['kind']} by '{e['s']}' on link {e['c']}) allocated no channel: the call ended at once with '{d[1]}' ({d[2]}) "
                f"although the link is up and CIDs are free")
    else:
        link = sc["links"][e["c"] - 1] if e.get("c") else "?"
        sig = f"chantable:{link}:{e['e']}:{e.get('k', '')}:not-enabled"
        what = f"user operation { {k: v for k, v in e.items() if k not in ('nx', 'seen')} } is not possible in the specification's state"
    return sig, what


def validate(ctx, rep, scenarios, results, threads=6, tag=""):
    groups = {}
    for i, (sc, r) in enumerate(zip(scenarios, results)):
        if "error" in r:
            raise RuntimeError(f"harness failure in scenario {json.dumps(sc)}:\n{r['error']}")
        le = [c for c in (1, 2) if sc["links"][c - 1] == "le"]
        ncids = max(12, ((r["ncids"] + 11) // 12) * 12)
        groups.setdefault((tuple(le), ncids), []).append(i)
    jobs = []
    for (le, ncids), idxs in sorted(groups.items()):
        cfg = trace_cfg(ctx, list(le), ncids)
        size = max(40, (len(idxs) + 1) // 2)
        for k in range(0, len(idxs), size):
            jobs.append((cfg, idxs[k : k + size]))
    spec = ctx.spec("L2cap", "ChanTableTrace.tla")

    def job(cfg, idxs):
        return idxs, tlc.trace_batch(spec, cfg, [results[i]["trace"] for i in idxs], timeout=3000, tag="c09trace")

    t0 = time.time()
    with ThreadPoolExecutor(threads) as tp:
        outs = list(tp.map(lambda a: job(*a), jobs))
    _tick(rep, "trace_validation_s", time.time() - t0)
    nviol = 0
    for idxs, res in outs:
        rep.extra["trace_states"] = rep.extra.get("trace_states", 0) + res["states"]
        for k, i in enumerate(idxs):
            sc, r = scenarios[i], results[i]
            v = res["verdicts"][k + 1]
            rep.traces += 1
            key = json.dumps([sc["links"], sc["peers"], [[(o["k"], o.get("s"), o["c"], o.get("kind"), o.get("psm"), o.get("i")) for o in b] for b in sc["steps"]]])
            nops = sum(1 for e in r["trace"] if e["e"] in ("op", "linkdown", "linkup"))
            rep.case(key, nontrivial=nops >= 2, sample={"links": sc["links"], "peers": sc["peers"], "steps": sc["steps"][:4]} if i < 3 else None)
            ev_counts = rep.extra.setdefault("trace_events", {})
            for e in r["trace"]:
                name = e["e"] + (":" + e["k"] if e["e"] == "op" else "")
                ev_counts[name] = ev_counts.get(name, 0) + 1
            if v[0] == "REJECT":
                nviol += 1
                sig, what = signature(sc, r, v)
                rep.violation(sig, f"{what}\n  links={sc['links']} peers={sc['peers']} puppet={sc.get('puppet')} rejected at event {v[1]} of {len(r['trace'])}",
                              {"scenario": sc, "line": v[1], "event": r["trace"][v[1] - 1] if 0 < v[1] <= len(r["trace"]) else None,
                               "tlc": repr(v[3])[:3000] if len(v) > 3 else "", "details": r.get("details"), "hangs": r.get("hangs")})
    return nviol


# ----------------------------------------------------------------------------- entry points
def run(ctx, rep):
    rep.rule = ("(A) one history per transition of the dumped TLC state graphs of ChanTable.tla (shortest path from Init + the transition, projected on "
                "user operations, de-duplicated; sampled by the seed in the quick tier) plus the property's canonical histories for every link kind / "
                "peer / closing side and seeded random histories, executed on a real 3-device network; (B) every execution validated by "
                "ChanTableTrace.tla; distinct = distinct (link kinds, peers, operation script) with at least 2 user operations")
    rep.assumptions = [
        "after a local abort() or a cancelled connect the peer's end of that channel is an orphan until the link drops: table agreement between the ends, "
        "le_coc_channels exactness and 'opening succeeds' are not required on that link until then (the aborting side's own tables and waiters are)",
        "a Disconnection Request for a CID that is no channel need not be answered (a disconnect() on an orphan may wait for the link to drop)",
        "drain() may return at any time; it has to return once the channel or link is gone",
        "quiescence = 4 virtual seconds without user operations (no L2CAP procedure used here has a time-out)",
    ]
    quick = ctx.quick
    t0 = time.time()
    procs = multiprocessing.get_context("fork").Pool(8 if quick else 12)  # forked while this process is still single-threaded
    pool = ThreadPoolExecutor(6 if quick else 4)
    futs, ctl = start_model_checking(ctx, pool)
    # while TLC works: the histories that need no graph
    scen = canonical(ctx.rng) + generated(ctx.rng, 80 if quick else 1000, 8 if quick else 12)
    t1 = time.time()
    results = execute(scen, procs)
    _tick(rep, "execution_s", time.time() - t1)
    validate(ctx, rep, scen, results, threads=4 if quick else 8)
    graphs = collect_mc(rep, futs)
    collect_controls(rep, ctl)
    pool.shutdown()
    _tick(rep, "model_checking_wall_s", time.time() - t0)
    tours = tour_scenarios(ctx, rep, graphs, 200 if quick else 2000)
    t1 = time.time()
    results2 = execute(tours, procs)
    procs.close()
    _tick(rep, "execution_s", time.time() - t1)
    validate(ctx, rep, tours, results2, threads=6 if quick else 10)
    scen += tours
    results += results2
    rep.extra["scenarios"] = {"canonical": len(canonical(random.Random(0))), "total": len(scen)}
    rep.extra["skipped_operations"] = sum(r.get("info", {}).get("skipped", 0) for r in results)
    rep.exhaustive = False


def replay(ctx, rep):
    from lib import c09_rig as R

    r = ctx.replay["replay"]
    sc = r["scenario"]
    res = R.run_scenario(sc)
    for i, e in enumerate(res["raw"], start=1):
        print(i, {k: v for k, v in e.items() if v not in ("", 0, [])})
    print("outcomes:", res["details"])
    print("still blocked:", res["hangs"])
    sub = type(rep)(rep.prop, rep.level)
    validate(ctx, sub, [sc], [res], threads=1)
    for v in sub.violations:
        print("TLC:", v.sig, "\n ", v.summary)
        rep.violation(v.sig, v.summary, v.replay)
    if not sub.violations:
        print("TLC accepts the trace now")


def selftest(ctx, rep):
    """binding self-test: shims that misbehave in one documented way must be flagged; corrupted traces must be rejected"""
    from lib import c09_rig as R

    rng = random.Random(7)
    scen = [s for s in canonical(rng) if s["peers"] == ["bumble", "bumble"]][:8]

    def stale_le(net):  # closed credit based channels stay in le_coc_channels (the `elif` of the unfixed tree)
        for d in net.devices:
            cm = d.l2cap_channel_manager

            def closed(channel, cm=cm):
                cm.channels.get(channel.connection.handle, {}).pop(channel.source_cid, None)

            cm.on_channel_closed = closed

    def keep_on_down(net):  # the channel manager of the central never hears of a disconnection
        net.stacks[0].host.remove_listener("disconnection", net[0].l2cap_channel_manager.on_disconnection)

    def refuse_second(net):  # a server that refuses every request after its first one
        for d in net.devices[1:]:
            cm = d.l2cap_channel_manager
            orig = cm.on_l2cap_le_credit_based_connection_request
            seen = []

            def handler(connection, cid, request, orig=orig, cm=cm, seen=seen):
                if seen:
                    saved = dict(cm.le_coc_servers)
                    cm.le_coc_servers.clear()
                    try:
                        return orig(connection, cid, request)
                    finally:
                        cm.le_coc_servers.update(saved)
                seen.append(1)
                return orig(connection, cid, request)

            cm.on_l2cap_le_credit_based_connection_request = handler

    results = {}
    for name, patch in (("stale_le_coc_entry", stale_le), ("no_cleanup_on_link_drop", keep_on_down), ("refuse_after_first", refuse_second)):
        sub = type(rep)(rep.prop, rep.level)
        res = [R.run_scenario(sc, device_patch=patch) for sc in scen]
        validate(ctx, sub, scen, res, threads=2)
        results[name] = sorted(v.sig for v in sub.violations)[:3]
    # corrupted traces
    good = [R.run_scenario(sc) for sc in scen[:4]]
    sub = type(rep)(rep.prop, rep.level)
    validate(ctx, sub, scen[:4], good, threads=2)
    if sub.violations:
        raise RuntimeError(f"self-test baseline rejected: {[v.sig for v in sub.violations]}")
    for name in ("drop_res", "extra_table_entry", "hung_waiter", "swap_outcome"):
        bad = []
        for r in good:
            r2 = dict(r)
            tr = [dict(e) for e in r["trace"]]
            raw = [dict(e) for e in r["raw"]]
            if name == "drop_res":
                j = next(i for i, e in enumerate(tr) if e["e"] == "res")
                del tr[j], raw[j]
            elif name == "extra_table_entry":
                j = max(i for i, e in enumerate(tr) if e["e"] == "tables" and e["s"] == "c" and e["c"] == 1)
                tr[j]["S"] = sorted(set(tr[j]["S"]) | {4})
            elif name == "hung_waiter":
                j = max(i for i, e in enumerate(tr) if e["e"] == "quiesce")
                tr[j]["W"] = [1]
            elif name == "swap_outcome":
                j = next(i for i, e in enumerate(tr) if e["e"] == "res" and e["out"] == "ok")
                tr[j]["out"] = "refused"
            r2["trace"], r2["raw"] = tr, raw
            bad.append(r2)
        sub = type(rep)(rep.prop, rep.level)
        n = validate(ctx, sub, scen[:4], bad, threads=2)
        results["trace:" + name] = n
    print("selftest:", json.dumps(results, indent=1))
    for k, v in results.items():
        if not v or v == 0 or (isinstance(v, int) and v < 4 and k.startswith("trace:")):
            rep.violation(f"selftest:{k}", f"binding self-test: '{k}' was not detected ({v})")
