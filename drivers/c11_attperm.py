"""C11: GATT attribute permissions gate every read and write path.

(M) specs/Att/Perm.tla: TLC enumerates the full decision table (256 permission bytes x 3 link-security
    levels x 9 access paths x 3 neighbour placements = 20 736 rows): every outcome of the gate-keeping
    design satisfies OutcomeOk (denied => not disclosed, not modified, refused with a permission-class
    error where the path has a response) and the design's checks agree with Allowed.
(A/B) one implementation test per table row on Bumble's real gatt_server.Server over a real LE connection:
    a canary-valued attribute with that permission byte (plain attribute / service declaration; in the
    thorough tier also characteristic value, descriptor, callback-backed values, an enhanced bearer and a
    larger MTU), link security set on the server-side connection object's public `encryption` /
    `authenticated` attributes (plus one scenario per level reached through real pairing), the operation
    performed by the raw puppet client of lib/c10_att.py.  disclosure = canary bytes in any server PDU
    (Find By Type Value: the target's handle in the response); modification = server-side value differs
    afterwards (or the write callback ran).  Each [row, outcome] trace is judged by PermTrace.tla.
    Link jobs (link:<transport>:<events>): LE or BR/EDR connection whose security is produced by real HCI Authentication
    Complete / Encryption Change events; the trace starts with link(tr, evs) and the row's level is SecAfter(tr, evs) of Perm.tla.
"""
from __future__ import annotations

import concurrent.futures
import multiprocessing
import struct

from lib import c10_att as A
from lib import tlc

LEVEL = "model_checking"
READ_OPS = ["read", "read_blob", "read_by_type", "read_by_group", "read_multiple", "read_multiple_var", "find_by_type_value"]
WRITE_OPS = ["write_req", "write_cmd"]
OPS = READ_OPS + WRITE_OPS
SECS = ["plain", "enc", "authn"]
NBS = ["alone", "before", "after"]
U_T = 0xC0DE
DEVIATIONS = ["ignore-readable", "ignore-writeable", "list-no-check", "lost-error", "range-swallow", "cmd-bypass"]
VALUE_LEN = 300  # longer than ATT_MTU - 1 at every MTU used, so that Read Blob is a valid request
NEW_VALUE = b"\xA5OVERWRITTEN\x5A"


# ----------------------------------------------------------------------------- database
class PermDb:
    pass


def build_db(device, flavour="raw"):
    """N T0 N T1 N ... N T255 N of one attribute type (targets Tp carry permission byte p and a 300-byte canary,
    the N are world readable / writable neighbours), and the same pattern of service declarations
    (16-byte canary UUIDs) for the paths that need a grouping / short value.
    flavour: raw (plain att.Attribute), char (characteristic values), desc (descriptors), dyn (AttributeValue
    callbacks), dyn2 (AttributeValueV2 callbacks)."""
    from bumble.att import Attribute, AttributeValue, AttributeValueV2
    from bumble.core import UUID
    from bumble.gatt import Characteristic, Descriptor, Service

    RW = Attribute.READABLE | Attribute.WRITEABLE
    P = Characteristic.Properties
    server = device.gatt_server
    db = PermDb()
    db.flavour = flavour
    db.writes = []  # (p, value) seen by write callbacks of dynamic targets
    db.canary = {p: A.canary(f"c11/{flavour}/{p}", VALUE_LEN) for p in range(256)}
    t16 = UUID.from_16_bits(U_T)

    def value_for(p):
        if flavour == "dyn":
            return AttributeValue(read=lambda _c, p=p: db.canary[p], write=lambda _c, v, p=p: db.writes.append((p, bytes(v))))
        if flavour == "dyn2":
            return AttributeValueV2(read=lambda _b, p=p: db.canary[p], write=lambda _b, v, p=p: db.writes.append((p, bytes(v))))
        return db.canary[p]

    def nb_value(i):
        return A.canary(f"c11/nb/{i}", 4)

    db.target = {}
    db.nbs = []
    if flavour in ("raw", "dyn", "dyn2"):
        for p in range(256):
            n = Attribute(t16, RW, nb_value(p))
            server.add_attribute(n)
            db.nbs.append(n)
            t = Attribute(t16, Attribute.Permissions(p), value_for(p))
            server.add_attribute(t)
            db.target[p] = t
        n = Attribute(t16, RW, nb_value(256))
        server.add_attribute(n)
        db.nbs.append(n)
    elif flavour == "char":
        chars = []
        for p in range(256):
            n = Characteristic(t16, P.READ | P.WRITE, RW, nb_value(p))
            t = Characteristic(t16, P.READ | P.WRITE, Attribute.Permissions(p), value_for(p))
            chars += [n, t]
            db.nbs.append(n)
            db.target[p] = t
        n = Characteristic(t16, P.READ | P.WRITE, RW, nb_value(256))
        chars.append(n)
        db.nbs.append(n)
        device.add_service(Service(UUID.from_16_bits(0xA0C1), chars))
    elif flavour == "desc":
        descs = []
        for p in range(256):
            n = Descriptor(t16, RW, nb_value(p))
            t = Descriptor(t16, Attribute.Permissions(p), value_for(p))
            descs += [n, t]
            db.nbs.append(n)
            db.target[p] = t
        n = Descriptor(t16, RW, nb_value(256))
        descs.append(n)
        db.nbs.append(n)
        device.add_service(Service(UUID.from_16_bits(0xA0C2), [Characteristic(UUID.from_16_bits(0xC0DF), P.READ, RW, b"host", descriptors=descs)]))
    else:
        raise ValueError(flavour)

    # service declarations with permission byte p between open ones
    def svc_uuid(tag):
        return UUID.from_bytes(A.canary(f"c11/svc/{tag}", 16))

    db.svc_target = {}
    db.svc_nbs = []
    for p in range(256):
        n = Service(svc_uuid(f"n{p}"), [])
        device.add_service(n)
        db.svc_nbs.append(n)
        t = Service(svc_uuid(f"t{p}"), [])
        device.add_service(t)
        t.permissions = Attribute.Permissions(p)
        db.svc_target[p] = t
    n = Service(svc_uuid("n256"), [])
    device.add_service(n)
    db.svc_nbs.append(n)
    db.originals = {id(t): t.value for t in list(db.target.values()) + list(db.svc_target.values())}
    return db


def windows(c, k=6):
    return {c[i:i + k] for i in range(0, len(c) - k + 1)}


# ----------------------------------------------------------------------------- one row
def request_for(db, op, p, nb):
    """(pdu, target attribute, canary windows or None, kind of target)"""
    H = A.H
    if op in ("read_by_group", "find_by_type_value"):
        t = db.svc_target[p]
        before, after = db.svc_nbs[p], db.svc_nbs[p + 1]
    else:
        t = db.target[p]
        before, after = db.nbs[p], db.nbs[p + 1]
    lo = before.handle if nb == "before" else t.handle
    hi = after.handle if nb == "after" else t.handle
    lst = {"alone": [t.handle, t.handle], "before": [before.handle, t.handle], "after": [t.handle, after.handle]}[nb]
    if op == "read":
        pdu = b"\x0a" + H(t.handle)
    elif op == "read_blob":
        pdu = b"\x0c" + H(t.handle) + H(0 if nb == "alone" else 7)
    elif op == "read_by_type":
        pdu = b"\x08" + H(lo) + H(hi) + H(U_T)
    elif op == "read_by_group":
        pdu = b"\x10" + H(lo) + H(hi) + H(0x2800)
    elif op == "read_multiple":
        pdu = b"\x0e" + b"".join(H(x) for x in lst)
    elif op == "read_multiple_var":
        pdu = b"\x20" + b"".join(H(x) for x in lst)
    elif op == "find_by_type_value":
        pdu = b"\x06" + H(lo) + H(hi) + H(0x2800) + bytes(db.originals[id(t)])
    elif op == "write_req":
        pdu = b"\x12" + H(t.handle) + NEW_VALUE
    elif op == "write_cmd":
        pdu = b"\x52" + H(t.handle) + NEW_VALUE
    else:
        raise ValueError(op)
    return pdu, t


def set_security(pc, sec):
    pc.encryption = 0 if sec == "plain" else 1
    pc.authenticated = sec == "authn"


def run_row(rig, pup, db, b, op, p, sec, nb):
    pdu, t = request_for(db, op, p, nb)
    original = db.originals[id(t)]
    if op in ("read_by_group", "find_by_type_value"):
        canary_bytes = bytes(original)
    else:
        canary_bytes = db.canary[p]
    nwrites = len(db.writes)
    mark = len(rig.log)
    pup.transact(b, pdu)
    rx = [pp for (bb, pp) in pup.received(mark) if pp and pp[0] % 2 == 1]
    disclosed = False
    if op == "find_by_type_value":
        for pp in rx:
            if pp[0] == 0x07:
                for i in range(1, len(pp) - 3, 4):
                    if struct.unpack_from("<H", pp, i)[0] == t.handle:
                        disclosed = True
    else:
        w = windows(canary_bytes)
        for pp in rx:
            if any(pp[i:i + 6] in w for i in range(0, max(0, len(pp) - 5))):
                disclosed = True
    modified = (t.value is not original and t.value != original) or len(db.writes) > nwrites
    if t.value is not original:
        t.value = original
    del db.writes[nwrites:]
    rsp = [pp for pp in rx if pp[0] not in (0x1B, 0x1D, 0x23)]
    if not rsp:
        kind, code = "none", 0
    elif rsp[0][0] == 0x01:
        kind, code = "error", (rsp[0][4] if len(rsp[0]) >= 5 else 0)
    else:
        kind, code = "rsp", 0
    row = {"e": "row", "op": op, "p": p, "sec": sec, "nb": nb, "disclosed": 0, "modified": 0, "rsp": "", "code": 0}
    out = {"e": "outcome", "op": "", "p": 0, "sec": "", "nb": "", "disclosed": int(disclosed), "modified": int(modified), "rsp": kind, "code": code}
    return [row, out], pdu, [pp[:24].hex() for pp in rx]


# ----------------------------------------------------------------------------- history: another, authorised peer first
class HistRig(A.AttRig):
    """Server (device 1) with TWO clients on two connections: device 0 sends the judged request at the row's link
    security, device 2 is an authenticated peer that accesses the same attribute first.  What the server did for
    the authorised peer must not change what the other peer is refused."""

    async def _setup(self, seed, max_delay, build_db, eatt, server_patch):
        from lib import rig as _rig

        self.net = _rig.Net(3, seed=seed, max_delay=max_delay)
        await self.net.power_on()
        self.server_device = self.net[1]
        self.server = self.server_device.gatt_server
        self.db = build_db(self.server_device) if build_db else None
        if server_patch:
            server_patch(self.server)
        self.cc, self.pc = await self.net.connect_le(0, 1)
        self.cc2, self.pc2 = await self.net.connect_le(2, 1)
        self.net[0].l2cap_channel_manager.register_fixed_channel(A.ATT_CID, self._on_fixed)
        self.net[2].l2cap_channel_manager.register_fixed_channel(A.ATT_CID, lambda _h, _pdu: None)

    def prime(self, pdu):
        self.call(lambda: self.cc2.send_l2cap_pdu(A.ATT_CID, bytes(pdu)))
        self.run()


def prime_for(rig, db, op, p, nb):
    """authorised accesses by the other peer that precede the judged request"""
    H = A.H
    _pdu, t = request_for(db, op, p, nb)
    original = db.originals[id(t)]
    if op in WRITE_OPS:
        rig.prime(b"\x12" + H(t.handle) + NEW_VALUE)
        rig.prime(b"\x16" + H(t.handle) + H(0) + NEW_VALUE)  # a prepared write left pending by the authorised peer
        if t.value is not original:
            t.value = original
        del db.writes[:]
        return
    rig.prime(b"\x0a" + H(t.handle))
    for off in (0, 7, 22, 44):
        rig.prime(b"\x0c" + H(t.handle) + H(off))
    rig.prime(b"\x08" + H(t.handle) + H(t.handle) + H(U_T))
    rig.prime(b"\x0e" + H(t.handle) + H(t.handle))
    rig.prime(b"\x10" + H(t.handle) + H(t.handle) + H(0x2800))


# ----------------------------------------------------------------------------- link security produced by HCI events
class LinkRig(A.AttRig):
    """Server + raw puppet on a connection of the given transport ("le" / "bredr"); on BR/EDR the ATT bearer is the
    fixed channel of the ACL link.  The link's security state is then produced by HCI events only (link_events)."""

    def __init__(self, transport, **kw):
        self.transport = transport
        super().__init__(**kw)

    async def _setup(self, seed, max_delay, build_db, eatt, server_patch):
        from lib import rig as _rig

        self.net = _rig.Net(2, seed=seed, max_delay=max_delay)
        if self.transport == "bredr":
            _rig.enable_classic(self.net)
        await self.net.power_on()
        self.server_device = self.net[1]
        self.server = self.server_device.gatt_server
        self.db = build_db(self.server_device) if build_db else None
        if server_patch:
            server_patch(self.server)
        if self.transport == "bredr":
            self.cc, self.pc = await self.net.connect_classic(0, 1)
        else:
            self.cc, self.pc = await self.net.connect_le(0, 1)
        self.net[0].l2cap_channel_manager.register_fixed_channel(A.ATT_CID, self._on_fixed)


def link_events(rig, evs):
    """deliver the HCI security events (LinkEvents of Perm.tla) for the server-side connection to the server's host"""
    from bumble import hci

    tap = rig.net.stacks[1].tap
    hdl = rig.pc.handle
    for e in evs:
        if e == "auth":
            pk = hci.HCI_Authentication_Complete_Event(status=0, connection_handle=hdl)
        else:
            pk = hci.HCI_Encryption_Change_Event(status=0, connection_handle=hdl, encryption_enabled={"enc0": 0, "enc1": 1, "enc2": 2}[e])
        rig.call(lambda pk=pk: tap.inject_to_host(bytes(pk)))
        rig.run(1.0)


# ----------------------------------------------------------------------------- jobs
def rows_job(job):
    """All (op, p, nb) rows of the given ops at one security level on one rig.  Returns [(trace, meta)]."""
    import logging

    logging.disable(logging.CRITICAL)
    flavour, bearer, mtu, sec, ops, perms, seed, patch_name, real = job
    patch = SHIMS[patch_name] if patch_name else None
    holder = {}

    def builder(device):
        holder["db"] = build_db(device, flavour)
        return holder["db"]

    history = real == "history"
    link = None
    if real and real.startswith("link:"):
        _l, tr_, evs_ = real.split(":")
        link = {"e": "link", "tr": tr_, "evs": evs_.split(",")}
        rig = LinkRig(tr_, seed=seed, build_db=builder, server_patch=patch)
    elif history:
        real = None
        rig = HistRig(seed=seed, build_db=builder, server_patch=patch)
    else:
        rig = A.AttRig(seed=seed, build_db=builder, eatt=(bearer == "eatt"), server_patch=patch)
    out = []
    try:
        db = holder["db"]
        pup = A.Puppet(rig)
        b = 1
        if bearer == "eatt":
            (b,) = rig.open_eatt(mtu, 1)
            pup.add_bearer(b, rig.eatt_mtu(b))
        elif mtu != 23:
            pup.set_mtu(mtu)
        if real == "paired":
            rig.await_(rig.cc.pair, limit=120)
        if link:
            # the link's security is whatever these HCI events make it; which level that is, is SecAfter of Perm.tla
            # (the row's `sec` is not read by the trace spec after a link event)
            link_events(rig, link["evs"])
            sec = "by-events"
        elif real in ("enc-on-off", "enc-on-off-v2"):
            # the controller reports encryption switched on, later switched off again (real HCI events delivered to the
            # server's host): from then on the link is plain, whatever the stack remembers
            from bumble import hci

            tap = rig.net.stacks[1].tap
            hdl = rig.pc.handle
            for on in (1, 0):
                if real == "enc-on-off":
                    e = hci.HCI_Encryption_Change_Event(status=0, connection_handle=hdl, encryption_enabled=on)
                else:
                    e = hci.HCI_Encryption_Change_V2_Event(status=0, connection_handle=hdl, encryption_enabled=on, encryption_key_size=16 if on else 0)
                rig.call(lambda e=e: tap.inject_to_host(bytes(e)))
                rig.run(1.0)
            sec = "plain"
        elif real:
            # link security as the stack itself established it; read back from the public attributes
            enc, authn = bool(rig.pc.encryption), bool(rig.pc.authenticated)
            sec = "authn" if (enc and authn) else "enc" if enc else "plain"
            if authn and not enc:
                raise RuntimeError("authenticated but not encrypted: not one of the three modelled levels")
        else:
            set_security(rig.pc, sec)
        if history:
            set_security(rig.pc2, "authn")
        for op in ops:
            for p in perms:
                for nb in NBS:
                    if history:
                        prime_for(rig, db, op, p, nb)
                    tr, pdu, rx = run_row(rig, pup, db, b, op, p, sec, nb)
                    if link:
                        tr = [link] + tr
                    out.append((tr, {"flavour": flavour, "bearer": bearer, "mtu": mtu, "sec": sec, "op": op, "p": p, "nb": nb, "seed": seed,
                                     "real": "history" if history else real, "pdu": pdu.hex(), "rx": rx}))
    finally:
        rig.close()
    return out


def run_jobs(jobs, workers=12):
    if workers <= 1 or len(jobs) <= 1:
        return [rows_job(j) for j in jobs]
    ctx = multiprocessing.get_context("fork")
    with concurrent.futures.ProcessPoolExecutor(max_workers=min(workers, len(jobs)), mp_context=ctx) as ex:
        return list(ex.map(rows_job, jobs))


# ----------------------------------------------------------------------------- validation
def validate(ctx, rep, pairs, report=True, chunk=6000):
    spec = ctx.spec("Att", "PermTrace.tla")
    cfg = ctx.spec("Att", "PermTrace.cfg")
    chunks = [pairs[i:i + chunk] for i in range(0, len(pairs), chunk)]
    results = []

    def one(ch):
        return tlc.trace_batch(spec, cfg, [t for t, _m in ch], tag="c11")

    with concurrent.futures.ThreadPoolExecutor(max_workers=4) as ex:
        for ch, res in zip(chunks, ex.map(one, chunks)):
            rep.extra["trace_states"] = rep.extra.get("trace_states", 0) + res["states"]
            for tid, v in res["verdicts"].items():
                results.append((ch[tid - 1][0], ch[tid - 1][1], v))
    if report:
        for tr, meta, v in results:
            judge(rep, tr, meta, v)
    return results


def judge(rep, tr, meta, v):
    rep.traces += 1
    rep.case((meta["flavour"], meta["bearer"], meta["mtu"], meta["real"], meta["op"], meta["p"], meta["sec"], meta["nb"]), nontrivial=True,
             sample={"row": tr[-2], "outcome": tr[-1]} if rep.evaluations % 4999 == 0 else None)
    if v[0] == "ACCEPT":
        return
    info = v[3] if len(v) > 3 and isinstance(v[3], dict) else {}
    clauses = sorted(info.get("clauses", []))
    if not clauses or clauses == ["guard"]:
        raise tlc.TlcError(f"harness produced a row/outcome the spec cannot even read (not a verdict): {v} {tr}")
    why = info.get("why", "?")
    sig = f"perm:{meta['op']}:{why}:{'+'.join(clauses)}" + (":after-authorised-peer" if meta.get("real") == "history" else "")
    o = tr[-1]
    rep.violation(
        sig,
        f"{sig}: attribute with permissions 0x{meta['p']:02X} ({meta['flavour']}), link {meta['sec']}{' (reached by ' + meta['real'] + ')' if meta['real'] else ''}, "
        f"{meta['op']} with neighbour {meta['nb']} on the {meta['bearer']} bearer (MTU {meta['mtu']}): request {meta['pdu'][:40]} -> server PDUs {meta['rx']}; "
        f"disclosed={o['disclosed']} modified={o['modified']} response={o['rsp']} code=0x{o['code']:02X}",
        {"meta": meta, "trace": tr, "clauses": clauses, "why": why},
    )


# ----------------------------------------------------------------------------- plan
def plan(ctx, patch=None, small=False):
    seed = ctx.seed
    allp = list(range(256))
    jobs = []
    if small:
        perms = [0x00, 0x01, 0x02, 0x03, 0x05, 0x07, 0x0B, 0x13, 0x23, 0x43, 0x83, 0x15, 0x2A, 0xFF]
        for sec in SECS:
            jobs.append(("raw", "fixed", 23, sec, OPS, perms, seed, patch, None))
        return jobs
    groups = [["read", "read_blob", "write_req"], ["read_by_type", "write_cmd"], ["read_by_group", "find_by_type_value"], ["read_multiple", "read_multiple_var"]]
    for sec in SECS:
        for ops in groups:
            jobs.append(("raw", "fixed", 23, sec, ops, allp, seed, patch, None))
    sample = [0x00, 0x01, 0x02, 0x03, 0x04, 0x05, 0x08, 0x0B, 0x10, 0x11, 0x13, 0x15, 0x20, 0x23, 0x2B, 0x40, 0x41, 0x80, 0x83, 0xFF]
    jobs.append(("raw", "fixed", 23, None, OPS, sample, seed, patch, "fresh"))
    jobs.append(("raw", "fixed", 23, None, OPS, sample, seed, patch, "paired"))
    # encryption reported on, then off again.  Judged for permission bytes whose requirement is about encryption: whether a
    # link stays "authenticated" once it is no longer encrypted is not something the property determines (the stack's
    # `authenticated` flag is C13's business), so bytes that demand authentication without encryption are left out
    encp = [p for p in sorted(set(sample) | {0x04, 0x05, 0x08, 0x0A, 0x0F, 0x14, 0x15, 0x28, 0x2A, 0x3F}) if (not p & 0x10 or p & 0x04) and (not p & 0x20 or p & 0x08)]
    jobs.append(("raw", "fixed", 23, None, OPS, encp, seed, patch, "enc-on-off"))
    jobs.append(("raw", "fixed", 23, None, READ_OPS[:2] + WRITE_OPS, encp, seed, patch, "enc-on-off-v2"))
    # the link's security produced by HCI events on BOTH transports, judged at SecAfter(transport, events) of Perm.tla: a
    # BR/EDR link on which only E0 encryption came on (Encryption Change 1, no Authentication Complete) is encrypted and
    # not authenticated, so every authentication requirement must refuse; where the events leave authentication open
    # the spec judges at the strongest level.  Sequences that end unencrypted use encp (see above)
    authp = sorted(set(sample) | {0x04, 0x08, 0x0C, 0x11, 0x14, 0x15, 0x1F, 0x22, 0x28, 0x2A, 0x30, 0x33, 0x3F})
    jobs.append(("raw", "fixed", 23, None, OPS, authp, seed, patch, "link:bredr:enc1"))
    jobs.append(("raw", "fixed", 23, None, READ_OPS[:3] + WRITE_OPS, sample, seed, patch, "link:bredr:auth,enc1"))
    jobs.append(("raw", "fixed", 23, None, READ_OPS[:3] + WRITE_OPS, sample, seed, patch, "link:bredr:enc2"))
    jobs.append(("raw", "fixed", 23, None, READ_OPS[:3] + WRITE_OPS, sample, seed, patch, "link:le:enc1"))
    jobs.append(("raw", "fixed", 23, None, READ_OPS[:3] + WRITE_OPS, encp, seed, patch, "link:bredr:enc1,enc0"))
    jobs.append(("char", "fixed", 23, None, READ_OPS[:3] + WRITE_OPS, authp, seed, patch, "link:bredr:enc1"))
    # characteristic values (properties say READ | WRITE whatever the permission byte): the permission byte decides
    jobs.append(("char", "fixed", 23, "plain", OPS, sample, seed, patch, None))
    jobs.append(("char", "fixed", 23, "enc", WRITE_OPS + READ_OPS[:2], sample, seed, patch, None))
    jobs.append(("desc", "fixed", 23, "plain", WRITE_OPS + READ_OPS[:2], sample, seed, patch, None))
    # an enhanced bearer on a plain / merely encrypted link: the bearer kind changes nothing about the link's security
    jobs.append(("raw", "eatt", 64, "plain", OPS, sample, seed, patch, None))
    jobs.append(("raw", "eatt", 64, "enc", READ_OPS[:3] + WRITE_OPS, sample, seed, patch, None))
    # the same rows after an authenticated peer on ANOTHER connection has accessed the same attribute (two clients)
    hperms = sample if ctx.quick else sorted(set(sample) | set(range(0, 256, 3)))
    for sec in ("plain", "enc"):
        for ops in ([READ_OPS[:4], READ_OPS[4:] + WRITE_OPS] if ctx.quick else [[o] for o in OPS]):
            jobs.append(("raw", "fixed", 23, sec, ops, hperms, seed, patch, "history"))
    if not ctx.quick:
        for flavour in ("char", "desc", "dyn", "dyn2"):
            for sec in SECS:
                jobs.append((flavour, "fixed", 23, sec, OPS, allp, seed, patch, None))
        for sec in SECS:
            for ops in groups:
                jobs.append(("raw", "eatt", 64, sec, ops, allp, seed, patch, None))
            jobs.append(("raw", "fixed", 185, sec, OPS, allp, seed, patch, None))
    return jobs


def model_check(ctx, rep):
    res = tlc.mc(ctx.spec("Att", "Perm.tla"), ctx.spec("Att", "PermMC.cfg"), workers=8)
    if res["violation"]:
        raise tlc.TlcError(f"Perm.tla violates {res['violation']} in the model itself:\n{res['out'][-2000:]}")
    tlc.require_actions(res, ["Pick", "Access"], "Perm.tla")
    rep.add_mc("Att/Perm.tla", res, {"rows": 256 * 3 * 9 * 3, "Deviations": []})


def execute(ctx, rep, jobs, report=True):
    pairs = []
    for out in run_jobs(jobs):
        pairs.extend(out)
    # positive controls: the canary / modification detectors must fire on accesses that are served
    served = {}
    for tr, meta in pairs:
        o = tr[-1]
        if o["disclosed"] or o["modified"]:
            served[meta["op"]] = served.get(meta["op"], 0) + 1
    rep.extra["rows_where_access_was_observed_per_path"] = served
    missing = [op for op in {m["op"] for _t, m in pairs} if not served.get(op)]
    if missing and report:
        raise tlc.TlcError(f"no access was ever observed on paths {missing}: disclosure / modification detection is not working (harness)")
    return validate(ctx, rep, pairs, report=report)


def run(ctx, rep):
    rep.rule = ("one implementation test per row (access path, permission byte 0..255, link security, neighbour placement) of the Perm.tla decision "
                "table on the real server with a canary-valued attribute; [row, outcome] judged by PermTrace.tla; distinct = distinct "
                "(attribute flavour, bearer, MTU, row)")
    rep.assumptions = ["readable / writable = any read / write permission flag set (the library's permission model: READ_REQUIRES_ENCRYPTION alone "
                       "means readable on an encrypted link); requirement flags then restrict; authorisation flags always refuse",
                       "link security levels are set on the server-side Connection's public encryption / authenticated attributes; plus one run per "
                       "level reachable through the real stack (fresh connection, Just Works pairing)",
                       "an allowed access that is refused is not a violation of this property (C12 covers service)",
                       "disclosure is detected as any 6-byte window of the 300-byte (16-byte for declarations) canary in a server PDU"]
    model_check(ctx, rep)
    results = execute(ctx, rep, plan(ctx))
    rep.extra["rows_rejected"] = sum(1 for _t, _m, v in results if v[0] != "ACCEPT")
    rep.exhaustive = True  # every row of the 20 736-row table is executed in both tiers (thorough adds flavours / bearers / MTU)


def replay(ctx, rep):
    r = ctx.replay["replay"]
    m = r["meta"]
    job = (m["flavour"], m["bearer"], m["mtu"], m["sec"], [m["op"]], [m["p"]], m["seed"], None, m["real"])
    pairs = [(t, mm) for t, mm in rows_job(job) if mm["nb"] == m["nb"]]
    for t, mm in pairs:
        print(f"permissions 0x{mm['p']:02X}, link {mm['sec']}, {mm['op']} ({mm['nb']}): request {mm['pdu']} -> {mm['rx']}; outcome {t[-1]}")
    validate(ctx, rep, pairs)
    if not rep.violations:
        print("replay: the outcome is accepted now (no violation reproduced)")


# ----------------------------------------------------------------------------- self-test
def _shim_attr_method(name, fn):
    """Patch bumble.att.Attribute.<name> for objects of this process only (worker processes are forked per
    job, /repo is untouched)."""
    def patch(_server):
        from bumble import att

        orig = getattr(att.Attribute, name)
        setattr(att.Attribute, name, fn(orig))
    return patch


def _no_enc_read(orig):
    async def read_value(self, bearer):
        saved = self.permissions
        self.permissions = saved & ~0x04
        try:
            return await orig(self, bearer)
        finally:
            self.permissions = saved
    return read_value


def _write_checks_read_authn(orig):
    async def write_value(self, bearer, value):
        saved = self.permissions
        p = int(saved)
        self.permissions = type(saved)((p & ~0x20) | (0x20 if p & 0x10 else 0))
        try:
            return await orig(self, bearer, value)
        finally:
            self.permissions = saved
    return write_value


def shim_cmd_bypass(server):
    def on_att_write_command(bearer, request):
        a = server.get_attribute(request.attribute_handle)
        if a is not None:
            a.value = request.attribute_value

    server.on_att_write_command = on_att_write_command


def shim_blob_direct(server):
    from bumble import att

    def on_att_read_blob_request(bearer, request):
        a = server.get_attribute(request.attribute_handle)
        v = a.value if isinstance(a.value, bytes) else b""
        server.send_response(bearer, att.ATT_Read_Blob_Response(part_attribute_value=v[request.value_offset:request.value_offset + bearer.att_mtu - 1]))

    server.on_att_read_blob_request = on_att_read_blob_request


SHIMS = {"no-encryption-check-on-read": _shim_attr_method("read_value", _no_enc_read),
         "write-checks-read-authentication": _shim_attr_method("write_value", _write_checks_read_authn),
         "write-command-bypass": shim_cmd_bypass, "read-blob-direct": shim_blob_direct}
EXPECT = {"no-encryption-check-on-read": ("needs-encryption", "disclosed"), "write-checks-read-authentication": ("needs-authentication", "modified"),
          "write-command-bypass": (None, "modified"), "read-blob-direct": (None, "disclosed")}


def selftest(ctx, rep):
    import os

    results = {}
    for d in DEVIATIONS:
        cfg = os.path.join(ctx.out, f"perm_dev_{d}.cfg")
        with open(cfg, "w") as f:
            f.write(f'SPECIFICATION Spec\nCONSTANTS\n  Deviations = {{"{d}"}}\nINVARIANT Gate\nINVARIANT Agrees\nCHECK_DEADLOCK FALSE\n')
        res = tlc.mc(ctx.spec("Att", "Perm.tla"), cfg, workers=4, coverage=False)
        results["model:" + d] = res["violation"]
        if not res["violation"]:
            rep.violation(f"selftest:model:{d}", f"Perm.tla with deviation {d} satisfies Gate and Agrees: the table cannot express that defect")
    r0 = type(rep)(rep.prop, rep.level)
    execute(ctx, r0, plan(ctx, small=True), report=True)
    baseline = {v.sig for v in r0.violations}  # what this tree already does wrong on the same rows (not the shim's doing)
    for name in SHIMS:
        r2 = type(rep)(rep.prop, rep.level)
        execute(ctx, r2, plan(ctx, patch=name, small=True), report=True)
        want_why, want_clause = EXPECT[name]
        hit = [v.sig for v in r2.violations if v.sig not in baseline and want_clause in v.replay["clauses"] and (want_why is None or v.replay["why"] == want_why)]
        results["shim:" + name] = sorted(hit)[:4]
        if not hit:
            rep.violation(f"selftest:shim:{name}", f"shim {name} on the real server was not flagged ({want_why}, {want_clause}); got {[v.sig for v in r2.violations][:6]}")
    # corrupted outcomes of the unmodified server: flip 'disclosed' / 'modified' on refused rows, drop the error
    r3 = type(rep)(rep.prop, rep.level)
    base = execute(ctx, r3, [("raw", "fixed", 23, "plain", OPS, [0x00, 0x05, 0x0B, 0x40, 0x80], ctx.seed, None, None)], report=False)
    good = [(t, m) for t, m, v in base if v[0] == "ACCEPT" and t[1]["rsp"] == "error" and not t[1]["disclosed"] and not t[1]["modified"]]
    if not good:
        results["corruptions"] = "no refused-and-accepted row on this tree to corrupt (skipped)"
    else:
        corrupt = []
        for t, m in good[:30]:
            corrupt.append(([t[0], dict(t[1], disclosed=1)], dict(m, corruption="disclosed")))
            corrupt.append(([t[0], dict(t[1], modified=1)], dict(m, corruption="modified")))
            corrupt.append(([t[0], dict(t[1], rsp="none", code=0)], dict(m, corruption="no-error")))
        res = validate(ctx, r3, corrupt, report=False)
        missed = sorted({m["corruption"] for _t, m, v in res if v[0] == "ACCEPT"})
        results["corrupted-outcomes-accepted"] = missed
        for c in missed:
            rep.violation(f"selftest:corruption:{c}", f"an outcome corrupted by '{c}' on a refused row was accepted by PermTrace.tla")
    print("selftest:", results)
