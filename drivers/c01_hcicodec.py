"""C01: HCI packets survive serialise / parse unchanged, for every packet class.

(M) specs/Hci/CodecMC.tla: TLC checks Par(Ser(v)) = v and Ser(Par(b)) = b inside the model for every
    field kind over boundary values, repeated groups, framing and the ACL / SCO / ISO headers.
(B) the live registries (HCI_Command.command_classes, HCI_Event.event_classes,
    HCI_LE_Meta_Event.subevent_classes, vendor sub-events, return-parameter classes) are walked; every
    class is built from boundary / seeded field vectors and parsed from spec-shaped bytes; every
    serialisation and every parse is logged as an event and validated by TLC against
    specs/Hci/CodecTrace.tla (bytes = Ser(values), values = Par(bytes), well formed => same bytes again).
    Fields with callable codecs are opaque to the spec: their position in the layout and
    bytes -> value -> same bytes are judged by TLC, value -> bytes -> equal value here.
(H) process histories (lib/c01_history.py): for every class with a callable-codec field, packets that carry the
    same bytes in those fields while the one-byte fields around them go through their small codes are parsed by
    several new python processes in different orders; specs/Pdu/Statelessness.tla accepts the histories iff
    equal packet bytes always gave equal canonical field values (every attribute of a field value as its own
    entry, e.g. the address type of an Address as a number - not the value's own __eq__).
"""
from __future__ import annotations

import concurrent.futures
import dataclasses
import importlib
import inspect
import pkgutil
import re

from lib import c01_codec as cc
from lib import c01_engine as eng
from lib import c01_history as hist
from lib import tlc

LEVEL = "model_checking"
MC_ACTIONS = ["ChkValue", "ChkBytes", "ChkGroup", "ChkRagged", "ChkFields", "ChkMask", "ChkFrame", "ChkAcl", "ChkSco", "ChkIso"]


def _import_vendor():
    import bumble.vendor

    for m in pkgutil.walk_packages(bumble.vendor.__path__, "bumble.vendor."):
        if m.name.endswith(".hci"):
            importlib.import_module(m.name)


def model_check(ctx, rep):
    import os

    cfg = os.path.join(ctx.out, "codec_mc.cfg")
    consts = {"MaxCount": 2 if ctx.quick else 3, "PairSubs": not ctx.quick}
    with open(cfg, "w") as f:
        f.write(f"SPECIFICATION Spec\nCONSTANTS\n  MaxCount = {consts['MaxCount']}\n  PairSubs = {'TRUE' if consts['PairSubs'] else 'FALSE'}\n"
                "INVARIANT RoundTrip\nCHECK_DEADLOCK FALSE\n")
    res = cc.mc_with_actions(ctx.spec("Hci", "CodecMC.tla"), cfg)
    if res["violation"]:
        raise tlc.TlcError(f"CodecMC.tla violates {res['violation']} in the model itself:\n{res['out'][-2000:]}")
    tlc.require_actions(res, MC_ACTIONS, "CodecMC")
    rep.add_mc("Hci/CodecMC.tla", res, consts)


# ----------------------------------------------------------------------------- cases from the registries
PHY_LISTS = {
    # hand-written parsers: one list entry per bit set in the PHY mask that precedes the lists
    "HCI_LE_Set_Extended_Scan_Parameters_Command": (["own_address_type", "scanning_filter_policy", "scanning_phys"],
                                                    [("scan_types", 1), ("scan_intervals", 2), ("scan_windows", 2)]),
    "HCI_LE_Extended_Create_Connection_Command": (["initiator_filter_policy", "own_address_type", "peer_address_type", "peer_address", "initiating_phys"],
                                                  [("scan_intervals", 2), ("scan_windows", 2), ("connection_interval_mins", 2), ("connection_interval_maxs", 2),
                                                   ("max_latencies", 2), ("supervision_timeouts", 2), ("min_ce_lengths", 2), ("max_ce_lengths", 2)]),
}


def _handwritten_fms(cls):
    """the two commands whose layout is not in `fields`: derive the field model from the constructor
    signature (names) and the Core layout (scalars, then one entry per PHY bit)"""
    from bumble import hci

    if cls.__name__ not in PHY_LISTS:
        return None
    scalars, lists = PHY_LISTS[cls.__name__]
    params = [p for p in inspect.signature(cls.__init__).parameters if p != "self"]
    if params != scalars + [n for n, _ in lists]:
        return None  # the constructor changed: fall back to the generic path (reported as not constructible)
    fms = []
    for n in scalars:
        if n == "peer_address":
            fms.append(cc.FM(name=n, spec=hci.Address.parse_address_preceded_by_type, kind=None, how="opaque"))
        else:
            fms.append(cc.FM(name=n, spec=1, kind=cc.K("u8"), how="plain"))
    fms.append(cc.FM(name="+".join(n for n, _ in lists), sub=[cc.FM(name=n, spec=w, kind=cc.K("u8" if w == 1 else "u16"), how="plain") for n, w in lists], mask=True))
    return fms


def _packet_parse(data):
    from bumble import hci

    return hci.HCI_Packet.from_bytes(data)


def _exact(cls):
    def chk(obj):
        return None if type(obj) is cls else f"a {type(obj).__name__} instead of a {cls.__name__}"

    return chk


def hci_cases():
    from bumble import hci

    _import_vendor()
    cases = []
    notes = []
    # ---- commands
    for op, cls in sorted(hci.HCI_Command.command_classes.items()):
        fms = _handwritten_fms(cls)
        if fms is None:
            if not dataclasses.is_dataclass(cls) and getattr(cls, "fields", ()):
                notes.append(f"cmd:{cls.__name__}: not a dataclass and not a known hand-written layout")
            fms = cc.model_fields(cls.fields or ())
        cases.append(eng.Case("hci", "cmd", cls.__name__, cls, fms, "cmd", [op], build=lambda d, cls=cls: cls(**d), parse=_packet_parse, expect=_exact(cls)))
    # ---- return parameters, through a Command Complete event for the owning command
    cc_cls = hci.HCI_Event.event_classes[hci.HCI_COMMAND_COMPLETE_EVENT]
    for op, cls in sorted(hci.HCI_Command.command_classes.items()):
        rp = getattr(cls, "return_parameters_class", None)
        if rp is None or not isinstance(rp, type):
            continue
        rp_fms = cc.model_fields(getattr(rp, "fields", ()) or ())
        pre = [cc.FM(name="num_hci_command_packets", spec=1, kind=cc.K("u8"), how="plain"),
               cc.FM(name="command_opcode", spec=2, kind=cc.K("u16"), how="plain")]
        status_first = issubclass(rp, hci.HCI_StatusReturnParameters) and bool(rp_fms) and rp_fms[0].name == "status"

        def build(d, rp=rp, rp_fms=rp_fms, op=op):
            names = set()
            for fm in rp_fms:
                names.update([fm.name] if (not fm.is_group or fm.objcls) else [s.name for s in fm.sub])
            return cc_cls(num_hci_command_packets=d["num_hci_command_packets"], command_opcode=op, return_parameters=rp(**{k: d[k] for k in names}))

        def getter(ev, rp_fms=rp_fms):
            d = {"num_hci_command_packets": ev.num_hci_command_packets, "command_opcode": ev.command_opcode}
            d.update(eng.default_getter(rp_fms)(ev.return_parameters))
            return d

        def expect(ev, rp=rp, status_first=status_first):
            if type(ev) is not cc_cls:
                return f"a {type(ev).__name__} instead of a Command Complete event"
            got = type(ev.return_parameters)
            if got is rp:
                return None
            if status_first and got is hci.HCI_StatusReturnParameters and int(ev.return_parameters.status) != 0:
                return None
            return f"return parameters of class {got.__name__} instead of {rp.__name__}"

        # all but the first use of a shared return-parameter class get a reduced vector set (see run)
        cases.append(eng.Case("hci", "rp", f"{rp.__name__}@{cls.__name__}", rp, pre + rp_fms, "evt", [hci.HCI_COMMAND_COMPLETE_EVENT],
                              build=build, parse=_packet_parse, getter=getter, expect=expect, pinned={"command_opcode": op}, sc=status_first,
                              base_values={"status": 0} if status_first else {},
                              short_getter=lambda ev: [ev.num_hci_command_packets, ev.command_opcode, ev.return_parameters.status]))
    # ---- events
    for code, cls in sorted(hci.HCI_Event.event_classes.items()):
        if code == hci.HCI_COMMAND_COMPLETE_EVENT:
            continue  # exercised with every return-parameter class above, and generically below
        fms = cc.model_fields(cls.fields or ())
        cases.append(eng.Case("hci", "evt", cls.__name__, cls, fms, "evt", [code], build=lambda d, cls=cls: cls(**d), parse=_packet_parse, expect=_exact(cls)))
    # ---- LE sub-events and vendor sub-events
    for code, cls in sorted(hci.HCI_LE_Meta_Event.subevent_classes.items()):
        fms = cc.model_fields(cls.fields or ())
        cases.append(eng.Case("hci", "le", cls.__name__, cls, fms, "ext", [hci.HCI_LE_META_EVENT, code], build=lambda d, cls=cls: cls(**d), parse=_packet_parse, expect=_exact(cls)))
    for ext in _vendor_extended_event_bases():
        for code, cls in sorted(ext.subevent_classes.items()):
            fms = cc.model_fields(cls.fields or ())
            cases.append(eng.Case("hci", "vnd", cls.__name__, cls, fms, "ext", [hci.HCI_VENDOR_EVENT, code], build=lambda d, cls=cls: cls(**d), parse=_packet_parse, expect=_exact(cls)))
    return cases, notes


def _is_generic_rp(rp):
    return rp.__name__ in ("HCI_StatusReturnParameters", "HCI_GenericReturnParameters", "HCI_GenericStatusReturnParameters")


def _vendor_extended_event_bases():
    from bumble import hci

    out = []

    def walk(c):
        for s in c.__subclasses__():
            if "subevent_classes" in vars(s) and s is not hci.HCI_LE_Meta_Event and s.__module__.startswith("bumble.vendor"):
                out.append(s)
            walk(s)

    walk(hci.HCI_Extended_Event)
    return out


def synthetic_cases():
    """The generic codec also has kinds no registered HCI class uses today (signed 16-bit, big-endian 16 / 32-bit;
    AVRCP uses the latter).  They are part of parse_field / serialize_field, so they are exercised through a plain
    HCI_Object with a synthetic field list - the real codec functions, not a real packet class."""
    from bumble import hci

    out = []
    for name, fields in (("all-kinds", [("a", 1), ("b", -1), ("c", 2), ("d", ">2"), ("e", -2), ("f", 3), ("g", 4), ("h", ">4"), ("i", 5), ("j", 16), ("k", "v"), ("l", "*")]),
                         ("signed-and-big-endian-group", [("n", 1), [("p", -2), ("q", ">2"), ("r", ">4"), ("s", -1)], ("t", -2)])):
        fms = cc.model_fields(fields)
        out.append(eng.Case("hci", "synthetic", f"HCI_Object({name})", hci.HCI_Object, fms, "pfx", [], build=lambda d, fields=fields: hci.HCI_Object(fields, **d),
                            parse=lambda b, fields=fields: hci.HCI_Object.from_bytes(b, 0, fields), expect=_exact(hci.HCI_Object)))
    return out


# ----------------------------------------------------------------------------- unknown codes and data packets
def generic_packets(ctx, rep, ex):
    """packets with opcodes / event codes bumble does not know: parameters preserved byte for byte"""
    from bumble import hci

    rng = eng.class_rng(ctx.seed, "hci", "generic")
    star = [cc.FM(name="parameters", spec="*", kind=cc.K("star"), how="plain")]
    unknown_ops = [op for op in (0xFC77, 0xFFFF, 0x0000, 0x2FFF, 0x1234, 0x0CFE) if op not in hci.HCI_Command.command_classes][:4]
    for op in unknown_ops:
        ex.run_case(eng.Case("hci", "unknown-cmd", "HCI_Command(unknown opcode)", hci.HCI_Command, star, "cmd", [op],
                             build=lambda d, op=op: hci.HCI_Command(d["parameters"], op_code=op), parse=_packet_parse,
                             getter=lambda o: {"parameters": o.parameters},
                             expect=lambda o, op=op: None if type(o) is hci.HCI_Command and o.op_code == op else f"{type(o).__name__} opcode {getattr(o, 'op_code', None)}"))
    unknown_evs = [c for c in (0x00, 0x6F, 0xFE, 0x7A) if c not in hci.HCI_Event.event_classes and c not in (hci.HCI_LE_META_EVENT, hci.HCI_VENDOR_EVENT)][:3]
    for code in unknown_evs:
        ex.run_case(eng.Case("hci", "unknown-evt", "HCI_Event(unknown code)", hci.HCI_Event, star, "evt", [code],
                             build=lambda d, code=code: hci.HCI_Event(d["parameters"], event_code=code), parse=_packet_parse,
                             getter=lambda o: {"parameters": o.parameters},
                             expect=lambda o, code=code: None if type(o) is hci.HCI_Event and o.event_code == code else f"{type(o).__name__} code {getattr(o, 'event_code', None)}"))
    unknown_sub = [c for c in (0x00, 0x7F, 0xFF, 0xE0) if c not in hci.HCI_LE_Meta_Event.subevent_classes][:3]
    for sub in unknown_sub:
        # the generic LE meta event keeps the sub-event code as the first parameter byte
        ex.run_case(eng.Case("hci", "unknown-le", "HCI_LE_Meta_Event(unknown subevent)", hci.HCI_LE_Meta_Event, star, "ext", [hci.HCI_LE_META_EVENT, sub],
                             build=lambda d, sub=sub: hci.HCI_LE_Meta_Event(bytes([sub]) + d["parameters"], subevent_code=sub), parse=_packet_parse,
                             getter=lambda o: {"parameters": o.parameters[1:]},
                             expect=lambda o, sub=sub: None if type(o) is hci.HCI_LE_Meta_Event and o.subevent_code == sub and o.parameters[:1] == bytes([sub]) else f"{type(o).__name__} subevent {getattr(o, 'subevent_code', None)}",
                             max_params=254))
    # command complete for opcodes without a return-parameter class: generic return parameters
    cc_cls = hci.HCI_Event.event_classes[hci.HCI_COMMAND_COMPLETE_EVENT]
    async_ops = [op for op, c in sorted(hci.HCI_Command.command_classes.items()) if not issubclass(c, hci.HCI_SyncCommand)][:2]
    pre = [cc.FM(name="num_hci_command_packets", spec=1, kind=cc.K("u8"), how="plain"), cc.FM(name="command_opcode", spec=2, kind=cc.K("u16"), how="plain"),
           cc.FM(name="data", spec="*", kind=cc.K("star"), how="plain")]
    for op in unknown_ops[:2] + async_ops:
        ex.run_case(eng.Case("hci", "unknown-rp", "HCI_GenericReturnParameters(no return parameter class)", hci.HCI_GenericReturnParameters, pre, "evt", [hci.HCI_COMMAND_COMPLETE_EVENT],
                             build=lambda d, op=op: cc_cls(num_hci_command_packets=d["num_hci_command_packets"], command_opcode=op, return_parameters=hci.HCI_GenericReturnParameters(data=d["data"])),
                             parse=_packet_parse,
                             getter=lambda e: {"num_hci_command_packets": e.num_hci_command_packets, "command_opcode": e.command_opcode, "data": e.return_parameters.data},
                             expect=lambda e: None if type(e) is cc_cls and type(e.return_parameters) is hci.HCI_GenericReturnParameters else f"{type(e).__name__} / {type(getattr(e, 'return_parameters', None)).__name__}",
                             pinned={"command_opcode": op}))
    # unknown packet type: carried whole
    for t in (0x00, 0x06, 0xFF):
        raw = bytes([t]) + rng.randbytes(rng.choice([0, 1, 9]))
        rep.case(("hci", "custom", t), sample=None)
        p = hci.HCI_Packet.from_bytes(raw)
        if type(p) is not hci.HCI_CustomPacket or bytes(p) != raw:
            rep.violation("hci:custom-packet:bytes", f"packet type {t:#x}: {raw.hex()} -> {type(p).__name__} -> {bytes(p).hex()}", {"part": "custom", "bytes": raw.hex()})


def _acl_vectors(quick):
    lens = [0, 1, 27, 255, 256] + ([] if quick else [1021, 65535])
    for h in (0, 1, 0x0ABC, 0xFFF):
        for pb in range(4):
            for bc in range(4):
                for n in (lens if (h, pb, bc) in ((1, 2, 0), (0xFFF, 3, 3)) else [0, 5]):
                    yield h, pb, bc, n


def data_packets(ctx, rep, ex):
    from bumble import hci

    ev = ex.events
    rng = eng.class_rng(ctx.seed, "hci", "data")

    def meta(kind, tag, d):
        return {"ns": "hci", "family": "data", "cls": kind, "tag": tag, "dir": d, "labels": []}

    # ---- ACL
    for h, pb, bc, n in _acl_vectors(ctx.quick):
        data = rng.randbytes(n)
        tag = f"h={h:#x},pb={pb},bc={bc},len={n}"
        rep.case(("hci", "acl", tag), sample={"acl": tag} if n == 27 else None)
        r = {"h": h, "pb": pb, "bc": bc, "len": n, "data": list(data)}
        try:
            raw = bytes(hci.HCI_AclDataPacket(connection_handle=h, pb_flag=pb, bc_flag=bc, data_total_length=n, data=data))
            ev.append({"e": "acl", "dir": "ser", "r": r, "bytes": list(raw), "again": [], "wf": "any", "_meta": meta("HCI_AclDataPacket", tag, "A")})
        except Exception as e:
            rep.violation("hci:build-raises:data:HCI_AclDataPacket", f"ACL {tag}: {type(e).__name__}: {e}", {"part": "data", "kind": "acl", "r": r})
        w = h | pb << 12 | bc << 14
        raw = bytes([2, w & 0xFF, w >> 8, n & 0xFF, n >> 8]) + data
        _data_par(rep, ev, "acl", hci.HCI_AclDataPacket, raw, meta("HCI_AclDataPacket", tag, "B"),
                  lambda p: {"h": p.connection_handle, "pb": p.pb_flag, "bc": p.bc_flag, "len": p.data_total_length, "data": list(p.data)},
                  lambda p: hci.HCI_AclDataPacket(connection_handle=p.connection_handle, pb_flag=p.pb_flag, bc_flag=p.bc_flag, data_total_length=p.data_total_length, data=p.data))
    # ---- SCO
    for h in (0, 1, 0x0ABC, 0xFFF):
        for st in range(4):
            for n in ([0, 1, 48, 255] if (h, st) in ((1, 0), (0xFFF, 3)) else [3]):
                data = rng.randbytes(n)
                tag = f"h={h:#x},st={st},len={n}"
                rep.case(("hci", "sco", tag))
                r = {"h": h, "st": st, "len": n, "data": list(data)}
                try:
                    raw = bytes(hci.HCI_SynchronousDataPacket(connection_handle=h, packet_status=hci.HCI_SynchronousDataPacket.Status(st), data_total_length=n, data=data))
                    ev.append({"e": "sco", "dir": "ser", "r": r, "bytes": list(raw), "again": [], "wf": "any", "_meta": meta("HCI_SynchronousDataPacket", tag, "A")})
                except Exception as e:
                    rep.violation("hci:build-raises:data:HCI_SynchronousDataPacket", f"SCO {tag}: {type(e).__name__}: {e}", {"part": "data", "kind": "sco", "r": r})
                w = h | st << 12
                raw = bytes([3, w & 0xFF, w >> 8, n]) + data
                _data_par(rep, ev, "sco", hci.HCI_SynchronousDataPacket, raw, meta("HCI_SynchronousDataPacket", tag, "B"),
                          lambda p: {"h": p.connection_handle, "st": int(p.packet_status), "len": p.data_total_length, "data": list(p.data)},
                          lambda p: hci.HCI_SynchronousDataPacket(connection_handle=p.connection_handle, packet_status=p.packet_status, data_total_length=p.data_total_length, data=p.data))
    # ---- ISO
    for h in (0, 0x0ABC, 0xFFF):
        for pb in range(4):
            for ts in (0, 1):
                for psf in ((0, 1, 2) if pb in (0, 2) else (0,)):
                    for sl, n in (((0, 0), (1, 1), (0xFFF, 5)) if (pb in (0, 2) and h == 0x0ABC) else ((3, 3),)):
                        sdu = pb in (0, 2)
                        frag = rng.randbytes(n)
                        tsv = rng.choice([0, 0x01020304, 0xFFFFFFFF, 0x80000000]) if ts else 0
                        psn = rng.choice([0, 1, 0xFFFF, 0x1234]) if sdu else 0
                        dtl = n + (4 if ts else 0) + (4 if sdu else 0)
                        tag = f"h={h:#x},pb={pb},ts={ts},psf={psf},sl={sl if sdu else 0},len={n}"
                        rep.case(("hci", "iso", tag), sample={"iso": tag} if (h, pb, ts) == (0x0ABC, 0, 1) and psf == 1 and n == 5 else None)
                        r = {"h": h, "pb": pb, "ts": ts, "dtl": dtl, "tsv": [tsv & 0xFFFF, tsv >> 16], "psn": psn, "sl": sl if sdu else 0, "psf": psf if sdu else 0, "data": list(frag)}
                        try:
                            raw = bytes(hci.HCI_IsoDataPacket(connection_handle=h, data_total_length=dtl, iso_sdu_fragment=frag, pb_flag=pb, ts_flag=ts,
                                                              time_stamp=tsv if ts else None, packet_sequence_number=psn if sdu else None,
                                                              iso_sdu_length=sl if sdu else None, packet_status_flag=psf if sdu else None))
                            ev.append({"e": "iso", "dir": "ser", "r": r, "bytes": list(raw), "again": [], "wf": "any", "_meta": meta("HCI_IsoDataPacket", tag, "A")})
                        except Exception as e:
                            rep.violation("hci:build-raises:data:HCI_IsoDataPacket", f"ISO {tag}: {type(e).__name__}: {e}", {"part": "data", "kind": "iso", "r": r})
                        w = h | pb << 12 | ts << 14
                        raw = bytes([5, w & 0xFF, w >> 8, dtl & 0xFF, dtl >> 8])
                        if ts:
                            raw += tsv.to_bytes(4, "little")
                        if sdu:
                            x = sl | psf << 14
                            raw += bytes([psn & 0xFF, psn >> 8, x & 0xFF, x >> 8])
                        raw += frag

                        def vals(p):
                            t = p.time_stamp if p.time_stamp is not None else 0
                            return {"h": p.connection_handle, "pb": p.pb_flag, "ts": int(p.ts_flag), "dtl": p.data_total_length, "tsv": [t & 0xFFFF, t >> 16],
                                    "psn": p.packet_sequence_number or 0, "sl": p.iso_sdu_length or 0, "psf": p.packet_status_flag or 0, "data": list(p.iso_sdu_fragment)}

                        _data_par(rep, ev, "iso", hci.HCI_IsoDataPacket, raw, meta("HCI_IsoDataPacket", tag, "B"), vals,
                                  lambda p: hci.HCI_IsoDataPacket(connection_handle=p.connection_handle, data_total_length=p.data_total_length, iso_sdu_fragment=p.iso_sdu_fragment,
                                                                  pb_flag=p.pb_flag, ts_flag=p.ts_flag, time_stamp=p.time_stamp, packet_sequence_number=p.packet_sequence_number,
                                                                  iso_sdu_length=p.iso_sdu_length, packet_status_flag=p.packet_status_flag))


def _data_par(rep, ev, kind, cls, raw, meta, vals, fresh):
    from bumble import hci

    try:
        p = hci.HCI_Packet.from_bytes(raw)
    except Exception as e:
        rep.violation(f"hci:parse-raises:data:{cls.__name__}", f"{cls.__name__} {meta['tag']}: parsing {raw.hex()[:80]} raised {type(e).__name__}: {e}", {"part": "data", "kind": kind, "bytes": raw.hex()})
        return
    if type(p) is not cls:
        rep.violation(f"hci:class:data:{cls.__name__}", f"{raw.hex()[:80]} parsed into a {type(p).__name__}", {"part": "data", "kind": kind, "bytes": raw.hex()})
        return
    ev.append({"e": kind, "dir": "par", "r": vals(p), "bytes": list(raw), "again": list(bytes(fresh(p))), "wf": "y", "_meta": meta})


def report_data_rejections(rep, rejected):
    """rejections of acl / sco / iso events (field-codec events are reported by the Exerciser)"""
    rest = []
    for ev, why, want in rejected:
        if ev["e"] not in ("acl", "sco", "iso"):
            rest.append((ev, why, want))
            continue
        m = ev["_meta"]
        for w in why:
            if w == "bytes":
                wb = list(want.get("bytes", ())) if isinstance(want, dict) else []
                i = cc.first_diff(ev["bytes"], wb)
                detail = f"bytes(packet) = {cc.hexs(ev['bytes'])[:80]}, spec {cc.hexs(wb)[:80]} (first difference at offset {i})"
                clause = "ser"
            elif w == "values":
                wr = want.get("r", {}) if isinstance(want, dict) else {}
                bad = sorted(k for k in ev["r"] if k in wr and eng._norm(wr[k]) != eng._norm(ev["r"][k]))
                detail = f"parsing {cc.hexs(ev['bytes'])[:80]} gave {{{', '.join(f'{k}={ev['r'][k]}' for k in bad)}}}, spec {{{', '.join(f'{k}={wr[k]}' for k in bad)}}}"
                clause = "par:" + ",".join(bad)
            else:
                i = cc.first_diff(ev["again"], ev["bytes"])
                detail = f"parsed {cc.hexs(ev['bytes'])[:80]}, re-serialised {cc.hexs(ev['again'])[:80]} (first difference at offset {i})"
                clause = "reserialise"
            rep.violation(f"hci:{ev['e']}:{clause}", f"{m['cls']} {m['tag']}: {detail}",
                          {"part": "event", "ns": "hci", "family": "data", "cls": m["cls"], "tag": m["tag"], "why": w, "event": {k: v for k, v in ev.items() if k != "_meta"}})
    return rest


# ----------------------------------------------------------------------------- process histories (Statelessness.tla)
def _history_label(case, path):
    """the field (as in the violation signatures of the other parts) a path into a canonical value lies in"""
    parts = [x for x in re.split(r"[.\[\]]+", path) if x and not x.isdigit()]
    if len(parts) < 2 or parts[0] != "fields":
        return parts[0] if parts else "packet"
    for name in parts[1:]:  # outermost first: containers (return_parameters, the list of a group) match no field model
        for fm in case.fms:
            if fm.is_group:
                for s in fm.sub:
                    if s.name == name:
                        return eng.label(s)
            elif fm.name == name:
                return eng.label(fm)
    return "fields"


def history_groups(ctx, only=None, cases=None):
    """[(case, [(tag, packet bytes)])]: the packets of every class with a callable-codec field.  Uses the field
    parsers of this process to find well-formed bytes (as the vectors of the other parts): call it from the main thread."""
    if cases is None:
        cases, _ = hci_cases()
    helper = eng.Exerciser(ctx, None)
    groups = []
    seen_rp = set()
    for case in cases:
        if only and case.name != only:
            continue
        if not hist._has_opaque(case.fms):
            continue
        if case.family == "rp":
            if case.cls in seen_rp:
                continue
            seen_rp.add(case.cls)
        pk = hist.packets_for(case, ctx.seed, eng.frame_bytes, helper._reencode)
        if len(pk) >= 2:
            groups.append((case, pk))
    return groups


def history_traces(ctx, groups):
    """-> (traces for Statelessness.tla, one per class: the histories of all processes projected on the packets
    of that class, separated by "restart"; metas; stats).  Touches no Report: it may run beside the rest of the check.
    An event is [op, key = packet bytes, res = digest of the canonical field values]; the canonical values
    themselves stay in metas[..]["vals"] (same positions) for the diagnostic."""
    if not groups:
        return [], [], {"classes": 0, "packets": 0, "processes": 0, "parsed": 0}
    n_proc = 2 if ctx.quick else 5
    ords = hist.orders(len(groups), [len(pk) for _, pk in groups], n_proc, eng.class_rng(ctx.seed, "hci", "history-orders"))
    outs = hist.run_processes([[groups[g][1][i][1] for g, i in o] for o in ords])
    traces = [[] for _ in groups]
    metas = [{"case": case, "tags": {bytes(raw): tag for tag, raw in pk}, "vals": [], "keys": []} for case, pk in groups]
    parsed = 0
    for k, (o, r) in enumerate(zip(ords, outs)):
        if k:
            for tr, m in zip(traces, metas):
                tr.append({"op": "restart", "key": [], "res": []})
                m["vals"].append(None)
        for (g, i), res in zip(o, r["results"]):
            case, pk = groups[g]
            metas[g]["keys"].append(("hci", "history", case.name, pk[i][0], k))
            parsed += "raised" not in res
            traces[g].append({"op": "hci.parse", "key": list(pk[i][1]), "res": hist.digest(res)})
            metas[g]["vals"].append(res)
    stats = {"classes": len(groups), "packets": sum(len(pk) for _, pk in groups), "processes": n_proc, "parsed": parsed,
             "bumble": sorted({r["bumble"] for r in outs})}
    return traces, metas, stats


def history_tlc(ctx, traces, tag="c01h"):
    return tlc.trace_batch(ctx.spec("Pdu", "Statelessness.tla"), cc._cfg(ctx, f"{tag}.cfg"), traces, tag=tag)


def history_report(rep, traces, metas, res):
    rep.extra["history_states"] = res["states"]
    rep.extra["trace_states"] = rep.extra.get("trace_states", 0) + res["states"]
    rep.extra["trace_transitions"] = rep.extra.get("trace_transitions", 0) + res["transitions"]
    for m in metas:
        for key in m["keys"]:
            rep.case(key, nontrivial=True)
    for tid, v in sorted(res["verdicts"].items()):
        rep.traces += 1
        if v[0] != "REJECT":
            continue
        tr = traces[tid - 1]
        m = metas[tid - 1]
        case = m["case"]
        line = v[1]
        if not 0 < line <= len(tr):
            raise tlc.TlcError(f"history {tid} rejected at line {line} of {len(tr)}")
        ev = tr[line - 1]
        fi = next(i for i, e in enumerate(tr[: line - 1]) if e["op"] == ev["op"] and e["key"] == ev["key"])
        path, a, b = hist.first_difference(m["vals"][fi], m["vals"][line - 1])
        proc = sum(1 for e in tr[: line - 1] if e["op"] == "restart")
        rep.violation(f"hci:history:par:{_history_label(case, path)}",
                      f"{case.name} ({case.family}): parsing {bytes(ev['key']).hex()[:120]} ({m['tags'].get(bytes(ev['key']), '?')}) gave {path} = {b!r} in process {proc}, "
                      f"but {a!r} when another new process parsed the same bytes: the field values depend on what was parsed earlier in the process "
                      f"(the processes parse the same packets, which carry the same bytes in the callable-codec fields, in different orders)",
                      {"part": "history", "ns": "hci", "family": case.family, "cls": case.name, "line": line, "path": path,
                       "key": bytes(ev["key"]).hex(), "first": m["vals"][fi], "later": m["vals"][line - 1]})


def histories(ctx, groups):
    """the new processes and the TLC run, without the report (may run in a thread beside the rest of the check)"""
    import time

    t0 = time.time()
    traces, metas, stats = history_traces(ctx, groups)
    res = history_tlc(ctx, traces) if traces else None
    stats["wall_s"] = round(time.time() - t0, 1)  # spent beside the rest of the check, not added to it
    return traces, metas, stats, res


def histories_done(rep, job):
    traces, metas, stats, res = job
    rep.extra["histories"] = stats
    if res is not None:
        history_report(rep, traces, metas, res)
    return stats


# ----------------------------------------------------------------------------- entry points
def _exercise(ctx, rep, only=None, cases=None):
    ex = eng.Exerciser(ctx, rep, counts=(0, 1, 2) if ctx.quick else (0, 1, 2, 3), n_random=2 if ctx.quick else 12)
    cases, notes = cases or hci_cases()
    seen_rp = set()
    for case in cases:
        if only and case.name != only:
            continue
        if case.family == "rp":
            # a return-parameter class shared by many commands: full vectors for its first command, base + randoms for generic ones
            if case.cls in seen_rp:
                small = eng.Exerciser(ctx, rep, counts=(1,), n_random=1)
                small.events = ex.events
                small.stats = ex.stats
                case_fms = case.fms
                # only the base vector and one random
                rng = eng.class_rng(ctx.seed, case.ns, case.family, case.name)
                vecs = []
                for tag, choose in (("base", lambda f, p: case.base_values.get(f.name, cc.base(f.kind))), ("random0", lambda f, p: cc.rand(f.kind, rng))):
                    try:
                        v = cc.make_vector(case_fms, choose, rng)
                    except cc.Unbuildable:
                        continue
                    v.tag = tag
                    for i, fm in enumerate(case_fms):
                        if fm.name in case.pinned:
                            v.vals[i] = case.pinned[fm.name]
                    v.params = small._reencode(case_fms, v)
                    vecs.append(v)
                ex.stats["classes"] += 1
                for v in vecs:
                    ex.stats["vectors"] += 1
                    small._one_vector(case, v)
                continue
            seen_rp.add(case.cls)
        ex.run_case(case)
    for case in synthetic_cases():
        if not only or case.name == only:
            ex.run_case(case)
    if not only:
        generic_packets(ctx, rep, ex)
        data_packets(ctx, rep, ex)
    rep.extra["hci_notes"] = notes
    return ex


def run(ctx, rep):
    rep.rule = ("one case per (class, vector): every registered HCI class x {base vector, each transparent field at each boundary value with "
                "the others at base, group counts, ragged columns, PHY masks, seeded random vectors} x both construction directions; distinct = "
                "distinct (class, vector) pairs; every serialisation / parse is one event validated by TLC against Codec.tla")
    rep.assumptions = ["boundary values and structural cases, not all 2^n values of a field (DESIGN section 9)",
                       "fields with callable codecs are opaque: layout position and bytes->value->bytes judged by TLC, value->bytes->value by the driver",
                       "the width / byte order of SpecableEnum fields is read from the closure of type_spec (falls back to opaque)",
                       "ISO Packet_Status_Flag is the two bits 14..15 of the SDU length word (Core Vol 4 Part E 5.4.5)",
                       "a repeated group takes its item count from its first column (documented in dict_to_bytes); unequal columns may also be refused"]
    model_check(ctx, rep)
    pool = concurrent.futures.ThreadPoolExecutor(max_workers=1)
    cases = hci_cases()
    hjob = pool.submit(histories, ctx, history_groups(ctx, cases=cases[0]))  # new python processes + one TLC run: beside the exercising below
    ex = _exercise(ctx, rep, cases=cases)
    rejected = cc.validate(ctx, rep, ex.events, ctx.spec("Hci", "CodecTrace.tla"), jobs=4 if ctx.quick else 6, tag="c01")
    rest = report_data_rejections(rep, rejected)
    ex.report_rejections(rest)
    st = dict(ex.stats)
    st["bytes_only_classes"] = st["bytes_only_classes"][:40]
    rep.extra["binding"] = st
    if ex.stats["classes"] < 300 or ex.stats["vectors"] < 3000:
        raise tlc.TlcError(f"vacuous binding: only {ex.stats['classes']} classes / {ex.stats['vectors']} vectors exercised")
    hs = histories_done(rep, hjob.result())
    pool.shutdown()
    if hs["classes"] < 20 or hs["packets"] < 300 or hs["parsed"] < hs["packets"] * hs["processes"] // 2:
        raise tlc.TlcError(f"vacuous histories: {hs}")
    rep.exhaustive = False


def replay(ctx, rep):
    r = ctx.replay["replay"]
    print("replaying", ctx.replay["sig"])
    if r.get("part") == "history":
        histories_done(rep, histories(ctx, history_groups(ctx, only=r.get("cls"))))
    elif r.get("part") in ("fields", "event") and r.get("family") not in ("data", None) and not str(r.get("family", "")).startswith("unknown"):
        ex = _exercise(ctx, rep, only=r["cls"])
        rejected = cc.validate(ctx, rep, ex.events, ctx.spec("Hci", "CodecTrace.tla"), jobs=2, tag="c01r")
        ex.report_rejections(report_data_rejections(rep, rejected))
    else:
        ex = eng.Exerciser(ctx, rep)
        generic_packets(ctx, rep, ex)
        data_packets(ctx, rep, ex)
        rejected = cc.validate(ctx, rep, ex.events, ctx.spec("Hci", "CodecTrace.tla"), jobs=2, tag="c01r")
        ex.report_rejections(report_data_rejections(rep, rejected))
    for v in rep.violations:
        print(" ", v.sig, "-", v.summary[:300])
    if not any(v.sig == ctx.replay["sig"] for v in rep.violations):
        print("the recorded violation did not reproduce")


def selftest(ctx, rep):
    """the binding is not vacuous: documented misbehaviours of wrapped real codec functions, and corrupted
    recorded events, must be flagged"""
    from bumble import hci

    results = {}

    def with_patch(name, attr, repl, only, want_prefix):
        orig = getattr(hci.HCI_Object, attr)
        setattr(hci.HCI_Object, attr, staticmethod(repl(orig)))
        try:
            r2 = type(rep)(rep.prop, rep.level)
            ex = _exercise(ctx, r2, only=only)
            rejected = cc.validate(ctx, r2, ex.events, ctx.spec("Hci", "CodecTrace.tla"), jobs=2, tag="c01s")
            ex.report_rejections(report_data_rejections(r2, rejected))
            results[name] = sorted(v.sig for v in r2.violations)
            if not any(v.sig.startswith(want_prefix) for v in r2.violations):
                rep.violation(f"selftest:{name}", f"shim {name} not caught; got {results[name]}")
        finally:
            setattr(hci.HCI_Object, attr, orig)

    # 24-bit fields serialised big-endian
    def be24(orig):
        def f(value, t):
            tt = t["size"] if isinstance(t, dict) and "size" in t and "serializer" not in t else t
            if tt == 3 and not isinstance(tt, bool):
                return int(value).to_bytes(3, "big")
            return orig(value, t)
        return f

    with_patch("u24-big-endian", "serialize_field", be24, "HCI_Inquiry_Command", "hci:ser:u24")

    # signed byte parsed as unsigned
    def unsigned_s8(orig):
        def f(data, offset, t):
            if t == -1 and not isinstance(t, bool):
                return (data[offset], 1)
            return orig(data, offset, t)
        return f

    with_patch("s8-parsed-unsigned", "parse_field", unsigned_s8, "HCI_LE_Advertising_Report_Event", "hci:par")

    # corrupt recorded events: one byte of a ser event, one value of a par event, a dropped byte
    r3 = type(rep)(rep.prop, rep.level)
    ex = _exercise(ctx, r3, only="HCI_Disconnect_Command")
    evs = [e for e in ex.events]
    good = cc.validate(ctx, r3, evs, ctx.spec("Hci", "CodecTrace.tla"), jobs=1, tag="c01s")
    if good:
        raise tlc.TlcError(f"selftest baseline rejected: {good[:1]}")
    import copy

    bad = []
    e1 = copy.deepcopy(next(e for e in evs if e["e"] == "ser"))
    e1["bytes"][-1] ^= 1
    e2 = copy.deepcopy(next(e for e in evs if e["e"] == "par"))
    e2["vals"][0] = (e2["vals"][0] + 1) % 65536
    e3 = copy.deepcopy(next(e for e in evs if e["e"] == "par"))
    e3["again"] = e3["again"][:-1]
    bad = [e1, e2, e3]
    rej = cc.validate(ctx, r3, bad, ctx.spec("Hci", "CodecTrace.tla"), jobs=1, tag="c01s")
    results["corrupted-events"] = [w for _, w, _ in rej]
    if len(rej) != 3:
        rep.violation("selftest:corrupted-events", f"only {len(rej)} of 3 corrupted events rejected: {results['corrupted-events']}")
    # process histories: the recorded histories of one class are accepted; with one attribute of one field value of
    # the second process changed (what a parse cache keyed by a too coarse equality does) they are rejected
    r4 = type(rep)(rep.prop, rep.level)
    traces, metas, _ = history_traces(ctx, history_groups(ctx, only="HCI_LE_Connection_Complete_Event"))
    if not traces:
        raise tlc.TlcError("selftest: no history for HCI_LE_Connection_Complete_Event")
    bad = copy.deepcopy(traces[0])
    badm = dict(metas[0], vals=copy.deepcopy(metas[0]["vals"]))
    cut = next(i for i, e in enumerate(bad) if e["op"] == "restart")
    vi = next(i for i in range(cut + 1, len(bad)) if "raised" not in badm["vals"][i])
    val = badm["vals"][vi]
    fld = next(k for k, x in val["fields"].items() if isinstance(x, dict))
    att = next(k for k, x in val["fields"][fld].items() if isinstance(x, int))
    val["fields"][fld][att] ^= 2
    bad[vi]["res"] = hist.digest(val)
    history_report(r4, [traces[0], bad], [metas[0], badm], history_tlc(ctx, [traces[0], bad], tag="c01hs"))
    results["histories"] = sorted(v.sig for v in r4.violations)
    if len(r4.violations) != 1 or not r4.violations[0].sig.startswith("hci:history:par:opq"):
        rep.violation("selftest:histories", f"expected exactly the corrupted history to be rejected, got {results['histories']}")
    print("selftest:", results)
    rep.extra["selftest"] = results
