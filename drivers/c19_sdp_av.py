"""C19: SDP answers and AVDTP/AVCTP messages are reassembled exactly across PDUs; AVDTP stream states agree.

(a) SDP   (M) specs/Sdp/Match.tla, Continuation.tla model-checked;
          (B) real sdp.Server + 1..3 real sdp.Clients on different peers (lib.rig.Net, real classic
              connections), interleaved transactions, generated record sets; traces validated by SdpTrace.tla,
              which recomputes the expected handles / attribute ids from the logged record table.
(b) AVDTP / AVCTP fragmentation
          (M) specs/Av/AvdtpFrag.tla, AvctpFrag.tla (common part FragCore.tla) model-checked;
          (A) every bounded behaviour of the spec (messages x splits x one fault) fed to the real
              avdtp.MessageAssembler.on_pdu / avctp.MessageAssembler.on_pdu, packets built by the harness's own
              fragmenter; deliveries compared with the reference assembler's after every packet (a failing AVCTP
              behaviour is re-run with a PID in every packet, only to name the defect precisely);
          (B) avdtp.Protocol.send_message / avctp.Protocol.send_message on a stub channel of a given peer MTU;
              the packets written are validated by AvdtpFragTrace.tla / AvctpFragTrace.tla.
(c) AVDTP streams
          (M) specs/Av/Stream.tla model-checked (safety + completion);
          (A+B) transition tours of its state graph executed on a real source / sink pair; Stream.state of both
              ends after every operation validated by StreamTrace.tla.
"""
from __future__ import annotations

import os
import re

from lib import c19_av, c19_sdp, c19_stream, tlc, tour

LEVEL = "model_checking"


def _write(ctx, name, text):
    p = os.path.join(ctx.out, name)
    with open(p, "w") as f:
        f.write(text)
    return p


_COV2 = re.compile(r"^<(\w+) line \d+, col \d+ to line \d+, col \d+ of module \w+(?: \([\d ]+\))?>: (\d+):(\d+)", re.M)


def _cov(res):
    """lib.tlc's coverage parser misses actions that TLC prints with a sub-location; add them."""
    for m in _COV2.finditer(res["out"]):
        d = res["coverage"].setdefault(m.group(1), {"distinct": 0, "taken": 0})
        if "(" in m.group(0):
            d["distinct"] += int(m.group(2))
            d["taken"] += int(m.group(3))
    return res


def _mc(ctx, rep, label, spec, cfgname, cfgtext, need, constants, workers=4, record=True):
    cfg = _write(ctx, cfgname, cfgtext)
    res = _cov(tlc.mc(spec, cfg, workers=workers))
    if res["violation"]:
        raise tlc.TlcError(f"{label} violates {res['violation']} in the model itself:\n{res['out'][-2500:]}")
    tlc.require_actions(res, need, label)
    if record:
        rep.add_mc(label, res, constants)
    return res, cfg


# ============================================================================= (b) fragmentation
def frag_senders(ctx, rep, proto_patch=None, quick=True, corrupt=None):
    """code -> spec: what the real senders write on a stub channel, validated by *FragTrace.tla."""
    from bumble import avctp, avdtp

    rng = ctx.rng
    mtus = [48, 49, 50, 64, 335, 672] if quick else [48, 49, 50, 51, 64, 127, 335, 672, 1021, 2048, 65535]
    traces = {"avdtp": [], "avctp": []}
    meta = {"avdtp": [], "avctp": []}
    for mtu in mtus:
        f = mtu - 3
        lens = {0, 1, 2, mtu - 4, mtu - 3, mtu - 2, mtu - 1, mtu, mtu + 1, f, f + 1, 2 * f - 1, 2 * f, 2 * f + 1, 3 * f, 3 * f + 1}
        if not quick:
            lens |= {5 * f - 1, 5 * f, 17 * f + 3, 254 * f, 254 * f + 1, 255 * f - 1, 255 * f}
        lens |= {rng.randrange(0, 4 * mtu) for _ in range(3 if quick else 10)}
        lens = sorted(l for l in lens if 0 <= l <= min(255 * f, 70000 if quick else 20_000_000) and l <= 300_000)
        # --- AVDTP
        chan = c19_av.StubChannel(mtu)
        p = avdtp.Protocol(chan)
        if proto_patch:
            proto_patch(p)
        tr, mt = [], []
        for k, L in enumerate(lens):
            lab = (k * 7 + 3) % 16
            if L == 0:
                msg = avdtp.Discover_Command()
            elif L % 2 == 0 and k % 3 == 0:
                msg = avdtp.Discover_Response([avdtp.EndPointInfo((j % 62) + 1, j & 1, avdtp.MediaType.AUDIO, avdtp.StreamEndPointType(j & 1)) for j in range(L // 2)])
            else:
                msg = avdtp.Security_Control_Command(acp_seid=(k % 62) + 1, data=c19_av.payload_of(k + 1, L - 1))
            payload = bytes(msg.payload)
            if len(payload) != L:
                raise RuntimeError(f"harness: built a {len(payload)}-byte AVDTP payload, wanted {L}")
            chan.written.clear()
            exc = None
            try:
                p.send_message(lab, msg)
            except Exception as e:
                exc = e
            ev = c19_av.tx_event("avdtp", mtu, lab, int(msg.signal_identifier), int(msg.message_type), payload, list(chan.written))
            if exc is not None:
                ev["ok"] = False
            tr.append(ev)
            mt.append({"mtu": mtu, "L": L, "exc": repr(exc) if exc else None})
        traces["avdtp"].append(tr)
        meta["avdtp"].append(mt)
        # --- AVCTP: the property asks nothing of the sender beyond what fits one packet (bumble's sender never fragments)
        chan = c19_av.StubChannel(mtu)
        pc = avctp.Protocol(chan)
        tr, mt = [], []
        for k, L in enumerate(l for l in lens if l + 3 <= mtu):
            lab = (k * 5 + 1) % 16
            payload = c19_av.payload_of(k + 1, L)
            pid = 0x110E if k % 2 else 0x1234
            is_cmd = k % 3 != 0
            chan.written.clear()
            exc = None
            try:
                pc.send_message(lab, is_cmd, False, pid, payload)
            except Exception as e:
                exc = e
            ev = c19_av.tx_event("avctp", mtu, lab, pid, (0 if is_cmd else 2), payload, list(chan.written))
            if exc is not None:
                ev["ok"] = False
            tr.append(ev)
            mt.append({"mtu": mtu, "L": L, "exc": repr(exc) if exc else None})
        traces["avctp"].append(tr)
        meta["avctp"].append(mt)
    if corrupt:
        corrupt(traces)
    for proto in ("avdtp", "avctp"):
        cfg = _write(ctx, f"{proto}_txtrace.cfg", c19_av.cfg_text(proto, 48, 1, 1, 1, 0, trace=True))
        spec = ctx.spec("Av", "AvdtpFragTrace.tla" if proto == "avdtp" else "AvctpFragTrace.tla")
        # (messages of 255 packets make the recursive operators of the spec 255 deep: give TLC's threads room)
        res = tlc.trace_batch(spec, cfg, traces[proto], tag=proto + "tx", env={"JAVA_TOOL_OPTIONS": "-Xss512m"})
        rep.extra["trace_states"] = rep.extra.get("trace_states", 0) + res["states"]
        for tid, v in sorted(res["verdicts"].items()):
            tr = traces[proto][tid - 1]
            rep.traces += 1
            for ev in tr:
                rep.case((proto, "tx", ev["mtu"], ev["L"]), nontrivial=len(ev["lens"]) > 1,
                         sample={"sender": proto, "mtu": ev["mtu"], "L": ev["L"], "types": ev["types"][:6], "lens": ev["lens"][:6]} if len(ev["lens"]) == 3 else None)
            if v[0] == "REJECT":
                l = v[1]
                ev = tr[l - 1] if 0 < l <= len(tr) else None
                info = v[3] if len(v) > 3 and isinstance(v[3], dict) else {}
                if ev is None or not info:
                    raise tlc.TlcError(f"{proto} sender trace {tid} has no usable verdict: {v}")
                clause = next((k for k in ("nothing_sent", "split", "labels", "whole", "ok") if k in info and
                               ((k == "nothing_sent" and info[k]) or (k != "nothing_sent" and not info[k]))), "rejected")
                small = {k: (x if not isinstance(x, list) or len(x) < 12 else x[:12] + ["..."]) for k, x in (ev or {}).items()}
                rep.violation(
                    f"{proto}:sender:{clause}",
                    f"{proto} Protocol.send_message(peer_mtu={ev and ev['mtu']}, payload {ev and ev['L']} bytes) wrote {small}: "
                    f"not a split the specification allows (failed: {clause}; {meta[proto][tid - 1][l - 1] if ev else ''})",
                    {"part": "sender", "proto": proto, "mtu": ev and ev["mtu"], "L": ev and ev["L"], "event": ev},
                )


def part_frag(ctx, rep):
    if ctx.quick:
        geo = {"avdtp": (4, 2, 2, 3, 1), "avctp": (5, 2, 2, 3, 1)}
    else:
        geo = {"avdtp": (5, 3, 2, 3, 1), "avctp": (6, 3, 2, 3, 1)}
    for proto in ("avdtp", "avctp"):
        c19_av.replay_assembler(ctx, rep, proto, geo[proto], unit=1)
    if not ctx.quick:
        # deeper model checking without replay: three messages / two faults; and real fragment sizes
        for proto, consts in (("avdtp", (4, 2, 3, 3, 1)), ("avdtp", (4, 2, 2, 3, 2)), ("avctp", (5, 2, 3, 3, 1)), ("avctp", (5, 2, 2, 3, 2))):
            spec = ctx.spec("Av", "AvdtpFrag.tla" if proto == "avdtp" else "AvctpFrag.tla")
            _mc(ctx, rep, f"Av/{os.path.basename(spec)}", spec, f"{proto}_deep_{'_'.join(map(str, consts))}.cfg", c19_av.cfg_text(proto, *consts),
                ["DoSend", "Seal", "Run", "Recv", "DoDrop", "DoDup", "DoMislabelTxn", "DoMislabelType"],
                dict(zip(["Mtu", "MaxLen", "MaxMsgs", "MaxPk", "MaxFaults"], consts)))
        for proto in ("avdtp", "avctp"):
            c19_av.replay_assembler(ctx, rep, proto, {"avdtp": (4, 2, 2, 3, 1), "avctp": (5, 2, 2, 3, 1)}[proto], unit=23, tag="u23_")
    frag_senders(ctx, rep, quick=ctx.quick)


# ============================================================================= (c) streams
STREAM_INV = "INVARIANT TypeOK\nINVARIANT Inv_Same\nINVARIANT Inv_Rtp\nINVARIANT Inv_RefusedNoChange\nINVARIANT Inv_RawRejected\n"
STREAM_ACTIONS = ["IssueSend", "IssueRefuse", "IssueAbortIdle", "IssueAutoOpen", "AcpHandle", "IniComplete", "RtpOpen", "RtpClose"]


def stream_sequences(ctx, rep, maxops, record=True):
    spec = ctx.spec("Av", "Stream.tla")
    _mc(ctx, rep, "Av/Stream.tla", spec, f"stream_{maxops}.cfg",
        f"SPECIFICATION LiveSpec\nCONSTANTS\n  MaxOps = {maxops}\n{STREAM_INV}PROPERTY Live_Completes\nCHECK_DEADLOCK FALSE\n",
        STREAM_ACTIONS, {"MaxOps": maxops}, record=record)
    # the graph that is toured is Stream's unfolded by how the previous life of the stream object ended (StreamLives.tla)
    lives = ctx.spec("Av", "StreamLives.tla")
    _mc(ctx, rep, "Av/StreamLives.tla", lives, f"streamlives_{maxops}.cfg",
        f"SPECIFICATION LLiveSpec\nCONSTANTS\n  MaxOps = {maxops}\n{STREAM_INV}INVARIANT HistOK\nPROPERTY Live_Completes\nCHECK_DEADLOCK FALSE\n",
        ["L" + a for a in STREAM_ACTIONS], {"MaxOps": maxops}, record=record)
    cfg = _write(ctx, f"stream_{maxops}_dump.cfg", f"SPECIFICATION LSpec\nCONSTANTS\n  MaxOps = {maxops}\nCHECK_DEADLOCK FALSE\n")
    g, _ = tlc.dump_graph(lives, cfg, workers=2)
    kinds = {(n["hist"]["ended"], bool(n["hist"]["hadRtp"])) for n in g.nodes.values() if n["ini"] != "IDLE"}
    want = {("none", False), ("close", True), ("abort", True), ("abort", False)}
    if not want <= kinds:
        raise tlc.TlcError(f"StreamLives graph (MaxOps {maxops}) has no later life after {sorted(want - kinds)}")
    seqs = []
    seen = set()
    for path in tour.greedy_tours(g, max_len=8 * maxops):
        seq = []
        for ei in path:
            _, _, name, args = g.edges[ei]
            name = name[1:] if name.startswith("LIssue") else name
            if name == "IssueSend":
                seq.append((str(args[0]), str(args[1])))
            elif name == "IssueRefuse":
                seq.append((str(args[0]), "api"))
            elif name == "IssueAbortIdle":
                seq.append(("abort", str(args[0])))
            elif name == "IssueAutoOpen":
                seq.append(("start", "api"))
        if seq and tuple(seq) not in seen:
            seen.add(tuple(seq))
            seqs.append(seq)
    return seqs


def stream_validate(ctx, rep, seqs, patch=None, corrupt=None):
    traces, details, done = [], [], []
    for k, seq in enumerate(seqs):
        ev, det, ex = c19_stream.run_sequence(seq, seed=ctx.seed * 7919 + k, patch=patch)
        traces.append(ev)
        details.append(det)
        done.append(ex)
    seqs = done
    if corrupt:
        corrupt(traces)
    cfg = _write(ctx, "streamtrace.cfg", "SPECIFICATION TraceSpec\nCONSTANTS\n  MaxOps = 1000000\nCHECK_DEADLOCK FALSE\n")
    res = tlc.trace_batch(ctx.spec("Av", "StreamTrace.tla"), cfg, traces, tag="stream")
    rep.extra["trace_states"] = rep.extra.get("trace_states", 0) + res["states"]
    for tid, v in sorted(res["verdicts"].items()):
        tr = traces[tid - 1]
        seq = seqs[tid - 1]
        rep.traces += 1
        rep.case(("stream", tuple(seq)), nontrivial=len(seq) > 1, sample={"stream_ops": seq, "events": tr[:4]} if tid == 2 else None)
        if v[0] != "REJECT":
            continue
        l = v[1]
        ev = tr[l - 1] if 0 < l <= len(tr) else None
        info = v[3] if len(v) > 3 and isinstance(v[3], dict) else {}
        if ev is None or ev["e"] != "done":
            raise tlc.TlcError(f"stream trace {seq} rejected at a non-observation event {l}: {ev} {info} (harness / spec bug)")
        issue = tr[l - 2]
        if not info.get("outcome_ok", True):
            clause = "outcome-" + ev["outcome"]
        elif not info.get("src_ok", True) and not info.get("snk_ok", True):
            clause = "both-states"
        elif not info.get("src_ok", True):
            clause = "initiator-state"
        elif not info.get("snk_ok", True):
            clause = "acceptor-state"
        else:
            clause = "rejected"
        nops = (l // 2)
        rep.violation(
            f"stream:{issue['op']}:{issue['via']}:{clause}",
            f"AVDTP stream ops {seq[:nops]}: after {issue['op']} ({issue['via']}) the call's outcome is {ev['outcome']!r} "
            f"({details[tid - 1][nops - 1] if nops - 1 < len(details[tid - 1]) else ''}), source Stream.state={ev['src']}, sink Stream.state={ev['snk']}; "
            f"specification: outcome {info.get('last')!r}, both ends {info.get('ini')}/{info.get('acp')}",
            {"part": "stream", "seq": [list(x) for x in seq[:nops]], "trace": tr[:l], "spec": {k: str(x) for k, x in info.items()}},
        )


def part_stream(ctx, rep):
    seqs = stream_sequences(ctx, rep, 5 if ctx.quick else 7)
    if not ctx.quick:
        # plus random longer walks over the operation alphabet
        for _ in range(300):
            seqs.append([(ctx.rng.choice(c19_stream.OPS), "api") for _ in range(ctx.rng.randrange(6, 14))])
    rep.extra["stream_sequences"] = len(seqs)
    stream_validate(ctx, rep, seqs)


# ============================================================================= (a) SDP
SDP_TRACE_CFG = ("SPECIFICATION TraceSpec\nCONSTANTS\n  Clients = {{1, 2, 3}}\n  Caps = {{1}}\n  MaxAns = 1\n  Watchdog = {wd}\n"
                 "  MaxReq = 100000000\n  Shared = FALSE\nINVARIANT Inv_Prefix\nINVARIANT Inv_Complete\nINVARIANT Inv_Limit\nCHECK_DEADLOCK FALSE\n")
CONT_INV = ("INVARIANT TypeOK\nINVARIANT Inv_Prefix\nINVARIANT Inv_Complete\nINVARIANT Inv_Limit\nINVARIANT Inv_Fits\n"
            "INVARIANT Inv_Solicited\nINVARIANT Inv_NoError\n")


def cont_cfg(clients, caps, maxans, wd, maxreq, shared=False, live=False):
    return (f"SPECIFICATION {'LiveSpec' if live else 'Spec'}\nCONSTANTS\n  Clients = {{{', '.join(map(str, clients))}}}\n  Caps = {{{', '.join(map(str, caps))}}}\n"
            f"  MaxAns = {maxans}\n  Watchdog = {wd}\n  MaxReq = {maxreq}\n  Shared = {'TRUE' if shared else 'FALSE'}\n{CONT_INV}"
            + ("PROPERTY Live_Ends\n" if live else "") + "CHECK_DEADLOCK FALSE\n")


def sdp_models(ctx, rep):
    m = ctx.spec("Sdp", "Match.tla")
    # (record tables, nesting depth): matching is per record, so depth is explored with one record
    for h, d in ((("{1, 2}", 0), ("{1}", 1)) if ctx.quick else (("{1, 2}", 1), ("{1}", 2))):
        _mc(ctx, rep, "Sdp/Match.tla", m, f"match_{d}.cfg",
            f"SPECIFICATION Spec\nCONSTANTS\n  RecUuids = {{1, 2}}\n  PatUuids = {{1, 2, 3}}\n  Handles = {h}\n  Depth = {d}\n"
            "INVARIANT Inv_All\nINVARIANT Inv_Absent\nINVARIANT Inv_Conj\nPROPERTY AntiMonotone\nCHECK_DEADLOCK FALSE\n",
            ["Search"], {"RecUuids": [1, 2], "PatUuids": [1, 2, 3], "Handles": h, "Depth": d})
    c = ctx.spec("Sdp", "Continuation.tla")
    need = ["Connect", "Disconnect", "NewRequest", "Serve", "ClientRecv", "Collect"]
    if ctx.quick:
        _mc(ctx, rep, "Sdp/Continuation.tla", c, "cont_q.cfg", cont_cfg([1, 2], [2, 3], 5, 2, 1), need,
            {"Clients": [1, 2], "Caps": [2, 3], "MaxAns": 5, "Watchdog": 2, "MaxReq": 1})
    else:
        _mc(ctx, rep, "Sdp/Continuation.tla", c, "cont_t.cfg", cont_cfg([1, 2], [2, 3], 7, 3, 2), need,
            {"Clients": [1, 2], "Caps": [2, 3], "MaxAns": 7, "Watchdog": 3, "MaxReq": 2}, workers=8)
        _mc(ctx, rep, "Sdp/Continuation.tla", c, "cont_t3.cfg", cont_cfg([1, 2, 3], [2], 4, 2, 1), need,
            {"Clients": [1, 2, 3], "Caps": [2], "MaxAns": 4, "Watchdog": 2, "MaxReq": 1}, workers=8)
    _mc(ctx, rep, "Sdp/Continuation.tla (liveness)", c, "cont_live.cfg", cont_cfg([1, 2], [2], 3, 2, 1, live=True), need,
        {"Clients": [1, 2], "Caps": [2], "MaxAns": 3, "Watchdog": 2, "MaxReq": 1, "fairness": "WF on server / client steps"})


def sdp_sig(info, nclients):
    multi = "multi" if nclients > 1 else "single"
    ev = info.get("ev")
    if ev == "rsp":
        for k in ("solicited", "kind_ok", "own", "fits", "cont_ok"):
            if info.get(k) is False:
                return f"sdp:rsp:{k.replace('_ok', '')}:{multi}"
        return f"sdp:rsp:client-{info.get('client')}:{multi}"
    if ev == "result":
        if info.get("st") not in ("done", "limit", "error"):
            return f"sdp:result:returned-while-{info.get('st')}:{multi}"
        if info.get("outcome_ok") is False:
            return f"sdp:result:outcome-{str(info.get('outcome')).replace('exc:', '')}:{info.get('kind')}:{multi}"
        if info.get("records_ok") is False:
            miss = {dict(x)["h"] for x in info.get("missing", ())}
            extra = {dict(x)["h"] for x in info.get("extra", ())}
            pat = "pattern>1" if info.get("npat", 0) > 1 else "pattern=1"
            if extra - miss:
                what = "extra-record"
            elif miss - extra:
                what = "missing-record"
            else:
                what = "attribute-ids"
                pat = "ids"
            return f"sdp:result:{what}:{info.get('kind')}:{pat}:{multi}"
        if info.get("nodups") is False:
            return f"sdp:result:duplicates:{info.get('kind')}:{multi}"
        if info.get("values_ok") is False:
            return f"sdp:result:values:{info.get('kind')}:{multi}"
        return f"sdp:result:rejected:{multi}"
    if ev == "hang":
        return f"sdp:hang:{multi}"
    if ev == "err":
        return f"sdp:error-response:{info.get('kind')}:{multi}"
    return f"sdp:{ev}:rejected:{multi}"


def sdp_shapes(ctx, n, big_ok):
    """Scenario seeds + shapes: free ones, and families aimed at the boundaries named by the property."""
    shapes = []
    base = ctx.seed * 1_000_003
    k = 0

    def add(shape):
        nonlocal k
        k += 1
        shapes.append((base + k, dict(shape, big_ok=big_ok, big=not ctx.quick)))

    for mtu in c19_sdp.MTUS:
        for tune in ("attr", "sattr", "search"):
            for delta in (-1, 0, 1):
                if mtu > 1000 and tune == "search":
                    continue
                add({"mtu": mtu, "tune": tune, "delta": delta, "nclients": 1 + (k % 3)})
    # the client's continuation limit: exactly 64 responses, and one more than that
    import bumble.sdp as _sdp

    wd = _sdp.SDP_CONTINUATION_WATCHDOG
    for mtu in (48, 49, 64):
        for delta in (0, 1):
            add({"mtu": mtu, "tune": "attr" if delta else "sattr", "watchdog": wd, "delta": delta, "nclients": 1 + delta})
    # a bystander closes its SDP channel between two continuation requests of another client's transaction
    for mtu in (48, 64):
        for tune in ("attr", "sattr", "search"):
            for leaver in (1, -1, 2, -2):
                add({"mtu": mtu, "tune": tune, "delta": 1, "k": 3, "nclients": 2 + (k % 2), "leaver": leaver})
    while len(shapes) < n:
        add({})
    return shapes


def sdp_traces(ctx, rep, n, server_patch=None, client_patch=None, corrupt=None, shapes=None):
    import bumble.sdp as _sdp

    big_ok = c19_sdp.link_carries(65535)
    rep.extra["link_carries_65535_byte_pdu"] = big_ok
    if not big_ok:
        rep.assumptions.append("the rig's link drops L2CAP PDUs above 65531 bytes on this tree (C05's subject): at MTU 65535 answers are kept to one "
                               "response of at most 65522 bytes, continuation at that MTU is not exercised")
    shapes = shapes if shapes is not None else sdp_shapes(ctx, n, big_ok)
    traces, scs = [], []
    for seed, shape in shapes:
        sc = c19_sdp.gen_scenario(seed, shape)
        ev, info = c19_sdp.run_scenario(sc, server_patch=server_patch, client_patch=client_patch)
        traces.append(ev)
        scs.append((seed, shape, sc))
    if corrupt:
        corrupt(traces)
    cfg = _write(ctx, "sdptrace.cfg", SDP_TRACE_CFG.format(wd=_sdp.SDP_CONTINUATION_WATCHDOG))
    res = tlc.trace_batch(ctx.spec("Sdp", "SdpTrace.tla"), cfg, traces, tag="sdp")
    rep.extra["trace_states"] = rep.extra.get("trace_states", 0) + res["states"]
    kinds = {}
    for tid, v in sorted(res["verdicts"].items()):
        tr = traces[tid - 1]
        seed, shape, sc = scs[tid - 1]
        rep.traces += 1
        key = tuple((e["e"], e["c"], e["kind"], e["n"], e["cont"], len(e["pat"]), tuple(map(tuple, e["ids"]))) for e in tr if e["e"] != "records")
        nrsp = sum(1 for e in tr if e["e"] == "rsp")
        for e in tr:
            if e["e"] == "query":
                kinds[e["kind"]] = kinds.get(e["kind"], 0) + 1
        rep.case(("sdp", sc["nclients"], tuple(sc["mtus"]), key), nontrivial=nrsp > 0,
                 sample={"sdp": {"clients": sc["nclients"], "mtus": sc["mtus"], "records": len(sc["recs"]),
                                 "events": [{k: x for k, x in e.items() if x not in (0, "", [], False)} for e in tr[1:7]]}} if tid in (3, 11) else None)
        if v[0] != "REJECT":
            continue
        l = v[1]
        info = v[2] if len(v) > 2 and isinstance(v[2], dict) else {}
        if not (0 < l <= len(tr)) or "ev" not in info:
            raise tlc.TlcError(f"SDP trace {tid} has no usable verdict: {v}")
        sig = sdp_sig(info, sc["nclients"])
        ev = tr[l - 1] if 0 < l <= len(tr) else {}
        c = info.get("c", 0)
        qev = next((e for e in reversed(tr[:l]) if e["e"] == "query" and e["c"] == c), None)
        rep.violation(
            sig,
            f"SDP {sc['nclients']} client(s), MTUs {sc['mtus']}, {len(sc['recs'])} records: event {l} "
            f"{ {k: x for k, x in ev.items() if k in ('e', 'c', 'kind', 'n', 'cont', 'plen', 'own', 'outcome') } } is not allowed by the specification: "
            f"{ {k: (sorted(map(lambda y: dict(y), x), key=str) if isinstance(x, frozenset) else x) for k, x in info.items()} }; "
            f"query of client {c}: { {k: x for k, x in (qev or {}).items() if k in ('kind', 'pat', 'h', 'ids', 'total')} }; "
            f"record UUID sets {tr[0]['uu'][:6]}",
            {"part": "sdp", "gen_seed": seed, "shape": shape, "line": l, "info": {k: str(x) for k, x in info.items()}},
        )
    rep.extra["sdp_queries"] = {k: rep.extra.get("sdp_queries", {}).get(k, 0) + x for k, x in kinds.items()}
    return traces


def part_sdp(ctx, rep):
    sdp_models(ctx, rep)
    sdp_traces(ctx, rep, 140 if ctx.quick else 2500)


# ============================================================================= entry points
def run(ctx, rep):
    rep.rule = ("(b) one replay per maximal behaviour of the bounded state graph of AvdtpFrag.tla / AvctpFrag.tla on the real MessageAssembler "
                "(distinct = distinct packet sequences); one trace event per message handed to the real senders; "
                "(c) one trace per transition tour of Stream.tla on a real source / sink pair (distinct = distinct operation sequences); "
                "(a) one trace per generated SDP scenario on a real server + 1..3 real clients (distinct = distinct event sequences with a response)")
    rep.assumptions += [
        "reference answer sizes used to place SDP answers around multiples of the response capacity come from bumble's DataElement serializer "
        "applied to the harness's own attribute selection (codec correctness is C18's subject)",
        "UUIDs inside DataElement alternatives are not generated (whether they count as contained is left open)",
        "AVCTP sender: only messages that fit one packet are required to be sent correctly (the property quantifies AVCTP over the receive side)",
        "virtual-time event loop preserves asyncio callback order",
    ]
    import time

    walls = {}
    only = [x for x in os.environ.get("VERIF_C19_PARTS", "").split(",") if x]  # debugging aid: run some parts only
    for name, part in (("frag", part_frag), ("stream", part_stream), ("sdp", part_sdp)):
        if only and name not in only:
            continue
        t0 = time.time()
        part(ctx, rep)
        walls[name] = round(time.time() - t0, 1)
    rep.extra["wall_parts_s"] = walls
    print("parts:", walls)
    rep.exhaustive = False


def replay(ctx, rep):
    r = ctx.replay["replay"]
    part = r["part"]
    if part == "assembler":
        sent = tuple(dict(s, ch=tuple(s["ch"])) for s in r["sent"])
        for everywhere in ((False, True) if r["proto"] == "avctp" else (False,)):
            if everywhere:
                print("diagnosis: the same packets with a PID also in the continue / end packets (not the AVCTP specification's layout):")
            real = c19_av.RealAssembler(r["proto"], sent, r["unit"])
            for k, pk in enumerate(r["wire"], start=1):
                pdu = c19_av.build_pdu(r["proto"], pk, r["unit"], everywhere)
                try:
                    real.asm.on_pdu(pdu)
                    print(f"packet {k} {pk['t']:6} label{pk['lab']} count{pk['n']} {pdu.hex()} -> delivered so far {[(d['m'], d['len']) for d in real.out]}")
                except Exception as e:
                    print(f"packet {k} {pk} {pdu.hex()} -> raised {type(e).__name__}: {e}")
                    break
        print("messages hit by a fault:", r["touched"], " reference assembler delivers:", r["spec_delivered"])
    elif part == "sender":
        from bumble import avdtp

        if r["proto"] == "avdtp":
            chan = c19_av.StubChannel(r["mtu"])
            p = avdtp.Protocol(chan)
            L = r["L"]
            msg = avdtp.Discover_Command() if L == 0 else avdtp.Security_Control_Command(acp_seid=1, data=bytes(L - 1))
            p.send_message(3, msg)
            print("wrote packets of sizes", [len(x) for x in chan.written], "for peer MTU", r["mtu"])
        print("event:", r["event"])
    elif part == "stream":
        ev, det, _ = c19_stream.run_sequence([tuple(x) for x in r["seq"]], seed=ctx.seed)
        for e in ev:
            print(e)
        print(det)
        print("specification:", r.get("spec"))
    elif part == "sdp":
        sc = c19_sdp.gen_scenario(r["gen_seed"], r["shape"])
        ev, info = c19_sdp.run_scenario(sc)
        print("clients", sc["nclients"], "MTUs", sc["mtus"], "records", len(sc["recs"]))
        for i, e in enumerate(ev[: r["line"]], start=1):
            print(i, {k: x for k, x in e.items() if x not in (0, "", [], False) or k == "e"})
        print("verdict info:", r.get("info"))
    rep.violation(ctx.replay["sig"], ctx.replay["summary"], r)


# ----------------------------------------------------------------------------- self-test
class _RefAssembler:
    """The harness's own reference assembler (as FragCore.tla Assemble) behind the real call-back signatures;
    `mode` selects a documented misbehaviour."""

    def __init__(self, proto, callback, mode):
        self.proto, self.cb, self.mode = proto, callback, mode
        self.cur = None

    def on_pdu(self, pdu):
        p = c19_av.parse_pdu(self.proto, pdu)
        t = p["type"]
        if t == "single":
            self.cur = None
            self._deliver(p["lab"], p["low2"], p["extra"], p["data"])
        elif t == "start":
            if self.mode == "noresync" and self.cur is not None:
                return
            self.cur = {"lab": p["lab"], "low2": p["low2"], "extra": p["extra"], "n": p["count"], "got": 1, "data": p["data"]}
        else:
            c = self.cur
            if c is None or p["lab"] != c["lab"]:
                return
            c["got"] += 1
            c["data"] += p["data"]
            if t == "end":
                self.cur = None
                if c["got"] == c["n"] or self.mode == "nocount":
                    self._deliver(c["lab"], c["low2"], c["extra"], c["data"])
            elif c["got"] >= c["n"] and self.mode != "nocount":
                self.cur = None

    def _deliver(self, lab, low2, extra, data):
        if self.proto == "avdtp":
            from bumble import avdtp

            self.cb(lab, avdtp.Message.create(avdtp.SignalIdentifier(extra & 0x3F), avdtp.Message.MessageType(low2), data))
        else:
            self.cb(lab, (low2 >> 1) == 0, bool(low2 & 1), extra, data)


def selftest(ctx, rep):
    import asyncio

    R = type(rep)
    results = {}
    # (b) assembler replay: the reference assembler passes, two documented misbehaviours are flagged
    for proto, consts in (("avdtp", (4, 2, 2, 3, 1)), ("avctp", (5, 2, 2, 3, 1))):
        g = c19_av.frag_graph(ctx, rep, proto, consts, tag="st_", record=False)
        for mode, want in (("ok", 0), ("nocount", 1), ("noresync", 1)):
            r2 = R(rep.prop, rep.level)
            c19_av.replay_assembler(ctx, r2, proto, consts, factory=lambda cb, _m=mode, _p=proto: _RefAssembler(_p, cb, _m), graph=g)
            results[f"{proto}-assembler-{mode}"] = (len(r2.violations) > 0) == bool(want)
    # (b) sender traces: a packet one byte over the MTU, a wrong count field, a dropped packet
    def corrupt_tx(kind):
        def f(traces):
            for tr in traces["avdtp"]:
                for ev in tr:
                    if len(ev["lens"]) >= 3:
                        if kind == "count":
                            ev["counts"][0] += 1
                        elif kind == "drop":
                            for k in ("types", "labs", "counts", "lens"):
                                del ev[k][1]
                        elif kind == "mtu":
                            ev["mtu"] = ev["lens"][0] + 2
                        return
        return f
    for kind in ("count", "drop", "mtu"):
        r2 = R(rep.prop, rep.level)
        frag_senders(ctx, r2, corrupt=corrupt_tx(kind))
        results[f"sender-trace-{kind}"] = any(v.sig.startswith("avdtp:sender:") for v in r2.violations)
    # (c) streams: an acceptor that acknowledges close without doing it; a falsified observation
    seqs = [[("configure", "api"), ("open", "api"), ("close", "api"), ("configure", "api")],
            [("configure", "api"), ("open", "api"), ("start", "api"), ("suspend", "api"), ("suspend", "raw")]]

    def lazy_close(pair):
        async def on_close_command(command):
            return pair.avdtp.Close_Response()
        pair.server.on_close_command = on_close_command

    def open_suspend(pair):
        async def on_suspend_command(command):
            return pair.avdtp.Suspend_Response()
        pair.server.on_suspend_command = on_suspend_command

    for name, patch, corrupt in (("stream-lazy-close", lazy_close, None), ("stream-accepts-illegal-suspend", open_suspend, None),
                                 ("stream-trace-corrupt", None, lambda trs: trs[0][3].__setitem__("snk", "CONFIGURED")),
                                 ("stream-trace-drop", None, lambda trs: trs[0].__delitem__(slice(2, 4)))):
        r2 = R(rep.prop, rep.level)
        stream_validate(ctx, r2, seqs, patch=patch, corrupt=corrupt)
        results[name] = any(v.sig.startswith("stream:") for v in r2.violations)
    # (a) SDP: servers that match any UUID / lose a byte per response / answer on one channel; corrupted traces;
    #     and the single-buffer server model must violate the invariants in TLC
    def any_match(server):
        def match_services(pattern):
            out = {}
            for h, svc in server.service_records.items():
                if any(any(type(a).is_uuid_in_value(u.value, a.value) for a in svc) for u in pattern.value):
                    out[h] = svc
            return out
        server.match_services = match_services

    def lossy(server):
        orig = server.get_next_response_payload

        def get_next_response_payload(maximum_size):
            payload, cont = orig(maximum_size)
            return (payload[:-1] if len(payload) > 20 else payload), cont
        server.get_next_response_payload = get_next_response_payload

    def greedy(server):
        orig = server.get_next_response_payload
        server.get_next_response_payload = lambda maximum_size: orig(maximum_size + 2)

    def swap(trs):
        for tr in trs:
            idx = [i for i, e in enumerate(tr) if e["e"] == "rsp"]
            if len(idx) >= 2:
                tr[idx[0]], tr[idx[-1]] = tr[idx[-1]], tr[idx[0]]

    def drop_rsp(trs):
        for tr in trs:
            idx = [i for i, e in enumerate(tr) if e["e"] == "rsp" and e["cont"]]
            if idx:
                del tr[idx[0]]

    big_ok = c19_sdp.link_carries(65535)
    shapes = sdp_shapes(ctx, 60, big_ok)[:60]
    for name, sp, corrupt in (("sdp-any-match", any_match, None), ("sdp-lossy-chunks", lossy, None), ("sdp-over-mtu", greedy, None),
                              ("sdp-trace-swap", None, swap), ("sdp-trace-drop", None, drop_rsp)):
        r2 = R(rep.prop, rep.level)
        base = R(rep.prop, rep.level)
        sdp_traces(ctx, r2, 0, server_patch=sp, corrupt=corrupt, shapes=shapes)
        sdp_traces(ctx, base, 0, shapes=shapes)
        known = {v.sig for v in base.violations}
        results[name] = any(v.sig not in known for v in r2.violations)
        results[name + ":sigs"] = sorted(v.sig for v in r2.violations if v.sig not in known)[:4]
    cfg = _write(ctx, "cont_shared.cfg", cont_cfg([1, 2], [2, 3], 4, 2, 1, shared=True))
    res = tlc.mc(ctx.spec("Sdp", "Continuation.tla"), cfg, workers=2)
    results["continuation-model-shared-buffer"] = bool(res["violation"])
    print("selftest:", results)
    for k, v in results.items():
        if k.endswith(":sigs"):
            continue
        if not v:
            rep.violation(f"selftest:{k}", f"binding self-test: {k} was not detected (or the reference was flagged)")
