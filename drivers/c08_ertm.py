"""C08: classic L2CAP channels (Basic / ERTM) deliver every SDU once, in order; window; numbering; set-up.

(M) specs/L2cap/Ertm.tla (data phase, modulus M = 4 / 8 so sequence numbers wrap) and Config.tla (the two
    configuration state machines, every pair of channel specs) model-checked by TLC, plus two runs that must
    FAIL (the poll sent with the F bit, a side that accepts any mode) to show the models can see those.
(B) two real bumble Devices on a BR/EDR link (lib.rig), one classic channel per scenario; signalling and data
    frames read at the HCI taps by the harness' own ACL reassembler and L2CAP parser (lib/c08_frames.py);
    every scenario gives a set-up trace (ConfigTrace.tla) and, if both ends opened, a data trace
    (ErtmTrace.tla, M = 64).
"""
from __future__ import annotations

import concurrent.futures as cf
import os
import re

from lib import c08_scen, tlc

LEVEL = "model_checking"
WINDOWS = [1, 2, 3, 31, 63]
ERTM_SPEC = ("L2cap", "Ertm.tla")
CONF_SPEC = ("L2cap", "Config.tla")


# ----------------------------------------------------------------------------- TLC helpers
_COV = re.compile(r"^<(\w+) line \d+, col \d+ to line \d+, col \d+ of module \w+(?: \([\d ]+\))?>: (\d+):(\d+)", re.M)


def _coverage(out):
    """lib.tlc.parse_coverage misses the `<Action line .. of module M (a b c d)>` form TLC prints for actions
    that start with a quantifier."""
    cov = {}
    for m in _COV.finditer(out):
        d = cov.setdefault(m.group(1), {"distinct": 0, "taken": 0})
        d["distinct"] += int(m.group(2))
        d["taken"] += int(m.group(3))
    return cov


def _write(ctx, name, text):
    p = os.path.join(ctx.out, f"{ctx.tier}_{name}")  # quick and thorough may run side by side
    with open(p, "w") as f:
        f.write(text)
    return p


def _set(xs):
    return "{" + ", ".join(f'"{x}"' if isinstance(x, str) else str(x) for x in xs) + "}"


def ertm_cfg(ctx, name, *, spec, M, modes, wins, mpss, lens, n1, n2, polls=0, poll_as_final=False, pre=True, trace=False):
    inv = "" if trace else "INVARIANT TypeOK\nINVARIANT Inv_Window\nINVARIANT Inv_Seq\nINVARIANT Inv_Ack\nINVARIANT Inv_Sdus\n"
    return _write(ctx, name, f"""SPECIFICATION {spec}
CONSTANTS
  M = {M}
  ModeSet = {_set(modes)}
  WinSet = {_set(wins)}
  MpsSet = {_set(mpss)}
  LenSet = {_set(lens)}
  MaxSdus1 = {n1}
  MaxSdus2 = {n2}
  MaxPolls = {polls}
  PollAsFinal = {'TRUE' if poll_as_final else 'FALSE'}
  PreWritten = {'TRUE' if pre else 'FALSE'}
{inv}CHECK_DEADLOCK {'FALSE' if trace else 'TRUE'}
""")


def conf_cfg(ctx, name, *, lax_all=False, maxreq=2, trace=False):
    inv = "" if trace else "INVARIANT TypeOK\nINVARIANT Inv_NoSplit\n"
    return _write(ctx, name, f"""SPECIFICATION {'TraceSpec' if trace else 'Spec'}
CONSTANTS
  Modes = {{"basic", "ertm"}}
  MaxReq = {maxreq}
  LaxAll = {'TRUE' if lax_all else 'FALSE'}
{inv}CHECK_DEADLOCK {'FALSE' if trace else 'TRUE'}
""")


def _mc(ctx, spec, cfg, need, expect=None, workers=6, timeout=1500):
    res = tlc.mc(ctx.spec(*spec), cfg, workers=workers, timeout=timeout)
    res["coverage"] = _coverage(res["out"])
    if expect is None:
        if res["violation"]:
            raise tlc.TlcError(f"{spec[1]} / {os.path.basename(cfg)}: the model itself violates {res['violation']}")
        tlc.require_actions(res, need, f"{spec[1]} / {os.path.basename(cfg)}")
    elif res["violation"] != expect:
        raise tlc.TlcError(f"{spec[1]} / {os.path.basename(cfg)}: expected TLC to report {expect!r} (the model must be able to "
                           f"see this deviation), got {res['violation']!r}")
    return res


def model_checking_jobs(ctx):
    """-> list of (name, spec, cfg path, constants, required actions, expected violation)"""
    q = ctx.quick
    free = ["F_SendI", "F_SendS", "F_Recv", "F_Deliver", "Done"]
    timers = ["T_SendI", "T_Ack", "T_Final", "T_Timeout", "T_Recv", "F_Deliver", "Done"]
    confa = ["TxConnReq", "TxConnRsp", "TxConfReq", "TxConfRsp", "A_DiscReq", "TxDiscRsp", "Rx", "Finished"]
    jobs = []

    def ertm(name, need, expect=None, **kw):
        consts = {k: v for k, v in kw.items()}
        jobs.append((f"L2cap/Ertm.tla[{name}]", ERTM_SPEC, ertm_cfg(ctx, f"ertm_{name}.cfg", **kw), consts, need, expect))

    if q:
        ertm("free_m4", free, spec="SpecFree", M=4, modes=["ertm"], wins=[1, 2], mpss=[1], lens=[1, 2, 3], n1=2, n2=1)
        ertm("timers_m4", timers, spec="SpecTimers", M=4, modes=["ertm"], wins=[1, 2], mpss=[1], lens=[2], n1=1, n2=1, polls=2)
    else:
        ertm("free_m4", free, spec="SpecFree", M=4, modes=["ertm"], wins=[1, 2, 3], mpss=[1], lens=[1, 2, 3], n1=2, n2=1)
        ertm("free_m8", free, spec="SpecFree", M=8, modes=["ertm"], wins=[1, 2, 3], mpss=[1, 2], lens=[1, 3, 4], n1=3, n2=0)
        ertm("timers_m4", timers, spec="SpecTimers", M=4, modes=["ertm"], wins=[1, 2], mpss=[1], lens=[2, 3], n1=1, n2=1, polls=2)
    ertm("basic", ["F_SendB", "F_Recv", "F_Deliver", "Done"], spec="SpecFree", M=4, modes=["basic"], wins=[1], mpss=[1], lens=[1, 2, 3],
         n1=2, n2=2)
    ertm("poll_as_final", [], expect="deadlock", spec="SpecTimers", M=4, modes=["ertm"], wins=[1], mpss=[1], lens=[2], n1=1, n2=0,
         polls=2, poll_as_final=True)
    jobs.append(("L2cap/Config.tla", CONF_SPEC, conf_cfg(ctx, "config.cfg", maxreq=2 if q else 3),
                 {"Modes": ["basic", "ertm"], "MaxReq": 2 if q else 3, "LaxAll": False}, confa, None))
    jobs.append(("L2cap/Config.tla[lax_all]", CONF_SPEC, conf_cfg(ctx, "config_lax.cfg", lax_all=True),
                 {"Modes": ["basic", "ertm"], "MaxReq": 2, "LaxAll": True}, [], "invariant Inv_NoSplit"))
    return jobs


# ----------------------------------------------------------------------------- scenarios
MTUS = [23, 48, 100, 672, 2000, 4096]
MPSS = [23, 24, 30, 48, 100, 256, 1010]


def _sizes(rng, mtu, mps, n):
    """SDU sizes <= mtu, biased to the segmentation boundaries of mps."""
    pool = [0, 1, mps - 1, mps, mps + 1, 2 * mps - 1, 2 * mps, 2 * mps + 1, 3 * mps, mtu - 1, mtu]
    out = []
    for _ in range(n):
        v = rng.choice(pool) if rng.random() < 0.7 else rng.randint(0, mtu)
        out.append(max(0, min(v, mtu)))
    return out


def gen_scenario(rng, family, k):
    sc = {"family": family, "seed": rng.randrange(1 << 30), "modes": ["ertm", "ertm"], "mtu": [rng.choice(MTUS), rng.choice(MTUS)],
          "mps": [rng.choice(MPSS), rng.choice(MPSS)], "win": [rng.choice(WINDOWS), rng.choice(WINDOWS)],
          "fcs": [rng.randint(0, 1), rng.randint(0, 1)], "delay": rng.choice([0.0, 0.001, 0.02, 0.1]), "ops": [],
          "bufs": rng.choice([64, 64, 64, 8, 2])}
    if family == "setup":
        # every pair of (mode, fcs) specs, in turn
        sc["modes"] = [["basic", "ertm"][(k >> 0) & 1], ["basic", "ertm"][(k >> 1) & 1]]
        sc["fcs"] = [(k >> 2) & 1, (k >> 3) & 1]
        sc["delay"] = [0.0, 0.01, 0.3][(k >> 4) % 3]
        n = 1
    elif family == "basic":
        sc["modes"] = ["basic", "basic"]
        n = rng.randint(1, 5)
    elif family == "wrap":
        # SDUs that need more than 64 segments: sequence numbers wrap, large windows fill up
        for s in (0, 1):
            sc["mps"][s] = rng.choice([23, 24, 30])
            sc["mtu"][s] = rng.choice([2000, 4096])
        sc["win"] = [rng.choice([3, 31, 63]), rng.choice([1, 31, 63])]
        n = rng.randint(1, 2)
    elif family == "slow":
        # acknowledgements slower than the retransmission timer: the timers fire
        sc["delay"] = rng.choice([0.6, 0.9, 1.5])
        sc["win"] = [rng.choice([1, 2, 3]), rng.choice([1, 2, 3, 63])]
        n = rng.randint(1, 3)
    elif family == "edge":
        n = rng.randint(2, 5)
    else:  # "ertm", "echo"
        n = rng.randint(1, 4)
    both_same = sc["modes"][0] == sc["modes"][1]
    if both_same:
        ops = []
        for s in (1, 2):
            peer_mtu, peer_mps = sc["mtu"][2 - s], sc["mps"][2 - s]  # what the other side accepts
            if family == "wrap" and (s == 1 or k % 4 == 3):
                sizes = [rng.randint(64 * peer_mps + 1, min(peer_mtu, 90 * peer_mps)) for _ in range(n)]
            elif family == "wrap":
                sizes = _sizes(rng, peer_mtu, peer_mps, rng.randint(0, 2))
            elif family == "slow":
                sizes = [rng.randint(peer_mps + 1, min(peer_mtu, 6 * peer_mps)) if peer_mtu > peer_mps + 1 else peer_mtu for _ in range(n if s == 1 else rng.randint(0, 1))]
            else:
                sizes = _sizes(rng, peer_mtu, peer_mps, n if s == 1 else rng.randint(0, n))
            ops += [["w", s, z] for z in sizes]
        rng.shuffle(ops)
        # keep each side's own order irrelevant (sizes are independent); sprinkle pauses
        out = []
        for op in ops:
            out.append(op)
            r = rng.random()
            if r < 0.25:
                out.append(["sleep", rng.choice([0.0, 0.001, 0.05, 0.5])])
        sc["ops"] = out
        if family == "echo":
            s = rng.choice([1, 2])
            peer_mtu, peer_mps = sc["mtu"][2 - s], sc["mps"][2 - s]
            sc["echo"] = {str(s): _sizes(rng, peer_mtu, peer_mps, 6)}
    return sc


def families(ctx):
    if ctx.quick:
        return [("setup", 48), ("basic", 30), ("ertm", 90), ("edge", 60), ("echo", 40), ("wrap", 40), ("slow", 40)]
    return [("setup", 96), ("basic", 200), ("ertm", 900), ("edge", 900), ("echo", 400), ("wrap", 500), ("slow", 400)]


def gen_all(ctx):
    scs = []
    for fam, n in families(ctx):
        for k in range(n):
            scs.append(gen_scenario(ctx.rng, fam, k))
    return scs


# ----------------------------------------------------------------------------- verdicts
PRIORITY = ["payload", "intact", "wellformed", "mode", "txseq", "window", "reqseq", "mps", "sar", "sdulen", "data", "whole", "fn",
            "complete", "order", "length", "wire", "mtu", "delivered", "sent", "taken", "request", "configuring", "outstanding",
            "needed", "connected", "fresh", "isopen", "state", "fcs", "bothopen", "bothclosed", "samemode", "samefcs", "unknown"]


def _clause(clauses):
    if not isinstance(clauses, dict):
        return "unknown"
    bad = [k for k, v in clauses.items() if v is False]
    for p in PRIORITY:
        if p in bad:
            return p
    return bad[0] if bad else "unknown"


def sig_of(which, sc, trace, verdict, diag):
    l = verdict[1]
    ev = trace[l - 1] if 0 < l <= len(trace) else {"e": "none"}
    clauses = verdict[3] if len(verdict) > 3 else {}
    if which == "cfg":
        if ev["e"] == "quiesce":
            # what matters is the pair of specs and where the two ends were left
            views = diag["views"]
            return f"config:quiesce:{sc['modes'][0]}-{sc['modes'][1]}:{views[1][0]}/{views[2][0]}", ev
        what = ev["e"] + (":" + ev["m"] if ev.get("m") else "")
        return f"config:{what}:{_clause(clauses)}:{sc['modes'][0]}-{sc['modes'][1]}", ev
    mode = trace[0]["mode"]
    if ev["e"] == "quiesce":
        cls = "after-timer-expiry" if diag.get("polls") else "no-timer"
        return f"{mode}:quiesce:undelivered:{cls}", ev
    if ev["e"] == "bad":
        return f"{mode}:frame:{ev['why']}", ev
    if ev["e"] == "rx" and ev.get("k") == "bad":
        return f"{mode}:frame:{ev['why']}", ev
    return f"{mode}:{ev['e']}:{_clause(clauses)}", ev


def validate(ctx, rep, results, workers=6, count=True):
    """results: list of (sc, run) -> reports violations; returns {index of result: [sig of each rejected trace]}."""
    cfg_c = conf_cfg(ctx, "config_trace.cfg", maxreq=1000, trace=True)
    cfg_e = ertm_cfg(ctx, "ertm_trace.cfg", spec="TraceSpec", M=64, modes=["ertm"], wins=[1], mpss=[1], lens=[1], n1=1000000, n2=1000000,
                     pre=False, trace=True)
    items = {"cfg": [], "data": []}
    for i, (sc, run) in enumerate(results):
        items["cfg"].append((i, run["cfg"]))
        if run["data"] is not None:
            items["data"].append((i, run["data"]))
    jobs = []
    for which, spec, cfg in (("cfg", ctx.spec("L2cap", "ConfigTrace.tla"), cfg_c), ("data", ctx.spec("L2cap", "ErtmTrace.tla"), cfg_e)):
        chunk, nev = [], 0
        for it in items[which]:
            chunk.append(it)
            nev += len(it[1])
            if nev > 40000:
                jobs.append((which, spec, cfg, chunk))
                chunk, nev = [], 0
        if chunk:
            jobs.append((which, spec, cfg, chunk))
    rejected = {}
    states = 0

    def one(job):
        which, spec, cfg, chunk = job
        return job, tlc.trace_batch(spec, cfg, [t for _, t in chunk], tag="c08" + which)

    with cf.ThreadPoolExecutor(max_workers=workers) as ex:
        for job, res in ex.map(one, jobs):
            which, _spec, _cfg, chunk = job
            states += res["states"]
            for tid, v in res["verdicts"].items():
                i, trace = chunk[tid - 1]
                sc, run = results[i]
                if count:
                    rep.traces += 1
                if v[0] == "REJECT":
                    sig, ev = sig_of(which, sc, trace, v, run["diag"])
                    rejected.setdefault(i, []).append(sig)
                    ev_s = {k: x for k, x in ev.items() if x not in (0, "", [])}
                    rep.violation(
                        sig,
                        f"{'set-up' if which == 'cfg' else 'data'} trace of scenario modes={sc['modes']} mtu={sc['mtu']} mps={sc['mps']} win={sc['win']} "
                        f"fcs={sc['fcs']} delay={sc['delay']} rejected at event {v[1]}: {ev_s}; failing clauses "
                        f"{[k for k, x in (v[3] if len(v) > 3 and isinstance(v[3], dict) else {}).items() if x is False]}; "
                        f"SDUs written by side 1 / 2: {run['diag']['sdus']}, handed to the sink of side 1 / 2: {run['diag']['delivered']}",
                        {"scenario": sc, "which": which, "line": v[1], "event": ev, "clauses": v[3] if len(v) > 3 else None,
                         "spec_state": repr(v[4]) if len(v) > 4 else None},
                    )
    rep.extra["trace_states"] = rep.extra.get("trace_states", 0) + states
    return rejected


def run_scenarios(ctx, rep, scs, shim=None, count=True):
    results = []
    stats = rep.extra.setdefault("scenario_stats", {"frames": {"I": 0, "S": 0, "B": 0, "bad": 0}, "wrapped_runs": 0, "timer_runs": 0,
                                                   "setup_open": 0, "setup_closed": 0, "sdus": 0})
    for sc in scs:
        run = c08_scen.run_scenario(sc, shim)
        results.append((sc, run))
        d = run["diag"]
        if count:
            for k, v in d["frames"].items():
                stats["frames"][k] = stats["frames"].get(k, 0) + v
            stats["wrapped_runs"] += int(any(d["wrapped"].values()))
            stats["timer_runs"] += int(d["polls"] > 0)
            stats["setup_open" if run["data"] is not None else "setup_closed"] += 1
            stats["sdus"] += sum(d["sdus"])
            key = (sc["family"], tuple(sc["modes"]), tuple(sc["mtu"]), tuple(sc["mps"]), tuple(sc["win"]), tuple(sc["fcs"]), sc["delay"],
                   tuple(tuple(o) for o in sc["ops"]), str(sc.get("echo")))
            rep.case(key, nontrivial=(sum(d["sdus"]) > 0 or sc["modes"][0] != sc["modes"][1]),
                     sample={"family": sc["family"], "modes": sc["modes"], "mtu": sc["mtu"], "mps": sc["mps"], "win": sc["win"], "fcs": sc["fcs"],
                             "delay": sc["delay"], "sdu_sizes": [o[2] for o in sc["ops"] if o[0] == "w"][:6], "frames": d["frames"]}
                     if sc["family"] in ("wrap", "slow", "setup") and len(rep.samples) < 6 else None)
        for r in d["raised"]:
            rep.violation(f"api:{r[0]}:{r[3]}", f"channel.{r[0]}({r[2]} octets) on side {r[1]} raised {r[3]}: {r[4]} (scenario {sc['modes']} "
                          f"mtu={sc['mtu']} mps={sc['mps']})", {"scenario": sc, "which": "api"})
        if d["acl_errors"]:
            raise RuntimeError(f"harness ACL reassembly failed: {d['acl_errors'][:3]}")
    return results


# ----------------------------------------------------------------------------- entry points
def run(ctx, rep):
    rep.rule = ("(M) TLC on Ertm.tla / Config.tla; (B) one set-up trace per scenario and one data trace per scenario whose two ends opened, "
                "validated by ConfigTrace.tla / ErtmTrace.tla (M = 64); distinct = distinct (family, specs of both sides, delay, operation "
                "sequence) with at least one SDU written or mismatching modes")
    rep.assumptions = [
        "the link below L2CAP is loss-free and order-preserving (BR/EDR ACL after the baseband; lib.rig delay lines preserve order)",
        "information payload excludes the 2-octet SDU length field when compared with the peer's MPS (Core Vol 3 Part A 3.3.6 as read by BlueZ)",
        "an omitted FCS option counts as 'no FCS wanted' (bumble's convention between two bumble ends); FCS is in use iff a Configuration "
        "Request with FCS = 1 was sent; with FCS in use Basic-mode frames carry it too",
        "P and F bits, the choice of segment sizes below the MPS and when acknowledgements are sent are left free",
    ]
    jobs = model_checking_jobs(ctx)
    with cf.ThreadPoolExecutor(max_workers=3) as ex:
        futs = [(j, ex.submit(_mc, ctx, j[1], j[2], j[4], j[5], 4 if ctx.quick else 5)) for j in jobs]
        # the implementation runs while TLC checks the models
        scs = gen_all(ctx)
        results = run_scenarios(ctx, rep, scs)
        for j, f in futs:
            res = f.result()
            consts = dict(j[3])
            if j[5]:
                consts["expected_violation"] = j[5]
            rep.add_mc(j[0], res, consts)
    validate(ctx, rep, results)
    if not ctx.quick:
        selftest(ctx, rep)  # DESIGN 3.6: the binding self-test is part of the thorough tier
    st = rep.extra["scenario_stats"]
    # on a tree without violations every family must have reached what it was written for (else: driver bug)
    if not rep.violations and (st["wrapped_runs"] == 0 or st["timer_runs"] == 0 or st["frames"]["B"] == 0 or st["setup_closed"] == 0):
        raise RuntimeError(f"scenario families did not reach what they were written for: {st}")
    rep.exhaustive = False


def replay(ctx, rep):
    r = ctx.replay["replay"]
    sc = r["scenario"]
    run = c08_scen.run_scenario(sc)
    which = r.get("which", "data")
    print("scenario:", sc)
    print("diagnostics:", run["diag"])
    trace = run["cfg"] if which in ("cfg", "api") else (run["data"] or [])
    line = r.get("line") or len(trace)
    for i, e in enumerate(trace, start=1):
        if i == 1 or abs(i - line) <= 12:
            print(f"{'>>' if i == line else '  '} {i:4d}", {k: v for k, v in e.items() if v not in (0, "", [])})
    r2 = type(rep)(rep.prop, rep.level)
    validate(ctx, r2, [(sc, run)], workers=2)
    for r_ in run["diag"]["raised"]:
        r2.violation(f"api:{r_[0]}:{r_[3]}", str(r_), {"scenario": sc, "which": "api"})
    for v in r2.violations:
        print("re-validated:", v.sig, "-", v.summary)
        rep.violation(v.sig, v.summary, v.replay)
    if not r2.violations:
        print("the scenario is accepted now")


def selftest(ctx, rep):
    """The binding must not be vacuous: real objects wrapped so that they misbehave, and recorded traces
    with one thing changed, must all be flagged."""
    import copy
    import random

    rng = random.Random(7)
    caught = {}

    def shim_window(net, l2cap):
        class Greedy(l2cap.EnhancedRetransmissionProcessor):
            def _process_output(self):
                self.peer_tx_window_size += 1
                try:
                    super()._process_output()
                finally:
                    self.peer_tx_window_size -= 1

        def make(channel, mode, peer_tx_window_size, peer_max_retransmission, peer_retransmission_timeout, peer_monitor_timeout, peer_mps):
            if mode == l2cap.TransmissionMode.ENHANCED_RETRANSMISSION:
                return Greedy(channel, peer_tx_window_size, peer_max_retransmission, peer_mps)
            return l2cap.Processor(channel)

        net[0].l2cap_channel_manager.make_mode_processor = make

    def shim_dup_sink(net, l2cap):
        mgr = net[1].l2cap_channel_manager
        orig = mgr.create_classic_server

        def create(spec, handler=None):
            def h(ch):
                handler(ch)
                inner = ch.sink
                n = [0]

                def sink(data):
                    inner(data)
                    n[0] += 1
                    if n[0] == 2:
                        inner(data)  # the second SDU is delivered twice
                ch.sink = sink
            return orig(spec, h)

        mgr.create_classic_server = create

    def shim_mode(net, l2cap):
        mgr = net[1].l2cap_channel_manager
        orig = mgr.create_classic_server

        def create(spec, handler=None):
            def h(ch):
                handler(ch)
                ch.once("open", lambda: setattr(ch, "mode", l2cap.TransmissionMode.BASIC))
            return orig(spec, h)

        mgr.create_classic_server = create

    base = {"family": "selftest", "seed": 5, "modes": ["ertm", "ertm"], "mtu": [2000, 2000], "mps": [23, 23], "win": [2, 3], "fcs": [1, 0],
            "delay": 0.01, "ops": [["w", 1, 300], ["w", 1, 10], ["w", 2, 50], ["w", 1, 70]]}
    r2 = type(rep)(rep.prop, rep.level)
    names, batch = ["baseline"], run_scenarios(ctx, r2, [dict(base)], count=False)
    good = batch[0][1]
    for name, shim in (("window_plus_one", shim_window), ("sink_duplicates", shim_dup_sink), ("reports_other_mode", shim_mode)):
        names.append(name)
        batch += run_scenarios(ctx, r2, [dict(base)], shim=shim, count=False)

    def mutate(name, fn):
        run = copy.deepcopy(good)
        fn(run)
        names.append(name)
        batch.append((base, run))

    def idx(tr, pred):
        c = [i for i, e in enumerate(tr) if pred(e)]
        return rng.choice(c)

    mutate("drop_rx", lambda run: run["data"].pop(idx(run["data"], lambda e: e["e"] == "rx" and e["k"] == "I")))
    mutate("txseq_changed", lambda run: run["data"][idx(run["data"], lambda e: e["e"] == "iframe")].update(tx=63))
    mutate("drop_sdu_in", lambda run: run["data"].pop(idx(run["data"], lambda e: e["e"] == "sdu_in")))
    def reorder(run):
        e = run["data"][idx(run["data"], lambda e: e["e"] == "sdu_in" and e["s"] == 2)]
        e["id"] = e["id"] % 3 + 1

    mutate("sdu_in_out_of_order", reorder)
    mutate("reqseq_ahead", lambda run: run["data"][idx(run["data"], lambda e: e["e"] == "sframe")].update(req=40))
    mutate("sar_changed", lambda run: run["data"][idx(run["data"], lambda e: e["e"] == "iframe" and e["sar"] == "C")].update(sar="E"))
    mutate("window_advertised_smaller", lambda run: run["data"][0].update(win=[1, 1]))
    mutate("drop_conf_rsp", lambda run: run["cfg"].pop(idx(run["cfg"], lambda e: e["e"] == "tx" and e["m"] == "ConfRsp")))
    mutate("one_end_closed", lambda run: run["cfg"][idx(run["cfg"], lambda e: e["e"] == "state" and e["s"] == 2)].update(st="closed"))
    rejects = validate(ctx, r2, batch, workers=2, count=False)
    if rejects.get(0):
        raise RuntimeError(f"self-test baseline scenario is rejected: {rejects[0]}")
    caught = {n: rejects.get(i, []) for i, n in enumerate(names) if i > 0}
    print("selftest:", caught)
    for k, v in caught.items():
        if not v:
            rep.violation(f"selftest:{k}", f"binding self-test: {k} was not detected")
