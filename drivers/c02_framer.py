"""C02: HCI byte streams are re-framed into the same packets under any chunking.

(M) specs/Hci/Framer.tla model-checked by TLC: every chunking of every small packet sequence,
    an invalid type byte at every packet boundary, a client cut off at every byte position
    followed by a new client.
(A) every edge of the bounded state graphs is replayed (transition tours from Init) on the real
    framers with concrete bytes (body units scaled so that 0, 1, 255, 256, 16383 and 65535-byte
    bodies occur): PacketParser (push), PacketReader over io.BufferedReader (blocking pull),
    AsyncPacketReader over asyncio.StreamReader, the USB Event / Acl / Sco PacketSplitters (their
    endpoint's sub-stream, no type byte), and the protocol objects of the tcp / unix / ws server
    transports (create_server / create_unix_server / websockets serve stubbed; no socket).
    After every action the packets delivered so far must be the spec's `out`.
(B) seeded long random streams with real sizes and chunk sizes 1..4096 are fed to the same
    framers, logged as feed / bad / disc / conn events and validated by FramerTrace.tla.
"""
from __future__ import annotations

import multiprocessing
import os
import time

from lib import c02_framers as F
from lib import tlc, vt

LEVEL = "model_checking"
ALL_TYPES = ("cmd", "acl", "sco", "evt", "iso")
INVARIANTS = ("TypeOK", "Exact", "Aligned", "FreshClient", "Reported")


# ----------------------------------------------------------------------------- model checking
def _cfg_text(c, spec="Spec", invariants=INVARIANTS, noearly=True):
    types = ", ".join(f'"{t}"' for t in c["Types"])
    lines = [
        f"SPECIFICATION {spec}",
        "CONSTANTS",
        f"  Types = {{{types}}}",
        f"  MaxBody = {c['MaxBody']}",
        f"  MaxPkts = {c['MaxPkts']}",
        f"  Budget = {c['Budget']}",
        f"  MaxClients = {c['MaxClients']}",
        f"  MaxBad = {c['MaxBad']}",
        f"  ResetOnConnect = {'TRUE' if c.get('ResetOnConnect', True) else 'FALSE'}",
    ]
    lines += [f"INVARIANT {i}" for i in invariants]
    if noearly:
        lines.append("PROPERTY NoEarly")
    lines.append("CHECK_DEADLOCK FALSE")
    return "\n".join(lines) + "\n"


def _write(ctx, name, text):
    """cfg generated into the scratch dir; the name carries a digest of the content so that
    concurrent runs (other tier, other tree) never rewrite a file TLC is reading."""
    import hashlib

    base, ext = os.path.splitext(name)
    p = os.path.join(ctx.out, f"{base}.{hashlib.sha1(text.encode()).hexdigest()[:8]}{ext}")
    if not os.path.exists(p):
        tmp = f"{p}.{os.getpid()}.tmp"
        with open(tmp, "w") as f:
            f.write(text)
        os.replace(tmp, p)
    return p


def consts(types, maxbody, maxpkts, budget=None, clients=1, bad=1):
    return {"Types": list(types), "MaxBody": maxbody, "MaxPkts": maxpkts, "Budget": budget or maxpkts, "MaxClients": clients, "MaxBad": bad}


def model(ctx, rep, tag, c):
    """Model-check one configuration (invariants, action property, coverage) and dump its state graph."""
    spec = ctx.spec("Hci", "Framer.tla")
    cfg = _write(ctx, f"framer_{tag}.cfg", _cfg_text(c))
    dot = os.path.join(ctx.out, f"framer_{tag}.{os.getpid()}.dot")  # (concurrent runs share ctx.out)
    try:
        res = tlc.mc(spec, cfg, workers=8, dump=dot)
        if res["violation"]:
            raise tlc.TlcError(f"Framer.tla ({tag}) violates {res['violation']} in the model itself:\n{res['out'][-2500:]}")
        need = ["ClientConnect", "FeedChunk", "ClientDisconnect"] + (["FeedBadType"] if c["MaxBad"] else [])
        tlc.require_actions(res, need, f"Framer/{tag}")
        rep.add_mc(f"Hci/Framer.tla[{tag}]", res, c)
        g = tlc.load_graph(dot)
    finally:
        if os.path.exists(dot):
            os.remove(dot)
    if len(g.nodes) != res["states"]:
        raise tlc.TlcError(f"state-graph dump of {tag} has {len(g.nodes)} nodes, model checking found {res['states']}")
    return g


# ----------------------------------------------------------------------------- tours
def tours(g):
    """Paths from Init that together take every edge: for every edge not yet taken (in BFS order
    of its source) the BFS-tree path to its source, the edge, then onwards along edges not yet
    taken (Disconnect last, so that paths run through the stream before they end)."""
    from collections import deque

    root = g.init[0]
    prev = {root: None}
    order = [root]
    dq = deque([root])
    while dq:
        n = dq.popleft()
        for ei in g.out(n):
            d = g.edges[ei][1]
            if d not in prev:
                prev[d] = ei
                order.append(d)
                dq.append(d)

    def tree_path(n):
        p = []
        while prev[n] is not None:
            p.append(prev[n])
            n = g.edges[prev[n]][0]
        p.reverse()
        return p

    rank = {"FeedChunk": 0, "FeedBadType": 1, "ClientConnect": 2, "ClientDisconnect": 3}
    outs = {n: sorted(g.out(n), key=lambda ei: (rank.get(g.edges[ei][2], 9), ei)) for n in order}
    nxt = {n: 0 for n in order}  # first possibly-untaken position in outs[n]
    taken = set()

    def next_untaken(n):
        o = outs[n]
        i = nxt[n]
        while i < len(o) and o[i] in taken:
            i += 1
        nxt[n] = i
        return o[i] if i < len(o) else None

    paths = []
    for n in order:
        while True:
            ei = next_untaken(n)
            if ei is None:
                break
            path = tree_path(n)
            cur = n
            while ei is not None:
                path.append(ei)
                taken.add(ei)
                cur = g.edges[ei][1]
                ei = next_untaken(cur)
            paths.append(path)
    reachable = sum(1 for e in g.edges if e[0] in prev)
    if len(taken) != reachable:
        raise tlc.TlcError(f"tour covers {len(taken)} of {reachable} edges")
    return paths


# ----------------------------------------------------------------------------- replay of one path
class Env:
    def __init__(self):
        self.loop = vt.new_loop()

    def close(self):
        vt.close_loop(self.loop)


def make_adapters(env, names, shims=None):
    shims = shims or {}
    out = []
    for n in names:
        s = shims.get(n)
        if n == "parser":
            out.append(F.ParserAdapter(env, s))
        elif n == "reader":
            out.append(F.ReaderAdapter(env, s))
        elif n == "async-reader":
            out.append(F.AsyncReaderAdapter(env, s))
        elif n.startswith("usb-"):
            out.append(F.SplitterAdapter(env, n[4:], s))
        elif n in ("tcp-server", "unix-server"):
            out.append(F.StreamServerAdapter(env, n[:-7], s))
        elif n == "ws-server":
            out.append(F.WsServerAdapter(env, s))
        else:
            raise ValueError(n)
    return out


def _cmp(got, want):
    """None, or (clause, detail): how the delivered list differs from the spec's."""
    if got == want:
        return None
    n = min(len(got), len(want))
    for i in range(n):
        if got[i] != want[i]:
            g, w = got[i], want[i]
            if w.startswith(g) or g.startswith(w):
                kind = "merged-or-split"
            else:
                kind = "wrong-bytes"
            return kind, f"packet #{i + 1} delivered as {_hx(g)}, stream has {_hx(w)}"
    if len(got) < len(want):
        return "not-delivered", f"{len(got)} packet(s) delivered, {len(want)} complete in the bytes fed so far; missing {_hx(want[len(got)])}"
    return "spurious", f"{len(got)} packet(s) delivered, only {len(want)} complete in the bytes fed so far; extra {_hx(got[len(want)])}"


def _hx(b):
    return b.hex() if len(b) <= 24 else f"{b[:12].hex()}..({len(b)} bytes)"


def ops_of(g, path):
    ops = []
    for ei in path:
        s, d, name, args = g.edges[ei]
        if name == "ClientConnect":
            ops.append(["ClientConnect", [[p["t"], p["b"]] for p in args[0]]])
        elif name in ("FeedChunk", "FeedBadType"):
            ops.append([name, args[0]])
        else:
            ops.append([name, None])
    return ops


def expectations(g, path):
    """Per step: (spans delivered for the current client, client number, cut class, pos before the step)."""
    exp = []
    for ei in path:
        s, d, name, args = g.edges[ei]
        st, st0 = g.nodes[d], g.nodes[s]
        exp.append({"out": [list(x) for x in st["out"]], "client": st["client"], "cut": list(st["cut"]), "pos": st0["pos"]})
    return exp


def run_path(env, ops, exp, names, mode, content_seed, variant=0, shims=None, verbose=False):
    """Execute one behaviour on the named framers.  Returns (violations, executed framer names,
    concrete body lengths).  A violation is (sig, summary, framer name, step index)."""
    adapters = make_adapters(env, names, shims)
    live = {a.name: a for a in adapters}
    viols = []
    lengths = set()
    conc = None
    bad_byte = F.BAD_TYPES[variant % len(F.BAD_TYPES)]
    reader_plan = []  # for deferred (pull) readers: (chunk index, expected packets delivered by it)
    nchunks = 0
    prev_out = []
    ran = set()

    def fail(a, step, action, clause, detail, e):
        # a client that follows one cut off inside a packet: whatever the symptom (nothing / something else /
        # too much delivered, at whichever later call), what fails is that Connect did not start afresh
        after_cut = e["client"] >= 2 and any(x["cut"][0] not in ("type", "none") for x in exp[: step + 1])
        sig = f"{a.name}:ClientConnect:misframed-after-cut" if after_cut else f"{a.name}:{action}:{clause}"
        where = f" (client {e['client']}, previous client cut in state {e['cut']})" if e["client"] >= 2 else ""
        viols.append((sig, f"{a.name} after {ops[: step + 1]} [bodies {conc.body_lengths if conc else []}]{where}: {detail}", a.name, step))
        live.pop(a.name, None)

    try:
        for step, (op, e) in enumerate(zip(ops, exp)):
            name, arg = op
            if name == "ClientConnect":
                pkts = [tuple(p) for p in arg]
                conc = F.Concrete(pkts, mode, content_seed)
                lengths.update(conc.body_lengths)
                prev_out = []
                for a in list(live.values()):
                    if e["client"] >= 2 and "reconnect" not in a.supports:
                        live.pop(a.name)
                        continue
                    if a.typeless and any(t != a.ptype for t, _ in pkts):
                        live.pop(a.name)
                        continue
                    a.eof_first = a.error_close = bool(variant & 1)
                    a.connect()
                    ran.add(a.name)
            elif name in ("FeedChunk", "FeedBadType"):
                n = arg
                nchunks += 1
                for a in list(live.values()):
                    if getattr(a, "deferred", False):
                        data = conc.chunk(e["pos"], n) + (bytes([bad_byte]) if name == "FeedBadType" else b"")
                        a.feed(data)
                        continue
                    try:
                        if name == "FeedChunk" or "bad" not in a.supports:
                            data = conc.typeless_chunk(e["pos"], n) if a.typeless else conc.chunk(e["pos"], n)
                            a.feed(data)
                            reported = None
                        else:
                            reported = a.feed_bad(conc.chunk(e["pos"], n) + bytes([bad_byte]))
                    except Exception as ex:
                        fail(a, step, name, "raise", f"raised {type(ex).__name__}: {ex}", e)
                        continue
                    if name == "FeedBadType" and a.name == "parser" and reported is False:
                        fail(a, step, name, "no-report", f"type byte {bad_byte:#04x} was accepted without any report", e)
                        continue
                reader_plan.append((nchunks, name, [conc.span(o, l) for o, l in e["out"][len(prev_out):]]))
            elif name == "ClientDisconnect":
                for a in list(live.values()):
                    if getattr(a, "deferred", False):
                        continue
                    if "disconnect" not in a.supports:
                        continue
                    try:
                        a.disconnect()
                    except Exception as ex:
                        fail(a, step, name, "raise", f"raised {type(ex).__name__}: {ex}", e)
            else:
                raise ValueError(name)
            want = [conc.span(o, l) for o, l in e["out"]]
            prev_out = e["out"]
            for a in list(live.values()):
                if getattr(a, "deferred", False):
                    continue
                d = _cmp(list(a.delivered), want)
                if verbose:
                    print(f"    {a.name:13s} {name}({arg if name != 'ClientConnect' else ''}) delivered {[_hx(p) for p in a.delivered]}")
                if d:
                    fail(a, step, name, d[0], d[1], e)
            # what the property leaves open: a pull reader after an invalid type byte; a client
            # whose websocket handler ended with the parser's exception
            if name == "FeedBadType":
                for a in list(live.values()):
                    if a.name in ("async-reader",) or (a.name == "ws-server" and a.handler_gone()):
                        live.pop(a.name)
            if name == "ClientDisconnect":
                for a in list(live.values()):
                    if "reconnect" not in a.supports and not getattr(a, "deferred", False):
                        live.pop(a.name)
        # pull reader: run it now over the queued chunks (EOF after the last one)
        for a in list(live.values()):
            if not getattr(a, "deferred", False):
                continue
            a.finish()
            want_tl = []
            stop_at_bad = None
            for ci, nm, pk in reader_plan:
                want_tl += [(ci, p) for p in pk]
                if nm == "FeedBadType":
                    stop_at_bad = ci
                    break
            got_tl = a.timeline
            last = exp[-1] if exp else {"client": 1, "cut": ["none"]}
            step = len(ops) - 1
            d = _cmp([p for _, p in got_tl], [p for _, p in want_tl])
            if verbose:
                print(f"    {a.name:13s} returned {[(c, _hx(p)) for c, p in got_tl]} then {a.outcome}")
            if d:
                # a reader that returns more after the bad byte is not constrained by the property
                if not (stop_at_bad is not None and d[0] == "spurious"):
                    fail(a, step, "next_packet", d[0], d[1], last)
                    continue
            n = min(len(got_tl), len(want_tl))
            late = [(gc, wc) for (gc, _), (wc, _) in zip(got_tl[:n], want_tl[:n]) if gc != wc]
            if late:
                gc, wc = late[0]
                fail(a, step, "next_packet", "late" if gc > wc else "early",
                     f"a packet complete after chunk {wc} was returned after the reader had pulled chunk {gc}", last)
    finally:
        for a in adapters:
            a.close()
    return viols, [a.name for a in adapters if a.name in ran], lengths


# ----------------------------------------------------------------------------- replay of a graph
_G = {}


def _work(job):
    """Runs in a forked worker: replay paths[lo:hi] of the graph registered under key."""
    import hashlib

    key, lo, hi = job
    g, paths, names, content_seed, shims, tag = _G[key]
    env = Env()
    cases = []  # (path index, steps, mode, digest of the action sequence, framers run)
    viols = {}  # sig -> [summary, replay dict, count]
    lengths = set()
    samples = []
    try:
        for pi in range(lo, hi):
            path = paths[pi]
            ops = ops_of(g, path)
            exp = expectations(g, path)
            mode = F.MODES[pi % len(F.MODES)]
            variant = pi // len(F.MODES)
            vs, ran, lens = run_path(env, ops, exp, names, mode, content_seed, variant, shims)
            lengths |= lens
            cases.append((pi, len(ops), mode, hashlib.sha1(repr(ops).encode()).hexdigest()[:16], ran))
            if pi % 997 == 1:
                samples.append({"framers": ran, "mode": mode, "ops": ops})
            for sig, summary, name, at in vs:
                if sig in viols:
                    viols[sig][2] += 1
                else:
                    whole = name == "reader"
                    viols[sig] = [summary, {"part": "graph", "config": tag, "framer": name, "ops": ops if whole else ops[: at + 1],
                                            "expect": exp if whole else exp[: at + 1], "mode": mode, "variant": variant, "content_seed": content_seed}, 1]
    finally:
        env.close()
    return cases, viols, lengths, samples


def replay_graph(ctx, rep, tag, g, names, shims=None, procs=12, limit=None):
    paths = tours(g)
    if limit and len(paths) > limit:
        ctx.rng.shuffle(paths)
        paths = paths[:limit]
    key = (tag, id(g))
    _G[key] = (g, paths, names, ctx.seed, shims, tag)
    procs = max(1, min(procs, len(paths) // 1500))
    step = max(50, min(2000, len(paths) // (procs * 4) + 1))
    jobs = [(key, lo, min(lo + step, len(paths))) for lo in range(0, len(paths), step)]
    t0 = time.time()
    try:
        if procs > 1 and len(jobs) > 1:
            with multiprocessing.get_context("fork").Pool(procs) as pool:
                parts = pool.map(_work, jobs)
        else:
            parts = [_work(j) for j in jobs]
    finally:
        del _G[key]
    lengths = set()
    steps = 0
    for cases, viols, lens, samples in parts:
        lengths |= lens
        for pi, nsteps, mode, digest, ran in cases:
            steps += nsteps
            for name in ran:
                rep.traces += 1
                rep.case((name, mode, digest), nontrivial=nsteps > 1)
        for smp in samples:
            if len(rep.samples) < 4:
                rep.samples.append(smp)
        for sig, (summary, rdict, count) in viols.items():
            v = rep.violation(sig, summary, rdict)
            v.replay["more"] = v.replay.get("more", 0) + count - 1
    st = rep.extra.setdefault("replay", {})
    st[tag] = {"paths": len(paths), "steps": steps, "edges": len(g.edges), "framers": names, "wall_s": round(time.time() - t0, 1)}
    return lengths


# ----------------------------------------------------------------------------- (B) long real-size traces
NOT_FOUND = 1000000000
EDGE_LENGTHS = {8: [0, 0, 1, 2, 127, 128, 254, 255], 16: [0, 0, 1, 2, 255, 256, 257, 511, 512, 4095, 4096, 4097]}


def _rand_packets(rng, types, count, big_ok=True):
    pkts = []
    for _ in range(count):
        t = rng.choice(types)
        bits = 16 if t in F.LEN16 else 8
        r = rng.random()
        if r < 0.25:
            L = rng.choice(EDGE_LENGTHS[bits])
        elif r < 0.9:
            L = rng.randint(0, 40)
        elif r < 0.98 or not big_ok:
            L = rng.randint(41, 255 if bits == 8 else 1500)
        else:
            L = F.MAXLEN[t]
        pkts.append((t, min(L, F.MAXLEN[t])))
    return pkts


def _chunk_plan(rng, sof, total, stop, nbad, style):
    """Calls for one client: ("feed", n) / ("bad", n), covering bytes 0..stop of the stream."""
    import bisect

    plan = []
    pos = 0
    hi = {"tiny": 3, "small": 64, "large": 4096}
    bad_at = set(rng.sample(sof[:-1] if len(sof) > 1 else sof, min(nbad, max(len(sof) - 1, 1)))) if nbad else set()
    while pos < stop or pos in bad_at:
        if pos in bad_at:  # an invalid type byte between two packets, in a call of its own ...
            bad_at.discard(pos)
            plan.append(("bad", 0))
            continue
        st = style if style != "mixed" else rng.choice(["tiny", "small", "large", "large"])
        n = min(rng.randint(1, hi[st]), stop - pos)
        # ... or at the end of a call that carries well-formed bytes up to that boundary
        i = bisect.bisect_right(sof, pos)
        nxt = [b for b in sof[i : i + 400] if b <= pos + n and b in bad_at]
        if nxt:
            b = nxt[0]
            bad_at.discard(b)
            plan.append(("bad", b - pos))
            pos = b
            continue
        plan.append(("feed", n))
        pos += n
    return plan


def _scenario(rng, kind):
    """kind: 'stream' (one client, invalid type bytes), 'pull' (one client, at most one invalid byte, EOF),
    'server' (several clients, each but the last cut off somewhere), 'usb-<t>' (one endpoint type)."""
    clients = []
    if kind.startswith("usb-"):
        types, nclients, nbad = [kind[4:]], 1, 0
    elif kind == "server":
        types, nclients, nbad = list(ALL_TYPES), rng.randint(2, 5), rng.choice([0, 0, 1, 3])
    elif kind == "pull":
        types, nclients, nbad = list(ALL_TYPES), 1, rng.choice([0, 0, 1])
    else:
        types, nclients, nbad = list(ALL_TYPES), 1, rng.choice([0, 2, 5, 20])
    for ci in range(nclients):
        style = rng.choice(["tiny", "small", "large", "mixed", "mixed"])
        count = rng.randint(3, 40) if style == "tiny" else rng.randint(20, 300 if nclients == 1 else 80)
        pkts = _rand_packets(rng, types, count, big_ok=style != "tiny")
        conc = F.Concrete(pkts, "unit", f"trace/{rng.random()}")
        sof = [0]
        for p in conc.packets:
            sof.append(sof[-1] + len(p))
        total = sof[-1]
        last = ci == nclients - 1
        if kind == "server" and not last:
            # cut somewhere inside a packet most of the time
            k = rng.randrange(len(pkts))
            stop = rng.randint(sof[k], sof[k + 1]) if rng.random() < 0.85 else sof[k]
        elif kind == "pull" and rng.random() < 0.5:
            k = rng.randrange(len(pkts))
            stop = rng.randint(sof[k], sof[k + 1])
        else:
            stop = total
        clients.append({"pkts": pkts, "conc": conc, "sof": sof, "stop": stop, "cut_mid": stop not in sof, "plan": _chunk_plan(rng, [b for b in sof if b <= stop], total, stop, nbad, style),
                        "disc": kind in ("server", "pull") or rng.random() < 0.3})
    return clients


def _trace_of(env, name, clients, variant, shims=None):
    """Run the scenario on one framer; return the event list (one per call, with what was emitted)."""
    (a,) = make_adapters(env, [name], shims)
    deferred = getattr(a, "deferred", False)
    events = []
    bad_byte = F.BAD_TYPES[variant % len(F.BAD_TYPES)]

    def mk(e, **kw):
        d = {"e": e, "n": 0, "em": [], "err": False, "pkts": []}
        d.update(kw)
        return d

    try:
        for c in clients:
            conc = c["conc"]
            stream = conc.stream
            a.eof_first = a.error_close = bool(variant & 1)
            a.connect()
            events.append(mk("conn", pkts=[{"t": t, "b": b} for t, b in c["pkts"]]))
            cursor = 0
            seen = 0
            pos = 0
            stopped = False
            for kind, n in c["plan"]:
                lo, hi = pos, pos + n
                data = conc.typeless_chunk(lo, n) if a.typeless else stream[lo:hi]
                pos = hi
                err = False
                try:
                    if kind == "feed":
                        a.feed(data)
                    else:
                        r = a.feed_bad(data + bytes([bad_byte]))
                        # only the push parser is required to report (nothing public to observe on the servers)
                        err = (r is not False) if name == "parser" else True
                except Exception as ex:
                    events.append(mk("raise", n=n, x=type(ex).__name__))
                    stopped = True
                    break
                ev = mk(kind, n=n, err=err)
                if not deferred:
                    for p in a.delivered[seen:]:
                        o = stream.find(p, cursor)
                        if o < 0:
                            o = NOT_FOUND
                        else:
                            cursor = o + len(p)
                        ev["em"].append([o, len(p)])
                    seen = len(a.delivered)
                events.append(ev)
                if kind == "bad" and (name in ("reader", "async-reader") or (name == "ws-server" and a.handler_gone())):
                    stopped = True  # not constrained any further
                    break
            if stopped:
                break
            if c["disc"] and (deferred or "disconnect" in a.supports):
                if not deferred:
                    a.disconnect()
                    ev = mk("disc")
                    if len(a.delivered) != seen:  # something delivered by the disconnection itself
                        ev = mk("feed", em=[[NOT_FOUND, len(p)] for p in a.delivered[seen:]])
                    events.append(ev)
                else:
                    events.append(mk("disc"))
        if deferred:
            a.finish()
            feeds = [e for e in events if e["e"] in ("feed", "bad")]
            cursor = 0
            stream = clients[0]["conc"].stream
            for ci, p in a.timeline:
                o = stream.find(p, cursor)
                if o < 0:
                    o = NOT_FOUND
                else:
                    cursor = o + len(p)
                feeds[ci - 1]["em"].append([o, len(p)])
    finally:
        a.close()
    return events


_T = {}


def _trace_work(job):
    key, lo, hi = job
    scen, shims = _T[key]
    env = Env()
    out = []
    try:
        for i in range(lo, hi):
            kind, names, clients = scen[i]
            for name in names:
                out.append((i, name, _trace_of(env, name, clients, i, shims)))
    finally:
        env.close()
    return out


LONG_KINDS = [("stream", ["parser", "tcp-server", "unix-server", "ws-server"]), ("pull", ["reader", "async-reader"]),
              ("server", ["parser", "tcp-server", "unix-server", "ws-server"]),
              ("usb-evt", ["usb-evt", "parser"]), ("usb-acl", ["usb-acl", "parser"]), ("usb-sco", ["usb-sco", "parser"])]
LONG_WEIGHTS = [3, 3, 4, 1, 1, 1]


def long_traces(ctx, rep, n_scen, shims=None, only=None, procs=8, corrupt=None, only_scenario=None):

    scen = []
    for i, (kind, names, clients) in enumerate(_scenarios(ctx.seed, n_scen)):
        if only_scenario and only_scenario[0] != i:
            names = []
        elif only_scenario:
            names = [only_scenario[1]]
        if only:
            names = [n for n in names if n in only]
        scen.append((kind, names, clients))
    key = ("long", id(scen))
    _T[key] = (scen, shims)
    step = max(1, len(scen) // (procs * 3) + 1)
    jobs = [(key, lo, min(lo + step, len(scen))) for lo in range(0, len(scen), step)]
    if procs > 1 and len(jobs) > 1:
        with multiprocessing.get_context("fork").Pool(procs) as pool:
            parts = pool.map(_trace_work, jobs)
    else:
        parts = [_trace_work(j) for j in jobs]
    del _T[key]
    items = [x for part in parts for x in part]
    raised = [(i, name, ev) for i, name, ev in items if any(e["e"] == "raise" for e in ev)]
    for i, name, ev in raised:
        e = [x for x in ev if x["e"] == "raise"][0]
        rep.violation(f"{name}:FeedChunk:raise", f"{name} raised {e['x']} on well-formed data (long-stream scenario {i}, kind {scen[i][0]}, event {len(ev)})",
                      {"part": "long", "scenario": i, "framer": name, "n_scen": n_scen, "content_seed": ctx.seed})
    items = [x for x in items if not any(e["e"] == "raise" for e in x[2])]
    traces = [ev for _, _, ev in items]
    if corrupt:
        traces = [corrupt(k, tr) for k, tr in enumerate(traces)]
    if not traces:
        return {}
    big = consts(ALL_TYPES, 65535, 1000, budget=1000000, clients=1000, bad=100000)
    cfg = _write(ctx, "framer_trace.cfg", _cfg_text(big, spec="TraceSpec", noearly=False))
    # Run / Off recurse once per framer transition / packet: thousands deep on real-size streams
    res = tlc.trace_batch(ctx.spec("Hci", "FramerTrace.tla"), cfg, traces, tag="c02trace", env={"JAVA_TOOL_OPTIONS": "-Xss512m"})
    rep.extra["trace_states"] = rep.extra.get("trace_states", 0) + res["states"]
    rep.extra["long_traces"] = rep.extra.get("long_traces", 0) + len(traces)
    rep.extra["long_events"] = rep.extra.get("long_events", 0) + sum(len(t) for t in traces)
    rep.extra["trace_wall_s"] = round(rep.extra.get("trace_wall_s", 0) + res["wall_s"], 1)
    verdicts = {}
    for tid, v in res["verdicts"].items():
        i, name, ev = items[tid - 1]
        kind = scen[i][0]
        rep.traces += 1
        npk = sum(len(c["pkts"]) for c in scen[i][2])
        rep.case(("long", name, i, ctx.seed, n_scen), nontrivial=True,
                 sample={"long_trace": name, "kind": kind, "clients": len(scen[i][2]), "packets": npk, "events": len(ev)} if tid <= 2 else None)
        verdicts[tid] = v
        if v[0] == "REJECT":
            ln = v[1]
            e = ev[ln - 1] if 0 < ln <= len(ev) else {"e": "none"}
            nclient = sum(1 for x in ev[:ln] if x["e"] == "conn")
            after_cut = kind == "server" and any(c["cut_mid"] for c in scen[i][2][: nclient - 1])
            act = {"feed": "FeedChunk", "bad": "FeedBadType", "conn": "ClientConnect", "disc": "ClientDisconnect"}.get(e["e"], e["e"])
            sig = f"{name}:ClientConnect:misframed-after-cut" if after_cut else f"{name}:{act}:rejected"
            brief = {k: e.get(k) for k in ("e", "n", "em", "err")}
            rep.violation(sig,
                          f"{name}, long-stream scenario {i} ({kind}): event {ln} {brief} is no step of Framer.tla; spec state before it: {v[3] if len(v) > 3 else ''}",
                          {"part": "long", "scenario": i, "framer": name, "n_scen": n_scen, "content_seed": ctx.seed, "line": ln})
    return verdicts


def iso_length_agreement(ctx, rep):
    """ISO data packets whose 16-bit length field has one of its two reserved top bits set.  The Core specification
    gives Data_Total_Length 14 bits, bumble's packet table reads 16: the property does not say which reading a framer
    must take, but it does say that all framers find the same boundaries.  Streams are built for either reading (16:
    the body is as long as the whole field says; 14: as long as the low 14 bits say) and run on every framer; each
    trace is judged by FramerTrace.tla.  Some reading must make every framer's traces acceptable."""
    import random

    rng = random.Random(f"C02/rfu/{ctx.seed}")
    names = list(CORE)
    scen = []
    for interp in (16, 14):
        for body, bits in ((0, 0x4000), (1, 0x8000), (300, 0xC000), (0x3FFF, 0x4000)):
            if interp == 16:
                pkts = [("evt", 3), ("iso", body | bits if body | bits <= 0xFFFF else 0xFFFF), ("cmd", 2), ("iso", 0xFFFF if body == 0x3FFF else 7), ("acl", 5)]
                rfu = None
            else:
                pkts = [("evt", 3), ("iso", body), ("cmd", 2), ("iso", 7), ("acl", 5)]
                rfu = {1: bits, 3: 0x4000}
            conc = F.Concrete(pkts, "unit", f"rfu/{ctx.seed}/{interp}/{body}", rfu=rfu)
            sof = [0]
            for p in conc.packets:
                sof.append(sof[-1] + len(p))
            for style in ("small", "large"):
                plan = _chunk_plan(rng, sof, sof[-1], sof[-1], 0, style)
                scen.append((interp, {"pkts": pkts, "conc": conc, "sof": sof, "stop": sof[-1], "cut_mid": False, "plan": plan, "disc": True}))
    env = Env()
    items = []
    try:
        for k, (interp, client) in enumerate(scen):
            for name in names:
                items.append((interp, name, k, _trace_of(env, name, [client], 0, None)))
    finally:
        env.close()
    big = consts(ALL_TYPES, 65535, 1000, budget=1000000, clients=1000, bad=100000)
    cfg = _write(ctx, "framer_trace.cfg", _cfg_text(big, spec="TraceSpec", noearly=False))
    judged = [x for x in items if not any(e["e"] == "raise" for e in x[3])]
    res = tlc.trace_batch(ctx.spec("Hci", "FramerTrace.tla"), cfg, [x[3] for x in judged], tag="c02rfu", env={"JAVA_TOOL_OPTIONS": "-Xss512m"}) if judged else {"verdicts": {}, "states": 0}
    rep.extra["trace_states"] = rep.extra.get("trace_states", 0) + res["states"]
    ok = {(n, i): True for n in names for i in (16, 14)}
    for interp, name, k, ev in items:
        if any(e["e"] == "raise" for e in ev):
            ok[(name, interp)] = False
    for tid, v in res["verdicts"].items():
        interp, name, k, ev = judged[tid - 1]
        rep.traces += 1
        rep.case(("rfu", name, interp, k), nontrivial=True)
        if v[0] == "REJECT":
            ok[(name, interp)] = False
    reading = {n: [i for i in (16, 14) if ok[(n, i)]] for n in names}
    rep.extra["iso_length_reading"] = {n: r for n, r in reading.items()}
    common = [i for i in (16, 14) if all(ok[(n, i)] for n in names)]
    if common:
        return
    none = [n for n in names if not reading[n]]
    for n in none:
        rep.violation(f"{n}:FeedChunk:iso-reserved-length-bits", f"{n} frames ISO data packets whose length field has a reserved top bit set under neither reading "
                      f"(16-bit length, 14-bit length): packets are merged, lost or split", {"part": "rfu", "framer": n})
    if not none:
        rep.violation("framers:iso-length:disagree", f"the framers do not find the same packet boundaries for ISO data packets whose length field has a reserved "
                      f"top bit set: readings (bits of the length field honoured) per framer = {reading}", {"part": "rfu", "readings": reading})


# ----------------------------------------------------------------------------- entry points
CORE = ["parser", "reader", "async-reader", "tcp-server", "unix-server", "ws-server"]
SERVERS = ["parser", "tcp-server", "unix-server", "ws-server"]


def configs(quick):
    if quick:
        return [
            # every type next to every type, bodies 0..2, an invalid type byte at every packet boundary
            ("mixed2", consts(ALL_TYPES, 2, 2), CORE),
            # three packets per stream, one representative of each header shape
            ("mixed3", consts(("evt", "cmd", "acl"), 1, 3, bad=0), CORE),
            # per USB endpoint type: three packets, bodies 0..2 (the splitters see their own sub-stream)
            ("evt3", consts(("evt",), 2, 3, bad=0), CORE + ["usb-evt"]),
            ("acl3", consts(("acl",), 2, 3, bad=0), CORE + ["usb-acl"]),
            ("sco3", consts(("sco",), 2, 3, bad=0), CORE + ["usb-sco"]),
            # a client cut off at every byte position of every packet shape, then a second client
            ("reconnect", consts(ALL_TYPES, 1, 1, budget=2, clients=2, bad=0), SERVERS),
            # ... whose stream has two packets; and a third client after a second cut
            ("reconnect2", consts(("evt", "acl"), 1, 2, budget=3, clients=3, bad=0), SERVERS),
        ]
    return [
        ("mixed2", consts(ALL_TYPES, 3, 2), CORE),
        ("mixed3", consts(ALL_TYPES, 1, 3), CORE),
        ("mixed4", consts(("evt", "sco", "iso"), 1, 4, bad=0), CORE),
        ("evt4", consts(("evt",), 2, 4), CORE + ["usb-evt"]),
        ("acl4", consts(("acl",), 2, 4), CORE + ["usb-acl"]),
        ("sco4", consts(("sco",), 2, 4), CORE + ["usb-sco"]),
        ("cmd3", consts(("cmd",), 3, 3), CORE),
        ("iso3", consts(("iso",), 3, 3), CORE),
        ("reconnect", consts(ALL_TYPES, 1, 2, budget=3, clients=2, bad=1), SERVERS),
        ("reconnect3", consts(("evt", "acl"), 1, 2, budget=4, clients=3, bad=0), SERVERS),
    ]


def run(ctx, rep):
    rep.rule = ("(A) transition tours from Init taking every edge of each TLC state graph of Framer.tla, each tour executed on every applicable real framer "
                "with the delivered packets compared with the spec's `out` after every action; (B) seeded long real-size streams fed to the same framers and "
                "validated by FramerTrace.tla; distinct = distinct (framer, scale mode, action sequence) of length > 1, plus one per long trace")
    rep.assumptions = [
        "PacketReader is given an io.BufferedReader (its declared source type): read(n) returns n bytes unless EOF",
        "what a pull reader does after an invalid type byte, and what happens to the rest of the call that carried the invalid byte, is not constrained",
        "an invalid type byte reaches the push parser where a type byte is expected (between packets)",
        "server transports: clients are sequential (the next one connects after the previous one is gone)",
        "virtual-time event loop preserves asyncio callback order",
    ]
    lengths = set()
    only = [x for x in os.environ.get("C02_CONFIGS", "").split(",") if x]  # development knob (subset of the tier)
    try:
        import bumble.transport.usb  # noqa: F401  (needs the usb1 python package, no hardware)
        usb_ok = True
    except ImportError as e:
        usb_ok = False
        rep.assumptions.append(f"bumble.transport.usb is not importable here ({e}): the USB splitters were NOT checked")
    for tag, c, names in configs(ctx.quick):
        if only and tag not in only:
            continue
        if not usb_ok:
            names = [n for n in names if not n.startswith("usb-")]
        t0 = time.time()
        g = model(ctx, rep, tag, c)
        t1 = time.time()
        lengths |= replay_graph(ctx, rep, tag, g, names)
        r = rep.extra["replay"][tag]
        print(f"  [{tag}] {len(g.nodes)} states, {len(g.edges)} edges (TLC + graph {t1 - t0:.1f}s); {r['paths']} tours / {r['steps']} steps "
              f"on {len(names)} framers ({time.time() - t1:.1f}s); violations so far: {len(rep.violations)}", flush=True)
    missing = {0, 1, 255, 65535} - lengths
    if missing and not only:
        raise tlc.TlcError(f"scale vector never produced bodies of {sorted(missing)} bytes")
    rep.extra["concrete_body_lengths"] = sorted(lengths)
    t0 = time.time()
    if not only or "long" in only:
        long_traces(ctx, rep, 30 if ctx.quick else 400, only=None if usb_ok else [n for n in CORE])
    if not only or "rfu" in only:
        iso_length_agreement(ctx, rep)
    print(f"  [long] {rep.extra.get('long_traces', 0)} traces, {rep.extra.get('trace_states', 0)} states validated by FramerTrace.tla ({time.time() - t0:.1f}s)", flush=True)
    rep.exhaustive = True
    if not ctx.quick:
        r2 = type(rep)(rep.prop, rep.level)
        selftest(ctx, r2)
        for v in r2.violations:
            rep.violation(v.sig, v.summary, v.replay)


def _scenarios(seed, n_scen):
    """Deterministic regeneration of the long-stream scenarios (same code path as long_traces)."""
    import random

    kinds = LONG_KINDS
    rng = random.Random(f"C02/long/{seed}")
    scen = []
    for i in range(n_scen):
        kind, names = rng.choices(kinds, LONG_WEIGHTS)[0]
        scen.append((kind, names, _scenario(rng, kind)))
    return scen


def replay(ctx, rep):
    r = ctx.replay["replay"]
    if r.get("part") == "graph":
        env = Env()
        try:
            names = [r["framer"]]
            print(f"replaying on {names[0]} (scale mode {r['mode']}): {r['ops']}")
            viols, _, lengths = run_path(env, r["ops"], r["expect"], names, r["mode"], r["content_seed"], r.get("variant", 0), verbose=True)
        finally:
            env.close()
        for i, e in enumerate(r["expect"]):
            print(f"    spec after step {i + 1}: out = {e['out']} (client {e['client']})")
        if not viols:
            print("no violation on this tree")
        for sig, summary, name, at in viols:
            print("reproduced:", sig, "\n  ", summary)
            rep.violation(sig, summary, r)
    elif r.get("part") == "long":
        ctx.seed = r["content_seed"]
        r2 = type(rep)(rep.prop, rep.level)
        long_traces(ctx, r2, r["n_scen"], only_scenario=(r["scenario"], r["framer"]), procs=1)
        if not r2.violations:
            print("no violation on this tree")
        for v in r2.violations:
            print("reproduced:", v.sig, "\n  ", v.summary)
            rep.violation(v.sig, v.summary, r)
    elif r.get("part") == "rfu":
        iso_length_agreement(ctx, rep)
        print("readings per framer:", rep.extra.get("iso_length_reading"))
        if not rep.violations:
            print("no violation on this tree")
    else:
        raise ValueError(f"unknown replay part {r.get('part')}")


# ----------------------------------------------------------------------------- binding self-test
def _shims():
    """Real objects wrapped so that they misbehave in one documented way each."""
    from bumble import core
    from bumble.transport import common, usb

    class DropsWhenSeveralComplete(common.PacketParser):
        """delivers only the last packet completed by one call of feed_data"""

        def feed_data(self, data):
            real, got = self.sink, []
            self.sink = type("S", (), {"on_packet": staticmethod(got.append)})()
            try:
                super().feed_data(data)
            finally:
                self.sink = real
                for p in got[-1:]:
                    real.on_packet(p)

    class LostAfterBadType(common.PacketParser):
        """reports the invalid type byte but does not start over"""

        def feed_data(self, data):
            try:
                super().feed_data(data)
            except core.InvalidPacketError:
                self.state = common.PacketParser.NEED_BODY
                self.bytes_needed = 2
                raise

    class SilentBadType(common.PacketParser):
        """swallows the invalid type byte without a report"""

        def feed_data(self, data):
            try:
                super().feed_data(data)
            except core.InvalidPacketError:
                pass

    class ShortAsyncReader(common.AsyncPacketReader):
        """loses the last byte of a packet whose body is 255 bytes or longer"""

        async def next_packet(self):
            p = await super().next_packet()
            return p[:-1] if len(p) > 258 else p

    class GreedyReader(common.PacketReader):
        """reads the next type byte before it returns a packet"""

        def __init__(self, source):
            outer = self
            self._src = source
            self._ahead = b""

            class Src:
                def read(s, n):
                    d = outer._ahead[:n]
                    outer._ahead = outer._ahead[n:]
                    if len(d) < n:
                        d += outer._src.read(n - len(d))
                    return d

            super().__init__(Src())

        def next_packet(self):
            p = super().next_packet()
            if p is not None:
                self._ahead += self._src.read(1)
            return p

    def lazy_splitter(emit):
        class LazyZeroBody(usb.EventPacketSplitter):
            """a header that ends a transfer and announces an empty body is only emitted with the next transfer"""

            def feed(self, data):
                if len(self.packet) + len(data) == self.header_size and data and data[-1] == 0:
                    self.packet += data
                    return
                if len(self.packet) == self.header_size and self.packet[-1] == 0:
                    self.emit(self.packet)
                    self.packet = b""
                super().feed(data)

        return LazyZeroBody(emit)

    def stale_stream_server(ad):
        """the shared parser survives the client (what the server transports did before the C02 fix)"""
        real = ad.factory

        def factory():
            proto = real()
            made = proto.connection_made

            def connection_made(transport):
                p = ad.transport.source.parser
                saved = (p.state, p.bytes_needed, bytearray(p.packet), p.packet_info)
                made(transport)
                p.state, p.bytes_needed, p.packet, p.packet_info = saved

            proto.connection_made = connection_made
            return proto

        ad.factory = factory

    def stale_ws_server(ad):
        real = ad.handler

        async def handler(connection):
            p = ad.transport.source.parser
            saved = (p.state, p.bytes_needed, bytearray(p.packet), p.packet_info)

            class Conn:
                local_address, remote_address = connection.local_address, connection.remote_address

                def __aiter__(s):
                    p.state, p.bytes_needed, p.packet, p.packet_info = saved  # after the handler's own set-up
                    return connection.__aiter__()

                send = connection.send

            await real(Conn())

        ad.handler = handler

    return {
        "parser-drops-when-several-complete": ("mixed2", {"parser": DropsWhenSeveralComplete}, "parser"),
        "parser-lost-after-bad-type": ("mixed2", {"parser": LostAfterBadType}, "parser"),
        "parser-silent-bad-type": ("mixed2", {"parser": SilentBadType}, "parser"),
        "async-reader-short": ("acl3", {"async-reader": ShortAsyncReader}, "async-reader"),
        "reader-reads-ahead": ("mixed2", {"reader": GreedyReader}, "reader"),
        "usb-evt-lazy-empty-body": ("evt3", {"usb-evt": lazy_splitter}, "usb-evt"),
        "tcp-server-stale-parser": ("reconnect", {"tcp-server": stale_stream_server}, "tcp-server"),
        "unix-server-stale-parser": ("reconnect", {"unix-server": stale_stream_server}, "unix-server"),
        "ws-server-stale-parser": ("reconnect", {"ws-server": stale_ws_server}, "ws-server"),
    }


def selftest(ctx, rep):
    """Shims of the real framers must be flagged by the replay, corrupted traces must be rejected by
    FramerTrace.tla, and the deviation 'parser survives the client' must violate the spec's invariants."""
    results = {}
    cfgs = {tag: (c, names) for tag, c, names in configs(True)}
    graphs = {}
    for name, (tag, shims, framer) in _shims().items():
        if tag not in graphs:
            graphs[tag] = model(ctx, type(rep)(rep.prop, rep.level), tag, cfgs[tag][0])
        r2 = type(rep)(rep.prop, rep.level)
        replay_graph(ctx, r2, tag, graphs[tag], [framer], shims=shims, procs=8)
        results[name] = sorted(v.sig for v in r2.violations)
    # (B): the shims that matter at real sizes, and corrupted traces
    sh = _shims()
    r3 = type(rep)(rep.prop, rep.level)
    long_traces(ctx, r3, 24, shims=sh["async-reader-short"][1], only=["async-reader"], procs=4)
    results["long:async-reader-short"] = sorted(v.sig for v in r3.violations)
    r4 = type(rep)(rep.prop, rep.level)
    long_traces(ctx, r4, 24, shims=sh["tcp-server-stale-parser"][1], only=["tcp-server"], procs=4)
    results["long:tcp-server-stale-parser"] = sorted(v.sig for v in r4.violations)

    def shift_offset(k, tr):  # one delivered packet reported one byte further
        tr = [dict(e) for e in tr]
        for e in tr:
            if e["em"]:
                e["em"] = [[e["em"][0][0] + 1, e["em"][0][1]]] + e["em"][1:]
                break
        return tr

    def drop_delivery(k, tr):  # one delivery not observed
        tr = [dict(e) for e in tr]
        for e in reversed(tr):
            if e["em"]:
                e["em"] = e["em"][:-1]
                break
        return tr

    def move_delivery(k, tr):  # one delivery observed one call later
        tr = [dict(e) for e in tr]
        for i, e in enumerate(tr[:-1]):
            if e["em"] and tr[i + 1]["e"] == "feed":
                tr[i + 1]["em"] = [e["em"][-1]] + tr[i + 1]["em"]
                e["em"] = e["em"][:-1]
                break
        return tr

    for cname, fn in (("shift-offset", shift_offset), ("drop-delivery", drop_delivery), ("move-delivery", move_delivery)):
        r5 = type(rep)(rep.prop, rep.level)
        changed = set()

        def corrupt(k, tr, fn=fn, changed=changed):
            tr2 = fn(k, tr)
            if tr2 != tr:
                changed.add(k + 1)
            return tr2

        verdicts = long_traces(ctx, r5, 10, only=["parser"], procs=4, corrupt=corrupt)
        missed = [t for t in changed if verdicts[t][0] == "ACCEPT"]
        results["trace:" + cname] = [f"{len(changed)} corrupted traces rejected"] if (changed and not missed) else []
    # the spec itself: with the parser surviving the client TLC must find an invariant violated
    c = dict(cfgs["reconnect"][0], ResetOnConnect=False)
    cfg = _write(ctx, "framer_selftest_stale.cfg", _cfg_text(c))
    res = tlc.mc(ctx.spec("Hci", "Framer.tla"), cfg, workers=4, coverage=False)
    results["spec:parser-survives-client"] = [res["violation"]] if res["violation"] else []
    print("selftest:")
    for k, v in results.items():
        print(f"  {k:40s} {'caught ' + str(v) if v else 'NOT CAUGHT'}")
        if not v:
            rep.violation(f"selftest:{k}", f"binding self-test: {k} was not detected")
    rep.extra["selftest"] = results
