"""C15: the JSON key store is exact, persistent, namespace-isolated and crash-atomic.

(M) specs/Keys/KeyStore.tla model-checked by TLC: file / tmp file / directory, stores bound to two named
    namespaces and to the default namespace (documented resolution rule), every mutator split into
    Load, Mkdir, OpenTmp, WriteSome, WriteRest, Close, Rename, Crash enabled everywhere, Restart / Reopen;
    invariants CrashAtomic, Refinement, action properties Isolation, Committed; RoundTrip of the PairingKeys
    <-> JSON object mapping; both update policies (merge / replace, DESIGN Appendix D); each named deviation
    of the spec must make TLC report the property it breaks (negative runs).
(A) every edge of the bounded TLC state graph is replayed (transition tours, whole operations with the
    crash point chosen by the tour) on a real bumble.keys.JsonKeyStore in a scratch directory under ctx.out.
    File-system steps are intercepted in this process only (lib/c15_fs.py); before every step, at the crash
    point and after the operation the directory is inspected raw and through fresh stores of every namespace
    and compared with the spec state (before / after database of the operation).
    In addition sampled operations are crashed before EVERY real file-system event (each json.dump write),
    and PairingKeys field combinations are round-tripped through update / get / reopen.
"""
from __future__ import annotations

import functools
import hashlib
import io
import itertools
import json
import os
import re
import shutil
import time
from concurrent.futures import ProcessPoolExecutor, ThreadPoolExecutor
import multiprocessing

from lib import tlc, tour, tlaval
from lib.c15_fs import Crash, FsTracer, read_bytes

LEVEL = "model_checking"
TLC_TIMEOUT = 3600  # s per TLC run; the largest configuration needs ~100 s on an idle machine
SPEC = ("Keys", "KeyStore.tla")

# ----------------------------------------------------------------------------- concrete values
# namespace names with a prefix relation (the str() of a random and of a public address with equal bytes)
NS_NAME = {"A": "F0:F1:F2:F3:F4:F5", "B": "F0:F1:F2:F3:F4:F5/P"}
PEER_NAME = {"p1": "C0:C1:C2:C3:C4:C5", "p2": "C0:C1:C2:C3:C4:C5/P", "p3": "C0:C1:C2:C3:C4:C6"}
STORES = ("A", "B", "D")
MUTATING_STEPS = ("Load", "LoadRaise", "Mkdir", "OpenTmp", "WriteSome", "WriteRest", "Close", "Rename", "RenameEarly", "CloseLate")
KIND_OF_STEP = {"Load": "open_r", "Mkdir": "mkdir", "OpenTmp": "open_w", "WriteSome": "write", "WriteRest": "write", "Close": "close", "Rename": "rename"}


def _bumble():
    from bumble import hci, keys

    return hci, keys


def default_ns_name():
    _, keys = _bumble()
    return getattr(keys.JsonKeyStore, "DEFAULT_NAMESPACE", "__DEFAULT__")


def concrete_ns(n):
    return default_ns_name() if n == "D" else NS_NAME[n]


@functools.lru_cache(maxsize=None)
def field_groups():
    """abstract field group values -> PairingKeys keyword arguments (same top-level fields per group)."""
    hci, keys = _bumble()
    K = keys.PairingKeys.Key
    f = {
        0: {},
        1: dict(ltk=K(bytes(range(16)), True, 0x1234, bytes(range(8, 16))), link_key=K(bytes([0xA1] * 16), False), link_key_type=4),
        2: dict(ltk=K(bytes([0x22] * 16), False, None, None), link_key=K(bytes([0xB2] * 16), True), link_key_type=0),
    }
    g = {
        0: {},
        1: dict(irk=K(bytes([0x31] * 16), False), address_type=hci.AddressType.PUBLIC_DEVICE),
        2: dict(irk=K(bytes([0x42] * 16), True), address_type=hci.AddressType.RANDOM_DEVICE),
    }
    return f, g


VARIANT = {1: (1, 0), 2: (2, 1), 3: (0, 2)}  # KeyStore.tla VariantDef


def conc_entry(e):
    return _conc(e["f"], e["g"])


@functools.lru_cache(maxsize=None)
def _conc(fv, gv):
    _, keys = _bumble()
    f, g = field_groups()
    return keys.PairingKeys(**f[fv], **g[gv])


def conc_variant(v):
    return conc_entry({"f": VARIANT[v][0], "g": VARIANT[v][1]})


# ----------------------------------------------------------------------------- abstract helpers (mirror of the spec's operators)
def resolve(s, db):
    if db[s]["ex"]:
        return s
    ex = [n for n in db if db[n]["ex"]]
    if s == "D" and len(ex) == 1:
        return ex[0]
    return s


def input_class(s, db):
    if s != "D":
        return "named"
    return "default-adopts-single" if resolve(s, db) != "D" else "default"


_EXP = {}


def expected_obs(db):
    """(structure of the raw file, what each store's get_all returns) for an abstract database; db None = no file."""
    if db is None:
        return (None, {s: {} for s in STORES})
    key = json.dumps(db, sort_keys=True)
    if key not in _EXP:
        _EXP[key] = _expected_obs(db)
    return _EXP[key]


def _expected_obs(db):
    struct = {concrete_ns(n): sorted(PEER_NAME[p] for p, e in d["m"].items() if e["h"]) for n, d in db.items() if d["ex"]}
    views = {}
    for s in STORES:
        m = db[resolve(s, db)]["m"]
        views[s] = {PEER_NAME[p]: conc_entry(e) for p, e in m.items() if e["h"]}
    return (struct, views)


def file_db(state):
    """abstract database of the main file in a spec state, None if the file does not exist."""
    f = state["file"]
    if f["st"] == "missing":
        return None
    if f["st"] == "ok" and f["c"]["k"] == "db":
        return f["c"]["db"]
    raise tlc.TlcError(f"spec state with a main file that is not a database: {f['st']}/{f['c']['k']}")


class Suspended(RuntimeError):
    """a key store coroutine suspended: the replay harness (crash injection at file-system steps) needs mutators that
    run to their end without yielding"""


def run_coro(coro):
    """The store's coroutines never suspend (no await on anything pending): drive them by hand."""
    try:
        coro.send(None)
    except StopIteration as e:
        return e.value
    except RuntimeError as e:
        if "no running event loop" in str(e):  # it wants to hand work to the loop: as good as suspending
            raise Suspended("key store coroutine needs a running event loop") from e
        raise
    coro.close()
    raise Suspended("key store coroutine suspended")


_LOOP = []


def run_loop(coro):
    """run a coroutine to its end on a private event loop (only used in the parent process, before any fork)"""
    import asyncio

    if not _LOOP:
        _LOOP.append(asyncio.new_event_loop())
    return _LOOP[0].run_until_complete(coro)


def probe_concurrent(ctx, rep):
    """Mutators started together (what two pairings completing at once, or two controllers sharing one key file, do):
    each mutator is one atomic step of KeyStore.tla, so whatever the interleaving of their awaits the outcome must be
    that of SOME sequential order of them - here they touch different entries, so every order gives the same state."""
    import asyncio

    for rnd, (ns1, ns2) in enumerate((("A", "A"), ("A", "B"), ("D", "B"), ("A", "B"))):
        env = Env(scratch_root(ctx.out, f"probe-concurrent-{rnd}"))
        try:
            s1, s2 = env.new_store(ns1), env.new_store(ns2)
            names = [PEER_NAME["p1"], PEER_NAME["p2"], PEER_NAME["p3"]]
            run_loop(s1.update(names[0], conc_variant(1)))

            async def together():
                # every mutator touches an entry of its own: every sequential order gives the same state
                ops = [s1.update(names[1], conc_variant(2)), s2.update(names[2], conc_variant(1))]
                if rnd == 3:
                    ops.append(s1.delete(names[0]))
                return await asyncio.gather(*ops, return_exceptions=True)

            res = run_loop(together())
            rep.case(("concurrent", rnd, ns1, ns2), nontrivial=True)
            raised = [type(r).__name__ for r in res if isinstance(r, BaseException)]
            v1 = dict(run_loop(env.new_store(ns1).get_all()))
            v2 = dict(run_loop(env.new_store(ns2).get_all()))
            e1 = {names[0]: conc_variant(1), names[1]: conc_variant(2)}
            if rnd == 3:
                del e1[names[0]]
            e2 = {names[2]: conc_variant(1)}
            if ns1 == ns2:
                e1 = e2 = dict(e1, **e2)
            ok = v1 == e1 and v2 == e2
            if raised or not ok:
                rep.violation("keystore:concurrent-mutators:" + ("raise" if raised else "lost-update"),
                              f"mutators started together on one key file (namespaces {ns1!r} / {ns2!r}) do not amount to any sequential order of them: "
                              f"raised {raised}; views afterwards {sorted(v1)} / {sorted(v2)}, expected {sorted(e1)} / {sorted(e2)}",
                              {"part": "concurrent", "round": rnd, "ns": [ns1, ns2]})
        finally:
            env.close()


# ----------------------------------------------------------------------------- the environment: a real store in a scratch directory
class Env:
    def __init__(self, root, store_factory=None):
        _, keys = _bumble()
        self.keys = keys
        self.link = root
        root = self.root = os.path.realpath(root)
        os.makedirs(os.path.join(root, "probe"), exist_ok=True)
        self.main = os.path.join(root, "store", "keys.json")  # directory "store" does not exist yet
        self.probe = os.path.join(root, "probe", "keys.json")
        self.factory = store_factory or keys.JsonKeyStore
        self.tracer = FsTracer(keys, root)
        self.tracer.set_paths(self.main)
        self.tracer.install()
        self.stores = {}
        self.cache = {}
        self.n_obs = 0

    def close(self):
        self.tracer.uninstall()
        shutil.rmtree(self.root, ignore_errors=True)
        if os.path.islink(self.link):
            os.remove(self.link)

    def new_store(self, s, path=None):
        return self.factory(None if s == "D" else NS_NAME[s], path or self.main)

    def store(self, s):
        if s not in self.stores:
            self.stores[s] = self.new_store(s)
        return self.stores[s]

    # ---- observation
    def observe_path(self, path, data):
        """-> ("db", struct, views) | ("missing",) | ("garbage", why)"""
        if data is None:
            return ("missing",)
        try:
            doc = json.loads(data.decode("utf-8"))
        except (ValueError, UnicodeDecodeError):
            return ("garbage", "unparseable")
        if not isinstance(doc, dict) or not all(isinstance(m, dict) and all(isinstance(e, dict) for e in m.values()) for m in doc.values()):
            return ("garbage", "not-a-database")
        struct = {ns: sorted(m) for ns, m in doc.items()}
        views = {}
        for s in STORES:
            try:
                lst = run_coro(self.new_store(s, path).get_all())
            except Exception as e:  # a reader must be able to read a complete database
                return ("garbage", f"unreadable-{type(e).__name__}")
            d = dict(lst)
            if len(d) != len(lst):
                return ("garbage", "duplicate-names")
            views[s] = d
        return ("db", struct, views)

    def observe_real(self):
        """The real directory through fresh stores of every namespace.  The stores' read path depends on the file
        content only, so a content already classified through fresh stores is re-read for real one time in 8."""
        data = read_bytes(self.main)
        self.n_obs += 1
        if data is not None and data in self.cache and self.n_obs % 8:
            return self.cache[data]
        obs = self.observe_path(self.main, data)
        if data is not None:
            self.cache.setdefault(data, obs)
        return obs

    def observe_bytes(self, data):
        """classification of a snapshot of the main file (through fresh stores on a copy); cached by content."""
        if data is None:
            return ("missing",)
        if data not in self.cache:
            with io.open(self.probe, "wb") as f:
                f.write(data)
            self.cache[data] = self.observe_path(self.probe, data)
        return self.cache[data]


def matches(obs, exp):
    if obs[0] == "missing":
        return exp[0] is None
    if obs[0] != "db":
        return False
    return exp[0] is not None and obs[1] == exp[0] and obs[2] == exp[1]


def alt_after(c, pre, post):
    """The same result without the key set the operation would have created empty: whether an empty key set is
    written to the file is not fixed by the property.  None if not applicable."""
    if post is None:
        return None
    r = resolve(c["s"], pre) if pre is not None else c["s"]
    if (pre is not None and pre[r]["ex"]) or not post[r]["ex"] or any(e["h"] for e in post[r]["m"].values()):
        return None
    alt = json.loads(json.dumps(post))
    alt[r]["ex"] = False
    return alt


def value_diff(obs, exp):
    """first (store, peer, field) whose value differs when the structure is equal"""
    if obs[0] != "db" or exp[0] is None or obs[1] != exp[0]:
        return ""
    for s in STORES:
        for name in sorted(set(obs[2][s]) | set(exp[1][s])):
            a, b = exp[1][s].get(name), obs[2][s].get(name)
            if a != b:
                return f"; store {s} peer {name}: field {diff_field(a, b)} differs: expected {a!r}, read back {b!r}"
    return ""


def describe(obs):
    if obs[0] != "db":
        return "/".join(obs)
    return "db " + json.dumps(obs[1], sort_keys=True) + " views " + repr({s: sorted(v) for s, v in obs[2].items()})


def mismatch_clause(obs, exp_after, exp_before, s, pre_db):
    """name the clause broken by a complete database that is not the expected one."""
    if obs[0] != "db":
        return "file-" + obs[-1]
    r = resolve(s, pre_db) if pre_db is not None else s
    others_raw = [n for n in set(obs[1]) | set(exp_before[0] or {}) if n != concrete_ns(r)]
    for n in others_raw:
        if obs[1].get(n) != (exp_before[0] or {}).get(n):
            return "isolation"
    for t in STORES:
        rt = resolve(t, pre_db) if pre_db is not None else t
        if rt != r and obs[2].get(t) != exp_before[1].get(t) and exp_after[1].get(t) == exp_before[1].get(t):
            return "isolation"
    return "refinement"


# ----------------------------------------------------------------------------- script execution (shared by tours and --replay)
class Diverged(Exception):
    """legal outcome that differs from the one the tour continues with: stop this path (not a violation)"""


class Executor:
    def __init__(self, env, tag, report):
        self.env = env
        self.tag = tag
        self.report = report  # callable(sig, summary, extra)
        self.stats = {"ops": 0, "crashes": 0, "crash_unreached": 0, "events": 0, "exhaustive_ops": 0, "exhaustive_crashes": 0,
                      "diverged": 0, "conform_ops": 0, "nonconform_ops": 0, "gets": 0}
        self.cases = []
        self.verbose = False

    def log(self, *a):
        if self.verbose:
            print(*a)

    # ---- one mutator, possibly crashed
    def call_mutator(self, store, c):
        keys = self.env.keys
        if c["op"] == "update":
            return run_coro(store.update(PEER_NAME[c["p"]], conc_variant(c["v"])))
        if c["op"] == "delete":
            return run_coro(store.delete(PEER_NAME[c["p"]]))
        return run_coro(store.delete_all())

    def attempt(self, store, c, crash, record=True):
        """-> (outcome, exception) with outcome in 'done' | 'crashed' | 'raised'"""
        tr = self.env.tracer
        tr.begin(crash, record=record)
        try:
            self.call_mutator(store, c)
            return "done", None
        except Crash:
            return "crashed", None
        except Exception as e:
            return "raised", e
        finally:
            tr.end()

    def check_snapshots(self, step, exp_before, exp_after, ctxinfo, exp_alt=None):
        """CrashAtomic at every file-system boundary of the last attempt. Returns False after reporting."""
        tr = self.env.tracer
        snaps = [(f"before-{kind}", s[0]) for kind, s in tr.events if s is not None]
        if tr.crashed:
            snaps.append((f"crash-before-{tr.crashed[1]}-flushed", tr.crashed[3][0]))
        seen_after = False
        last = object()
        for where, data in snaps:
            if data is last or data == last:
                continue
            last = data
            obs = self.env.observe_bytes(data)
            is_b, is_a = matches(obs, exp_before), matches(obs, exp_after) or (exp_alt is not None and matches(obs, exp_alt))
            if not (is_b or is_a):
                what = "file-" + obs[-1] if obs[0] == "garbage" else ("file-missing" if obs[0] == "missing" else "neither-before-nor-after")
                self.fail(step, f"crash-atomic:{what}:{where}", f"main file at the boundary '{where}' is {describe(obs)[:300]}", ctxinfo)
                return False
            if is_a and not is_b:
                seen_after = True
            elif seen_after and is_b and not is_a:
                self.fail(step, f"crash-atomic:reverted:{where}", "main file went back to the previous database", ctxinfo)
                return False
        return True

    def fail(self, step, clause, detail, ctxinfo):
        c = step["c"]
        cls = input_class(c["s"], step["pre"]) if step.get("pre") is not None else ("default" if c["s"] == "D" else "named")
        sig = f"keystore:{c['op']}:{cls}:{clause}"
        self.report(sig, f"{c['op']}({c['s']}{',' + c['p'] if c['op'] != 'delete_all' else ''}{',v' + str(c['v']) if c['op'] == 'update' else ''}) "
                         f"on file {json.dumps(expected_obs(step['pre'])[0], sort_keys=True)} crash={step.get('crash')}: {detail}", ctxinfo)

    def exec_op(self, step, ctxinfo):
        env, tr = self.env, self.env.tracer
        c = step["c"]
        pre, post = step["pre"], step["post"]
        exp_b, exp_a = expected_obs(pre), expected_obs(post)
        alt = alt_after(c, pre, post)
        exp_alt = expected_obs(alt) if alt is not None else None
        s0 = tr.snapshot()
        if step.get("exhaustive"):
            self.stats["exhaustive_ops"] += 1
            k = 0
            while True:
                tr.restore(s0)
                outcome, exc = self.attempt(env.new_store(c["s"]), c, ("index", k), record=False)
                if outcome != "crashed":
                    break
                self.stats["exhaustive_crashes"] += 1
                ex_step = dict(step, crash=["index", k])
                if not self.check_snapshots(ex_step, exp_b, exp_a, ctxinfo, exp_alt):
                    raise Diverged()
                obs = env.observe_bytes(read_bytes(env.main))
                if not (matches(obs, exp_b) or matches(obs, exp_a) or (exp_alt is not None and matches(obs, exp_alt))):
                    self.fail(ex_step, f"crash-atomic:after-crash:before-{tr.crashed[1]}", f"after the crash fresh stores see {describe(obs)[:300]}", ctxinfo)
                    raise Diverged()
                k += 1
                if k > 5000:
                    raise RuntimeError("exhaustive crash loop does not terminate")
            tr.restore(s0)
        store = env.store(c["s"])
        outcome, exc = self.attempt(store, c, step.get("crash"))
        self.stats["ops"] += 1
        self.stats["events"] += tr.n_events
        self.cases.append((self.tag, _digest(pre), c["op"], c["s"], c["p"], c["v"], tuple(step["crash"]) if step.get("crash") else None))
        self.log(f"  {c} crash={step.get('crash')} -> {outcome} {type(exc).__name__ if exc else ''}; events: {_compress([k for k, _ in tr.events])}")
        if step.get("crash") and outcome != "crashed":
            # the crash point chosen by the tour does not exist in this implementation's step sequence
            self.stats["crash_unreached"] += 1
        if outcome == "crashed":
            self.stats["crashes"] += 1
        if not self.check_snapshots(step, exp_b, exp_a, ctxinfo, exp_alt):
            raise Diverged()
        obs = env.observe_real()
        self.log(f"    file now: {describe(obs)[:400]}")
        if outcome == "raised":
            if step["raises"] and isinstance(exc, KeyError):
                pass  # delete of an absent entry may raise KeyError (left free); the state is checked below
            else:
                self.fail(step, f"raise:{type(exc).__name__}", f"raised {type(exc).__name__}: {exc}", ctxinfo)
                raise Diverged()
        want = exp_a if (outcome != "crashed" and not step["raises"]) else None
        if want is not None:
            if not matches(obs, want):
                if (exp_alt is not None and matches(obs, exp_alt)) or (exp_b[1] == exp_a[1] and matches(obs, exp_b)):
                    # legal: the empty key set was not written / an operation without effect on any store's view wrote
                    # nothing; the tour assumed otherwise
                    self.stats["diverged"] += 1
                    raise Diverged()
                self.fail(step, mismatch_clause(obs, exp_a, exp_b, c["s"], pre),
                          f"after the operation the file is {describe(obs)[:300]}, expected {json.dumps(exp_a[0], sort_keys=True)}{value_diff(obs, exp_a)[:500]}", ctxinfo)
                raise Diverged()
        else:
            # crashed, or delete of an absent entry: previous or new database are both acceptable
            if not (matches(obs, exp_b) or matches(obs, exp_a)):
                ok = exp_alt is not None and matches(obs, exp_alt)
                if step["raises"] and obs[0] == "db" and pre is not None:
                    # ... and so is creating the (empty) key set the store is bound to
                    alt = json.loads(json.dumps(pre))
                    alt[resolve(c["s"], pre)]["ex"] = True
                    ok = ok or matches(obs, expected_obs(alt))
                if step["raises"] and obs[0] == "db" and pre is None:
                    ok = ok or obs[1] in ({}, {concrete_ns(c["s"]): []})
                if not ok:
                    clause = "crash-atomic:after-crash" if outcome == "crashed" else mismatch_clause(obs, exp_a, exp_b, c["s"], pre)
                    self.fail(step, clause, f"afterwards fresh stores see {describe(obs)[:300]}", ctxinfo)
                raise Diverged()
            predicted = exp_a if step["expect"] == "after" else exp_b
            if not matches(obs, predicted):
                self.stats["diverged"] += 1
                raise Diverged()
        # persistent instances must agree with fresh ones (within one instance / after re-opening)
        if outcome != "crashed":
            for s in STORES:
                if s in env.stores:
                    try:
                        got = dict(run_coro(env.stores[s].get_all()))
                    except Exception as e:
                        self.fail(step, f"refinement:get_all-raise:{type(e).__name__}", f"get_all() of the open store {s} raised {e!r}", ctxinfo)
                        raise Diverged()
                    fresh = obs[2][s] if obs[0] == "db" else {}
                    if got != fresh:
                        self.fail(step, "refinement:open-instance-differs", f"open store {s} returns {sorted(got)} but a fresh store returns {sorted(fresh)}", ctxinfo)
                        raise Diverged()
        # soft step conformance (not a verdict): does the implementation take the spec's steps?
        if outcome == "done" and not step["raises"]:
            kinds = _compress([k for k, _ in tr.events])
            want_kinds = _compress([KIND_OF_STEP[n] for n in step["steps"] if n in KIND_OF_STEP])
            if kinds == want_kinds:
                self.stats["conform_ops"] += 1
            else:
                self.stats["nonconform_ops"] += 1
        if outcome == "crashed":
            env.stores = {}  # the process is gone

    def exec_read(self, step, ctxinfo):
        env = self.env
        db = step["pre"]
        s = step["s"]
        exp = expected_obs(db)[1][s]
        st = env.store(s)
        self.stats["gets"] += 1
        fake = {"c": {"op": step["k"], "s": s, "p": step.get("p", "p1"), "v": 0}, "pre": db}
        try:
            if step["k"] == "get":
                name = PEER_NAME[step["p"]]
                got = run_coro(st.get(name))
                self.cases.append((self.tag, _digest(db), "get", s, step["p"]))
                if got != exp.get(name):
                    self.fail(fake, "refinement:value", f"get({name}) through the open store returned {got!r}, expected {exp.get(name)!r}", ctxinfo)
                    raise Diverged()
            else:
                lst = run_coro(st.get_all())
                self.cases.append((self.tag, _digest(db), "get_all", s))
                if dict(lst) != exp or len(lst) != len(exp):
                    self.fail(fake, "refinement:value", f"get_all() returned {sorted(n for n, _ in lst)}, expected {sorted(exp)}", ctxinfo)
                    raise Diverged()
                hci, _ = _bumble()
                rk = run_coro(st.get_resolving_keys())
                want = sorted((k.irk.value, str(hci.Address(n, k.address_type if k.address_type is not None else hci.Address.RANDOM_DEVICE_ADDRESS)))
                              for n, k in exp.items() if k.irk is not None)
                if sorted((v, str(a)) for v, a in rk) != want:
                    self.fail(fake, "refinement:resolving-keys", f"get_resolving_keys() returned {rk!r}, expected {want!r}", ctxinfo)
                    raise Diverged()
        except Diverged:
            raise
        except Exception as e:
            self.fail(fake, f"raise:{type(e).__name__}", f"{step['k']} raised {type(e).__name__}: {e}", ctxinfo)
            raise Diverged()

    def run_script(self, script, ctxinfo):
        """Execute a list of macro steps; stops at the first violation / legal divergence."""
        env = self.env
        try:
            for i, step in enumerate(script):
                ctxinfo["upto"] = i
                k = step["k"]
                if k == "op":
                    self.exec_op(step, ctxinfo)
                elif k in ("get", "get_all"):
                    self.exec_read(step, ctxinfo)
                elif k == "reopen":
                    env.stores[step["s"]] = env.new_store(step["s"])
                elif k == "crash_idle":
                    env.stores = {}
                elif k == "restart":
                    env.stores = {}
                else:
                    raise ValueError(k)
        except Diverged:
            return False
        return True


def _digest(db):
    return hashlib.sha1(json.dumps(db, sort_keys=True).encode()).hexdigest()[:10]


def _compress(kinds):
    out = []
    for k in kinds:
        if not out or out[-1] != k or k != "write":
            out.append(k)
    return out


# ----------------------------------------------------------------------------- graph -> scripts
class LazyGraph:
    """TLC dot dump with node labels parsed on demand (states are large)."""

    def __init__(self, dot_path):
        self.raw = {}
        self.edges = []
        self.init = []
        self._parsed = {}
        with open(dot_path) as f:
            for line in f:
                m = tlc._EDGE.match(line)
                if m:
                    self.edges.append((int(m.group(1)), int(m.group(2)), m.group(3)))
                    continue
                m = tlc._NODE.match(line)
                if m:
                    nid = int(m.group(1))
                    self.raw[nid] = m.group(2)
                    if "style = filled" in line:
                        self.init.append(nid)
        self.out = {}
        for i, (s, d, lbl) in enumerate(self.edges):
            self.out.setdefault(s, []).append(i)
        self._lbl = {}
        self.chain_cache = {}
        self.names = [re.match(r"\w+", lbl).group(0) for (_, _, lbl) in self.edges]

    def label(self, ei):
        if ei not in self._lbl:
            self._lbl[ei] = tlc.parse_action_label(tlc._unesc(self.edges[ei][2]))
        return self._lbl[ei]

    def name(self, ei):
        return self.names[ei]

    def state(self, nid):
        if nid not in self._parsed:
            self._parsed[nid] = tlaval.parse_state(tlc._unesc(self.raw[nid]))
        return self._parsed[nid]


def build_macro(g):
    """Macro graph over the idle states: one macro edge = one whole harness step
    (read / reopen / complete mutator / mutator crashed at one program counter + Restart / crash while idle + Restart).
    Every edge of g belongs to at least one macro edge."""
    hubs = {s for (s, d, lbl) in g.edges if lbl.startswith("Begin")}
    for i in g.init:
        hubs.add(i)
    macro = tlc.Graph()
    macro.init = list(g.init)
    macro.base = []  # per macro edge: list of base edge ids
    covered = set()

    def only(n, pred):
        es = [e for e in g.out.get(n, []) if pred(g.name(e))]
        if len(es) != 1:
            raise tlc.TlcError(f"state graph shape unexpected at node {n}: {[g.name(e) for e in g.out.get(n, [])]}")
        return es[0]

    def add(src, dst, name, base):
        macro.edges.append((src, dst, name, ()))
        macro.base.append(base)
        covered.update(base)

    def crash_tail(n):
        ec = only(n, lambda a: a == "Crash")
        down = g.edges[ec][1]
        er = only(down, lambda a: a == "Restart")
        return [ec, er], g.edges[er][1]

    for h in sorted(hubs):
        for e in g.out.get(h, []):
            nm = g.name(e)
            if nm in ("Get", "GetAll", "Reopen"):
                add(h, h, nm, [e])
            elif nm == "Crash":
                tail, dst = crash_tail(h)
                add(h, dst, "CrashIdle", tail)
            elif nm == "Begin":
                chain = [e]
                n = g.edges[e][1]
                # crash before the first step
                tail, dst = crash_tail(n)
                add(h, dst, "OpCrash", chain + tail)
                while n not in hubs:
                    es = only(n, lambda a: a in MUTATING_STEPS)
                    chain = chain + [es]
                    n = g.edges[es][1]
                    if n not in hubs:
                        tail, dst = crash_tail(n)
                        add(h, dst, "OpCrash", chain + tail)
                add(h, n, "Op", chain)
            else:
                raise tlc.TlcError(f"unexpected action {nm} at an idle state")
    missing = set(range(len(g.edges))) - covered
    if missing:
        raise tlc.TlcError(f"{len(missing)} edges of the state graph are in no macro step, e.g. {g.edges[next(iter(missing))][2]}")
    macro.index()
    return macro


def macro_to_step(g, macro, mi, rng_val, exhaustive=False):
    """harness step (JSON-able) for macro edge mi."""
    src, dst, name, _ = macro.edges[mi]
    base = macro.base[mi]
    st = g.state(src)
    pre = file_db(st)
    if name in ("Get", "GetAll", "Reopen"):
        nm, args = g.label(base[0])
        if name == "Get":
            return {"k": "get", "s": str(args[0]), "p": str(args[1]), "pre": pre}
        if name == "GetAll":
            return {"k": "get_all", "s": str(args[0]), "pre": pre}
        return {"k": "reopen", "s": str(args[0])}
    if name == "CrashIdle":
        return {"k": "crash_idle"}
    nm, args = g.label(base[0])
    c = {k: (str(v) if isinstance(v, str) else v) for k, v in args[0].items()}
    c.pop("pc", None)
    names = [g.name(e) for e in base[1:]]
    steps = [n for n in names if n in MUTATING_STEPS]
    # the database after the complete operation: follow the chain to the end
    if base[0] not in g.chain_cache:
        hubs_end = None
        chain = []
        cur = g.edges[base[0]][1]
        while True:
            outs = [e for e in g.out.get(cur, []) if g.name(e) in MUTATING_STEPS]
            if len(outs) != 1:
                break
            cur = g.edges[outs[0]][1]
            chain.append(g.name(outs[0]))
            if any(g.name(e) == "Begin" for e in g.out.get(cur, [])):
                hubs_end = cur
                break
        if hubs_end is None:
            raise tlc.TlcError("mutator chain does not return to an idle state")
        g.chain_cache[base[0]] = (chain, file_db(g.state(hubs_end)))
    chain_states, post = g.chain_cache[base[0]]
    raises = chain_states == ["LoadRaise"]
    step = {"k": "op", "c": c, "pre": pre, "post": post, "raises": raises, "steps": chain_states, "crash": None, "expect": "after"}
    if name == "OpCrash":
        done = steps  # steps completed before the crash
        pcs = len(done)
        dir_ok = bool(st["dirOk"]) or "Mkdir" in done
        if pcs == 0:
            crash = ["index", 0]
        else:
            last = done[-1]
            if last in ("Load", "Mkdir"):
                crash = ["kind", "open_w", 1] if dir_ok else ["kind", "mkdir", 1]
            elif last == "OpenTmp":
                crash = ["kind", "write", 1]
            elif last == "WriteSome":
                crash = ["kind", "write", 2 + rng_val % 5]
            elif last == "WriteRest":
                crash = ["kind", "close", 1]
            elif last == "Close":
                crash = ["kind", "rename", 1]
            else:
                raise tlc.TlcError(f"crash after {last}?")
        step["crash"] = crash
        after_crash = file_db(g.state(g.edges[base[-2]][1]))  # state after the Crash edge
        step["expect"] = "after" if (after_crash == post and after_crash != pre) else "before"
    elif exhaustive:
        step["exhaustive"] = True
    return step


# ----------------------------------------------------------------------------- worker processes
_W = {}


def run_id():
    """scratch entries of this run (its worker processes included) are prefixed with the parent's pid"""
    if "run_id" not in _W:
        _W["run_id"] = f"p{os.getpid()}"
    return _W["run_id"]


def scratch_root(ctx_out, name):
    """A scratch directory reached through ctx.out.  The replay performs ~10^5 renames; on the ext4 volume each
    rename-over-existing costs milliseconds (implicit data flush), on tmpfs microseconds.  When /dev/shm is
    usable the directory lives there and ctx.out/scratch/<run>-<name> is a symbolic link to it
    (VERIF_C15_SCRATCH=disk keeps it on disk).  Either way it is removed afterwards."""
    base = os.path.join(ctx_out, "scratch")
    os.makedirs(base, exist_ok=True)
    link = os.path.join(base, f"{run_id()}-{name}")
    _remove_entry(link)
    shm = "/dev/shm"
    if os.environ.get("VERIF_C15_SCRATCH") != "disk" and os.path.isdir(shm) and os.access(shm, os.W_OK):
        import tempfile

        target = tempfile.mkdtemp(prefix="verif-c15-", dir=shm)
        os.symlink(target, link)
    else:
        os.makedirs(link)
    return link


def _remove_entry(p):
    if os.path.islink(p):
        shutil.rmtree(os.path.realpath(p), ignore_errors=True)
        os.remove(p)
    else:
        shutil.rmtree(p, ignore_errors=True)


def remove_scratch(ctx_out):
    base = os.path.join(ctx_out, "scratch")
    if os.path.isdir(base):
        for n in os.listdir(base):
            if n.startswith(run_id() + "-"):
                _remove_entry(os.path.join(base, n))
        try:
            os.rmdir(base)
        except OSError:
            pass


def _worker_run(job):
    """replay a list of tours (each a list of macro edge ids) in this process."""
    g, macro, tag, outdir, factory = _W["g"], _W["macro"], _W["tag"], _W["out"], _W["factory"]
    wid, tours, exh_set, seed = job
    cpu0 = time.process_time()
    env = Env(scratch_root(outdir, f"{tag}-w{wid}"), factory)
    viol = []
    ex = Executor(env, tag, lambda sig, summary, extra: viol.append((sig, summary, json.loads(json.dumps(extra)))))
    covered = set()
    ntours = 0
    try:
        for ti, t in enumerate(tours):
            script = [macro_to_step(g, macro, mi, (seed * 7919 + mi * 31) & 0xFFFF, exhaustive=(mi in exh_set)) for mi in t]
            env.tracer.restore((None, None, False))
            shutil.rmtree(os.path.dirname(env.main), ignore_errors=True)
            env.stores = {}
            info = {"part": "tour", "tag": tag, "constants": _W["constants"], "script": script}
            ex.run_script(script, info)
            ntours += 1
            for mi in t[: info.get("upto", -1) + 1]:
                covered.update(macro.base[mi])
    finally:
        env.close()
    return {"viol": viol, "stats": ex.stats, "cases": ex.cases, "covered": covered, "tours": ntours, "cpu": time.process_time() - cpu0}


def dump_graph(ctx, tag, constants):
    """Model-check the replay configuration and dump its state graph (dot), labels parsed lazily."""
    cfg = write_cfg(ctx, f"replay_{tag}.cfg", cfg_text(constants))
    d = os.path.join(ctx.out, f"dump-{tag}")
    shutil.rmtree(d, ignore_errors=True)
    os.makedirs(d)
    dot = os.path.join(d, "graph.dot")
    try:
        t0 = time.time()
        res = tlc.mc(ctx.spec(*SPEC), cfg, workers=4, coverage=True, dump=dot, timeout=TLC_TIMEOUT)
        if res["violation"]:
            raise tlc.TlcError(f"KeyStore.tla ({tag}) violates {res['violation']} in the model itself:\n{res['out'][-1500:]}")
        tlc.require_actions(res, ACTIONS, f"KeyStore {tag}")
        g = LazyGraph(dot)
        g.dump_s = round(time.time() - t0, 1)
        g.res = res
        if len(g.raw) != res["states"]:
            raise tlc.TlcError(f"state graph dump has {len(g.raw)} nodes, TLC reports {res['states']} states")
    finally:
        shutil.rmtree(d, ignore_errors=True)
    return g


def replay_graph(ctx, rep, tag, constants, workers, exhaustive_fraction, factory=None, max_tours=None, g=None):
    if g is None:
        g = dump_graph(ctx, tag, constants)
    rep.add_mc(f"Keys/KeyStore.tla[{tag}-{'merge' if constants['Merge'] else 'replace'}]", g.res, dict(constants))
    t0 = time.time()
    macro = build_macro(g)
    tours = tour.greedy_tours(macro, max_len=120)
    n_macro = len(macro.edges)
    if sorted(set(itertools.chain.from_iterable(tours))) != list(range(n_macro)) and max_tours is None:
        raise tlc.TlcError("tours do not cover every macro step")
    if max_tours is not None and len(tours) > max_tours:
        ctx.rng.shuffle(tours)
        tours = tours[:max_tours]
    op_edges = [i for i, e in enumerate(macro.edges) if e[2] == "Op"]
    exh = set(i for i in op_edges if ctx.rng.random() < exhaustive_fraction)
    t1 = time.time()
    run_id()
    _W.update(g=g, macro=macro, tag=tag, out=ctx.out, factory=factory, constants=constants)
    jobs = [(w, tours[w::workers], exh, ctx.seed) for w in range(workers) if tours[w::workers]]
    if workers > 1:
        mp = multiprocessing.get_context("fork")
        with ProcessPoolExecutor(max_workers=workers, mp_context=mp) as pool:
            results = list(pool.map(_worker_run, jobs))
    else:
        results = [_worker_run(j) for j in jobs]
    stats = {}
    for r in results:
        for sig, summary, extra in r["viol"]:
            rep.violation(sig, summary, extra)
        for k, v in r["stats"].items():
            stats[k] = stats.get(k, 0) + v
        for c in r["cases"]:
            rep.case(c, nontrivial=True)
        rep.traces += r["tours"]
    stats.update(states=len(g.raw), edges=len(g.edges), macro_steps=n_macro, tours=len(tours),
                 edges_replayed=len(set().union(*[r["covered"] for r in results])), mc_and_dump_s=g.dump_s, tour_s=round(t1 - t0, 1), replay_s=round(time.time() - t1, 1),
                 replay_cpu_s=round(sum(r["cpu"] for r in results), 1))
    rep.extra.setdefault("replay", {})[tag] = stats
    if len(rep.samples) < 6 and tours:
        rep.samples.append({"tour_first_steps": [_W["macro"].edges[mi][2] for mi in tours[0][:8]], "config": tag})
    return stats


# ----------------------------------------------------------------------------- configs / model checking
def cfg_text(k, props=True, spec="Spec"):
    def sset(xs):
        return "{" + ", ".join(f'"{x}"' for x in xs) + "}"

    txt = (f"SPECIFICATION {spec}\nCONSTANTS\n  NS = {sset(k['NS'])}\n  DefNs = \"D\"\n  Peers = {sset(k['Peers'])}\n"
           f"  Variants = {{{', '.join(map(str, k['Variants']))}}}\n  Merge = {'TRUE' if k['Merge'] else 'FALSE'}\n"
           f"  Deviation = \"{k.get('Deviation', 'none')}\"\n  None = None\n")
    if spec == "RtSpec":
        txt += "INVARIANT RoundTrip\n"
    elif props is True:
        txt += "INVARIANT TypeOK\nINVARIANT CrashAtomic\nINVARIANT Refinement\nPROPERTY Isolation\nPROPERTY Committed\n"
    elif props:
        txt += "\n".join(props) + "\n"
    return txt + "CHECK_DEADLOCK FALSE\n"


def write_cfg(ctx, name, text):
    p = os.path.join(ctx.out, name)
    with open(p, "w") as f:
        f.write(text)
    return p


ACTIONS = ["Begin", "Load", "LoadRaise", "Mkdir", "OpenTmp", "WriteSome", "WriteRest", "Close", "Rename", "Crash", "Restart", "Reopen", "Get", "GetAll"]
# deviation -> the one property checked in that run, which TLC must report violated
NEGATIVE = {
    "default_load_bug": ("INVARIANT CrashAtomic", "invariant CrashAtomic"),
    "direct_write": ("INVARIANT CrashAtomic", "invariant CrashAtomic"),
    "rename_before_close": ("INVARIANT CrashAtomic", "invariant CrashAtomic"),
    "clear_db": ("PROPERTY Isolation", "action property Isolation"),
    "update_default": ("INVARIANT Refinement", "invariant Refinement"),
}
NEGATIVE_RT = {"drop_authenticated": ("INVARIANT RoundTrip", "invariant RoundTrip"), "ediv_from_rand": ("INVARIANT RoundTrip", "invariant RoundTrip")}


def model_check(ctx, rep, positive, workers_each=4):
    """positive runs [(tag, constants)] (must hold, all actions taken), RoundTrip, negative runs (each deviation must be caught)."""
    spec = ctx.spec(*SPEC)
    jobs = []
    for tag, kk in positive:
        jobs.append(("pos", tag, kk, write_cfg(ctx, f"mc_{tag}.cfg", cfg_text(kk))))
    small = {"NS": ["A"], "Peers": ["p1"], "Variants": [1, 2], "Merge": True}
    jobs.append(("rt", "roundtrip", small, write_cfg(ctx, "mc_rt.cfg", cfg_text(small, spec="RtSpec"))))
    for dev, (line, _) in NEGATIVE.items():
        kk = dict(small, Deviation=dev)
        jobs.append(("neg", dev, kk, write_cfg(ctx, f"neg_{dev}.cfg", cfg_text(kk, props=[line]))))
    for dev in NEGATIVE_RT:
        kk = dict(small, Deviation=dev)
        jobs.append(("negrt", dev, kk, write_cfg(ctx, f"neg_{dev}.cfg", cfg_text(kk, spec="RtSpec"))))

    def one(job):
        kind, tag, kk, cfg = job
        try:
            return job, tlc.mc(spec, cfg, workers=workers_each if kind == "pos" else 2, coverage=(kind == "pos"), timeout=TLC_TIMEOUT)
        except tlc.TlcError as e:
            # a state-independent invariant that is false is reported by TLC before the search starts
            if kind == "negrt" and "invariant of RoundTrip is equal to FALSE" in str(e):
                return job, {"violation": "invariant RoundTrip", "ok": False}
            raise

    with ThreadPoolExecutor(max_workers=4) as pool:
        results = list(pool.map(one, jobs))
    neg = {}
    for (kind, tag, kk, cfg), res in results:
        if kind == "pos":
            if res["violation"]:
                raise tlc.TlcError(f"KeyStore.tla ({tag}) violates {res['violation']} in the model itself:\n{res['out'][-1500:]}")
            tlc.require_actions(res, ACTIONS, f"KeyStore {tag}")
            rep.add_mc(f"Keys/KeyStore.tla[{tag}]", res, dict(kk))
        elif kind == "rt":
            if res["violation"]:
                raise tlc.TlcError(f"KeyStore.tla RoundTrip violated in the model itself:\n{res['out'][-1500:]}")
            rep.add_mc("Keys/KeyStore.tla[RoundTrip]", res, {"KeyRecs": 36, "PKSpace": 10935})
        else:
            want = (NEGATIVE if kind == "neg" else NEGATIVE_RT)[tag][1]
            if res["violation"] != want:
                raise tlc.TlcError(f"negative run '{tag}': expected TLC to report {want}, got {res['violation']}")
            neg[tag] = res["violation"]
    rep.extra["negative_runs"] = neg
    return neg


# ----------------------------------------------------------------------------- policy probe, round trip
def probe_merge(ctx):
    """Does update() keep fields the new PairingKeys does not set (merge) or drop them (replace)?  Both are accepted."""
    env = Env(scratch_root(ctx.out, "probe-policy"))
    try:
        st = env.new_store("A")
        name = PEER_NAME["p1"]
        run_coro(st.update(name, conc_variant(2)))
        run_coro(st.update(name, conc_variant(1)))
        got = run_coro(env.new_store("A").get(name))
        if got == conc_variant(1):
            return False
        return True  # merge (or something else, which the replay will then report)
    finally:
        env.close()


def key_variants():
    _, keys = _bumble()
    K = keys.PairingKeys.Key
    values = [bytes(16), bytes([0xFF] * 16), bytes(range(0x10, 0x20))]
    out = []
    for v, a, e, r in itertools.product(values, (False, True), (None, 0, 1, 0xFFFF), (None, bytes(8), bytes(range(0xF8, 0x100)))):
        out.append(K(v, a, e, r))
    return out


def diff_field(a, b):
    """name of the first PairingKeys field that differs (stable, value-free)."""
    import dataclasses

    if a is None or b is None:
        return "entry-missing"
    for f in dataclasses.fields(a):
        x, y = getattr(a, f.name), getattr(b, f.name)
        if x != y:
            if dataclasses.is_dataclass(x) and dataclasses.is_dataclass(y):
                for f2 in dataclasses.fields(x):
                    if getattr(x, f2.name) != getattr(y, f2.name):
                        return f"key.{f2.name}"
            return f.name if f.name in ("address_type", "link_key_type") else "key-presence"
    return "type"


def round_trip(ctx, rep, sample, factory=None):
    hci, keys = _bumble()
    K = keys.PairingKeys.Key
    PK = keys.PairingKeys
    slots = ["ltk", "ltk_central", "ltk_peripheral", "irk", "csrk", "link_key"]
    combos = []
    kv = key_variants()
    for slot in slots:
        for k in kv:
            combos.append(PK(**{slot: k}))
    ka = K(bytes(range(16)), True, 7, bytes(range(8)))
    kb = K(bytes([0x5A] * 16), False, None, None)
    space = []
    addr_types = [None] + [hci.AddressType(i) for i in range(4)]
    for at, lkt in itertools.product(addr_types, (None, 0, 5)):
        for vals in itertools.product((None, ka, kb), repeat=6):
            space.append(PK(address_type=at, link_key_type=lkt, **dict(zip(slots, vals))))
    if sample is not None and len(space) > sample:
        ctx.rng.shuffle(space)
        space = space[:sample]
    combos += space
    env = Env(scratch_root(ctx.out, "roundtrip"), factory)
    n = 0
    try:
        name = PEER_NAME["p1"]
        for i, pk in enumerate(combos):
            s = STORES[i % 3]
            shutil.rmtree(os.path.dirname(env.main), ignore_errors=True)
            st = env.new_store(s)
            stage = "update"
            try:
                run_coro(st.update(name, pk))
                stage = "get"
                got1 = run_coro(st.get(name))
                stage = "reopen-get"
                got2 = run_coro(env.new_store(s).get(name))
                got3 = dict(run_coro(env.new_store(s).get_all())).get(name)
            except Exception as e:
                rep.violation(f"keystore:roundtrip:raise:{stage}:{type(e).__name__}", f"round trip of {pk!r} raised {type(e).__name__}: {e}",
                              {"part": "roundtrip", "keys": repr(pk), "store": s})
                continue
            n += 1
            rep.case(("roundtrip", repr(pk)), nontrivial=True, sample={"roundtrip": repr(pk)[:200]} if i == 7 else None)
            for how, got in (("same-instance", got1), ("reopened", got2), ("get_all", got3)):
                if got != pk:
                    rep.violation(f"keystore:roundtrip:{diff_field(pk, got)}", f"PairingKeys round trip ({how}): stored {pk!r}, got back {got!r}",
                                  {"part": "roundtrip", "keys": repr(pk), "store": s})
                    break
    finally:
        env.close()
    rep.extra["roundtrip_combinations"] = n
    return n


# ----------------------------------------------------------------------------- entry points
CONFIGS = {
    "1p2v": {"NS": ["A", "B"], "Peers": ["p1"], "Variants": [1, 2]},
    "2p1v": {"NS": ["A", "B"], "Peers": ["p1", "p2"], "Variants": [1]},
    "3p1v": {"NS": ["A", "B"], "Peers": ["p1", "p2", "p3"], "Variants": [1]},
    "2p2v": {"NS": ["A", "B"], "Peers": ["p1", "p2"], "Variants": [1, 2]},
}


def run(ctx, rep):
    rep.rule = ("(A) greedy transition tours over the complete TLC state graph of KeyStore.tla, executed as whole operations (crash point chosen by the tour) on a "
                "real JsonKeyStore in a scratch directory; raw file + fresh stores of every namespace compared with the spec's before/after database at every "
                "intercepted file-system boundary; sampled operations crashed before every real event; PairingKeys round trips. distinct = distinct "
                "(file state, operation, crash point) and distinct PairingKeys values")
    rep.assumptions = [
        "a process death loses data still in Python's write buffer; both outcomes (buffer lost / already flushed) are inspected at the crash point",
        "the kernel applies completed write/rename calls atomically and in order (no power-loss model, no fsync requirement)",
        "no second PROCESS writes concurrently; mutators of one process started together must amount to a sequential order of them (probe_concurrent)",
        "update() may merge into or replace an existing entry (DESIGN Appendix D); the policy is probed and the matching graph replayed",
        "delete() of an absent entry may raise KeyError or return; a mutator through a namespace not yet in the file creates that (possibly empty) key set",
    ]
    try:
        merge = probe_merge(ctx)
    except Suspended:
        # the mutators yield to the event loop: what can still be judged is whether mutators started together amount to
        # a sequential order of them; the step-by-step replay (crash injection) cannot drive such a store
        probe_concurrent(ctx, rep)
        if rep.violations:
            rep.extra["replay"] = {}
            return
        raise tlc.TlcError("JsonKeyStore coroutines suspend: the C15 replay harness needs synchronous file access (not a verdict)")
    rep.extra["update_policy"] = "merge" if merge else "replace"
    nworkers = 8
    other = lambda t: (f"{t}-{'replace' if merge else 'merge'}", dict(CONFIGS[t], Merge=not merge))  # noqa: E731  the policy not replayed
    if ctx.quick:
        positive, plan, rt_sample = [other("1p2v")], [("1p2v", 0.03), ("2p1v", 0.015)], 1500
    else:
        positive = [other("1p2v"), other("2p2v"), ("2p2v-" + ("merge" if merge else "replace"), dict(CONFIGS["2p2v"], Merge=merge))]
        plan, rt_sample = [("1p2v", 0.5), ("2p1v", 0.2), ("3p1v", 0.02)], None
    # TLC runs (model checking, negative runs, state-graph dumps) side by side; the replays fork afterwards
    with ThreadPoolExecutor(max_workers=1 + len(plan)) as pool:
        fmc = pool.submit(model_check, ctx, rep, positive, 4 if ctx.quick else 6)
        fg = {t: pool.submit(dump_graph, ctx, t, dict(CONFIGS[t], Merge=merge)) for t, _ in plan}
        fmc.result()
        graphs = {t: f.result() for t, f in fg.items()}
    graphs_1p2v = graphs["1p2v"]
    for t, frac in plan:
        replay_graph(ctx, rep, t, dict(CONFIGS[t], Merge=merge), nworkers, exhaustive_fraction=frac, g=graphs.pop(t))
    round_trip(ctx, rep, sample=rt_sample)
    probe_concurrent(ctx, rep)
    if not ctx.quick:
        shim_selftest(ctx, rep, graphs_1p2v)  # DESIGN 3.6: the binding self-test is part of the thorough tier
    rep.exhaustive = True
    total_crashes = sum(s["crashes"] + s["exhaustive_crashes"] for s in rep.extra["replay"].values())
    if total_crashes == 0:
        raise tlc.TlcError("no crash was injected: the file-system interception does not see the store's steps")
    remove_scratch(ctx.out)


def replay(ctx, rep):
    r = ctx.replay["replay"]
    if r.get("part") == "concurrent":
        probe_concurrent(ctx, rep)
        if not rep.violations:
            print("replay: mutators started together amount to a sequential order of them now (no violation)")
        return
    if r.get("part") == "tour":
        env = Env(scratch_root(ctx.out, "replay"))
        found = []
        ex = Executor(env, r.get("tag", "replay"), lambda sig, summary, extra: found.append((sig, summary)))
        ex.verbose = True
        try:
            script = r["script"][: r.get("upto", len(r["script"]) - 1) + 1]
            print(f"replaying {len(script)} harness steps (constants {r.get('constants')})")
            ex.run_script(script, dict(r))
            print("raw main file now:", read_bytes(env.main))
        finally:
            env.close()
        for sig, summary in found:
            print("reproduced:", sig, "-", summary)
            rep.violation(sig, summary, r)
        if not found:
            print("not reproduced on this tree")
    elif r.get("part") == "roundtrip":
        print("round-trip case:", r.get("keys"))
        r2 = type(rep)(rep.prop, rep.level)
        round_trip(ctx, r2, sample=300)
        for v in r2.violations:
            print("reproduced:", v.sig, "-", v.summary)
            rep.violation(v.sig, v.summary, v.replay)
    else:
        print(r)
        rep.violation(ctx.replay["sig"], ctx.replay["summary"], r)
    remove_scratch(ctx.out)


# ----------------------------------------------------------------------------- binding self-test
def _shims():
    """Stores that misbehave in one documented way.  They call the file system through the names
    bumble.keys resolves (keys.open / keys.os), like the real class does."""
    _, keys = _bumble()
    Base = keys.JsonKeyStore

    class DirectWrite(Base):  # no temp file: a crash leaves a truncated database
        async def save(self, db):
            if not self.directory_name.exists():
                self.directory_name.mkdir(parents=True, exist_ok=True)
            with keys.open(self.filename, "w", encoding="utf-8") as output:
                json.dump(db, output, sort_keys=True, indent=4)

    class RenameBeforeClose(Base):  # the rename publishes a file whose data is still buffered
        async def save(self, db):
            if not self.directory_name.exists():
                self.directory_name.mkdir(parents=True, exist_ok=True)
            temp = self.filename.with_name(self.filename.name + ".tmp")
            with keys.open(temp, "w", encoding="utf-8") as output:
                json.dump(db, output, sort_keys=True, indent=4)
                keys.os.replace(temp, self.filename)

    class ClearsEverything(Base):  # delete_all wipes the other namespaces too
        async def delete_all(self):
            db, _ = await self.load()
            db.clear()
            await self.save(db)

    class PrefixNamespace(Base):  # namespace matched by prefix
        async def load(self):
            db, key_map = await super().load()
            for ns in sorted(db):
                if ns != self.namespace and ns.startswith(self.namespace) and db[ns]:
                    return db, db[ns]
            return db, key_map

    class Cached(Base):  # keeps its own copy: never sees what other stores wrote, writes stale namespaces back
        async def load(self):
            if not hasattr(self, "_c"):
                self._c = await super().load()
            return self._c

    class DropsAuthenticated(Base):
        async def update(self, name, k):
            import copy

            k = copy.deepcopy(k)
            for slot in ("ltk", "irk", "link_key", "csrk", "ltk_central", "ltk_peripheral"):
                if getattr(k, slot) is not None:
                    getattr(k, slot).authenticated = False
            await super().update(name, k)

    return {"direct_write": (DirectWrite, "crash-atomic"), "rename_before_close": (RenameBeforeClose, "crash-atomic"),
            "delete_all_clears_db": (ClearsEverything, "isolation"), "prefix_namespace": (PrefixNamespace, ""),
            "cached_instance": (Cached, ""), "drops_authenticated": (DropsAuthenticated, "")}


def shim_selftest(ctx, rep, g):
    """every shim must be flagged with the clause it breaks; g = state graph of 1p2v with the probed policy"""
    results = {}
    k = dict(CONFIGS["1p2v"], Merge=probe_merge(ctx))
    for name, (cls, needle) in _shims().items():
        r2 = type(rep)(rep.prop, rep.level)
        replay_graph(ctx, r2, "1p2v", k, 8, exhaustive_fraction=0.02, factory=cls, max_tours=60, g=g)
        if name == "drops_authenticated":
            round_trip(ctx, r2, sample=100, factory=cls)
        sigs = sorted(v.sig for v in r2.violations)
        # the defect of the unfixed tree (default store adopting the only namespace) is not credited to a shim
        hit = [s for s in sigs if needle in s and "default-adopts-single:file-not-a-database" not in s]
        results[name] = hit[:4]
        if not hit:
            rep.violation(f"selftest:{name}", f"binding self-test: shim {name} was not detected (violations seen: {sigs})")
    rep.extra["selftest_shims"] = results
    return results


def selftest(ctx, rep):
    r0 = type(rep)(rep.prop, rep.level)
    neg = model_check(ctx, r0, [])  # raises if a deviation of the spec is not reported by TLC
    g = dump_graph(ctx, "1p2v", dict(CONFIGS["1p2v"], Merge=probe_merge(ctx)))
    results = shim_selftest(ctx, rep, g)
    print("selftest:", json.dumps({"tlc_negative_runs": neg, "shims": results}, indent=1))
    remove_scratch(ctx.out)
