"""C17: hostile peer or controller input cannot wedge or derail the stack  (fault_enumeration).

(M) specs/Stack/Robust.tla model-checked by TLC: per channel every sequence of <= 3 (quick) / <= 4
    (thorough) fault classes followed by the reference request (probe) of that channel: the complete
    transaction a user relies on, run to its end on the same connection.
    Besides mutations of valid PDUs the classes include three made of WELL-FORMED PDUs only: "extreme"
    (a numeric field at 0 / 1 / max, enumerated from the field layout, followed by normal use of what was
    negotiated), "out_of_phase" (every PDU type of the protocol outside a transaction / in the wrong phase)
    and "advance" (the next in-order step of the reference transaction: the phase in which a fault arrives).
(A) spec -> code: the class sequences of TLC's state graph are replayed with concrete bytes (valid PDUs
    built with bumble's own classes, mutated by a seeded mutator; structured faults) on real connections
    between two real Device/Host/Controller stacks (lib.rig.Net), each injected unit under a watchdog
    (event-loop step budget, 2 s time budget, census of every exception raised in the tree under test).
(B) code -> spec: the events inject / done / alive / reopen / probe / probe_ok of every replay are
    validated by RobustTrace.tla; a rejected trace is a violation.
"""
from __future__ import annotations

import collections
import hashlib
import json
import multiprocessing
import os
import re
import warnings

from lib import c17_run as R
from lib import tlc

LEVEL = "fault_enumeration"
CHANNELS = ["att", "smp", "le_sig", "classic_sig", "sdp", "rfcomm", "hfp_ag", "hfp_hf", "avdtp", "avctp", "le_coc", "hci"]
INVARIANTS = ["TypeOK", "AliveUnlessDisconnected", "OnlyOnOpenChannel", "ProbeStartsClean", "SameChannelUnlessPartial", "EndsAnswered"]
WORKERS = max(2, min(12, (os.cpu_count() or 4) - 2))
QUICK_CAP = 200  # quick tier: at most that many instances of an enumerated class per channel and shape (every list is shorter today)


def core_report(rep):
    from lib import core

    return core.Report(rep.prop, rep.level)


def _cfg(ctx, name, spec, channels, maxfaults, skeleton, extra_invariants=()):
    text = (f"SPECIFICATION {spec}\nCONSTANTS\n  Channels = {{{', '.join(chr(34) + c + chr(34) for c in channels)}}}\n"
            f"  MaxFaults = {maxfaults}\n  StepBudget = {R.STEP_BUDGET}\n  Skeleton = {'TRUE' if skeleton else 'FALSE'}\n"
            + "".join(f"INVARIANT {i}\n" for i in list(INVARIANTS) + list(extra_invariants)) + "CHECK_DEADLOCK FALSE\n")
    p = os.path.join(ctx.out, name)
    with open(p, "w") as f:
        f.write(text)
    return p, text


# ----------------------------------------------------------------------------- (M) + sequence enumeration
def model_check(ctx, rep, maxfaults, channels=CHANNELS):
    cfg, _ = _cfg(ctx, f"robust_mc_{maxfaults}.cfg", "Spec", channels, maxfaults, False)
    res = tlc.mc(ctx.spec("Stack", "Robust.tla"), cfg, workers=8)
    if res["violation"]:
        raise tlc.TlcError(f"Robust.tla violates {res['violation']} in the model itself")
    tlc.require_actions(res, ["InjectAny", "DoneObs", "AliveObs", "Reopen", "Abandon", "Probe", "ProbeReply"], "Robust")
    rep.add_mc("Stack/Robust.tla", res, {"Channels": channels, "MaxFaults": maxfaults, "StepBudget": R.STEP_BUDGET, "Skeleton": False})
    return res


_SEQ = re.compile(r'<<\s*"SEQ",\s*"(\w+)",\s*<<(.*?)>>\s*>>', re.S)


def _emit_one(args):
    """TLC run with Skeleton = TRUE and the printing 'invariant' EmitSequences: -> ({channel: [seq]}, states, transitions)"""
    spec, cfg = args
    res = tlc.mc(spec, cfg, workers=6, coverage=False)
    if res["violation"]:
        raise tlc.TlcError(f"Robust.tla (skeleton) violates {res['violation']}")
    seqs = {}
    for m in _SEQ.finditer(res["out"]):
        seq = tuple(re.findall(r'"(\w+)"', m.group(2)))
        seqs.setdefault(m.group(1), set()).add(seq)
    return {c: sorted(v, key=lambda s: (len(s), s)) for c, v in seqs.items()}, res.get("states", 0), res.get("transitions", 0)


def enumerate_sequences(ctx, rep, maxfaults, channels=CHANNELS):
    """class sequences TLC enumerates (Skeleton = TRUE: one observation per step; hist is part of the state, every
    sequence is printed once by EmitSequences), per channel.
    The result is a pure function of Robust.tla and the constants: cached by content hash in ctx.out."""
    with open(ctx.spec("Stack", "Robust.tla")) as f:
        spec_text = f.read()
    key = hashlib.sha1((spec_text + f"|{maxfaults}|{','.join(channels)}|{R.STEP_BUDGET}").encode()).hexdigest()[:16]
    cache = os.path.join(ctx.out, f"sequences-{key}.json")
    if os.path.exists(cache):
        with open(cache) as f:
            d = json.load(f)
        seqs = {c: [tuple(s) for s in v] for c, v in d["seqs"].items()}
        rep.extra["sequence_graph"] = {"states": d["states"], "transitions": d["transitions"], "cached": True}
        return seqs
    # one TLC run over all channels (several workers: the printed lines come in any order, which does not matter;
    # a garbled line would name a class the channel does not have, checked below)
    cfg, _ = _cfg(ctx, f"robust_skel_{maxfaults}.cfg", "Spec", channels, maxfaults, True, extra_invariants=["EmitSequences"])
    seqs, states, trans = _emit_one((ctx.spec("Stack", "Robust.tla"), cfg))
    from lib import c17_rigs

    for c, lst in seqs.items():
        for sq in lst:
            if c not in c17_rigs.RIGS or any(k not in c17_rigs.RIGS[c].classes for k in sq) or len(sq) > maxfaults:
                raise tlc.TlcError(f"sequence {c}/{sq} printed by TLC is not made of the classes of that channel")
    for c in channels:
        if c not in seqs or () not in seqs[c] or len(seqs[c]) < 10:
            raise tlc.TlcError(f"state graph of Robust.tla yields no usable class sequences for channel {c}")
    tmp = f"{cache}.{os.getpid()}.tmp"
    with open(tmp, "w") as f:
        json.dump({"seqs": {c: [list(s) for s in v] for c, v in seqs.items()}, "states": states, "transitions": trans}, f)
    os.replace(tmp, cache)
    rep.extra["sequence_graph"] = {"states": states, "transitions": trans, "cached": False}
    return seqs


# ----------------------------------------------------------------------------- (A) execution
def _init_worker():
    import gc
    import logging

    logging.disable(logging.CRITICAL)
    warnings.simplefilter("ignore")
    # what the parent had allocated (the sequences, the job list) is not garbage of this worker: keep the collector off it,
    # a full collection in a forked child copies every page it touches, CPU time that the per-unit budget would count
    gc.freeze()


def _work(job):
    channel, seq, seed, units = job[:4]
    variants = job[4] if len(job) > 4 else None
    return R.run_sequence(channel, tuple(seq), seed, units=units, variants=variants)


def execute(jobs, workers=WORKERS):
    """jobs: list of (channel, seq, seed, units|None) -> results in the same order"""
    if len(jobs) < 8 or workers <= 1:
        _init_worker()
        return [_work(j) for j in jobs]
    with multiprocessing.get_context("fork").Pool(workers, initializer=_init_worker) as pool:
        return pool.map(_work, jobs, chunksize=max(1, min(64, len(jobs) // (workers * 4))))


def select(ctx, seqs, max_injections, rounds=1, full_len=2):
    """every sequence up to full_len, then a seeded sample of the longer ones up to the injection budget"""
    chosen = []
    longer = []
    for c in CHANNELS:
        for s in seqs[c]:
            (chosen if len(s) <= full_len else longer).append((c, s))
    n = sum(len(s) for _, s in chosen) * rounds
    ctx.rng.shuffle(longer)
    extra = []
    for c, s in longer:
        if n + len(s) > max_injections:
            break
        extra.append((c, s))
        n += len(s)
    jobs = []
    for rnd in range(rounds):
        for c, s in chosen:
            jobs.append((c, s, R.seq_seed(ctx.seed, c, s, rnd), None))
    for c, s in extra:
        jobs.append((c, s, R.seq_seed(ctx.seed, c, s, 0), None))
    return jobs, len(longer) - len(extra)


def systematic(ctx, seqs, cap=None):
    """the enumerated classes (well-formed PDUs only), every instance of each, in every phase of the reference
    transaction:  (extreme[i]),  (out_of_phase[i]);  on channels with a multi-step reference transaction also
    (advance, x[i]) and (advance, advance, x[i]) for x = out_of_phase (a valid PDU after the request / after the second
    step) and for the instances of extreme that do not themselves start the transaction, and (extreme[i], advance,
    advance) for those that do (negotiate with the boundary value, then carry the transaction on).  Every sequence
    must be one TLC enumerated.  cap: at most that many instances per (channel, class, shape), an evenly spaced
    seeded selection (quick tier; None = all)."""
    import random

    from lib import c17_rigs

    jobs = []
    counts = {}
    for c in CHANNELS:
        rg = c17_rigs.RIGS[c](random.Random(0))
        known = set(seqs[c])
        flav = list(range(len(rg.instances("advance")))) if rg.phased else []
        for cls in c17_rigs.STRUCTURED:
            inst = rg.instances(cls)
            counts[f"{c}/{cls}"] = len(inst)
            shapes = [((), None)]
            if rg.phased:
                for f in flav:
                    shapes.append((("advance",), f))
                    shapes.append((("advance", "advance"), f))
            for prefix, f in shapes:
                idx = [i for i, (_, _, cont) in enumerate(inst) if not (prefix and cont)]
                if cap is not None and len(idx) > cap:
                    off = ctx.rng.randrange(len(idx))
                    idx = sorted({idx[(off + (k * len(idx)) // cap) % len(idx)] for k in range(cap)})
                for i in idx:
                    seq = prefix + (cls,)
                    if seq not in known:
                        raise tlc.TlcError(f"systematic sequence {c}/{seq} is not one of TLC's sequences")
                    variants = [f] + [None] * (len(prefix) - 1) + [i] if prefix else [i]
                    jobs.append((c, seq, R.seq_seed(ctx.seed, c, seq, 1000 + i), None, variants))
            if rg.phased and cls == "extreme":
                seq = ("extreme", "advance", "advance")
                if seq not in known:
                    raise tlc.TlcError(f"systematic sequence {c}/{seq} is not one of TLC's sequences")
                for i, (_, _, cont) in enumerate(inst):
                    if cont:
                        jobs.append((c, seq, R.seq_seed(ctx.seed, c, seq, 1000 + i), None, [i, None, None]))
    return jobs, counts


# ----------------------------------------------------------------------------- (B) validation + verdicts
def validate(ctx, rep, results, maxfaults, batch=6000):
    """-> list of (result, verdict) for rejected traces"""
    cfg, _ = _cfg(ctx, f"robust_trace_{maxfaults}.cfg", "TraceSpec", CHANNELS, maxfaults, False)
    rejected = []
    for i in range(0, len(results), batch):
        chunk = results[i : i + batch]
        res = tlc.trace_batch(ctx.spec("Stack", "RobustTrace.tla"), cfg, [r["trace"] for r in chunk], tag="c17trace")
        rep.extra["trace_states"] = rep.extra.get("trace_states", 0) + res["states"]
        for tid, v in res["verdicts"].items():
            if v[0] == "REJECT":
                rejected.append((chunk[tid - 1], v))
    return rejected


def _culprit(r, known, cache):
    """smallest sub-sequence of the injected units (same bytes, fresh rig) after which the probe / reopen still fails
    in the same part of the probe; () = it fails with nothing injected at all.  -> indices into r["seq"]"""
    seq, units = r["seq"], r["units"]
    n = len(seq)
    import itertools

    def fails(idx):
        key = (r["channel"], tuple((seq[i], json.dumps(units[i])) for i in idx))
        if key not in cache:
            res = R.run_sequence(r["channel"], tuple(seq[i] for i in idx), r["seed"], units=[units[i] for i in idx])
            last = res["trace"][-1]
            cache[key] = (last["e"] in ("probe_ok", "reopen") and not last["ok"], res["stage"])
        return cache[key][0] and cache[key][1] == r["stage"]

    for k in range(0, n):
        combos = list(itertools.combinations(range(n), k))
        combos.sort(key=lambda idx: (0 if any((r["channel"], seq[i]) in known for i in idx) else 1, idx))
        for idx in combos:
            if fails(idx):
                return tuple(idx)
    return tuple(range(n))


def _named(r, i):
    """class of the i-th unit, with the name of the instance for the enumerated classes (that is the input that matters)"""
    lab = (r.get("labels") or [""] * len(r["seq"]))[i]
    return f"{r['seq'][i]}[{lab}]" if lab else r["seq"][i]


def report(ctx, rep, rejected):
    known = set()
    cache = {}
    for r, v in rejected:
        l = v[1]
        tr = r["trace"]
        e = tr[l - 1] if 0 < l <= len(tr) else {"e": "incomplete"}
        ch = r["channel"]
        # class of the unit the rejected event belongs to
        k = sum(1 for x in tr[:l] if x["e"] == "inject")
        cls = _named(r, k - 1) if k else "-"
        replay = {"channel": ch, "seq": r["seq"], "seed": r["seed"], "units": r["units"], "rejected_event": l, "event": e,
                  "why": r["why"], "first_exception": r["first_exc"], "labels": r.get("labels"), "stage": r.get("stage", "")}
        bytes_txt = "; ".join(f"{_named(r, i)}: " + " ".join(f"{t}={h[:80]}{'..' if len(h) > 80 else ''}" for t, h in u)
                              for i, u in enumerate(r["units"]))
        if e["e"] == "done":
            sig = f"{ch}:{cls}:done:{e['outcome']}" if e["outcome"] in ("recursion", "busy", "timeout") else f"{ch}:{cls}:done:steps"
            summary = f"{ch}: processing an injected unit of class {cls} did not end properly: {r['why'] or e}. Injected: {bytes_txt}"
        elif e["e"] == "alive":
            sig = f"{ch}:{cls}:connection-lost"
            summary = f"{ch}: after a unit of class {cls} that is not a valid disconnect the connection is gone from Device.connections. Injected: {bytes_txt}"
        elif e["e"] in ("probe_ok", "reopen"):
            ci = _culprit(r, known, cache)
            cu = [_named(r, i) for i in ci]
            for i in ci:
                known.add((ch, r["seq"][i]))
            what = "probe" if e["e"] == "probe_ok" else "reopen"
            if what == "probe" and r.get("stage"):
                what += f"[{r['stage']}]"
            sig = f"{ch}:{what}:{'+'.join(cu) if cu else 'baseline'}"
            summary = (f"{ch}: after injecting [{', '.join(_named(r, i) for i in range(len(r['seq'])))}] (smallest failing part: [{', '.join(cu)}]) "
                       f"{'the reference transaction does not complete correctly' if e['e'] == 'probe_ok' else 'the channel cannot be opened again'}: {r['why']}"
                       f"{' (first exception raised: ' + r['first_exc'] + ')' if r['first_exc'] else ''}. Injected: {bytes_txt}")
            replay["culprit"] = cu
        else:
            sig = f"{ch}:{e['e']}:rejected"
            summary = f"{ch}: trace rejected at event {l} {e}: {r['why']}; spec state {v[3] if len(v) > 3 else ''}. Injected: {bytes_txt}"
        rep.violation(sig, summary, replay)


def account(rep, results):
    outcomes = collections.Counter()
    per_channel = collections.Counter()
    inj = 0
    for r in results:
        rep.traces += 1
        obs = tuple((e["e"], e["cls"], e["outcome"], e["conn"], e["open"], e["ok"]) for e in r["trace"])
        rep.case((r["channel"], obs, tuple(r.get("labels") or ())), nontrivial=len(r["seq"]) > 0,
                 sample={"channel": r["channel"], "classes": r["seq"], "events": [e["e"] + (":" + e["outcome"] if e["outcome"] else "") for e in r["trace"]],
                         "first_unit": r["units"][0][0][1][:64] if r["units"] and r["units"][0] else ""} if len(r["seq"]) == 2 else None)
        for e in r["trace"]:
            if e["e"] == "done":
                outcomes[e["outcome"]] += 1
                inj += 1
                per_channel[r["channel"]] += 1
    rep.extra["injections"] = rep.extra.get("injections", 0) + inj
    rep.extra["outcomes"] = dict(collections.Counter(rep.extra.get("outcomes", {})) + outcomes)
    rep.extra["injections_per_channel"] = dict(collections.Counter(rep.extra.get("injections_per_channel", {})) + per_channel)


# ----------------------------------------------------------------------------- entry points
def run(ctx, rep):
    rep.rule = ("one execution per class sequence of TLC's state graph of Robust.tla (channel x <= MaxFaults fault classes x probe), bytes drawn by a seeded "
                "mutator from valid PDUs built with bumble's classes, plus one execution per listed instance of the enumerated classes (extreme: every numeric "
                "field of the protocol's PDUs at 0 / 1 / max followed by normal use of what was negotiated; out_of_phase: every PDU type outside a transaction) "
                "in every phase of the reference transaction (after 0 / 1 / 2 in-order steps); every execution traced and validated by RobustTrace.tla; "
                "distinct = distinct (channel, observed event sequence incl. classes, instance names and outcomes)")
    rep.assumptions = ["the byte space is sampled (seeded mutations of valid PDUs, structured faults); exhaustive are the fault classes x channels x probe, all class sequences up to length 2 (quick) / 3 (thorough), and the listed instances of the classes made of well-formed PDUs (quick: at most 200 per channel, class and phase: all of them today)",
                       "the reference request is the complete transaction of the channel (pairing legacy + Secure Connections with keys on both sides; read + write + notification; a new DLC / L2CAP channel opened, data both ways, closed; full AT exchange; SDP search with continuation; AVDTP stream configured and released), made by the attacking device's own stack where it needs one",
                       "the reference request is preceded by the channel's unit delimiter when the garbage ended inside a unit; on an LE credit based channel (no delimiter) the probe uses a fresh channel of the same SPSM after a unit that may end inside an SDU, and the SAME channel (if the victim left it open) after units made of complete SDUs only (coc_sdu_over_mtu: SDU length above the receiver's MTU, sent within the credits granted)",
                       "a transaction the injected units started (read from their bytes: Pairing Request, Prepare Write, PN / SABM, Connection Request, Set Configuration) is abandoned by the peer the ordinary way (Pairing Failed, Execute Write cancel, DISC, Disconnection Request, Abort) before the reference request",
                       "a channel closed by the victim in a way its peer is told about is not a violation: it is opened again by the ordinary procedure, which must succeed",
                       "virtual-time event loop; the 2 s budget per injected unit is CPU time of the process (plus a 30 s wall-clock backstop for blocking code): the only clock dependence, and a time-out is a violation by itself"]
    maxfaults = 3 if ctx.quick else 4
    # (M) runs while the sequences are executed: it does not depend on them
    import concurrent.futures

    pool = concurrent.futures.ThreadPoolExecutor(1)
    sub = core_report(rep)
    mc_future = pool.submit(model_check, ctx, sub, maxfaults)
    try:
        seqs = enumerate_sequences(ctx, rep, maxfaults)
        total = sum(len(v) for v in seqs.values())
        if ctx.quick:
            jobs, left = select(ctx, seqs, max_injections=7000, rounds=1, full_len=2)
            sysjobs, counts = systematic(ctx, seqs, cap=QUICK_CAP)
        else:
            jobs, left = select(ctx, seqs, max_injections=320000, rounds=2, full_len=3)
            sysjobs, counts = systematic(ctx, seqs, cap=None)
        rep.extra["sequences_enumerated"] = total
        rep.extra["sequences_executed"] = len(jobs) + len(sysjobs)
        rep.extra["sequences_not_sampled"] = left
        rep.extra["systematic_executions"] = len(sysjobs)
        rep.extra["enumerated_instances"] = counts
        results = execute(jobs + sysjobs)
    finally:
        mc_future.result()  # a failure of the model-checking run is a machinery failure
        pool.shutdown()
    rep.mc_runs += sub.mc_runs
    account(rep, results)
    # vacuity guards: every channel and every class of the model was instantiated, the baseline probe works
    seen = {(r["channel"], c) for r in results for c in r["seq"]}
    from lib import c17_rigs

    for c in CHANNELS:
        for cls in c17_rigs.RIGS[c].classes:
            if (c, cls) not in seen:
                raise tlc.TlcError(f"fault class {c}/{cls} of the harness does not occur in TLC's sequences (spec and harness disagree)")
        if {s for s in seqs[c] if len(s) == 1} != {(cls,) for cls in c17_rigs.RIGS[c].classes}:
            raise tlc.TlcError(f"the classes of channel {c} in Robust.tla and in the harness differ")
    # ... and every listed instance of the enumerated classes was executed (quick: up to the cap per shape)
    ran = {(r["channel"], cls, lab) for r in results for cls, lab in zip(r["seq"], r.get("labels") or ()) if lab and cls != "advance"}
    rep.extra["enumerated_instances_executed"] = len(ran)
    if len(ran) < (sum(min(n, QUICK_CAP) for n in counts.values()) if ctx.quick else sum(counts.values())):
        raise tlc.TlcError(f"only {len(ran)} instances of the enumerated classes were executed, {counts} are listed")
    rejected = validate(ctx, rep, results, maxfaults)
    report(ctx, rep, rejected)
    rep.exhaustive = False


def replay(ctx, rep):
    r = ctx.replay["replay"]
    _init_worker()
    res = R.run_sequence(r["channel"], tuple(r["seq"]), r["seed"], units=r["units"])
    for cls, u in zip(res["seq"], res["units"]):
        print(f"inject {r['channel']} {cls}: " + " ".join(f"{t}={h}" for t, h in u))
    for e in res["trace"]:
        print("  ", {k: v for k, v in e.items() if v not in ("", 0, False) or k in ("e", "ok")})
    print("why:", res["why"], "| first exception raised in the tree:", res["first_exc"])
    cfg, _ = _cfg(ctx, "robust_trace_replay.cfg", "TraceSpec", CHANNELS, max(4, len(r["seq"])), False)
    v = tlc.trace_batch(ctx.spec("Stack", "RobustTrace.tla"), cfg, [res["trace"]], tag="c17replay")["verdicts"][1]
    print("RobustTrace verdict:", v[0], v[1:3] if v[0] == "REJECT" else "")
    if v[0] == "REJECT":
        rep.violation(ctx.replay["sig"], ctx.replay["summary"], r)


def selftest(ctx, rep):
    from lib import c17_selftest

    c17_selftest.run(ctx, rep, validate)
