"""C17: hostile peer or controller input cannot wedge or derail the stack  (fault_enumeration).

(M) specs/Stack/Robust.tla model-checked by TLC: per channel every sequence of <= 3 (quick) / <= 4
    (thorough) fault classes followed by the reference request (probe) of that channel.
(A) spec -> code: the class sequences of TLC's state graph are replayed with concrete bytes (valid PDUs
    built with bumble's own classes, mutated by a seeded mutator; structured faults) on real connections
    between two real Device/Host/Controller stacks (lib.rig.Net), each injected unit under a watchdog
    (event-loop step budget, 2 s time budget, census of every exception raised in the tree under test).
(B) code -> spec: the events inject / done / alive / reopen / probe / probe_ok of every replay are
    validated by RobustTrace.tla; a rejected trace is a violation.
"""
from __future__ import annotations

import collections
import hashlib
import json
import multiprocessing
import os
import re
import warnings

from lib import c17_run as R
from lib import tlc

LEVEL = "fault_enumeration"
CHANNELS = ["att", "smp", "le_sig", "classic_sig", "sdp", "rfcomm", "hfp_ag", "hfp_hf", "avdtp", "avctp", "le_coc", "hci"]
INVARIANTS = ["TypeOK", "AliveUnlessDisconnected", "OnlyOnOpenChannel", "ProbeStartsClean", "EndsAnswered"]
WORKERS = max(2, min(12, (os.cpu_count() or 4) - 2))


def _cfg(ctx, name, spec, channels, maxfaults, skeleton, extra_invariants=()):
    text = (f"SPECIFICATION {spec}\nCONSTANTS\n  Channels = {{{', '.join(chr(34) + c + chr(34) for c in channels)}}}\n"
            f"  MaxFaults = {maxfaults}\n  StepBudget = {R.STEP_BUDGET}\n  Skeleton = {'TRUE' if skeleton else 'FALSE'}\n"
            + "".join(f"INVARIANT {i}\n" for i in list(INVARIANTS) + list(extra_invariants)) + "CHECK_DEADLOCK FALSE\n")
    p = os.path.join(ctx.out, name)
    with open(p, "w") as f:
        f.write(text)
    return p, text


# ----------------------------------------------------------------------------- (M) + sequence enumeration
def model_check(ctx, rep, maxfaults, channels=CHANNELS):
    cfg, _ = _cfg(ctx, f"robust_mc_{maxfaults}.cfg", "Spec", channels, maxfaults, False)
    res = tlc.mc(ctx.spec("Stack", "Robust.tla"), cfg, workers=8)
    if res["violation"]:
        raise tlc.TlcError(f"Robust.tla violates {res['violation']} in the model itself")
    tlc.require_actions(res, ["InjectClass", "DoneObs", "AliveObs", "Reopen", "Probe", "ProbeReply"], "Robust")
    rep.add_mc("Stack/Robust.tla", res, {"Channels": channels, "MaxFaults": maxfaults, "StepBudget": R.STEP_BUDGET, "Skeleton": False})
    return res


_SEQ = re.compile(r'<<\s*"SEQ",\s*"(\w+)",\s*<<(.*?)>>\s*>>', re.S)


def _emit_one(args):
    """TLC run with Skeleton = TRUE and the printing 'invariant' EmitSequences: -> ({channel: [seq]}, states, transitions)"""
    spec, cfg = args
    res = tlc.mc(spec, cfg, workers=1, coverage=False)
    if res["violation"]:
        raise tlc.TlcError(f"Robust.tla (skeleton) violates {res['violation']}")
    seqs = {}
    for m in _SEQ.finditer(res["out"]):
        seq = tuple(re.findall(r'"(\w+)"', m.group(2)))
        seqs.setdefault(m.group(1), set()).add(seq)
    return {c: sorted(v, key=lambda s: (len(s), s)) for c, v in seqs.items()}, res.get("states", 0), res.get("transitions", 0)


def enumerate_sequences(ctx, rep, maxfaults, channels=CHANNELS):
    """class sequences TLC enumerates (Skeleton = TRUE: one observation per step; hist is part of the state, every
    sequence is printed once by EmitSequences), per channel.
    The result is a pure function of Robust.tla and the constants: cached by content hash in ctx.out."""
    with open(ctx.spec("Stack", "Robust.tla")) as f:
        spec_text = f.read()
    key = hashlib.sha1((spec_text + f"|{maxfaults}|{','.join(channels)}|{R.STEP_BUDGET}").encode()).hexdigest()[:16]
    cache = os.path.join(ctx.out, f"sequences-{key}.json")
    if os.path.exists(cache):
        with open(cache) as f:
            d = json.load(f)
        seqs = {c: [tuple(s) for s in v] for c, v in d["seqs"].items()}
        rep.extra["sequence_graph"] = {"states": d["states"], "transitions": d["transitions"], "cached": True}
        return seqs
    jobs = []
    for c in channels:
        cfg, _ = _cfg(ctx, f"robust_skel_{c}_{maxfaults}.cfg", "Spec", [c], maxfaults, True, extra_invariants=["EmitSequences"])
        jobs.append((ctx.spec("Stack", "Robust.tla"), cfg))
    seqs, states, trans = {}, 0, 0
    with multiprocessing.get_context("fork").Pool(min(6, len(jobs))) as pool:
        for s, st, tr in pool.map(_emit_one, jobs):
            seqs.update(s)
            states += st
            trans += tr
    for c in channels:
        if c not in seqs or () not in seqs[c] or len(seqs[c]) < 10:
            raise tlc.TlcError(f"state graph of Robust.tla yields no usable class sequences for channel {c}")
    tmp = f"{cache}.{os.getpid()}.tmp"
    with open(tmp, "w") as f:
        json.dump({"seqs": {c: [list(s) for s in v] for c, v in seqs.items()}, "states": states, "transitions": trans}, f)
    os.replace(tmp, cache)
    rep.extra["sequence_graph"] = {"states": states, "transitions": trans, "cached": False}
    return seqs


# ----------------------------------------------------------------------------- (A) execution
def _init_worker():
    import logging

    logging.disable(logging.CRITICAL)
    warnings.simplefilter("ignore")


def _work(job):
    channel, seq, seed, units = job
    return R.run_sequence(channel, tuple(seq), seed, units=units)


def execute(jobs, workers=WORKERS):
    """jobs: list of (channel, seq, seed, units|None) -> results in the same order"""
    if len(jobs) < 8 or workers <= 1:
        _init_worker()
        return [_work(j) for j in jobs]
    with multiprocessing.get_context("fork").Pool(workers, initializer=_init_worker) as pool:
        return pool.map(_work, jobs, chunksize=max(1, min(64, len(jobs) // (workers * 4))))


def select(ctx, seqs, max_injections, rounds=1, full_len=2):
    """every sequence up to full_len, then a seeded sample of the longer ones up to the injection budget"""
    chosen = []
    longer = []
    for c in CHANNELS:
        for s in seqs[c]:
            (chosen if len(s) <= full_len else longer).append((c, s))
    n = sum(len(s) for _, s in chosen) * rounds
    ctx.rng.shuffle(longer)
    extra = []
    for c, s in longer:
        if n + len(s) > max_injections:
            break
        extra.append((c, s))
        n += len(s)
    jobs = []
    for rnd in range(rounds):
        for c, s in chosen:
            jobs.append((c, s, R.seq_seed(ctx.seed, c, s, rnd), None))
    for c, s in extra:
        jobs.append((c, s, R.seq_seed(ctx.seed, c, s, 0), None))
    return jobs, len(longer) - len(extra)


# ----------------------------------------------------------------------------- (B) validation + verdicts
def validate(ctx, rep, results, maxfaults, batch=6000):
    """-> list of (result, verdict) for rejected traces"""
    cfg, _ = _cfg(ctx, f"robust_trace_{maxfaults}.cfg", "TraceSpec", CHANNELS, maxfaults, False)
    rejected = []
    for i in range(0, len(results), batch):
        chunk = results[i : i + batch]
        res = tlc.trace_batch(ctx.spec("Stack", "RobustTrace.tla"), cfg, [r["trace"] for r in chunk], tag="c17trace")
        rep.extra["trace_states"] = rep.extra.get("trace_states", 0) + res["states"]
        for tid, v in res["verdicts"].items():
            if v[0] == "REJECT":
                rejected.append((chunk[tid - 1], v))
    return rejected


def _culprit(r, known, cache):
    """smallest sub-sequence of the injected units (same bytes, fresh rig) after which the probe / reopen still fails"""
    seq, units = r["seq"], r["units"]
    n = len(seq)
    if n <= 1:
        return tuple(seq)
    import itertools

    def fails(idx):
        key = (r["channel"], tuple((seq[i], json.dumps(units[i])) for i in idx))
        if key not in cache:
            res = R.run_sequence(r["channel"], tuple(seq[i] for i in idx), r["seed"], units=[units[i] for i in idx])
            last = res["trace"][-1]
            cache[key] = last["e"] in ("probe_ok", "reopen") and not last["ok"]
        return cache[key]

    for k in range(1, n):
        combos = list(itertools.combinations(range(n), k))
        combos.sort(key=lambda idx: (0 if any((r["channel"], seq[i]) in known for i in idx) else 1, idx))
        for idx in combos:
            if fails(idx):
                return tuple(seq[i] for i in idx)
    return tuple(seq)


def report(ctx, rep, rejected):
    known = set()
    cache = {}
    for r, v in rejected:
        l = v[1]
        tr = r["trace"]
        e = tr[l - 1] if 0 < l <= len(tr) else {"e": "incomplete"}
        ch = r["channel"]
        # class of the unit the rejected event belongs to
        k = sum(1 for x in tr[:l] if x["e"] == "inject")
        cls = r["seq"][k - 1] if k else "-"
        replay = {"channel": ch, "seq": r["seq"], "seed": r["seed"], "units": r["units"], "rejected_event": l, "event": e,
                  "why": r["why"], "first_exception": r["first_exc"]}
        bytes_txt = "; ".join(f"{c}: " + " ".join(f"{t}={h[:80]}{'..' if len(h) > 80 else ''}" for t, h in u) for c, u in zip(r["seq"], r["units"]))
        if e["e"] == "done":
            sig = f"{ch}:{cls}:done:{e['outcome']}" if e["outcome"] in ("recursion", "busy", "timeout") else f"{ch}:{cls}:done:steps"
            summary = f"{ch}: processing an injected unit of class {cls} did not end properly: {r['why'] or e}. Injected: {bytes_txt}"
        elif e["e"] == "alive":
            sig = f"{ch}:{cls}:connection-lost"
            summary = f"{ch}: after a unit of class {cls} that is not a valid disconnect the connection is gone from Device.connections. Injected: {bytes_txt}"
        elif e["e"] in ("probe_ok", "reopen"):
            cu = _culprit(r, known, cache)
            for c in cu:
                known.add((ch, c))
            what = "probe" if e["e"] == "probe_ok" else "reopen"
            sig = f"{ch}:{what}:{'+'.join(cu) if cu else 'baseline'}"
            summary = (f"{ch}: after injecting [{', '.join(r['seq'])}] (smallest failing part: [{', '.join(cu)}]) "
                       f"{'the reference request is not answered correctly' if what == 'probe' else 'the channel cannot be opened again'}: {r['why']}"
                       f"{' (first exception raised: ' + r['first_exc'] + ')' if r['first_exc'] else ''}. Injected: {bytes_txt}")
            replay["culprit"] = list(cu)
        else:
            sig = f"{ch}:{e['e']}:rejected"
            summary = f"{ch}: trace rejected at event {l} {e}: {r['why']}; spec state {v[3] if len(v) > 3 else ''}. Injected: {bytes_txt}"
        rep.violation(sig, summary, replay)


def account(rep, results):
    outcomes = collections.Counter()
    per_channel = collections.Counter()
    inj = 0
    for r in results:
        rep.traces += 1
        obs = tuple((e["e"], e["cls"], e["outcome"], e["conn"], e["open"], e["ok"]) for e in r["trace"])
        rep.case((r["channel"], obs), nontrivial=len(r["seq"]) > 0,
                 sample={"channel": r["channel"], "classes": r["seq"], "events": [e["e"] + (":" + e["outcome"] if e["outcome"] else "") for e in r["trace"]],
                         "first_unit": r["units"][0][0][1][:64] if r["units"] and r["units"][0] else ""} if len(r["seq"]) == 2 else None)
        for e in r["trace"]:
            if e["e"] == "done":
                outcomes[e["outcome"]] += 1
                inj += 1
                per_channel[r["channel"]] += 1
    rep.extra["injections"] = rep.extra.get("injections", 0) + inj
    rep.extra["outcomes"] = dict(collections.Counter(rep.extra.get("outcomes", {})) + outcomes)
    rep.extra["injections_per_channel"] = dict(collections.Counter(rep.extra.get("injections_per_channel", {})) + per_channel)


# ----------------------------------------------------------------------------- entry points
def run(ctx, rep):
    rep.rule = ("one execution per class sequence of TLC's state graph of Robust.tla (channel x <= MaxFaults fault classes x probe), bytes drawn by a seeded "
                "mutator from valid PDUs built with bumble's classes; every execution traced and validated by RobustTrace.tla; distinct = distinct "
                "(channel, observed event sequence incl. classes and outcomes)")
    rep.assumptions = ["the byte space is sampled (seeded mutations of valid PDUs, structured faults); exhaustive are the fault classes x channels x probe, and all class sequences up to length 2 (quick) / 3 (thorough)",
                       "the reference request is preceded by the channel's unit delimiter when the garbage ended inside a unit; on an LE credit based channel (no delimiter) the probe uses a fresh channel of the same SPSM",
                       "a channel closed by the victim in a way its peer is told about is not a violation: it is opened again by the ordinary procedure, which must succeed",
                       "virtual-time event loop; the 2 s budget per injected unit is CPU time of the process (plus a 30 s wall-clock backstop for blocking code): the only clock dependence, and a time-out is a violation by itself"]
    maxfaults = 3 if ctx.quick else 4
    model_check(ctx, rep, maxfaults)
    seqs = enumerate_sequences(ctx, rep, maxfaults)
    total = sum(len(v) for v in seqs.values())
    if ctx.quick:
        jobs, left = select(ctx, seqs, max_injections=5000, rounds=1, full_len=2)
    else:
        jobs, left = select(ctx, seqs, max_injections=200000, rounds=2, full_len=3)
    rep.extra["sequences_enumerated"] = total
    rep.extra["sequences_executed"] = len(jobs)
    rep.extra["sequences_not_sampled"] = left
    results = execute(jobs)
    account(rep, results)
    # vacuity guards: every channel and every class of the model was instantiated, the baseline probe works
    seen = {(r["channel"], c) for r in results for c in r["seq"]}
    from lib import c17_rigs

    for c in CHANNELS:
        for cls in c17_rigs.RIGS[c].classes:
            if (c, cls) not in seen:
                raise tlc.TlcError(f"fault class {c}/{cls} of the harness does not occur in TLC's sequences (spec and harness disagree)")
    rejected = validate(ctx, rep, results, maxfaults)
    report(ctx, rep, rejected)
    rep.exhaustive = False


def replay(ctx, rep):
    r = ctx.replay["replay"]
    _init_worker()
    res = R.run_sequence(r["channel"], tuple(r["seq"]), r["seed"], units=r["units"])
    for cls, u in zip(res["seq"], res["units"]):
        print(f"inject {r['channel']} {cls}: " + " ".join(f"{t}={h}" for t, h in u))
    for e in res["trace"]:
        print("  ", {k: v for k, v in e.items() if v not in ("", 0, False) or k in ("e", "ok")})
    print("why:", res["why"], "| first exception raised in the tree:", res["first_exc"])
    cfg, _ = _cfg(ctx, "robust_trace_replay.cfg", "TraceSpec", CHANNELS, max(4, len(r["seq"])), False)
    v = tlc.trace_batch(ctx.spec("Stack", "RobustTrace.tla"), cfg, [res["trace"]], tag="c17replay")["verdicts"][1]
    print("RobustTrace verdict:", v[0], v[1:3] if v[0] == "REJECT" else "")
    if v[0] == "REJECT":
        rep.violation(ctx.replay["sig"], ctx.replay["summary"], r)


def selftest(ctx, rep):
    from lib import c17_selftest

    c17_selftest.run(ctx, rep, validate)
