"""C14: both crypto back ends agree with each other and with the specification.

(M) specs/Crypto/Laws.tla - a history spec (memo of calls per back end) whose laws (Agreement,
    Deterministic, Vectors, Total, InvalidPoint, DHSymmetry, RPA) are model-checked by TLC on a
    tiny abstract world, once without fault and once per injected fault (each fault must be
    caught by the law meant for it).
(B) code -> spec: the toolbox is run twice on the same seeded boundary inputs - in-process with
    the `cryptography` back end, and in sub-processes in which `cryptography` cannot be imported
    so that bumble's own `except ImportError` selects bumble.crypto.builtin - and every call is
    one event of a trace validated by specs/Crypto/LawsTrace.tla (TLC decides the verdict; the
    sample data of the Core specification are constants of the spec, the driver asks the spec
    for the inputs).

The only arithmetic the driver does itself: the P-256 curve equation (to classify a peer point
as valid / invalid - TLC has no 256-bit integers), modular square roots to build small-x points,
and one AES call through `cryptography` to recognise a genuine 24-bit hash collision of an
"unrelated" IRK (so that such a pair is dropped instead of being reported).
"""
from __future__ import annotations

import concurrent.futures as cf
import hashlib
import json
import os
import subprocess
import sys

from lib import c14_tlc, c14_worker, tlc

LEVEL = "exploration"
BACKENDS = ("cryptography", "builtin")
WORKER = os.path.join(os.path.dirname(os.path.dirname(os.path.abspath(__file__))), "lib", "c14_worker.py")

# ----------------------------------------------------------------------------- P-256 (classification only)
P = 0xFFFFFFFF00000001000000000000000000000000FFFFFFFFFFFFFFFFFFFFFFFF
B = 0x5AC635D8AA3A93E7B3EBBD55769886BC651D06B0CC53B0F63BCE3C3E27D2604B
N = 0xFFFFFFFF00000000FFFFFFFFFFFFFFFFBCE6FAADA7179E84F3B9CAC2FC632551
GX = 0x6B17D1F2E12C4247F8BCE6E563A440F277037D812DEB33A0F4A13945D898C296
GY = 0x4FE342E2FE1A7F9B8EE7EB4A7C0F9E162BCE33576B315ECECBB6406837BF51F5


def on_curve(x, y):
    return 0 <= x < P and 0 <= y < P and (y * y - (x * x * x - 3 * x + B)) % P == 0


def lift_x(x):
    rhs = (x * x * x - 3 * x + B) % P
    y = pow(rhs, (P + 1) // 4, P)
    return y if y * y % P == rhs else None


def h32(v):
    return f"{v:064x}"


def xy(x, y):
    return h32(x) + h32(y)


def point_of(arg):
    return int(arg[:64], 16), int(arg[64:], 16)


def reference_ah(irk_msb, prand_msb):
    """Core Vol 3 Part H 2.2.2 computed with `cryptography` directly (collision filter only)."""
    from cryptography.hazmat.primitives.ciphers import Cipher, algorithms, modes

    enc = Cipher(algorithms.AES(bytes.fromhex(irk_msb)), modes.ECB()).encryptor()
    return enc.update(bytes(13) + bytes.fromhex(prand_msb))[-3:].hex()


def cmac_subkey_classes(rng, want):
    """CMAC keys chosen by the case analysis of RFC 4493 sub-key generation: L = AES_k(0), K1 = L << 1 (xor Rb when the top
    bit of L is set), K2 = K1 << 1 (xor Rb when the top bit of K1 is set).  Returns {(class name): key hex} for first octets
    of L and K1 at and around the 0x80 boundary (input selection only; AES computed with `cryptography` directly)."""
    from cryptography.hazmat.primitives.ciphers import Cipher, algorithms, modes

    def sub(v):
        x = int.from_bytes(v, "big")
        r = (x << 1) & ((1 << 128) - 1)
        if x >> 127:
            r ^= 0x87
        return r.to_bytes(16, "big")

    found = {}
    need = {f"{w}[0]={b:#04x}" for w in ("L", "K1") for b in want}
    for _ in range(400000):
        if not need:
            break
        k = bytes(rng.getrandbits(8) for _ in range(16))
        L = Cipher(algorithms.AES(k), modes.ECB()).encryptor().update(bytes(16))
        k1 = sub(L)
        for name in (f"L[0]={L[0]:#04x}", f"K1[0]={k1[0]:#04x}"):
            if name in need:
                need.discard(name)
                found[name] = k.hex()
    return found


# ----------------------------------------------------------------------------- jobs
SHAPES = {  # byte widths of the arguments of the SMP toolbox functions
    "ah": (16, 3), "c1": (16, 16, 7, 7, 1, 1, 6, 6), "s1": (16, 16, 16), "f4": (32, 32, 16, 1), "f5": (32, 16, 16, 7, 7),
    "f6": (16, 16, 16, 16, 3, 7, 7), "g2": (32, 32, 16, 16), "h6": (16, 4), "h7": (16, 16),
}


class Jobs:
    def __init__(self, rng):
        self.rng = rng
        self.jobs = []

    def add(self, fam, cls, **kw):
        kw.update(id=len(self.jobs), fam=fam, cls=cls)
        self.jobs.append(kw)

    def rnd(self, n):
        return bytes(self.rng.getrandbits(8) for _ in range(n)).hex()

    def scalar(self):
        return self.rng.randrange(1, N)


def vector_jobs(J, vectors):
    for rnd in (0, 1):  # asked twice: the second round exercises Deterministic
        for v in vectors:
            if v["f"] == "cmac":
                J.add("vectors", "spec-vector", f="cmac", m=v["args"][0], k=v["args"][1])
            else:
                J.add("vectors", "spec-vector", f=v["f"], a=list(v["args"]))


def make_jobs(ctx, vectors, scale=None):
    """The seeded input catalogue.  `scale` < 1 shrinks it (self-test)."""
    q = ctx.quick
    J = Jobs(ctx.rng)
    s = scale or 1.0

    def n(quick, thorough):
        return max(1, int((quick if q else thorough) * s))

    vector_jobs(J, vectors)
    zero, ones = "00" * 16, "ff" * 16
    bit = lambda i: f"{1 << i:032x}"  # noqa: E731
    # ---- e
    for k in (zero, ones):
        for d in (zero, ones):
            J.add("e", f"key={k[:2]},block={d[:2]}", f="e", a=[k, d])
    step = 1 if s >= 1 else 16
    for i in range(0, 128, step):
        J.add("e", "key=single-bit,block=zero", f="e", a=[bit(i), zero])
        J.add("e", "key=zero,block=single-bit", f="e", a=[zero, bit(i)])
    for i in range(0, 128, 8 * step):
        J.add("e", "key=single-bit,block=ones", f="e", a=[bit(i), ones])
        J.add("e", "key=ones,block=single-bit", f="e", a=[ones, bit(i)])
    for _ in range(n(200, 20000)):
        J.add("e", "random", f="e", a=[J.rnd(16), J.rnd(16)])
    # ---- cmac
    rfck = "2b7e151628aed2a6abf7158809cf4f3c"
    rkeys = [J.rnd(16) for _ in range(3 if q else 10)]
    top = 70 if q else 300
    for ki, k in enumerate([zero, rfck, rkeys[0]] + ([] if q else rkeys[3:6])):
        for ln in range(0, top + 1, 1 if s >= 1 else 7):
            J.add("cmac", f"len%16={ln % 16},blocks={ln // 16}", f="cmac", k=k, gen=[ki * 100000 + ln, ln])
    edges = [0, 1, 15, 16, 17, 31, 32, 33, 47, 48, 49, 63, 64, 65, 127, 128, 129]
    for ki, k in enumerate([ones] + rkeys[1:3] + ([] if q else rkeys[6:])):
        for ln in edges:
            J.add("cmac", f"len%16={ln % 16},blocks={ln // 16}", f="cmac", k=k, gen=[7000000 + ki * 1000 + ln, ln])
    longs = [16383, 16384, 16385, 16400, 16368] + ([] if q else [16000, 16001, 32767, 32768, 65535, 65536, 65537, 100000])
    for ki, k in enumerate([rfck, rkeys[0]] + ([] if q else [zero, ones])):
        for ln in longs if s >= 1 else longs[:2]:
            J.add("cmac", f"long,len%16={ln % 16}", f="cmac", k=k, gen=[9000000 + ki * 1000000 + ln, ln])
    # keys at the branch points of the sub-key derivation (top bit of L / of K1), complete and incomplete last blocks
    import random as _random

    sub_keys = cmac_subkey_classes(_random.Random(f"c14/subkeys/{ctx.seed}"), (0x00, 0x3F, 0x40, 0x7F, 0x80, 0x81, 0xBF, 0xC0, 0xFF))
    for ki, (name, k) in enumerate(sorted(sub_keys.items())):
        for ln in ((0, 1, 15, 16, 17, 32) if s >= 1 else (0, 16)):
            J.add("cmac", f"subkey {name},len%16={ln % 16}", f="cmac", k=k, gen=[11000000 + ki * 1000 + ln, ln])
        if s >= 1:
            # the toolbox functions keyed by such a value (f4: X, h6: W, h7: SALT are CMAC keys)
            J.add("smp", f"cmac-key {name}", f="f4", a=[J.rnd(32), J.rnd(32), k, J.rnd(1)])
            J.add("smp", f"cmac-key {name}", f="h6", a=[k, "6c656272"])
            J.add("smp", f"cmac-key {name}", f="h7", a=[k, J.rnd(16)])
    for ln in (0, 15, 16, 32, 40):
        J.add("cmac", "message=zero", f="cmac", k=zero, m="00" * ln)
        J.add("cmac", "message=ones", f="cmac", k=ones, m="ff" * ln)
    # ---- SMP toolbox functions
    for f, shape in SHAPES.items():
        J.add("smp", "all-zero", f=f, a=["00" * w for w in shape])
        J.add("smp", "all-one", f=f, a=["ff" * w for w in shape])
        for _ in range(n(16, 1000)):
            a = [J.rnd(w) for w in shape]
            if f == "c1":
                a[4], a[5] = f"{J.rng.randrange(2):02x}", f"{J.rng.randrange(2):02x}"
            J.add("smp", "random", f=f, a=a)
    # ---- public keys and ECDH, both directions
    ka = int("3f49f6d4a3c55f3874c9b3e3d2103f504aff607beb40b7995899b8a6cd3c1abd", 16)
    kb = int("55188b3d32f6bb9a900afcfbeed4e72a59cb9ac2f19d7cfb6b4fdd49f47fc5fd", 16)
    boundary = [("1", 1), ("2", 2), ("3", 3), ("n-1", N - 1), ("n-2", N - 2), ("n-3", N - 3), ("2^255", 1 << 255), ("2^255-1", (1 << 255) - 1),
                ("(n-1)/2", (N - 1) // 2), ("(n+1)/2", (N + 1) // 2), ("2^128", 1 << 128), ("2^32-1", (1 << 32) - 1), ("debug-key", ka), ("sample-B", kb)]
    if s < 1:
        boundary = boundary[:5]
    for name, d in boundary:
        J.add("dh", f"scalar={name},peer=random", f="dhpair", a=[h32(d), h32(J.scalar())])
    for (na, da), (nb, db) in ((("1", 1), ("n-1", N - 1)), (("2", 2), ("n-2", N - 2)), (("debug-key", ka), ("sample-B", kb)), (("1", 1), ("2", 2)), (("n-1", N - 1), ("n-2", N - 2))):
        J.add("dh", f"scalar={na},peer={nb}", f="dhpair", a=[h32(da), h32(db)])
    for _ in range(n(24, 5000)):
        J.add("dh", "scalar=random,peer=random", f="dhpair", a=[h32(J.scalar()), h32(J.scalar())])
    scalars = [("1", 1), ("2", 2), ("n-1", N - 1), ("n-2", N - 2)]
    # ---- valid peer points that are not somebody's freshly derived key
    small = [(x, lift_x(x)) for x in range(0, 40)]
    small = [(x, y) for x, y in small if y is not None][: 3 if q else 12]
    valid_pts = [("G", GX, GY), ("-G", GX, P - GY)] + [(f"x={x}", x, y) for x, y in small] + [(f"x={x},-y", x, P - y) for x, y in small[:2]]
    for name, x, y in valid_pts if s >= 1 else valid_pts[:2]:
        assert on_curve(x, y)
        for sn, d in scalars + [("random", J.scalar())]:
            J.add("dhpt", f"on-curve {name},scalar={sn}", f="dh", a=[h32(d), xy(x, y)])
    # ---- invalid peer points
    pax = int("20b003d2f297be2c5e2c83a7e9f9a5b9eff49111acf4fddbcc0301480e359de6", 16)
    pay = int("dc809c49652aeb6d63329abf5a52155c766345c28fed3024741c8ed01589d28b", 16)
    top256 = (1 << 256) - 1
    invalid = [("y+1", GX, GY + 1), ("y+1", pax, pay + 1), ("y-1", GX, GY - 1), ("x+1", GX + 1, GY), ("x-1", pax - 1, pay), ("x=0", 0, GY), ("y=0", GX, 0),
               ("(0,0)", 0, 0), ("(5,7)", 5, 7), ("(1,1)", 1, 1), ("(1,2)", 1, 2), ("swapped", GY, GX), ("x>=p", P, GY), ("x>=p", P + 1, GY),
               ("x>=p", top256, GY), ("y>=p", GX, P), ("y>=p", GX, top256), ("(p,p)", P, P), ("y flipped bit", GX, GY ^ (1 << 200)), ("x flipped bit", GX ^ 1, GY)]
    for _ in range(n(6, 1000)):
        invalid.append(("random pair", J.rng.getrandbits(256), J.rng.getrandbits(256)))
    for x, _y in small[:2]:
        invalid.append((f"x={x},y+1", x, lift_x(x) + 1))
    if s < 1:
        invalid = invalid[:2] + invalid[8:10] + invalid[12:13]
    for name, x, y in invalid:
        if on_curve(x, y) or on_curve(x % P, y % P):
            continue  # a pair that reduces to a curve point is left free (the library accepts it)
        for sn, d in scalars[: 3 if q else 4] + [("random", J.scalar())]:
            J.add("dhbad", f"off-curve {name},scalar={sn}", f="dh", a=[h32(d), xy(x, y)])
    # ---- one key object, several peer points in a row (what smp.Manager does with its long-lived key): a valid point,
    #      then points with the same x that are not on the curve, then the valid one again
    seq_pts = [("G", GX, GY), ("sample-A", pax, pay)] + [(f"x={x}", x, y) for x, y in small[:2]]
    for name, x, y in seq_pts if s >= 1 else seq_pts[:1]:
        for sn, d in scalars[:2] + [("random", J.scalar())]:
            pts = [xy(x, y), xy(x, (y + 1) % P), xy(x, y ^ (1 << 100)), xy(x, P - y), xy((x + 1) % P, y), xy(x, y)]
            J.add("dhseq", f"same key object: {name} then same x off the curve,scalar={sn}", f="dhseq", a=[h32(d), pts])
    # ---- resolvable private addresses
    irks = [("zero", zero), ("ones", ones)] + [("single-bit", bit(i)) for i in (0, 7, 64, 127)]
    for i in range(n(240, 10000)):
        name, irk = irks[i] if i < len(irks) else ("random", J.rnd(16))
        rand = J.rnd(6) if i % 9 else ("000000000000" if i % 2 else "ffffffffffff")
        flipped = f"{int(irk, 16) ^ (1 << J.rng.randrange(128)):032x}"
        J.add("rpa", f"irk={name}", f="rpa", irk=irk, rand=rand, idtype=i % 2, others=[J.rnd(16), flipped])
    # ---- one AddressResolver, several addresses in a row: an address of the known peer, then addresses generated from
    #      unrelated keys with the SAME prand (equal low halves, different hashes), then the first one again
    for i in range(n(12, 400)):
        irk = J.rnd(16) if i > 1 else (zero, ones)[i]
        J.add("rpaseq", "same resolver, same prand, other keys", f="rpaseq", irk=irk, rand=J.rnd(6), others=[J.rnd(16), J.rnd(16)])
    # ---- the resolver built from a key store whose bonds do not all carry an IRK, in every position
    for i in range(n(8, 200)):
        a, b, c = J.rnd(16), J.rnd(16), J.rnd(16)
        bonds = [[None, a, b], [a, None, b], [a, b, None], [None, None, a, b], [a, None, None, b, c], [None, a, None, b]][i % 6]
        J.add("rpastore", "resolver from a key store with IRK-less bonds", f="rpastore", bonds=bonds, rand=J.rnd(6))
    # ---- diagnostic: the fallback's private point addition (not a verdict)
    for d1, d2 in ((1, 1), (2, 2), (5, N - 5), (3, 4), (N - 1, N - 1), (N - 1, 1)):
        J.add("diag", "padd", f="padd", a=[h32(d1), h32(d2), h32((d1 + d2) % N)])
    return J.jobs


# ----------------------------------------------------------------------------- running the back ends
def wire(job):
    return {k: v for k, v in job.items() if k not in ("fam", "cls")}


def run_builtin(jobs, shards=8):
    """The fallback back end, in sub-processes where `cryptography` cannot be imported."""
    repo = os.environ.get("VERIF_REPO", "/repo")
    env = dict(os.environ, VERIF_REPO=repo, PYTHONHASHSEED="0", PYTHONDONTWRITEBYTECODE="1")
    parts = [[wire(j) for j in jobs[i::shards]] for i in range(shards)]
    parts = [p for p in parts if p]

    def one(part):
        r = subprocess.run([sys.executable, "-B", WORKER], input=json.dumps({"jobs": part, "block": True}), capture_output=True, text=True, env=env, timeout=3600)
        if r.returncode != 0:
            raise RuntimeError(f"C14 fallback worker failed (rc={r.returncode}):\n{r.stderr[-3000:]}")
        return json.loads(r.stdout)

    with cf.ThreadPoolExecutor(max_workers=len(parts)) as ex:
        outs = list(ex.map(one, parts))
    events = []
    for o in outs:
        if o["backend"] != "builtin" or not o["cryptography_blocked"]:
            raise RuntimeError(f"the fallback import path did not select bumble.crypto.builtin: {o['backend']}, blocked={o['cryptography_blocked']}")
        if not os.path.abspath(o["bumble"]).startswith(os.path.abspath(repo) + os.sep):
            raise RuntimeError(f"worker imported bumble from {o['bumble']}")
        events += o["events"]
    return events, {"backend": "builtin", "bumble": outs[0]["bumble"], "processes": len(parts)}


def run_library(jobs):
    be = c14_worker.backend_name()
    if be != "cryptography":
        raise RuntimeError(f"in-process bumble.crypto uses back end {be!r}; the `cryptography` package is required for C14")
    return c14_worker.run_jobs([wire(j) for j in jobs], be), {"backend": be}


# ----------------------------------------------------------------------------- traces and verdicts
KEEP = ("e", "b", "f", "args", "r", "valid")
CHUNK = {"vectors": 1000, "e": 24, "cmac": 24, "smp": 24, "dh": 6, "dhpt": 24, "dhbad": 24, "rpa": 6, "dhseq": 6, "rpaseq": 6, "rpastore": 6}
PRIORITY = ["InvalidPoint", "Vectors", "Total", "RPA", "DHSymmetry", "Deterministic", "Agreement"]
BLAMES_BACKEND = {"InvalidPoint", "Vectors", "Total", "RPA", "DHSymmetry", "Deterministic"}


def group(events):
    by = {}
    for ev in events:
        by.setdefault(ev["id"], []).append(ev)
    return by


def classify(ev, stats):
    """Driver-side input classification: `valid` of a dh call = the peer point is on the curve."""
    if ev["f"] == "dh":
        ev["valid"] = on_curve(*point_of(ev["args"][1]))
    return ev


def build_traces(jobs, ev_a, ev_b, stats):
    """One trace per chunk of jobs of one family: per job the library's events, then the fallback's."""
    a, b = group(ev_a), group(ev_b)
    fams = {}
    for j in jobs:
        if j["fam"] != "diag":
            fams.setdefault(j["fam"], []).append(j)
    traces = []  # list of (family, [(job, event)])
    for fam, js in fams.items():
        size = CHUNK[fam]
        for i in range(0, len(js), size):
            tr = []
            for j in js[i : i + size]:
                evs = [classify(e, stats) for e in a.get(j["id"], []) + b.get(j["id"], [])]
                if j["f"] in ("rpa", "rpaseq"):
                    evs = drop_collisions(j, evs, stats)
                tr += [(j, e) for e in evs]
            if fam == "vectors":
                tr.append((None, {"e": "covered", "b": "", "f": "", "args": [], "r": "", "valid": True}))
            traces.append((fam, tr))
    return traces


def drop_collisions(job, evs, stats):
    """An 'unrelated' IRK whose ah() genuinely equals the hash (2^-24) is not unrelated: drop that pair."""
    out = []
    for e in evs:
        if e["f"] == "resolve" and e["args"][0] != job["irk"]:
            addr = e["args"][1]
            if len(addr) == 12 and reference_ah(e["args"][0], addr[:6]) == addr[6:]:
                stats["rpa_hash_collisions"] = stats.get("rpa_hash_collisions", 0) + 1
                continue
        out.append(e)
    return out


def validate(ctx, traces, pool, batches):
    """TLC (LawsTrace.tla) on all traces; returns findings [(law, all broken laws, job, event, trace)] and TLC totals."""
    spec, cfg = ctx.spec("Crypto", "LawsTrace.tla"), ctx.spec("Crypto", "LawsTrace.cfg")
    idx = list(range(len(traces)))
    parts = [idx[i::batches] for i in range(batches)]
    parts = [p for p in parts if p]
    futs = [pool.submit(c14_tlc.validate, spec, cfg, [[{k: e[k] for k in KEEP} for _, e in traces[t][1]] for t in part]) for part in parts]
    findings, states, transitions = [], 0, 0
    for part, fut in zip(parts, futs):
        res = fut.result()
        states += res["states"]
        transitions += res["transitions"]
        for tid, rejects in res["rejects"].items():
            fam, tr = traces[part[tid - 1]]
            others = [r for r in rejects if r[2] != ["Covered"]]
            for l, info, broken in rejects:
                job, ev = tr[l - 1]
                if broken == ["Covered"]:
                    if not others:  # nothing else was refused in this trace: the driver forgot a vector
                        raise tlc.TlcError(f"harness: the vectors trace does not exercise every vector of the spec on every back end ({info})")
                    continue
                if info["f"] != ev["f"] or info["b"] != ev["b"]:
                    raise tlc.TlcError(f"harness: TLC rejected event {l} {info} but the driver has {ev['b']} {ev['f']} there")
                law = next(p for p in PRIORITY if p in broken)
                findings.append((law, broken, job, ev, tr))
    return findings, states, transitions


def short(s, n=40):
    return s if len(s) <= n else s[: n - 14] + ".." + s[-12:]


def describe(law, broken, job, ev, tr, vectors):
    args = ", ".join(short(a) for a in ev["args"])
    got = f"returned {short(ev['r'], 72)}" if ev["e"] == "call" else f"raised {ev.get('exc', '')}"
    txt = f"{ev['b']} {ev['f']}({args}) {got}"
    sib = [e for j, e in tr if e is not ev and e["f"] == ev["f"] and e["args"] == ev["args"] and e["b"] != ev["b"]]
    if sib:
        o = sib[0]
        txt += f"; {o['b']} " + (f"returned {short(o['r'], 72)}" if o["e"] == "call" else f"raised {o.get('exc', '')}")
    if law == "Vectors":
        want = [v["r"] for v in vectors if v["f"] == ev["f"] and list(v["args"]) == list(ev["args"])]
        txt += f"; the specification's sample data says {short(want[0], 72) if want else '?'}"
    if law == "InvalidPoint":
        txt += "; the peer point is not on P-256 (curve equation evaluated by the driver) and must be refused"
    if law == "Total":
        txt += "; the input is valid and must be answered"
    if law == "DHSymmetry":
        txt += "; the opposite computation dh(other scalar, own public key) gave a different key"
    if law == "RPA":
        own = job is not None and ev["args"][0] == job.get("irk")
        txt += "; the address was generated from " + ("this IRK and must resolve" if own else "another IRK and must not resolve")
    cls = f" [input class: {job['cls']}]" if job else ""
    return f"[{law}; all broken laws: {', '.join(broken)}]{cls} {txt}"


def signature(law, ev):
    return f"crypto:{ev['f']}:{law}" + (f":{ev['b']}" if law in BLAMES_BACKEND else "")


def report(rep, findings, vectors):
    for law, broken, job, ev, tr in findings:
        events = [dict(e) for j, e in tr if j is job]
        rep.violation(signature(law, ev), describe(law, broken, job, ev, tr, vectors),
                      {"job": job, "law": law, "broken": broken, "backend": ev["b"], "events": events})


# ----------------------------------------------------------------------------- (M) the laws, model-checked
ALL_FUNCS = ["e", "ah", "pub", "dh", "rpa", "resolve"]
INVS = ["AgreementInv", "DeterministicInv", "VectorsInv", "TotalInv", "InvalidPointInv", "DHSymmetryInv", "RPAInv"]
FAULTS = [  # fault, back ends, functions, MaxCalls, the invariant that must catch it
    ("sbox", BACKENDS, ["e"], 2, "AgreementInv"),
    ("flaky", ("builtin",), ["e"], 2, "DeterministicInv"),
    ("ahpad", BACKENDS, ["ah"], 2, "VectorsInv"),
    ("double", ("builtin",), ["pub"], 1, "VectorsInv"),
    ("nocheck", ("builtin",), ["dh"], 1, "InvalidPointInv"),
    ("overreject", ("builtin",), ["dh"], 1, "TotalInv"),
    ("asym", ("builtin",), ["pub", "dh"], 4, "DHSymmetryInv"),
    ("resolveall", BACKENDS, ["rpa", "resolve"], 2, "RPAInv"),
]


def _cfg(ctx, name, backends, funcs, maxcalls, fault):
    q = lambda xs: "{" + ", ".join(f'"{x}"' for x in xs) + "}"  # noqa: E731
    p = os.path.join(ctx.out, name)
    with open(f"{p}.{os.getpid()}", "w") as f:  # written atomically: concurrent checks share ctx.out
        f.write(f"SPECIFICATION Spec\nCONSTANTS\n  Backends = {q(backends)}\n  Vectors <- AbsVectors\n  Funcs = {q(funcs)}\n  MaxCalls = {maxcalls}\n"
                f'  Fault = "{fault}"\n  Bad = "builtin"\n' + "".join(f"INVARIANT {i}\n" for i in INVS) + "CHECK_DEADLOCK FALSE\n")
    os.replace(f"{p}.{os.getpid()}", p)
    return p


def law_model_checks(ctx, rep, pool):
    """Submit the TLC runs; returns a closure that collects them (they run beside the crypto work)."""
    spec = ctx.spec("Crypto", "Laws.tla")
    # the laws only relate entries of one family ({e}, {ah}, {pub, dh}, {rpa, resolve}): histories of 3 calls over
    # everything, histories of 4 calls per family (DHSymmetry needs 4)
    sound = [("all", BACKENDS, ALL_FUNCS, 3, 4),
             ("dh4", ("builtin",) if ctx.quick else BACKENDS, ["pub", "dh"], 4, 2 if ctx.quick else 4)]
    if not ctx.quick:
        sound.append(("sym4", BACKENDS, ["e", "ah", "rpa", "resolve"], 4, 4))
    fs = []
    for name, be, funcs, mx, workers in sound:
        cfg = _cfg(ctx, f"laws_{name}.cfg", be, funcs, mx, "none")
        fs.append((name, be, funcs, mx, "none", None, pool.submit(tlc.mc, spec, cfg, workers)))
    for fault, be, funcs, mx, inv in FAULTS:
        cfg = _cfg(ctx, f"laws_fault_{fault}.cfg", be, funcs, mx, fault)
        fs.append((fault, be, funcs, mx, fault, inv, pool.submit(tlc.mc, spec, cfg, 1, False)))

    def collect():
        caught = {}
        for name, be, funcs, mx, fault, inv, fut in fs:
            res = fut.result()
            consts = {"Backends": list(be), "Funcs": funcs, "MaxCalls": mx, "Fault": fault}
            if fault == "none":
                if res["violation"]:
                    raise tlc.TlcError(f"Laws.tla ({name}) violates {res['violation']} in the fault-free abstract world (spec bug)")
                tlc.require_actions(res, ["AbsCall"] + (["AbsReject"] if "dh" in funcs else []), f"Laws {name}")  # only dh can refuse
                rep.add_mc("Crypto/Laws.tla", res, consts)
            else:
                if res["violation"] != "invariant " + inv:
                    raise tlc.TlcError(f"Laws.tla: injected fault {fault!r} should violate {inv}, TLC says {res['violation']!r}")
                caught[fault] = inv
        rep.extra["abstract_faults_caught_by"] = caught
        return caught

    return collect


# ----------------------------------------------------------------------------- diagnostics (never a verdict)
def internal_group_law(jobs, ev_a, ev_b):
    """builtin._JacobianPoint.__add__ on P+P / P+(-P) / P+Q against pub(a+b) of the library.  The doubling
    branch of __add__ is unreachable through EccKey for every 256-bit scalar, so this is outside the
    property; it is reported as a note only and silently skipped when the private names change."""
    a, b = group(ev_a), group(ev_b)
    from bumble import crypto

    out = {"checked": 0, "mismatch": []}
    for j in jobs:
        if j["f"] != "padd":
            continue
        got = [e for e in b.get(j["id"], []) if e["e"] == "diag"]
        if not got:
            continue
        d3 = j["a"][2]
        if int(d3, 16) == 0:
            want = "inf"
        else:
            k = crypto.EccKey.from_private_key_bytes(bytes.fromhex(d3))
            want = bytes(k.x).hex() + bytes(k.y).hex()
        out["checked"] += 1
        if got[0]["r"] != want:
            out["mismatch"].append({"d1": j["a"][0][-8:], "d2": j["a"][1][-8:], "got": got[0]["r"][:16], "want": want[:16]})
    return out


# ----------------------------------------------------------------------------- entry points
RULE = ("every call of e / aes_cmac / ah / c1 / s1 / f4 / f5 / f6 / g2 / h6 / h7 / public-key derivation / ECDH / RPA generation / RPA resolution "
        "on a seeded catalogue of boundary inputs (all-zero, all-one, single-bit keys and blocks; CMAC lengths 0..70 (thorough 0..300) and around "
        "16k; scalars 1, 2, 3, n-1, n-2, n-3, 2^255, (n+-1)/2 and random; on-curve points incl. x=0 and -G; off-curve points y+-1, x+-1, x=0, y=0, "
        "(0,0), (5,7), swapped, coordinates >= p, random pairs; IRK/prand pairs) is made on BOTH back ends and logged; LawsTrace.tla accepts an "
        "event only if Agreement, Deterministic, Vectors, Total, InvalidPoint, DHSymmetry and RPA hold of the history extended by it; "
        "distinct = distinct (function, input class, arguments)")
ASSUMPTIONS = [
    "validity of a peer point (curve equation, coordinates < p) is computed by the driver with Python integers, not by TLC",
    "coordinate pairs >= p that reduce to a curve point are left free (the library reduces them, a validating implementation may refuse them)",
    "an 'unrelated' IRK whose 24-bit hash genuinely collides (decided with one independent AES call) is dropped, not judged",
    "a defect present identically in `cryptography` and in the fallback, outside the pinned sample data, is not visible (DESIGN section 9)",
    "private scalars outside [1, n-1] are outside the property and are not exercised",
]


def run_catalogue(ctx, rep, pool, vectors, jobs, ev_a=None, ev_b=None, batches=6, count=True):
    stats = {}
    if ev_b is None:
        fb = pool.submit(run_builtin, jobs)
        ev_a, info_a = run_library(jobs)
        ev_b, info_b = fb.result()
        rep.extra["backends"] = {"in_process": info_a, "subprocess": info_b}
    traces = build_traces(jobs, ev_a, ev_b, stats)
    findings, states, transitions = validate(ctx, traces, pool, batches)
    if count:
        by_id = {j["id"]: j for j in jobs}
        for ev in ev_a + ev_b:
            j = by_id[ev["id"]]
            if j["fam"] == "diag":
                continue
            rep.case((ev["b"], ev["f"], j["cls"], hashlib.sha1(repr(ev["args"]).encode()).hexdigest()),
                     nontrivial=True, sample={"backend": ev["b"], "f": ev["f"], "class": j["cls"], "args": [short(a) for a in ev["args"]], "outcome": ev["e"], "result": short(ev["r"], 72)})
        rep.traces += len(traces)
        rep.extra["trace_states"] = states
        rep.extra["events"] = sum(len(t) for _, t in traces)
        fam = {}
        for f_, t in traces:
            fam[f_] = fam.get(f_, 0) + len(t)
        rep.extra["events_per_family"] = fam
        rep.extra.update(stats)
    return findings, ev_a, ev_b


def run(ctx, rep):
    rep.rule = RULE
    rep.assumptions = ASSUMPTIONS
    rep.exhaustive = False
    vectors = c14_tlc.dump_vectors(ctx.spec("Crypto", "LawsTrace.tla"), ctx.out)
    rep.extra["spec_vectors"] = len(vectors)
    with cf.ThreadPoolExecutor(max_workers=12) as pool:
        collect = law_model_checks(ctx, rep, pool)
        jobs = make_jobs(ctx, vectors)
        findings, ev_a, ev_b = run_catalogue(ctx, rep, pool, vectors, jobs, batches=4 if ctx.quick else 12)
        collect()
    report(rep, findings, vectors)
    diag = internal_group_law(jobs, ev_a, ev_b)
    rep.extra["diagnostic_internal_point_addition"] = diag
    if diag["mismatch"]:
        print(f"NOTE (not a verdict): builtin private point addition disagrees with pub(a+b): {diag['mismatch'][:3]}")


def replay(ctx, rep):
    r = ctx.replay["replay"]
    job = r["job"]
    vectors = c14_tlc.dump_vectors(ctx.spec("Crypto", "LawsTrace.tla"), ctx.out)
    print("job:", json.dumps(job))
    with cf.ThreadPoolExecutor(max_workers=4) as pool:
        jobs = [dict(job, id=0)]
        ev_b, _ = run_builtin(jobs, shards=1)
        ev_a, _ = run_library(jobs)
        for ev in ev_a + ev_b:
            print(f"  {ev['b']:13s} {ev['f']}({', '.join(short(a) for a in ev['args'])}) -> " + (ev["r"] if ev["e"] == "call" else "raised " + ev["exc"]))
        if job["fam"] == "vectors":  # a lone vector call: the 'covered' obligation does not apply
            jobs[0]["fam"] = "e"
        findings, _, _ = run_catalogue(ctx, rep, pool, vectors, jobs, ev_a, ev_b, batches=1, count=False)
    for law, broken, j, ev, tr in findings:
        print("  TLC:", describe(law, broken, j, ev, tr, vectors))
    if not findings:
        print("  TLC accepts the trace of this job: not reproduced")
    report(rep, findings, vectors)


# ----------------------------------------------------------------------------- binding self-test
def selftest(ctx, rep):
    """Shims around the REAL toolbox that misbehave in a documented way must be flagged by the same
    pipeline (worker -> trace -> LawsTrace.tla); so must a corrupted recorded trace; and every fault
    injected into the abstract world must violate the law meant for it."""
    from unittest import mock

    from bumble import crypto, smp

    vectors = c14_tlc.dump_vectors(ctx.spec("Crypto", "LawsTrace.tla"), ctx.out)
    ctx.tier = "quick"
    jobs = make_jobs(ctx, vectors, scale=0.15)
    wired = [wire(j) for j in jobs]
    real_e, real_cmac, RealKey, real_resolve, real_ah = crypto.e, crypto.aes_cmac, crypto.EccKey, smp.AddressResolver.resolve, crypto.ah

    def sbox_e(key, data):
        out = real_e(key, data)
        return out[:-1] + bytes([out[-1] ^ 1]) if (key[0] ^ data[0]) & 7 == 3 else out

    def pad_cmac(m, k):
        return real_cmac(m + b"\x00" if len(m) % 16 == 5 else m, k)

    class NoCheckKey(RealKey):
        @classmethod
        def from_private_key_bytes(cls, d):
            return cls(RealKey.from_private_key_bytes(d).private_key)

        def dh(self, x, y):
            try:
                return super().dh(x, y)
            except ValueError:
                return hashlib.sha256(x + y).digest()

    class AsymKey(RealKey):
        @classmethod
        def from_private_key_bytes(cls, d):
            k = cls(RealKey.from_private_key_bytes(d).private_key)
            k.odd = d[-1] & 1
            return k

        def dh(self, x, y):
            s = super().dh(x, y)
            return s[:-1] + bytes([s[-1] ^ 0x80]) if self.odd else s

    def ah12(k, r):
        return real_e(k, r + bytes(12) + b"\x01")[0:3]

    def resolve_all(self, address):
        from bumble import hci

        _irk, resolved = self.resolving_keys[0]
        public = resolved.address_type == hci.Address.PUBLIC_DEVICE_ADDRESS
        return hci.Address(address=str(resolved), address_type=hci.Address.PUBLIC_IDENTITY_ADDRESS if public else hci.Address.RANDOM_IDENTITY_ADDRESS)

    shims = {  # name: (patches, also used as the 'library' side?, law expected among the findings)
        "sbox_bit": ([(crypto, "e", sbox_e)], False, "Agreement"),
        "cmac_padding": ([(crypto, "aes_cmac", pad_cmac)], False, "Agreement"),
        "ecdh_no_point_check": ([(crypto, "EccKey", NoCheckKey)], False, "InvalidPoint"),
        "ecdh_asymmetric_both": ([(crypto, "EccKey", AsymKey)], True, "DHSymmetry"),
        "ah_padding_both": ([(crypto, "ah", ah12)], True, "Vectors"),
        "resolver_accepts_all_both": ([(smp.AddressResolver, "resolve", resolve_all)], True, "RPA"),
    }
    import contextlib

    results = {}
    with cf.ThreadPoolExecutor(max_workers=12) as pool, cf.ThreadPoolExecutor(max_workers=10) as outer:
        collect = law_model_checks(ctx, rep, pool)
        good = c14_worker.run_jobs(wired, "cryptography")
        as_builtin = [dict(e, b="builtin") for e in good]

        def judge(side_a, side_b):  # the normal pipeline (traces -> LawsTrace.tla), one JVM
            return run_catalogue(ctx, rep, pool, vectors, jobs, side_a, side_b, batches=1, count=False)[0]

        pending = {"unshimmed_clean": (outer.submit(judge, good, as_builtin), None)}
        for name, (patches, both, law) in shims.items():
            with contextlib.ExitStack() as st:
                for obj, attr, val in patches:
                    st.enter_context(mock.patch.object(obj, attr, val))
                bad = c14_worker.run_jobs(wired, "builtin")
            side_a = [dict(e, b="cryptography") for e in bad] if both else good
            pending[name] = (outer.submit(judge, side_a, bad), law)
        # a corrupted recorded trace: one hex digit of one result changed / one reject turned into a result
        for name, pick, change in (("trace_result_digit", lambda e: e["f"] == "f5" and e["e"] == "call", lambda e: e.update(r=e["r"][:-1] + ("0" if e["r"][-1] != "0" else "1"))),
                                   ("trace_reject_to_result", lambda e: e["f"] == "dh" and e["e"] == "reject", lambda e: e.update(e="call", r="11" * 32))):
            bad = [dict(e) for e in as_builtin]
            change(next(e for e in bad if pick(e)))
            pending[name] = (outer.submit(judge, good, bad), "")
        for name, (fut, law) in pending.items():
            fnd = fut.result()
            if law is None:
                results[name] = 0 if fnd else 1  # the same events under both names: nothing may be flagged
            else:
                results[name] = sum(1 for f in fnd if not law or law in f[1])
        results["abstract_faults"] = len(collect())
    print("selftest:", results)
    for k, v in results.items():
        if v == 0:
            rep.violation(f"selftest:{k}", f"binding self-test: {k} was not detected")
